package verifkit

import (
	"context"
	"sync"
	"sync/atomic"
)

// Clock is a virtual block counter. It structurally implements keep-core's
// chain.BlockCounter (WaitForBlockHeight, BlockHeightWaiter, CurrentBlock,
// WatchBlocks). The height moves only through Advance/Set, so a protocol run
// costs no wall-clock time and every wait is observable.
type Clock struct {
	mu       sync.Mutex
	h        uint64
	waiters  map[uint64][]chan uint64
	watchers []*watcher
	// WaitLog records every block a waiter was registered for, in order.
	waitLog []WaitRecord
	pending int64
	// Owner is an optional label copied into WaitRecords (per-member views).
}

type watcher struct {
	ctx context.Context
	ch  chan uint64
}

// WaitRecord is one waiter registration.
type WaitRecord struct {
	Owner   string
	Block   uint64
	AtBlock uint64
}

// NewClock returns a clock at the given height.
func NewClock(height uint64) *Clock {
	return &Clock{h: height, waiters: map[uint64][]chan uint64{}}
}

// View is a per-participant handle on a shared clock: same height, waits
// attributed to the owner, and a per-owner count of parked waiters (used for
// quiescence detection).
type View struct {
	C       *Clock
	Owner   string
	parked  int64
	ErrNext atomic.Value // optional error injection for CurrentBlock: func() error
}

// View creates a participant view.
func (c *Clock) View(owner string) *View { return &View{C: c, Owner: owner} }

func (c *Clock) waiter(owner string, v *View, b uint64) <-chan uint64 {
	ch := make(chan uint64, 1)
	c.mu.Lock()
	c.waitLog = append(c.waitLog, WaitRecord{owner, b, c.h})
	if b <= c.h {
		cur := c.h
		c.mu.Unlock()
		ch <- cur
		return ch
	}
	atomic.AddInt64(&c.pending, 1)
	if v != nil {
		atomic.AddInt64(&v.parked, 1)
		inner := ch
		out := make(chan uint64, 1)
		go func() {
			x := <-inner
			atomic.AddInt64(&v.parked, -1)
			out <- x
		}()
		c.waiters[b] = append(c.waiters[b], inner)
		c.mu.Unlock()
		return out
	}
	c.waiters[b] = append(c.waiters[b], ch)
	c.mu.Unlock()
	return ch
}

// Height returns the current height.
func (c *Clock) Height() uint64 { c.mu.Lock(); defer c.mu.Unlock(); return c.h }

// Pending returns the number of waiters parked for a future block.
func (c *Clock) Pending() int64 { return atomic.LoadInt64(&c.pending) }

// WaitLog returns a copy of the waiter registrations so far.
func (c *Clock) WaitLog() []WaitRecord {
	c.mu.Lock()
	defer c.mu.Unlock()
	return append([]WaitRecord(nil), c.waitLog...)
}

// NextWaited returns the lowest future block some waiter is parked on.
func (c *Clock) NextWaited() (uint64, bool) {
	c.mu.Lock()
	defer c.mu.Unlock()
	var best uint64
	ok := false
	for b, ws := range c.waiters {
		if len(ws) == 0 {
			continue
		}
		if !ok || b < best {
			best, ok = b, true
		}
	}
	return best, ok
}

// Set moves the height to h (h >= current) releasing every waiter whose
// block is <= h, lowest first, and notifying watchers of each new block when
// stepwise is true (otherwise only of h).
func (c *Clock) Set(h uint64, stepwise bool) {
	for {
		c.mu.Lock()
		if c.h >= h {
			c.mu.Unlock()
			return
		}
		if stepwise {
			c.h++
		} else {
			c.h = h
		}
		cur := c.h
		var rel []chan uint64
		for b, ws := range c.waiters {
			if b <= cur {
				rel = append(rel, ws...)
				delete(c.waiters, b)
			}
		}
		ws := append([]*watcher(nil), c.watchers...)
		c.mu.Unlock()
		for _, ch := range rel {
			atomic.AddInt64(&c.pending, -1)
			ch <- cur
		}
		for _, w := range ws {
			select {
			case <-w.ctx.Done():
			case w.ch <- cur:
			}
		}
	}
}

// Advance moves the clock n blocks forward one block at a time.
func (c *Clock) Advance(n uint64) { c.Set(c.Height()+n, true) }

func (c *Clock) WaitForBlockHeight(b uint64) error { <-c.waiter("", nil, b); return nil }
func (c *Clock) BlockHeightWaiter(b uint64) (<-chan uint64, error) {
	return c.waiter("", nil, b), nil
}
func (c *Clock) CurrentBlock() (uint64, error) { return c.Height(), nil }
func (c *Clock) WatchBlocks(ctx context.Context) <-chan uint64 {
	w := &watcher{ctx, make(chan uint64)}
	c.mu.Lock()
	c.watchers = append(c.watchers, w)
	c.mu.Unlock()
	return w.ch
}

func (v *View) WaitForBlockHeight(b uint64) error { <-v.C.waiter(v.Owner, v, b); return nil }
func (v *View) BlockHeightWaiter(b uint64) (<-chan uint64, error) {
	return v.C.waiter(v.Owner, v, b), nil
}
func (v *View) CurrentBlock() (uint64, error) {
	if f, ok := v.ErrNext.Load().(func() error); ok && f != nil {
		if err := f(); err != nil {
			return 0, err
		}
	}
	return v.C.Height(), nil
}
func (v *View) WatchBlocks(ctx context.Context) <-chan uint64 { return v.C.WatchBlocks(ctx) }

// Parked returns how many of this view's waiters are parked on a future block.
func (v *View) Parked() int64 { return atomic.LoadInt64(&v.parked) }

// EventLog is a concurrent append-only log with a single atomic sequence.
type EventLog struct {
	seq int64
	mu  sync.Mutex
	ev  []Event
}

// Event is one logged observation.
type Event struct {
	Seq  int64       `json:"seq"`
	Who  string      `json:"who"`
	Kind string      `json:"kind"`
	Key  string      `json:"key,omitempty"`
	Val  interface{} `json:"val,omitempty"`
}

// Stamp returns the next sequence number without logging.
func (l *EventLog) Stamp() int64 { return atomic.AddInt64(&l.seq, 1) }

// Add appends an event and returns its sequence number.
func (l *EventLog) Add(who, kind, key string, val interface{}) int64 {
	s := atomic.AddInt64(&l.seq, 1)
	l.mu.Lock()
	l.ev = append(l.ev, Event{s, who, kind, key, val})
	l.mu.Unlock()
	return s
}

// Events returns a copy of the log sorted by sequence number.
func (l *EventLog) Events() []Event {
	l.mu.Lock()
	out := append([]Event(nil), l.ev...)
	l.mu.Unlock()
	// insertion may be slightly out of seq order under contention
	for i := 1; i < len(out); i++ {
		for j := i; j > 0 && out[j-1].Seq > out[j].Seq; j-- {
			out[j-1], out[j] = out[j], out[j-1]
		}
	}
	return out
}

// Len returns the number of events.
func (l *EventLog) Len() int { l.mu.Lock(); defer l.mu.Unlock(); return len(l.ev) }
