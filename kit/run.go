// Package verifkit is the shared runtime-monitoring kit used by the /verif
// monitors. It is injected into the keep-core build with `go test -overlay`
// (it does not exist in /repo) and depends on the standard library only, so
// that any package of keep-core can import it from an in-package test without
// creating an import cycle.
package verifkit

import (
	"crypto/sha256"
	"encoding/binary"
	"encoding/hex"
	"encoding/json"
	"fmt"
	"math/rand"
	"os"
	"path/filepath"
	"runtime"
	"runtime/debug"
	"sort"
	"strconv"
	"strings"
	"sync"
	"testing"
	"time"
)

// Finding is one observed violation (or inconclusive observation).
type Finding struct {
	Fingerprint string      `json:"fingerprint"`
	What        string      `json:"what"`
	Case        string      `json:"case,omitempty"`
	Witness     interface{} `json:"witness,omitempty"`
}

// Run accumulates what one monitor (one Go test) observed.
type Run struct {
	t        testing.TB
	Property string
	Part     string
	seed     int64
	tier     string
	replay   string
	start    time.Time

	mu           sync.Mutex
	evaluations  int64
	distinct     map[[8]byte]struct{}
	distinctAll  map[[8]byte]struct{}
	rule         string
	samples      []interface{}
	maxSamples   int
	counters     map[string]int64
	violations   []Finding
	violationsFP map[string]int
	inconclusive []string
	assumptions  []string
	exhaustive   *bool
	finished     bool
	armFile      string
}

func env(k, d string) string {
	if v := os.Getenv(k); v != "" {
		return v
	}
	return d
}

// Start begins a monitor run for a property. part names this monitor among
// the (possibly several) monitors of the property; it must be unique.
func Start(t testing.TB, property, part string) *Run {
	seed, err := strconv.ParseInt(env("VERIF_SEED", "1"), 10, 64)
	if err != nil {
		seed = 1
	}
	tier := env("VERIF_TIER", "quick")
	if tier != "thorough" {
		tier = "quick"
	}
	r := &Run{
		t: t, Property: property, Part: part, seed: seed, tier: tier,
		replay:       os.Getenv("VERIF_REPLAY_CASE"),
		start:        time.Now(),
		distinct:     map[[8]byte]struct{}{},
		distinctAll:  map[[8]byte]struct{}{},
		counters:     map[string]int64{},
		violationsFP: map[string]int{},
		maxSamples:   4,
	}
	if d := os.Getenv("VERIF_PARTDIR"); d != "" {
		r.armFile = filepath.Join(d, part+".armed")
	}
	return r
}

func (r *Run) Seed() int64    { return r.seed }
func (r *Run) Tier() string   { return r.tier }
func (r *Run) Quick() bool    { return r.tier != "thorough" }
func (r *Run) Replay() string { return r.replay }

// N returns the case count for the current tier.
func (r *Run) N(quick, thorough int) int {
	if r.Quick() {
		return quick
	}
	return thorough
}

// Rand returns a PRNG determined by (VERIF_SEED, property, part, stream).
func (r *Run) Rand(stream string) *rand.Rand {
	h := sha256.Sum256([]byte(fmt.Sprintf("%d|%s|%s|%s", r.seed, r.Property, r.Part, stream)))
	return rand.New(rand.NewSource(int64(binary.LittleEndian.Uint64(h[:8]))))
}

// SetRule states how cases are generated and what makes one non-trivial.
func (r *Run) SetRule(rule string) { r.mu.Lock(); r.rule = rule; r.mu.Unlock() }

// Assume records an assumption / trusted component.
func (r *Run) Assume(a string) { r.mu.Lock(); r.assumptions = append(r.assumptions, a); r.mu.Unlock() }

// SetExhaustive records that a finite space was enumerated completely.
func (r *Run) SetExhaustive(v bool) { r.mu.Lock(); r.exhaustive = &v; r.mu.Unlock() }

func hash8(s string) [8]byte {
	h := sha256.Sum256([]byte(s))
	var o [8]byte
	copy(o[:], h[:8])
	return o
}

// Case counts one executed case. desc is the case descriptor (distinctness
// is measured on its hash); nontrivial is whether the run *observed* the
// property's non-triviality condition for this case.
func (r *Run) Case(desc string, nontrivial bool) {
	h := hash8(desc)
	r.mu.Lock()
	r.evaluations++
	r.distinctAll[h] = struct{}{}
	if nontrivial {
		r.distinct[h] = struct{}{}
	}
	r.mu.Unlock()
}

// Sample keeps a few concrete cases for the evidence file.
func (r *Run) Sample(v interface{}) {
	r.mu.Lock()
	if len(r.samples) < r.maxSamples {
		r.samples = append(r.samples, v)
	}
	r.mu.Unlock()
}

// SampleEvery keeps the case when i is one of a few spread-out indices.
func (r *Run) SampleAt(i, total int, v func() interface{}) {
	if total <= 0 {
		return
	}
	step := total / r.maxSamples
	if step == 0 {
		step = 1
	}
	if i%step == 0 {
		r.Sample(v())
	}
}

// Count adds to a named counter reported in the evidence.
func (r *Run) Count(key string, n int64) {
	r.mu.Lock()
	r.counters[key] += n
	r.mu.Unlock()
}

// Counter reads a named counter.
func (r *Run) Counter(key string) int64 {
	r.mu.Lock()
	defer r.mu.Unlock()
	return r.counters[key]
}

// Violation records a violation. fingerprint names the failing class (input
// class, call site or history class) and is what known_findings.json matches
// on; caseDesc is the concrete case (for the replay file); witness is any
// JSON-serialisable detail. At most 5 findings per fingerprint are kept.
func (r *Run) Violation(fingerprint, what, caseDesc string, witness interface{}) {
	r.mu.Lock()
	defer r.mu.Unlock()
	r.violationsFP[fingerprint]++
	if r.violationsFP[fingerprint] > 3 || len(r.violations) > 60 {
		return
	}
	r.violations = append(r.violations, Finding{fingerprint, what, caseDesc, witness})
}

// Violations returns the number of violations recorded so far.
func (r *Run) Violations() int {
	r.mu.Lock()
	defer r.mu.Unlock()
	n := 0
	for _, c := range r.violationsFP {
		n += c
	}
	return n
}

// Inconclusive records that the monitor could not decide (watchdog fired,
// hook never reached, too few events). Never folded into held or violated.
func (r *Run) Inconclusive(reason string) {
	r.mu.Lock()
	if len(r.inconclusive) < 20 {
		r.inconclusive = append(r.inconclusive, reason)
	}
	r.mu.Unlock()
}

// Arm writes the case descriptor to disk before a call that may kill the
// process (fatal error, runaway allocation), so the driver can attribute the
// crash.
func (r *Run) Arm(desc string) {
	if r.armFile != "" {
		_ = os.WriteFile(r.armFile, []byte(desc), 0o644)
	}
}

// Disarm removes the armed-case marker.
func (r *Run) Disarm() {
	if r.armFile != "" {
		_ = os.Remove(r.armFile)
	}
}

// RepoFrame returns the innermost stack frame (function name) that lies in
// keep-core production code (not a test, not the kit), from a debug.Stack().
func RepoFrame(stack []byte) string {
	altRepo := os.Getenv("VERIF_REPO")
	lines := strings.Split(string(stack), "\n")
	for i := 0; i+1 < len(lines); i++ {
		fn := strings.TrimSpace(lines[i])
		loc := strings.TrimSpace(lines[i+1])
		if !strings.Contains(loc, ".go:") {
			continue
		}
		if strings.Contains(loc, "keep-core") || strings.Contains(loc, "/repo/") || (altRepo != "" && strings.Contains(loc, altRepo)) {
			if strings.Contains(loc, "_test.go") || strings.Contains(loc, "verifkit") || strings.Contains(loc, "/verif/") {
				continue
			}
			if j := strings.LastIndex(fn, "("); j > 0 {
				fn = fn[:j]
			}
			if j := strings.LastIndex(fn, "/"); j >= 0 {
				fn = fn[j+1:]
			}
			return fn
		}
	}
	return "unknown"
}

// Guard runs fn and turns a panic into a violation with fingerprint
// "<prefix>panic@<innermost keep-core function>". It reports whether fn
// panicked.
func (r *Run) Guard(fpPrefix, caseDesc string, fn func()) (panicked bool) {
	defer func() {
		if p := recover(); p != nil {
			panicked = true
			st := debug.Stack()
			fr := RepoFrame(st)
			r.Violation(fpPrefix+"panic@"+fr, fmt.Sprintf("panic: %v", p), caseDesc, trimStack(st))
		}
	}()
	fn()
	return false
}

func trimStack(st []byte) string {
	s := string(st)
	if len(s) > 3000 {
		s = s[:3000]
	}
	return s
}

// Within runs fn on its own goroutine and waits at most d for it. It returns
// false when fn has not returned in time (the goroutine is left behind); a
// panic inside fn is reported through Guard.
func (r *Run) Within(d time.Duration, fpPrefix, caseDesc string, fn func()) (returned bool, panicked bool) {
	done := make(chan bool, 1)
	go func() {
		done <- r.Guard(fpPrefix, caseDesc, fn)
	}()
	select {
	case p := <-done:
		return true, p
	case <-time.After(d):
		return false, false
	}
}

type partFile struct {
	Property     string                 `json:"property_id"`
	Part         string                 `json:"part"`
	Tier         string                 `json:"tier"`
	Seed         int64                  `json:"seed"`
	Evaluations  int64                  `json:"evaluations"`
	Distinct     int                    `json:"distinct_nontrivial"`
	DistinctAll  int                    `json:"distinct_cases"`
	Rule         string                 `json:"rule"`
	Samples      []interface{}          `json:"samples"`
	Counters     map[string]int64       `json:"counters"`
	Violations   []Finding              `json:"violations"`
	ViolationsFP map[string]int         `json:"violation_counts"`
	Inconclusive []string               `json:"inconclusive"`
	Assumptions  []string               `json:"assumptions"`
	Exhaustive   *bool                  `json:"exhaustive,omitempty"`
	WallS        float64                `json:"wall_s"`
	Extra        map[string]interface{} `json:"extra,omitempty"`
	GoVersion    string                 `json:"go_version"`
}

// Finish writes this monitor's part file for the driver and fails the test
// on violations. A monitor that observed nothing is inconclusive.
func (r *Run) Finish() {
	r.mu.Lock()
	if r.finished {
		r.mu.Unlock()
		return
	}
	r.finished = true
	if r.evaluations == 0 {
		r.inconclusive = append(r.inconclusive, "monitor observed no cases")
	}
	pf := partFile{
		Property: r.Property, Part: r.Part, Tier: r.tier, Seed: r.seed,
		Evaluations: r.evaluations, Distinct: len(r.distinct), DistinctAll: len(r.distinctAll),
		Rule: r.rule, Samples: r.samples, Counters: r.counters,
		Violations: r.violations, ViolationsFP: r.violationsFP,
		Inconclusive: r.inconclusive, Assumptions: r.assumptions, Exhaustive: r.exhaustive,
		WallS: time.Since(r.start).Seconds(), GoVersion: runtime.Version(),
	}
	nviol := 0
	for _, c := range r.violationsFP {
		nviol += c
	}
	r.mu.Unlock()

	if pf.Samples == nil {
		pf.Samples = []interface{}{}
	}
	if pf.Violations == nil {
		pf.Violations = []Finding{}
	}
	if pf.Inconclusive == nil {
		pf.Inconclusive = []string{}
	}
	if pf.Assumptions == nil {
		pf.Assumptions = []string{}
	}
	dir := os.Getenv("VERIF_PARTDIR")
	if dir != "" {
		b, err := json.MarshalIndent(pf, "", " ")
		if err != nil {
			// a witness or sample was not serialisable: degrade, never drop the verdict
			for i := range pf.Violations {
				pf.Violations[i].Witness = fmt.Sprintf("%+v", pf.Violations[i].Witness)
			}
			for i := range pf.Samples {
				pf.Samples[i] = fmt.Sprintf("%+v", pf.Samples[i])
			}
			b, err = json.MarshalIndent(pf, "", " ")
		}
		if err == nil {
			tmp := filepath.Join(dir, r.Part+".json.tmp")
			if err = os.WriteFile(tmp, b, 0o644); err == nil {
				err = os.Rename(tmp, filepath.Join(dir, r.Part+".json"))
			}
		}
		if err != nil {
			r.t.Errorf("verifkit: cannot write part file: %v", err)
		}
	}
	r.Disarm()
	keys := make([]string, 0, len(pf.Counters))
	for k := range pf.Counters {
		keys = append(keys, k)
	}
	sort.Strings(keys)
	var cs []string
	for _, k := range keys {
		cs = append(cs, fmt.Sprintf("%s=%d", k, pf.Counters[k]))
	}
	r.t.Logf("verif %s/%s tier=%s seed=%d: evaluations=%d distinct_nontrivial=%d violations=%d inconclusive=%d wall=%.1fs %s",
		r.Property, r.Part, r.tier, r.seed, pf.Evaluations, pf.Distinct, nviol, len(pf.Inconclusive), pf.WallS, strings.Join(cs, " "))
	for fp, c := range pf.ViolationsFP {
		r.t.Logf("verif violation fingerprint=%q count=%d", fp, c)
	}
	for _, v := range pf.Violations {
		r.t.Logf("verif violation detail: [%s] %s case=%s", v.Fingerprint, v.What, clip(v.Case, 300))
	}
	for _, s := range pf.Inconclusive {
		r.t.Logf("verif inconclusive: %s", s)
	}
}

func clip(s string, n int) string {
	if len(s) > n {
		return s[:n] + "…"
	}
	return s
}

// Hex is a small helper for descriptors.
func Hex(b []byte) string { return hex.EncodeToString(b) }

// JSON renders v compactly for descriptors/witnesses.
func JSON(v interface{}) string {
	b, err := json.Marshal(v)
	if err != nil {
		return fmt.Sprintf("%+v", v)
	}
	return string(b)
}

// Parallel runs fn(i) for i in [0,n) on `workers` goroutines (0 = NumCPU).
func Parallel(n, workers int, fn func(i int)) {
	if workers <= 0 {
		workers = runtime.NumCPU()
	}
	if workers > n {
		workers = n
	}
	if workers <= 1 {
		for i := 0; i < n; i++ {
			fn(i)
		}
		return
	}
	var wg sync.WaitGroup
	ch := make(chan int, workers)
	for w := 0; w < workers; w++ {
		wg.Add(1)
		go func() {
			defer wg.Done()
			for i := range ch {
				fn(i)
			}
		}()
	}
	for i := 0; i < n; i++ {
		ch <- i
	}
	close(ch)
	wg.Wait()
}

// SubRand derives an independent PRNG for case i of a stream, so parallel
// workers generate the same cases whatever the scheduling.
func (r *Run) SubRand(stream string, i int) *rand.Rand {
	return r.Rand(fmt.Sprintf("%s#%d", stream, i))
}

// TmpDir returns a fresh scratch directory under /verif/build/<ID>/tmp
// (removed by the driver after the run; never under /tmp).
func (r *Run) TmpDir(name string) string {
	base := os.Getenv("VERIF_TMP")
	if base == "" {
		base = filepath.Join(os.TempDir(), "verif-"+r.Property)
	}
	d := filepath.Join(base, fmt.Sprintf("%s-%s-%d", r.Part, name, time.Now().UnixNano()))
	_ = os.MkdirAll(d, 0o755)
	return d
}
