//go:build verif

package inactivity

import (
	"math/rand"
	"testing"

	"github.com/keep-network/keep-core/internal/verifkit"
)

func TestVerif_C19_Inactivity(t *testing.T) {
	r := verifkit.Start(t, "C19", "inactivity")
	defer r.Finish()
	c19Run(r, "inactivity", []c19Decoder{
		{
			Type: "claimSignatureMessage", File: "marshalling.go",
			New: func() c19Codec { return &claimSignatureMessage{} },
			Gen: func(rng *rand.Rand, i int) c19Codec {
				m := &claimSignatureMessage{
					senderID:  c19Index(rng),
					signature: c19Bytes(rng, 0, 72),
					publicKey: c19Bytes(rng, 0, 65),
					sessionID: c19String(rng),
				}
				copy(m.claimHash[:], c19Bytes(rng, 32, 32))
				return m
			},
			IndexPaths: []string{"1"},
		},
	})
}
