//go:build verif

package inactivity

import (
	"bytes"
	"context"
	"fmt"
	"math/rand"
	"sort"
	"sync/atomic"
	"testing"

	"github.com/keep-network/keep-core/internal/testutils"
	"github.com/keep-network/keep-core/internal/verifkit"
	"github.com/keep-network/keep-core/pkg/chain"
	"github.com/keep-network/keep-core/pkg/chain/local_v1"
	"github.com/keep-network/keep-core/pkg/net"
	"github.com/keep-network/keep-core/pkg/operator"
	"github.com/keep-network/keep-core/pkg/protocol/group"
	"github.com/keep-network/keep-core/pkg/protocol/state"
)

// ---------------------------------------------------------------------------
// C13 (inactivity claim part): generated histories of claim-signature messages
// are delivered to the real claimSigningState, then the real verification and
// submission states are run against a recording ClaimSubmitter. The signature
// map handed to the submitter is compared with a reference computed from how
// the history was constructed.
// ---------------------------------------------------------------------------

type c13Msg struct {
	payload interface{}
	key     []byte
}

func (m *c13Msg) TransportSenderID() net.TransportIdentifier { return nil }
func (m *c13Msg) SenderPublicKey() []byte                    { return m.key }
func (m *c13Msg) Payload() interface{}                       { return m.payload }
func (m *c13Msg) Type() string                               { return m.payload.(message).Type() }
func (m *c13Msg) Seqno() uint64                              { return 0 }

type c13Key struct {
	pub    []byte
	signer chain.Signing
	// sigs[hash kind 0=own 1=other][variant]
	sigs [2][2][]byte
}

type c13World struct {
	N         int
	Seats     []int // seat -> operator key id
	Receiver  int
	Excluded  map[int]string // member -> "IA" | "DQ"
	Threshold int
}

// c13Spec describes one message of a history by construction.
type c13Spec struct {
	Kind    string
	Claimed int
	Net     int    // key id of the network-level sender
	Pay     int    // key id named in the payload, -1 = garbage bytes
	Hash    int    // 0 own, 1 other
	SigBy   int    // key id that produced the signature
	SigVar  int    // which of the two stored signatures
	Corrupt string // "", "flip", "truncate", "empty"
	Session string // "own", "other"
}

func (w c13World) held(key, claimed int) bool {
	return claimed >= 1 && claimed <= w.N && w.Seats[claimed-1] == key
}

func (w c13World) admissionReason(s c13Spec) string {
	switch {
	case !w.held(s.Net, s.Claimed):
		return "non-member-or-foreign-index"
	case s.Claimed == w.Receiver:
		return "own-index"
	case w.Excluded[s.Claimed] != "":
		return "excluded-member"
	case s.Pay != s.Net:
		return "foreign-key"
	case s.Session != "own":
		return "other-session"
	}
	return ""
}

func (s c13Spec) validSig() bool { return s.Corrupt == "" && s.SigBy == s.Pay && s.Pay >= 0 }

// c13Reference computes the expected supporter set (member -> index of the
// history message whose signature counts) under the documented rule of this
// package: messages are de-duplicated per sender keeping the first admitted
// one; it counts when its hash matches and its signature verifies. reason[m]
// explains why a member with traffic is not a supporter.
func c13Reference(w c13World, hist []c13Spec) (set map[int]int, reason map[int]string) {
	set, reason = map[int]int{}, map[int]string{}
	first := map[int]int{}
	for i, s := range hist {
		if why := w.admissionReason(s); why != "" {
			if _, ok := reason[s.Claimed]; !ok {
				reason[s.Claimed] = why
			}
			continue
		}
		if _, ok := first[s.Claimed]; !ok {
			first[s.Claimed] = i
		}
	}
	for m, i := range first {
		switch {
		case hist[i].Hash != 0:
			reason[m] = "first-message-conflicting-hash"
		case !hist[i].validSig():
			reason[m] = "first-message-invalid-signature"
		default:
			set[m] = i
			delete(reason, m)
		}
	}
	return
}

func c13GenWorld(rng *rand.Rand, n, nOps int) c13World {
	w := c13World{N: n, Excluded: map[int]string{}}
	w.Seats = make([]int, n)
	ops := 2 + rng.Intn(nOps-1) // 2..nOps operators
	if ops > n {
		ops = n
	}
	for i := range w.Seats {
		w.Seats[i] = rng.Intn(ops)
	}
	w.Receiver = 1 + rng.Intn(n)
	h := n/2 + 1
	w.Threshold = h + (n-h)/2
	maxEx := n - w.Threshold
	if maxEx > 2 {
		maxEx = 2
	}
	for k := rng.Intn(maxEx + 1); k > 0; k-- {
		m := 1 + rng.Intn(n)
		if m != w.Receiver {
			w.Excluded[m] = []string{"IA", "DQ"}[rng.Intn(2)]
		}
	}
	return w
}

func c13GenHistory(rng *rand.Rand, w c13World, outsiderA, outsiderB int) []c13Spec {
	var others, operating []int
	for m := 1; m <= w.N; m++ {
		if m == w.Receiver {
			continue
		}
		others = append(others, m)
		if w.Excluded[m] == "" {
			operating = append(operating, m)
		}
	}
	holder := func(m int) int { return w.Seats[m-1] }
	valid := func(m int) c13Spec {
		return c13Spec{Kind: "valid", Claimed: m, Net: holder(m), Pay: holder(m), SigBy: holder(m), Session: "own"}
	}
	target := []int{w.Threshold - 3, w.Threshold - 2, w.Threshold - 1, w.Threshold, rng.Intn(w.N)}[rng.Intn(5)]
	if target < 0 {
		target = 0
	}
	if target > len(operating) {
		target = len(operating)
	}
	rng.Shuffle(len(operating), func(i, j int) { operating[i], operating[j] = operating[j], operating[i] })
	v := append([]int(nil), operating[:target]...)
	var hist []c13Spec
	for _, m := range v {
		hist = append(hist, valid(m))
	}
	noise := 0
	if room := 2*w.N - len(hist); room > 0 {
		noise = rng.Intn(room + 1)
		if rng.Intn(3) == 0 {
			noise = rng.Intn(3)
		}
	}
	anyOther := func() int { return others[rng.Intn(len(others))] }
	for ; noise > 0; noise-- {
		m := anyOther()
		s := valid(m)
		switch k := rng.Intn(14); k {
		case 0:
			if len(v) == 0 {
				continue
			}
			s = valid(v[rng.Intn(len(v))])
			s.Kind = "duplicate-same"
		case 1:
			if len(v) == 0 {
				continue
			}
			s = valid(v[rng.Intn(len(v))])
			s.Kind, s.SigVar = "duplicate-second-signature", 1
		case 2:
			s.Kind, s.Hash = "conflicting-hash", 1
		case 3:
			s.Kind, s.Corrupt = "bad-signature-flipped", "flip"
		case 4:
			s.Kind, s.Corrupt = "bad-signature-truncated", []string{"truncate", "empty"}[rng.Intn(2)]
		case 5:
			s.Kind, s.SigBy = "signature-by-other-key", outsiderA
		case 6:
			s.Kind, s.Pay, s.SigBy = "foreign-key-in-payload", outsiderA, outsiderA
		case 7:
			imp := []int{outsiderA, outsiderB, w.Seats[rng.Intn(w.N)]}[rng.Intn(3)]
			s.Kind, s.Net, s.Pay, s.SigBy = "spoofed-index", imp, imp, imp
		case 8:
			s.Kind, s.Net = "replayed-by-outsider", outsiderB
		case 9:
			// another operator relays m's signed payload under its own seat
			relay := anyOther()
			s.Kind, s.Claimed, s.Net = "relayed-under-own-seat", relay, holder(relay)
		case 10:
			s = valid(w.Receiver)
			s.Kind = "own-index"
		case 11:
			s.Kind, s.Session = "other-session", "other"
		case 12:
			s.Kind, s.Claimed = "index-out-of-range", []int{0, w.N + 1, 255}[rng.Intn(3)]
		case 13:
			s.Kind, s.Pay = "garbage-payload-key", -1
		}
		hist = append(hist, s)
	}
	rng.Shuffle(len(hist), func(i, j int) { hist[i], hist[j] = hist[j], hist[i] })
	return hist
}

func c13Corrupt(sig []byte, how string) []byte {
	out := append([]byte(nil), sig...)
	switch how {
	case "flip":
		out[len(out)-1] ^= 0x01
	case "truncate":
		out = out[:len(out)-1]
	case "empty":
		out = nil
	}
	return out
}

// c13Signer is the monitor's ClaimSigner: the claim hash is fixed, signing and
// verification are local_v1 ECDSA (what tbtc's inactivityClaimSigner does
// with the chain's Signing()).
type c13Signer struct {
	signing chain.Signing
	hash    ClaimHash
}

func (s *c13Signer) SignClaim(*ClaimPreimage) (*SignedClaimHash, error) {
	sig, err := s.signing.Sign(s.hash[:])
	if err != nil {
		return nil, err
	}
	return &SignedClaimHash{PublicKey: s.signing.PublicKey(), Signature: sig, ClaimHash: s.hash}, nil
}

func (s *c13Signer) VerifySignature(sr *SignedClaimHash) (bool, error) {
	return s.signing.VerifyWithPublicKey(sr.ClaimHash[:], sr.Signature, sr.PublicKey)
}

// c13Submitter records what the submission state hands over.
type c13Submitter struct {
	calls     int
	member    group.MemberIndex
	result    *ClaimPreimage
	submitted map[group.MemberIndex][]byte
}

func (s *c13Submitter) SubmitClaim(_ context.Context, idx group.MemberIndex, res *ClaimPreimage, sigs map[group.MemberIndex][]byte) error {
	s.calls++
	s.member, s.result = idx, res
	s.submitted = map[group.MemberIndex][]byte{}
	for k, v := range sigs {
		s.submitted[k] = append([]byte(nil), v...)
	}
	return nil
}

func TestVerif_C13_Inactivity(t *testing.T) {
	r := verifkit.Start(t, "C13", "inactivity")
	defer r.Finish()
	r.SetRule("PRNG histories of <= 2n claim-signature messages for n in {3,5,10}: a random set of valid supporters sized around the honest threshold plus noise drawn from {same duplicate, second valid signature, conflicting hash, flipped/truncated/empty signature, signature by another key, foreign key in payload, spoofed index, replay by outsider, relay under own seat, own index, other session, index out of range, garbage payload key}, random seat layout with multi-seat operators, random receiver, 0-2 excluded members, random order; delivered to claimSigningState.Receive, then signaturesVerificationState and claimSubmissionState run against a recording ClaimSubmitter. non-trivial = history with >= 1 duplicate, conflicting hash, bad signature or foreign key")
	r.Assume("signature validity is known by construction (which key signed which hash, whether bytes were corrupted); one sanity pass checks this against local_v1 VerifyWithPublicKey; the honest-threshold gate itself lives in pkg/tbtc (checked by the tbtc part)")

	const nOps = 6
	keys := make([]*c13Key, nOps+2)
	var ownHash, otherHash ClaimHash
	copy(ownHash[:], bytes.Repeat([]byte{0xA1}, 32))
	copy(otherHash[:], bytes.Repeat([]byte{0xB2}, 32))
	hashes := [2]ClaimHash{ownHash, otherHash}
	for i := range keys {
		priv, pub, err := operator.GenerateKeyPair(local_v1.DefaultCurve)
		if err != nil {
			t.Fatal(err)
		}
		k := &c13Key{pub: operator.MarshalUncompressed(pub), signer: local_v1.NewSigner(priv)}
		if !bytes.Equal(k.pub, k.signer.PublicKey()) {
			r.Inconclusive("operator key marshalling differs from the signer's public key")
			return
		}
		for h := 0; h < 2; h++ {
			for v := 0; v < 2; v++ {
				if k.sigs[h][v], err = k.signer.Sign(hashes[h][:]); err != nil {
					t.Fatal(err)
				}
			}
		}
		keys[i] = k
	}
	outsiderA, outsiderB := nOps, nOps+1
	for _, c := range []struct {
		sig   []byte
		h     int
		key   int
		valid bool
	}{
		{keys[0].sigs[0][0], 0, 0, true}, {keys[0].sigs[0][1], 0, 0, true}, {keys[0].sigs[1][0], 0, 0, false},
		{keys[0].sigs[0][0], 0, 1, false}, {c13Corrupt(keys[0].sigs[0][0], "flip"), 0, 0, false},
	} {
		ok, err := keys[0].signer.VerifyWithPublicKey(hashes[c.h][:], c.sig, keys[c.key].pub)
		if (err == nil && ok) != c.valid {
			r.Inconclusive("construction-truth of signature validity disagrees with VerifyWithPublicKey")
			return
		}
	}
	garbage := []byte{4, 1, 2, 3}
	pubOf := func(id int) []byte {
		if id < 0 {
			return garbage
		}
		return keys[id].pub
	}

	total := r.N(3000, 100000)
	var msgs, sizeSum, firstRuleDecides int64
	sizes := []int{3, 5, 10}
	verifkit.Parallel(total, 0, func(i int) {
		rng := r.SubRand("history", i)
		w := c13GenWorld(rng, sizes[i%3], nOps)
		hist := c13GenHistory(rng, w, outsiderA, outsiderB)
		desc := fmt.Sprintf("inactivity n=%d seats=%v receiver=%d excluded=%v history=%s",
			w.N, w.Seats, w.Receiver, w.Excluded, verifkit.JSON(hist))
		nontrivial := false
		perMember := map[int]int{}
		for _, s := range hist {
			if s.Hash != 0 || !s.validSig() || s.Pay != s.Net {
				nontrivial = true
			}
			if w.admissionReason(s) == "" {
				if perMember[s.Claimed]++; perMember[s.Claimed] > 1 {
					nontrivial = true
				}
			}
		}

		h := w.N/2 + 1
		g := group.NewGroup(w.N-h, w.N)
		for m, st := range w.Excluded {
			if st == "IA" {
				g.MarkMemberAsInactive(group.MemberIndex(m))
			} else {
				g.MarkMemberAsDisqualified(group.MemberIndex(m))
			}
		}
		addrs := make([]chain.Address, w.N)
		recvKey := keys[w.Seats[w.Receiver-1]]
		for s, op := range w.Seats {
			addrs[s] = recvKey.signer.PublicKeyBytesToAddress(keys[op].pub)
		}
		validator := group.NewMembershipValidator(&testutils.MockLogger{}, addrs, recvKey.signer)
		signer := &c13Signer{signing: recvKey.signer, hash: ownHash}
		submitter := &c13Submitter{}
		member := newSigningMember(&testutils.MockLogger{}, group.MemberIndex(w.Receiver), w.N, w.N-h, validator, "session-own")
		member.group = g
		dkgResult := &ClaimPreimage{InactiveMembersIndexes: []group.MemberIndex{1}}
		signing := &claimSigningState{
			BaseAsyncState: state.NewBaseAsyncState(),
			claimSigner:    signer,
			claimSubmitter: submitter,
			member:         member,
			claim:          dkgResult,
		}

		var submitErr error
		var got map[group.MemberIndex][]byte
		sigBytes := make([][]byte, len(hist))
		if r.Guard("inactivity:", desc, func() {
			if _, err := member.signClaim(dkgResult, signer); err != nil {
				panic(err)
			}
			for i, s := range hist {
				sig := c13Corrupt(keys[s.SigBy].sigs[s.Hash][s.SigVar], s.Corrupt)
				sigBytes[i] = sig
				session := "session-own"
				if s.Session != "own" {
					session = "session-other"
				}
				p := &claimSignatureMessage{
					senderID:  group.MemberIndex(s.Claimed),
					claimHash: hashes[s.Hash],
					signature: sig,
					publicKey: pubOf(s.Pay),
					sessionID: session,
				}
				if err := signing.Receive(&c13Msg{p, pubOf(s.Net)}); err != nil {
					panic(err)
				}
			}
			next, err := signing.Next()
			if err != nil {
				panic(err)
			}
			verification := next.(*signaturesVerificationState)
			if err := verification.Initiate(context.Background()); err != nil {
				panic(err)
			}
			got = map[group.MemberIndex][]byte{}
			for k, v := range verification.validSignatures {
				got[k] = v
			}
			next, err = verification.Next()
			if err != nil {
				panic(err)
			}
			submitErr = next.(*claimSubmissionState).Initiate(context.Background())
		}) {
			return
		}
		r.Case(desc, nontrivial)
		atomic.AddInt64(&msgs, int64(len(hist)))
		atomic.AddInt64(&sizeSum, int64(len(got)))

		ref, reason := c13Reference(w, hist)
		for m, n := range perMember {
			if n > 1 {
				if _, ok := ref[m]; ok {
					atomic.AddInt64(&firstRuleDecides, 1)
				}
			}
		}
		var gotKeys []int
		for k := range got {
			gotKeys = append(gotKeys, int(k))
		}
		sort.Ints(gotKeys)
		wit := map[string]interface{}{"supporters": gotKeys, "reference_size": len(ref) + 1}
		for _, k := range gotKeys {
			sig := got[group.MemberIndex(k)]
			if k == w.Receiver {
				if !bytes.Equal(sig, member.selfInactivityClaimSignature) || len(sig) == 0 {
					r.Violation("inactivity:self-signature-missing-or-replaced", "entry of the member itself is not its own signature", desc, wit)
				}
				continue
			}
			idx, ok := ref[k]
			if !ok {
				why := reason[k]
				if why == "" {
					why = "no-message-from-member"
				}
				r.Violation("inactivity:unsupported-signer-counted:"+why, fmt.Sprintf("member %d is in the supporter map although the reference excludes it (%s)", k, why), desc, wit)
				continue
			}
			if !bytes.Equal(sig, sigBytes[idx]) {
				r.Violation("inactivity:wrong-signature-value", fmt.Sprintf("signature stored for member %d is not the one of its first admitted message", k), desc, wit)
			}
		}
		if _, ok := got[group.MemberIndex(w.Receiver)]; !ok {
			r.Violation("inactivity:self-signature-missing-or-replaced", "own signature absent from the supporter map", desc, wit)
		}
		for m := range ref {
			if _, ok := got[group.MemberIndex(m)]; !ok {
				r.Violation("inactivity:valid-supporter-dropped", fmt.Sprintf("member %d's first admitted message is a valid matching signature but it is not counted", m), desc, wit)
			}
		}
		// hand-over to the submitter: exactly once, the verified map, own index
		if submitErr != nil {
			r.Violation("inactivity:submission-error", "submission state failed although the submitter accepted: "+submitErr.Error(), desc, wit)
		}
		if submitter.calls != 1 {
			r.Violation("inactivity:submitter-call-count", fmt.Sprintf("ClaimSubmitter called %d times", submitter.calls), desc, wit)
		} else {
			same := len(submitter.submitted) == len(got) && int(submitter.member) == w.Receiver && submitter.result == dkgResult
			for k, v := range got {
				if !bytes.Equal(submitter.submitted[k], v) {
					same = false
				}
			}
			if !same {
				r.Violation("inactivity:submitted-map-differs", "the map handed to the submitter is not the verified supporter map", desc, wit)
			}
		}
		if i < 4 {
			r.Sample(map[string]interface{}{"n": w.N, "seats": w.Seats, "receiver": w.Receiver, "excluded": fmt.Sprint(w.Excluded),
				"history": hist, "supporters": gotKeys})
		}
	})
	r.Count("messages_delivered", msgs)
	r.Count("supporters_total", sizeSum)
	r.Count("members_counted_by_first_of_several_messages", firstRuleDecides)
}
