//go:build verif

package announcer

import (
	"context"
	"fmt"
	"testing"
	"time"

	"github.com/keep-network/keep-core/internal/testutils"
	"github.com/keep-network/keep-core/internal/verifkit"
	"github.com/keep-network/keep-core/pkg/chain"
	"github.com/keep-network/keep-core/pkg/chain/local_v1"
	"github.com/keep-network/keep-core/pkg/net"
	"github.com/keep-network/keep-core/pkg/operator"
	"github.com/keep-network/keep-core/pkg/protocol/group"
)

// ---------------------------------------------------------------------------
// C12 (announcer part): Announcer.Announce is run once per grid case on a
// scripted broadcast channel that delivers exactly one synthetic announcement
// followed by a sentinel whose Payload() call (made by the announcer's loop
// when it dequeues it, i.e. after the synthetic message was fully processed)
// cancels the context. "Acted on" = the claimed index is in the returned
// ready list. No wall-clock is involved.
// ---------------------------------------------------------------------------

// c12Watchdog bounds one Announce call; expiry is inconclusive.
const c12Watchdog = 60 * time.Second

type c12Msg struct {
	payload   interface{}
	key       []byte
	onPayload func()
}

func (m *c12Msg) TransportSenderID() net.TransportIdentifier { return nil }
func (m *c12Msg) SenderPublicKey() []byte                    { return m.key }
func (m *c12Msg) Payload() interface{} {
	if m.onPayload != nil {
		m.onPayload()
	}
	return m.payload
}
func (m *c12Msg) Type() string  { return "c12" }
func (m *c12Msg) Seqno() uint64 { return 0 }

// c12Chan is a scripted broadcast channel: on Send (the announcer sends its
// own announcement after installing the handler) it hands the script to the
// handler.
type c12Chan struct {
	handler func(net.Message)
	script  []net.Message
	sent    []net.TaggedMarshaler
}

func (c *c12Chan) Name() string { return "c12" }
func (c *c12Chan) Send(ctx context.Context, m net.TaggedMarshaler, _ ...net.RetransmissionStrategy) error {
	c.sent = append(c.sent, m)
	for _, s := range c.script {
		c.handler(s)
	}
	return nil
}
func (c *c12Chan) Recv(ctx context.Context, h func(net.Message))    { c.handler = h }
func (c *c12Chan) SetUnmarshaler(func() net.TaggedUnmarshaler)      {}
func (c *c12Chan) SetFilter(filter net.BroadcastChannelFilter) error { return nil }

type c12Layout struct {
	name  string
	seats []int
}

type c12Key struct {
	name string
	op   int
	pub  []byte
}

type c12Case struct {
	layout   c12Layout
	receiver int
	claimed  int
	key      c12Key
	session  string // "own", "other", "prefix"
	protocol string // "own", "other"
}

func (c c12Case) desc() string {
	return fmt.Sprintf("rp=Announcer.Announce layout=%s seats=%v receiver=%d claimed=%d key=%s session=%s protocol=%s",
		c.layout.name, c.layout.seats, c.receiver, c.claimed, c.key.name, c.session, c.protocol)
}

func c12Expect(c c12Case) (bool, string) {
	n := len(c.layout.seats)
	held := c.claimed >= 1 && c.claimed <= n && c.key.op >= 0 && c.layout.seats[c.claimed-1] == c.key.op
	switch {
	case !held:
		return false, "index-not-held"
	case c.claimed == c.receiver:
		return false, "own-index"
	case c.protocol != "own":
		return false, "other-protocol"
	case c.session != "own":
		return false, "other-session"
	}
	return true, ""
}

func TestVerif_C12_Announcer(t *testing.T) {
	r := verifkit.Start(t, "C12", "announcer")
	defer r.Finish()
	r.SetRule("exhaustive grid: seat layouts (5 seats over operators 2/2/1 interleaved, 3 seats one operator; thorough adds 9 seats 4/3/1/1) x announcing member x claimed index {0,1..n,n+1,255} x sender key {each operator, outsider, truncated operator key, empty} x session {own, other, own+suffix} x protocol id {own, other}; one Announce call per case on a scripted channel; non-trivial = claimed index not held by the sender key, or foreign session/protocol")
	r.Assume("local_v1 signing maps a public key to the hex of its bytes; the announcer documents no operating-status filter (it has no group state)")

	signing := local_v1.Connect(5, 3).Signing()
	newKey := func() []byte {
		_, pub, err := operator.GenerateKeyPair(local_v1.DefaultCurve)
		if err != nil {
			t.Fatal(err)
		}
		return operator.MarshalUncompressed(pub)
	}
	opKeys := [][]byte{newKey(), newKey(), newKey(), newKey()}
	outsider := newKey()
	layouts := []c12Layout{
		{"5seats-2/2/1", []int{0, 1, 0, 2, 1}},
		{"3seats-single-operator", []int{0, 0, 0}},
	}
	if !r.Quick() {
		layouts = append(layouts, c12Layout{"9seats-4/3/1/1", []int{0, 1, 0, 2, 1, 0, 3, 1, 0}})
	}
	r.SetExhaustive(true)
	const ownProtocol, ownSession = "protocol-c12", "session-1"
	sessionOf := map[string]string{"own": ownSession, "other": "session-2", "prefix": ownSession + "0"}
	protocolOf := map[string]string{"own": ownProtocol, "other": ownProtocol + "-x"}

	var acted, ignored int64
	sampled := map[string]bool{}
	for _, l := range layouts {
		n := len(l.seats)
		addrs := make([]chain.Address, n)
		seen := map[int]bool{}
		var keys []c12Key
		for i, op := range l.seats {
			addrs[i] = signing.PublicKeyBytesToAddress(opKeys[op])
			if !seen[op] {
				seen[op] = true
				keys = append(keys, c12Key{fmt.Sprintf("op%c", 'A'+op), op, opKeys[op]})
			}
		}
		keys = append(keys, c12Key{"outsider", -1, outsider}, c12Key{"truncated-opA", -1, opKeys[0][:64]}, c12Key{"empty", -1, nil})
		validator := group.NewMembershipValidator(&testutils.MockLogger{}, addrs, signing)
		claims := []int{0}
		for i := 1; i <= n+1; i++ {
			claims = append(claims, i)
		}
		claims = append(claims, 255)
		for recv := 1; recv <= n; recv++ {
			for _, cl := range claims {
				for _, k := range keys {
					for _, sess := range []string{"own", "other", "prefix"} {
						for _, proto := range []string{"own", "other"} {
							c := c12Case{l, recv, cl, k, sess, proto}
							desc := c.desc()
							ctx, cancel := context.WithCancel(context.Background())
							ch := &c12Chan{}
							ch.script = []net.Message{
								&c12Msg{payload: &announcementMessage{senderID: group.MemberIndex(cl), protocolID: protocolOf[proto], sessionID: sessionOf[sess]}, key: k.pub},
								&c12Msg{payload: "sentinel", onPayload: cancel},
							}
							a := New(ownProtocol, ch, validator)
							var ready []group.MemberIndex
							var err error
							returned, panicked := r.Within(c12Watchdog, "announcer:Announce:", desc, func() {
								ready, err = a.Announce(ctx, group.MemberIndex(recv), ownSession)
							})
							cancel()
							if panicked {
								continue
							}
							if !returned {
								r.Inconclusive("Announce did not return after the sentinel cancelled the context: " + desc)
								continue
							}
							legit, why := c12Expect(c)
							r.Case(desc, !legit)
							if err != nil {
								r.Violation("announcer:Announce:error", "Announce returned an error: "+err.Error(), desc, nil)
								continue
							}
							readyInts := make([]int, len(ready))
							for i, idx := range ready {
								readyInts[i] = int(idx)
							}
							got := false
							extra := false
							self := false
							for _, idx := range ready {
								switch {
								case int(idx) == recv:
									self = true
								case int(idx) == cl:
									got = true
								default:
									extra = true
								}
							}
							if extra || !self {
								r.Violation("announcer:Announce:ready-list-shape", "ready list must be {self} plus at most the claimed index", desc, readyInts)
							}
							if got {
								acted++
							} else {
								ignored++
							}
							switch {
							case got && !legit:
								r.Violation("announcer:Announce:accepted:"+why, "announcement that is not legitimate ("+why+") was counted as ready", desc, readyInts)
							case !got && legit:
								r.Violation("announcer:Announce:rejected-legitimate", "fully legitimate announcement was not counted", desc, readyInts)
							}
							if !sampled[why] && (why == "" || why == "other-protocol" || why == "index-not-held" && cl == 0 && k.op >= 0) {
								sampled[why] = true
								r.Sample(map[string]interface{}{"case": desc, "legitimate": legit, "ready": readyInts})
							}
						}
					}
				}
			}
		}
	}
	r.Count("receive_points", 1)
	r.Count("acted_on", acted)
	r.Count("ignored", ignored)
}
