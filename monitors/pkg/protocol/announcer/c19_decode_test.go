//go:build verif

package announcer

import (
	"math/rand"
	"testing"

	"github.com/keep-network/keep-core/internal/verifkit"
)

func TestVerif_C19_Announcer(t *testing.T) {
	r := verifkit.Start(t, "C19", "announcer")
	defer r.Finish()
	c19Run(r, "announcer", []c19Decoder{
		{
			Type: "announcementMessage", File: "announcer.go",
			New: func() c19Codec { return &announcementMessage{} },
			Gen: func(rng *rand.Rand, i int) c19Codec {
				return &announcementMessage{
					senderID:   c19Index(rng),
					protocolID: c19String(rng),
					sessionID:  c19String(rng),
				}
			},
			IndexPaths: []string{"1"},
		},
	})
}
