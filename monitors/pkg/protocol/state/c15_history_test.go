//go:build verif

package state

// C15, "keeps every admitted message": the shared message history
// (BaseAsyncState) under concurrent admission. Several goroutines admit
// uniquely numbered messages of a few types while others read; afterwards the
// history must hold every admitted message exactly once and, per admitting
// goroutine and type, in admission order. A second test runs the same load
// under the race detector.

import (
	"fmt"
	"sync"
	"testing"

	"github.com/keep-network/keep-core/internal/verifkit"
	"github.com/keep-network/keep-core/pkg/net"
)

type c15hMsg struct {
	typ    string
	writer int
	n      int
}

func (m *c15hMsg) TransportSenderID() net.TransportIdentifier { return nil }
func (m *c15hMsg) SenderPublicKey() []byte                    { return []byte{byte(m.writer)} }
func (m *c15hMsg) Payload() interface{}                       { return m }
func (m *c15hMsg) Type() string                               { return m.typ }
func (m *c15hMsg) Seqno() uint64                              { return uint64(m.n) }

func c15hRun(r *verifkit.Run, ci int, judge bool) (lost, dup, misordered int, desc string) {
	rng := r.SubRand("history", ci)
	writers := 2 + rng.Intn(7)
	readers := rng.Intn(3)
	types := 1 + rng.Intn(3)
	per := 50 + rng.Intn(400)
	desc = fmt.Sprintf("writers=%d readers=%d types=%d per-writer=%d", writers, readers, types, per)
	bas := NewBaseAsyncState()
	start := make(chan struct{})
	stop := make(chan struct{})
	var wg, rg sync.WaitGroup
	for w := 0; w < writers; w++ {
		wg.Add(1)
		go func(w int) {
			defer wg.Done()
			<-start
			for i := 0; i < per; i++ {
				bas.ReceiveToHistory(&c15hMsg{typ: fmt.Sprintf("c15h/%d", (w+i)%types), writer: w, n: i})
			}
		}(w)
	}
	for q := 0; q < readers; q++ {
		rg.Add(1)
		go func(q int) {
			defer rg.Done()
			<-start
			for {
				select {
				case <-stop:
					return
				default:
				}
				for t := 0; t < types; t++ {
					_ = len(bas.GetAllReceivedMessages(fmt.Sprintf("c15h/%d", t)))
				}
			}
		}(q)
	}
	close(start)
	wg.Wait()
	close(stop)
	rg.Wait()
	if !judge {
		return
	}
	seen := map[[2]int]int{}
	last := map[[2]int]int{}
	for t := 0; t < types; t++ {
		for _, m := range bas.GetAllReceivedMessages(fmt.Sprintf("c15h/%d", t)) {
			hm, ok := m.(*c15hMsg)
			if !ok || hm.typ != fmt.Sprintf("c15h/%d", t) {
				misordered++
				continue
			}
			seen[[2]int{hm.writer, hm.n}]++
			k := [2]int{hm.writer, t}
			if prev, ok := last[k]; ok && prev >= hm.n {
				misordered++
			}
			last[k] = hm.n
		}
	}
	for w := 0; w < writers; w++ {
		for i := 0; i < per; i++ {
			switch c := seen[[2]int{w, i}]; {
			case c == 0:
				lost++
			case c > 1:
				dup++
			}
		}
	}
	return
}

func TestVerif_C15_HistoryConcurrent(t *testing.T) {
	r := verifkit.Start(t, "C15", "history")
	defer r.Finish()
	r.SetRule("2-8 goroutines admit 50-450 uniquely numbered messages each (1-3 message types) into one real BaseAsyncState through ReceiveToHistory while 0-2 goroutines read it; afterwards GetAllReceivedMessages must return every admitted message exactly once, under its own type, in each admitting goroutine's order. Non-trivial: at least two admitting goroutines.")
	cases := r.N(300, 20000)
	type res struct {
		lost, dup, mis int
		desc           string
	}
	out := make([]res, cases)
	verifkit.Parallel(cases, 4, func(ci int) {
		var x res
		r.Guard("history:", fmt.Sprintf("case %d", ci), func() {
			x.lost, x.dup, x.mis, x.desc = c15hRun(r, ci, true)
		})
		out[ci] = x
	})
	var total int64
	for _, x := range out {
		if x.desc == "" {
			continue
		}
		r.Case(x.desc, true)
		total++
		if x.lost > 0 {
			r.Violation("history:admitted-message-lost", fmt.Sprintf("%d admitted messages are missing from the history", x.lost), x.desc, nil)
		}
		if x.dup > 0 {
			r.Violation("history:admitted-message-duplicated", fmt.Sprintf("%d admitted messages appear more than once in the history", x.dup), x.desc, nil)
		}
		if x.mis > 0 {
			r.Violation("history:order-or-type-wrong", fmt.Sprintf("%d history entries are under a wrong type or out of their admitter's order", x.mis), x.desc, nil)
		}
	}
	r.Count("history_concurrent_runs", total)
	if len(out) > 0 {
		r.Sample(map[string]any{"case": out[0].desc, "lost": out[0].lost})
	}
}

func TestVerif_C15_HistoryConcurrentRace(t *testing.T) {
	r := verifkit.Start(t, "C15", "history-race")
	defer r.Finish()
	r.SetRule("the same concurrent admission / read load on one real BaseAsyncState, run under the race detector (verdict from the detector's log: accesses in state.go)")
	cases := r.N(40, 1000)
	for ci := 0; ci < cases; ci++ {
		_, _, _, desc := c15hRun(r, ci, false)
		r.Case(desc, true)
	}
}
