//go:build verif

package state

// C15 — the message-driven AsyncMachine never loses early messages or skips a
// state. Toy chains whose CanTransition needs a round message from every
// participant are run by the real AsyncMachine over the real pkg/net/local
// channel (with its real retransmission wrapper); scripted peers send their
// round messages 0-4 states ahead of the observed member, at logical points of
// the member's own progress (inside Initiate, at the j-th CanTransition poll,
// at the n-th Receive), with duplicates, slow Initiate, failing Initiate/Next
// and cancellation at a chosen event.

import (
	"context"
	"encoding/json"
	"errors"
	"fmt"
	"math/rand"
	"sync"
	"sync/atomic"
	"testing"
	"time"

	"github.com/keep-network/keep-core/internal/testutils"
	"github.com/keep-network/keep-core/internal/verifkit"
	"github.com/keep-network/keep-core/pkg/net"
	netlocal "github.com/keep-network/keep-core/pkg/net/local"
	"github.com/keep-network/keep-core/pkg/protocol/group"
)

// ---------------------------------------------------------------- messages

type c15RoundMsg struct {
	Sender int `json:"s"`
	Round  int `json:"r"`
	Copy   int `json:"c"`
}

func (m *c15RoundMsg) Type() string                 { return fmt.Sprintf("c15/round_%d", m.Round) }
func (m *c15RoundMsg) Marshal() ([]byte, error)     { return json.Marshal(m) }
func (m *c15RoundMsg) Unmarshal(bytes []byte) error { return json.Unmarshal(bytes, m) }

func c15Key(m net.Message) string {
	return fmt.Sprintf("%s-%d", m.TransportSenderID().String(), m.Seqno())
}

// c15Chan wraps the real local channel for one machine so that the monitor
// sees what the channel hands to the machine's handler (after the channel's
// own retransmission filter).
type c15Chan struct {
	net.BroadcastChannel
	m *c15Member
}

func (c *c15Chan) Recv(ctx context.Context, handler func(net.Message)) {
	c.BroadcastChannel.Recv(ctx, func(msg net.Message) {
		if !c.m.x.race {
			c.m.mu.Lock()
			c.m.handed = append(c.m.handed, c15Key(msg))
			c.m.mu.Unlock()
		}
		handler(msg)
	})
}

// ---------------------------------------------------------------- case

type c15Trig struct {
	State int    `json:"state"`
	Hook  string `json:"hook"` // init | ct | recv
	N     int    `json:"n,omitempty"`
}

type c15Send struct {
	Peer  int     `json:"peer"`
	Round int     `json:"round"`
	Copy  int     `json:"copy"`
	At    c15Trig `json:"at"`
	fired int32
}

type c15Case struct {
	Index     int        `json:"i"`
	S         int        `json:"states"`
	Real      int        `json:"real_members"`
	Peers     int        `json:"scripted_peers"`
	Sends     []*c15Send `json:"sends"`
	InitSleep []int      `json:"initiate_ms"`
	RecvSleep int        `json:"receive_sleep_every"`
	CancelAt  int        `json:"cancel_at_event"`
	InitErrAt int        `json:"initiate_error_at"`
	NextErrAt int        `json:"next_error_at"`
}

// a state polled this many times (100 ms apart) without becoming ready is
// considered stalled
const c15StallPolls = 80

var c15ErrInitiate = errors.New("c15: injected Initiate failure")
var c15ErrNext = errors.New("c15: injected Next failure")

type c15Adm struct{ key, typ string }

type c15Member struct {
	x        *c15Exec
	idx      int
	log      verifkit.EventLog
	mu       sync.Mutex
	handed   []string
	admitted []c15Adm
	histViol []string
	ctCalls  []int32
	rcvCalls []int32
	evCount  int32
	early    int32
	dups     int32
	errInit  int32 // the injected Initiate error was actually returned
	errNext  int32
	result   AsyncState
	err      error
	panicked bool
	returned int32
}

type c15Exec struct {
	r         *verifkit.Run
	c         *c15Case
	race      bool
	ctx       context.Context
	cancel    context.CancelFunc
	cancelled int32
	stalled   int32
	channel   net.BroadcastChannel
	members   []*c15Member
	sent      int32
}

func (x *c15Exec) send(s *c15Send) {
	if atomic.CompareAndSwapInt32(&s.fired, 0, 1) {
		atomic.AddInt32(&x.sent, 1)
		_ = x.channel.Send(x.ctx, &c15RoundMsg{Sender: x.c.Real + s.Peer, Round: s.Round, Copy: s.Copy})
	}
}

// fire sends what the script schedules at this point of member 0's progress.
func (x *c15Exec) fire(state int, hook string, n int) {
	for _, s := range x.c.Sends {
		if s.At.State == state && s.At.Hook == hook && (hook == "init" || s.At.N == n) {
			x.send(s)
		}
	}
}

// flush sends everything scheduled for `state` that has not been sent yet.
func (x *c15Exec) flush(state int) {
	for _, s := range x.c.Sends {
		if s.At.State <= state {
			x.send(s)
		}
	}
}

func (m *c15Member) ev(kind, key string, val interface{}) {
	if !m.x.race {
		m.log.Add("", kind, key, val)
	}
	if m.idx == 0 {
		if n := atomic.AddInt32(&m.evCount, 1); int(n) == m.x.c.CancelAt {
			atomic.StoreInt32(&m.x.cancelled, 1)
			m.x.cancel()
		}
	}
}

// history check: everything admitted so far must be returned by the state.
func (m *c15Member) checkHistory(b *BaseAsyncState, where string) {
	if m.x.race {
		return
	}
	m.mu.Lock()
	adm := append([]c15Adm(nil), m.admitted...)
	m.mu.Unlock()
	have := map[string]map[string]bool{}
	for _, a := range adm {
		if have[a.typ] == nil {
			have[a.typ] = map[string]bool{}
			for _, msg := range b.GetAllReceivedMessages(a.typ) {
				have[a.typ][c15Key(msg)] = true
			}
		}
		if !have[a.typ][a.key] {
			m.mu.Lock()
			if len(m.histViol) < 5 {
				m.histViol = append(m.histViol, fmt.Sprintf("%s: message %s of type %s was passed to ReceiveToHistory earlier but GetAllReceivedMessages does not return it", where, a.key, a.typ))
			}
			m.mu.Unlock()
		}
	}
}

// ---------------------------------------------------------------- toy states

type c15State struct {
	*BaseAsyncState
	m *c15Member
	k int
}

func (s *c15State) MemberIndex() group.MemberIndex { return group.MemberIndex(s.m.idx + 1) }

func (s *c15State) CanTransition() bool {
	m := s.m
	m.ev("ct-begin", fmt.Sprint(s.k), nil)
	n := int(atomic.AddInt32(&m.ctCalls[s.k], 1))
	if n == c15StallPolls {
		// logical stall cut (a watchdog in units of polls): the run is abandoned
		// and reported as inconclusive unless the logs show a violation
		atomic.StoreInt32(&m.x.stalled, 1)
		atomic.StoreInt32(&m.x.cancelled, 1)
		m.x.cancel()
	}
	if m.idx == 0 {
		m.x.fire(s.k, "ct", n)
		if n >= 3 {
			// nothing scheduled for this or an earlier state may wait for an
			// event that never comes (e.g. an n-th Receive)
			m.x.flush(s.k)
		}
	}
	s.m.checkHistory(s.BaseAsyncState, fmt.Sprintf("CanTransition of state %d", s.k))
	senders := map[int]bool{}
	for _, p := range ExtractMessagesPayloads[*c15RoundMsg](s.BaseAsyncState, fmt.Sprintf("c15/round_%d", s.k)) {
		if p.Round == s.k {
			senders[p.Sender] = true
		}
	}
	ok := len(senders) == m.x.c.Real+m.x.c.Peers
	m.ev("ct-end", fmt.Sprint(s.k), ok)
	return ok
}

func (s *c15State) Initiate(ctx context.Context) error {
	m := s.m
	m.ev("init-begin", fmt.Sprint(s.k), nil)
	if m.idx == 0 {
		m.x.fire(s.k, "init", 0)
		if d := m.x.c.InitSleep[s.k]; d > 0 {
			time.Sleep(time.Duration(d) * time.Millisecond)
		}
	}
	_ = m.x.channel.Send(ctx, &c15RoundMsg{Sender: m.idx, Round: s.k})
	s.m.checkHistory(s.BaseAsyncState, fmt.Sprintf("Initiate of state %d", s.k))
	if m.idx == 0 && m.x.c.InitErrAt == s.k {
		atomic.StoreInt32(&m.errInit, 1)
		m.ev("init-end", fmt.Sprint(s.k), "error")
		return c15ErrInitiate
	}
	m.ev("init-end", fmt.Sprint(s.k), "")
	return nil
}

func (s *c15State) Receive(msg net.Message) error {
	m := s.m
	key := c15Key(msg)
	round := -1
	if p, ok := msg.Payload().(*c15RoundMsg); ok {
		round = p.Round
		if round > s.k {
			atomic.AddInt32(&m.early, 1)
		}
		if p.Copy > 0 {
			atomic.AddInt32(&m.dups, 1)
		}
	}
	m.ev("recv", fmt.Sprint(s.k), key)
	s.ReceiveToHistory(msg)
	if !m.x.race {
		m.mu.Lock()
		m.admitted = append(m.admitted, c15Adm{key, msg.Type()})
		m.mu.Unlock()
	}
	n := int(atomic.AddInt32(&m.rcvCalls[s.k], 1))
	if m.idx == 0 {
		m.x.fire(s.k, "recv", n)
		if e := m.x.c.RecvSleep; e > 0 && n%e == 0 {
			time.Sleep(time.Millisecond)
		}
	}
	return nil
}

func (s *c15State) Next() (AsyncState, error) {
	m := s.m
	m.ev("next", fmt.Sprint(s.k), nil)
	if m.idx == 0 {
		m.x.flush(s.k)
	}
	s.m.checkHistory(s.BaseAsyncState, fmt.Sprintf("Next of state %d", s.k))
	if s.k == m.x.c.S-1 {
		return nil, nil
	}
	if m.idx == 0 && m.x.c.NextErrAt == s.k {
		atomic.StoreInt32(&m.errNext, 1)
		return nil, c15ErrNext
	}
	return &c15State{s.BaseAsyncState, m, s.k + 1}, nil
}

// ---------------------------------------------------------------- generation

func c15Gen(rng *rand.Rand, i int) *c15Case {
	c := &c15Case{Index: i, InitErrAt: -1, NextErrAt: -1}
	c.S = 3 + rng.Intn(6)
	c.Real = 1 + rng.Intn(2)
	c.Peers = 1 + rng.Intn(3)
	lag := rng.Intn(5) // how far ahead the scripted peers run, at most
	for p := 0; p < c.Peers; p++ {
		for k := 0; k < c.S; k++ {
			ahead := 0
			if lag > 0 {
				ahead = rng.Intn(lag + 1)
			}
			at := k - ahead
			if at < 0 {
				at = 0
			}
			t := c15Trig{State: at, Hook: "init"}
			switch rng.Intn(6) {
			case 0:
				t.Hook, t.N = "ct", 1+rng.Intn(2)
			case 1, 2:
				t.Hook, t.N = "recv", 1+rng.Intn(4)
			}
			c.Sends = append(c.Sends, &c15Send{Peer: p, Round: k, At: t})
			if rng.Intn(5) == 0 { // an application-level duplicate, sent at the same point or later
				at2 := at + rng.Intn(k-at+1)
				t2 := c15Trig{State: at2, Hook: "init"}
				if rng.Intn(2) == 0 {
					t2.Hook, t2.N = "recv", 1+rng.Intn(4)
				}
				c.Sends = append(c.Sends, &c15Send{Peer: p, Round: k, Copy: 1, At: t2})
			}
		}
	}
	c.InitSleep = make([]int, c.S)
	for k := range c.InitSleep {
		switch rng.Intn(6) {
		case 0:
			c.InitSleep[k] = 1 + rng.Intn(5)
		case 1:
			c.InitSleep[k] = 10 + rng.Intn(20)
		}
	}
	if rng.Intn(6) == 0 { // Initiate longer than the transition poll interval
		c.InitSleep[rng.Intn(c.S)] = 130 + rng.Intn(120)
	}
	if rng.Intn(3) == 0 {
		c.RecvSleep = 1 + rng.Intn(3)
	}
	switch rng.Intn(10) {
	case 0, 1:
		c.CancelAt = 1 + rng.Intn(6*c.S)
	case 2:
		c.InitErrAt = rng.Intn(c.S)
	case 3:
		if c.S > 1 {
			c.NextErrAt = rng.Intn(c.S - 1)
		}
	}
	return c
}

// ---------------------------------------------------------------- execution and oracle

func c15Execute(r *verifkit.Run, provider net.Provider, c *c15Case, race bool, chanName string) (x *c15Exec, finished bool) {
	channel, err := provider.BroadcastChannelFor(chanName)
	if err != nil {
		r.Inconclusive("cannot create local channel: " + err.Error())
		return nil, false
	}
	for k := 0; k < c.S; k++ {
		k := k
		channel.SetUnmarshaler(func() net.TaggedUnmarshaler { return &c15RoundMsg{Round: k} })
	}
	ctx, cancel := context.WithCancel(context.Background())
	x = &c15Exec{r: r, c: c, race: race, ctx: ctx, cancel: cancel, channel: channel}
	defer cancel()
	for i := 0; i < c.Real; i++ {
		x.members = append(x.members, &c15Member{x: x, idx: i, ctCalls: make([]int32, c.S), rcvCalls: make([]int32, c.S)})
	}
	done := make(chan int, c.Real)
	for _, m := range x.members {
		m := m
		go func() {
			m.panicked = r.Guard("async:", verifkit.JSON(c), func() {
				am := NewAsyncMachine(&testutils.MockLogger{}, ctx, &c15Chan{channel, m}, &c15State{NewBaseAsyncState(), m, 0})
				m.result, m.err = am.Execute()
			})
			atomic.StoreInt32(&m.returned, 1)
			done <- m.idx
		}()
	}
	watchdog := time.After(60 * time.Second)
	for left := c.Real; left > 0; {
		select {
		case idx := <-done:
			left--
			if x.members[idx].err != nil || x.members[idx].panicked {
				// the others can never complete without this member's messages
				atomic.StoreInt32(&x.cancelled, 1)
				cancel()
			}
		case <-watchdog:
			return x, false
		}
	}
	return x, true
}

func (x *c15Exec) viol(fp, what string, wit interface{}) {
	x.r.Violation(fp, what, verifkit.JSON(x.c), wit)
}

func (x *c15Exec) check(finished bool) {
	c := x.c
	for _, m := range x.members {
		if m.panicked {
			continue
		}
		who := fmt.Sprintf("member%d", m.idx)
		evs := m.log.Events()
		type st struct {
			initBegin, initEnd, next int64
			initErr                  bool
			nInit, nNext             int
			ctBegin                  []int64
			ctTrue                   []int64
			recv                     []int64
		}
		sts := make([]st, c.S)
		var received []string
		for _, e := range evs {
			var k int
			fmt.Sscan(e.Key, &k)
			if k < 0 || k >= c.S {
				continue
			}
			s := &sts[k]
			switch e.Kind {
			case "init-begin":
				s.nInit++
				s.initBegin = e.Seq
			case "init-end":
				s.initEnd = e.Seq
				s.initErr = e.Val == "error"
			case "ct-begin":
				s.ctBegin = append(s.ctBegin, e.Seq)
			case "ct-end":
				if e.Val == true {
					s.ctTrue = append(s.ctTrue, e.Seq)
				}
			case "recv":
				s.recv = append(s.recv, e.Seq)
				received = append(received, e.Val.(string))
			case "next":
				s.nNext++
				s.next = e.Seq
			}
		}
		wit := func() interface{} {
			if len(evs) > 120 {
				return evs[:120]
			}
			return evs
		}
		// ---- gating and order
		visited := 0
		for k := 0; k < c.S; k++ {
			s := &sts[k]
			if s.nInit == 0 {
				// Receive may legitimately reach the new current state before
				// (or, on cancellation, without) its Initiate being called:
				// initiation runs on its own goroutine.
				if s.nNext > 0 || len(s.ctBegin) > 0 {
					x.viol("async:state-used-without-initiate", fmt.Sprintf("state %d had CanTransition/Next calls but Initiate was never called", k), wit())
				}
				for _, rs := range s.recv {
					if k > 0 && (sts[k-1].nNext == 0 || rs < sts[k-1].next) {
						x.viol("async:receive-by-non-current-state", fmt.Sprintf("Receive of state %d was called while another state was current", k), wit())
						break
					}
				}
				continue
			}
			if k != visited {
				x.viol("async:state-skipped", fmt.Sprintf("state %d was initiated although state %d never was", k, visited), wit())
			}
			visited = k + 1
			if s.nInit > 1 {
				x.viol("async:initiate-twice", fmt.Sprintf("Initiate of state %d called %d times", k, s.nInit), wit())
			}
			if k > 0 && (sts[k-1].nNext == 0 || sts[k-1].next > s.initBegin) {
				x.viol("async:initiate-before-previous-next", fmt.Sprintf("Initiate of state %d started before Next of state %d", k, k-1), wit())
			}
			for _, cb := range s.ctBegin {
				if s.initEnd == 0 || cb < s.initEnd {
					x.viol("async:can-transition-before-initiate-returned", fmt.Sprintf("CanTransition of state %d was called before its Initiate returned", k), wit())
					break
				}
				if s.initErr {
					x.viol("async:can-transition-after-initiate-error", fmt.Sprintf("CanTransition of state %d was called although its Initiate failed", k), wit())
					break
				}
			}
			if s.nNext > 1 {
				x.viol("async:next-twice", fmt.Sprintf("Next of state %d called %d times", k, s.nNext), wit())
			}
			if s.nNext > 0 {
				okGate := false
				for _, ct := range s.ctTrue {
					if ct < s.next {
						okGate = true
					}
				}
				if s.initEnd == 0 || s.initEnd > s.next || s.initErr {
					x.viol("async:next-before-initiate-finished", fmt.Sprintf("Next of state %d was called before its Initiate returned successfully", k), wit())
				} else if !okGate {
					x.viol("async:next-without-can-transition", fmt.Sprintf("Next of state %d was called although no earlier CanTransition of that state returned true", k), wit())
				}
			}
			for _, rs := range s.recv {
				if (s.nNext > 0 && rs > s.next) || (k > 0 && rs < sts[k-1].next) {
					x.viol("async:receive-by-non-current-state", fmt.Sprintf("Receive of state %d was called while another state was current", k), wit())
					break
				}
			}
		}
		// ---- outcome
		cancelled := atomic.LoadInt32(&x.cancelled) == 1
		if atomic.LoadInt32(&m.returned) == 1 {
			switch {
			case m.err == nil:
				fs, ok := m.result.(*c15State)
				if !ok || fs.k != c.S-1 {
					x.viol("async:outcome:not-final-state", fmt.Sprintf("Execute returned without error but not in the final state: %T %+v", m.result, m.result), wit())
				} else if visited != c.S || sts[c.S-1].nNext == 0 {
					x.viol("async:outcome:final-without-visiting-all", fmt.Sprintf("Execute returned the final state but %d of %d states were initiated and Next of the final state was called %d times", visited, c.S, sts[c.S-1].nNext), wit())
				}
			case m.result != nil:
				x.viol("async:outcome:state-and-error", "Execute returned both a state and an error", m.err.Error())
			case errors.Is(m.err, c15ErrInitiate):
				if atomic.LoadInt32(&m.errInit) == 0 {
					x.viol("async:outcome:phantom-error", "Execute reports an Initiate failure no state returned", m.err.Error())
				}
			case errors.Is(m.err, c15ErrNext):
				if atomic.LoadInt32(&m.errNext) == 0 {
					x.viol("async:outcome:phantom-error", "Execute reports a Next failure no state returned", m.err.Error())
				}
			case errors.Is(m.err, context.Canceled):
				if !cancelled {
					x.viol("async:outcome:cancelled-without-cancel", "Execute returned context.Canceled although the context was never cancelled", wit())
				}
			default:
				x.viol("async:outcome:unexpected-error", "Execute returned an error that is neither a state failure nor the context's: "+m.err.Error(), wit())
			}
		}
		// ---- messages: what the channel handed to the machine is received in order, each once
		m.mu.Lock()
		handed := append([]string(nil), m.handed...)
		histViol := append([]string(nil), m.histViol...)
		adm := append([]c15Adm(nil), m.admitted...)
		m.mu.Unlock()
		for _, hv := range histViol {
			x.viol("async:history-lost-message", hv, wit())
		}
		seen := map[string]int{}
		for _, k := range received {
			seen[k]++
			if seen[k] == 2 {
				x.viol("async:message-received-twice", fmt.Sprintf("message %s (one delivery by the channel) reached Receive twice", k), wit())
			}
		}
		for j, k := range received {
			if j >= len(handed) {
				x.viol("async:phantom-message", fmt.Sprintf("message %s reached Receive but the channel never handed it to the machine", k), wit())
				break
			}
			if handed[j] != k {
				x.viol("async:handed-message-skipped", fmt.Sprintf("the channel handed %s to the machine as delivery #%d but the machine passed %s to Receive instead: an admitted message was dropped or reordered", handed[j], j, k), map[string]interface{}{"handed": handed, "received": received})
				break
			}
		}
		if m.err == nil && atomic.LoadInt32(&m.returned) == 1 {
			// final history: every admitted message is still there
			if fs, ok := m.result.(*c15State); ok {
				have := map[string]bool{}
				for k := 0; k < c.S; k++ {
					for _, msg := range fs.GetAllReceivedMessages(fmt.Sprintf("c15/round_%d", k)) {
						have[c15Key(msg)] = true
					}
				}
				for _, a := range adm {
					if !have[a.key] {
						x.viol("async:history-lost-message", fmt.Sprintf("final state: message %s of type %s was admitted but is not in the history", a.key, a.typ), wit())
						break
					}
				}
			}
		}
		if atomic.LoadInt32(&x.stalled) == 1 && m.idx == 0 {
			x.r.Inconclusive(fmt.Sprintf("a state was polled %d times without becoming ready (visited %d states, handed %d, received %d): %s", c15StallPolls, visited, len(handed), len(received), verifkit.JSON(c)))
		}
		if !finished && atomic.LoadInt32(&m.returned) == 0 {
			// the machine is stuck: decide from the logs whether it had everything it needed
			x.r.Inconclusive(fmt.Sprintf("watchdog: %s did not return within 60 s (visited %d states, handed %d, received %d): %s", who, visited, len(handed), len(received), verifkit.JSON(c)))
		}
		x.r.Count("messages_received", int64(len(received)))
		x.r.Count("early_messages_received", int64(atomic.LoadInt32(&m.early)))
		x.r.Count("duplicates_received", int64(atomic.LoadInt32(&m.dups)))
		x.r.Count("states_visited", int64(visited))
	}
}

const c15Rule = "toy chains of 3-8 states whose CanTransition needs the round message of every participant (1-2 real AsyncMachines + 1-3 scripted peers) over the real pkg/net/local channel; peers' messages are sent 0-4 states ahead at points of the observed member's progress (inside Initiate, j-th CanTransition poll, n-th Receive), application-level duplicates, Initiate of 0-250 ms (some longer than the poll interval), failing Initiate/Next, cancellation at a chosen event index. non-trivial = the execution received >= 1 message of a later round early, or a duplicate, or was cancelled"

func c15RunCases(r *verifkit.Run, stream string, n int, race bool) {
	var wd int64
	provider := netlocal.Connect()
	verifkit.Parallel(n, 0, func(i int) {
		c := c15Gen(r.SubRand(stream, i), i)
		x, finished := c15Execute(r, provider, c, race, fmt.Sprintf("c15-%s-%d-%d", stream, r.Seed(), i))
		if x == nil {
			return
		}
		if !finished && atomic.AddInt64(&wd, 1) > 3 {
			return
		}
		var early, dups int32
		for _, m := range x.members {
			early += atomic.LoadInt32(&m.early)
			dups += atomic.LoadInt32(&m.dups)
		}
		cancelledByScript := c.CancelAt > 0 && int(atomic.LoadInt32(&x.members[0].evCount)) >= c.CancelAt
		r.Case(verifkit.JSON(c), early > 0 || dups > 0 || cancelledByScript)
		if cancelledByScript {
			r.Count("cancelled_runs", 1)
		}
		if c.InitErrAt >= 0 || c.NextErrAt >= 0 {
			r.Count("runs_with_failing_state", 1)
		}
		r.Count("scripted_messages_sent", int64(atomic.LoadInt32(&x.sent)))
		if race {
			r.Count("early_messages_received", int64(early))
			return
		}
		x.check(finished)
		r.SampleAt(i, n, func() interface{} {
			m := x.members[0]
			var trace []string
			for _, e := range m.log.Events() {
				if e.Kind == "recv" || e.Kind == "ct-begin" {
					continue
				}
				trace = append(trace, fmt.Sprintf("%s(%s)%v", e.Kind, e.Key, e.Val))
				if len(trace) > 40 {
					break
				}
			}
			errs := ""
			if m.err != nil {
				errs = m.err.Error()
			}
			sends := c.Sends
			if len(sends) > 6 {
				sends = sends[:6]
			}
			return map[string]interface{}{"i": c.Index, "states": c.S, "real_members": c.Real, "scripted_peers": c.Peers, "first_sends": sends, "initiate_ms": c.InitSleep,
				"cancel_at_event": c.CancelAt, "initiate_error_at": c.InitErrAt, "next_error_at": c.NextErrAt, "member0_trace": trace, "error": errs}
		})
	})
}

func TestVerif_C15_Async(t *testing.T) {
	r := verifkit.Start(t, "C15", "async")
	defer r.Finish()
	r.SetRule(c15Rule)
	r.Assume("pkg/net/local delivers to a handler in the order of its per-handler queue and filters retransmissions by (sender, seqno); the monitor observes what the channel hands to the machine by wrapping the handler")
	c15RunCases(r, "async", r.N(300, 6000), false)
}

// Race-detector pass: same workload, the monitor keeps no shared log.
func TestVerif_C15_AsyncRace(t *testing.T) {
	r := verifkit.Start(t, "C15", "async-race")
	defer r.Finish()
	r.SetRule(c15Rule + " (race-detector pass: callbacks touch per-state atomic counters only)")
	for rep := 0; rep < r.N(3, 10); rep++ {
		c15RunCases(r, fmt.Sprintf("asyncrace%d", rep), r.N(32, 200), true)
	}
}
