//go:build verif

package state

// C15, flood scenario: a late member is held in an early state while peers
// that are several states ahead broadcast N messages for the current and later
// states, N on both sides of the machine's internal receive buffer (512).
// Nothing handed to the machine's handler may be lost: a handler that cannot
// queue a message has to make the channel wait, because the channel's
// duplicate filter has already marked the message as seen.

import (
	"context"
	"encoding/json"
	"fmt"
	"sync"
	"sync/atomic"
	"testing"
	"time"

	"github.com/keep-network/keep-core/internal/testutils"
	"github.com/keep-network/keep-core/internal/verifkit"
	"github.com/keep-network/keep-core/pkg/net"
	netlocal "github.com/keep-network/keep-core/pkg/net/local"
	"github.com/keep-network/keep-core/pkg/protocol/group"
)

const (
	c15flStates    = 4
	c15flHeld      = 1 // the state in which the member is held
	c15flFeeders   = 4
	c15flStallPoll = 60
)

// ---------------------------------------------------------------- messages

type c15flMsg struct {
	Sender int `json:"s"`
	Round  int `json:"r"`
	ID     int `json:"id"` // -1: the member's own round message, -2: probe
}

func (m *c15flMsg) Type() string                 { return fmt.Sprintf("c15fl/round_%d", m.Round) }
func (m *c15flMsg) Marshal() ([]byte, error)     { return json.Marshal(m) }
func (m *c15flMsg) Unmarshal(bytes []byte) error { return json.Unmarshal(bytes, m) }

func c15flKey(m net.Message) string {
	return fmt.Sprintf("%s-%d", m.TransportSenderID().String(), m.Seqno())
}

// ---------------------------------------------------------------- direct stub channel

type c15flTID string

func (t c15flTID) String() string { return string(t) }

type c15flNetMsg struct {
	pl  *c15flMsg
	seq uint64
}

func (m *c15flNetMsg) TransportSenderID() net.TransportIdentifier { return c15flTID("c15fl-stub") }
func (m *c15flNetMsg) SenderPublicKey() []byte                    { return []byte{1} }
func (m *c15flNetMsg) Payload() interface{}                       { return m.pl }
func (m *c15flNetMsg) Type() string                               { return m.pl.Type() }
func (m *c15flNetMsg) Seqno() uint64                              { return m.seq }

type c15flStubHandler struct {
	ctx context.Context
	fn  func(net.Message)
	mu  sync.Mutex // one delivery at a time per handler, as real channels do
}

// c15flStub calls the registered handlers directly from the sender's
// goroutine; a handler that blocks makes the sender wait.
type c15flStub struct {
	mu       sync.Mutex
	handlers []*c15flStubHandler
	seq      uint64
}

func (c *c15flStub) Name() string                                { return "c15fl-stub" }
func (c *c15flStub) SetUnmarshaler(func() net.TaggedUnmarshaler) {}
func (c *c15flStub) SetFilter(net.BroadcastChannelFilter) error  { return nil }
func (c *c15flStub) Recv(ctx context.Context, fn func(net.Message)) {
	c.mu.Lock()
	c.handlers = append(c.handlers, &c15flStubHandler{ctx: ctx, fn: fn})
	c.mu.Unlock()
}
func (c *c15flStub) Send(ctx context.Context, m net.TaggedMarshaler, _ ...net.RetransmissionStrategy) error {
	b, err := m.Marshal()
	if err != nil {
		return err
	}
	pl := &c15flMsg{}
	if err := pl.Unmarshal(b); err != nil {
		return err
	}
	msg := &c15flNetMsg{pl, atomic.AddUint64(&c.seq, 1)}
	c.mu.Lock()
	hs := append([]*c15flStubHandler(nil), c.handlers...)
	c.mu.Unlock()
	for _, h := range hs {
		if h.ctx.Err() != nil {
			continue
		}
		h.mu.Lock()
		h.fn(msg)
		h.mu.Unlock()
	}
	return nil
}

// c15flTap wraps a channel so that the monitor sees, in order, what is handed
// to the machine's handler.
type c15flTap struct {
	net.BroadcastChannel
	x *c15flExec
}

func (c *c15flTap) Recv(ctx context.Context, handler func(net.Message)) {
	c.BroadcastChannel.Recv(ctx, func(msg net.Message) {
		c.x.mu.Lock()
		c.x.handed = append(c.x.handed, c15flKey(msg))
		c.x.mu.Unlock()
		atomic.AddInt64(&c.x.nHanded, 1)
		handler(msg)
	})
}

// ---------------------------------------------------------------- execution

type c15flCase struct {
	N       int    `json:"flood_messages"`
	Channel string `json:"channel"` // local | stub
	Rep     int    `json:"rep"`
	Split   []int  `json:"per_round"` // flood messages for rounds 1..3
}

type c15flExec struct {
	r        *verifkit.Run
	c        *c15flCase
	ctx      context.Context
	cancel   context.CancelFunc
	channel  net.BroadcastChannel
	gate     chan struct{}
	heldSig  chan struct{}
	heldOnce sync.Once
	log      verifkit.EventLog
	mu       sync.Mutex
	handed   []string
	received []string
	admitted [][2]string
	histViol []string
	expect   []map[int]bool // per round: flood ids needed
	nHanded  int64
	nRecv    int64
	progress [c15flFeeders]int64
	polls    [c15flStates]int32
	stalled  int32
}

func (x *c15flExec) waitGate() {
	select {
	case <-x.gate:
	case <-x.ctx.Done():
	}
}

func (x *c15flExec) checkHistory(b *BaseAsyncState, where string) {
	x.mu.Lock()
	adm := append([][2]string(nil), x.admitted...)
	x.mu.Unlock()
	have := map[string]map[string]bool{}
	for _, a := range adm {
		if have[a[1]] == nil {
			have[a[1]] = map[string]bool{}
			for _, msg := range b.GetAllReceivedMessages(a[1]) {
				have[a[1]][c15flKey(msg)] = true
			}
		}
		if !have[a[1]][a[0]] {
			x.mu.Lock()
			if len(x.histViol) < 3 {
				x.histViol = append(x.histViol, fmt.Sprintf("%s: message %s of type %s was passed to ReceiveToHistory earlier but GetAllReceivedMessages does not return it", where, a[0], a[1]))
			}
			x.mu.Unlock()
			return
		}
	}
}

type c15flState struct {
	*BaseAsyncState
	x *c15flExec
	k int
}

func (s *c15flState) MemberIndex() group.MemberIndex { return 1 }

func (s *c15flState) Initiate(ctx context.Context) error {
	s.x.log.Add("", "init-begin", fmt.Sprint(s.k), nil)
	if s.k == c15flHeld {
		s.x.heldOnce.Do(func() { close(s.x.heldSig) })
		s.x.waitGate()
	}
	_ = s.x.channel.Send(ctx, &c15flMsg{Sender: 0, Round: s.k, ID: -1})
	s.x.log.Add("", "init-end", fmt.Sprint(s.k), nil)
	return nil
}

func (s *c15flState) Receive(msg net.Message) error {
	x := s.x
	key := c15flKey(msg)
	x.mu.Lock()
	x.received = append(x.received, key)
	x.mu.Unlock()
	atomic.AddInt64(&x.nRecv, 1)
	x.log.Add("", "recv", fmt.Sprint(s.k), key)
	if s.k == c15flHeld {
		// the held member does not get around to reading its buffer
		x.waitGate()
	}
	s.ReceiveToHistory(msg)
	x.mu.Lock()
	x.admitted = append(x.admitted, [2]string{key, msg.Type()})
	x.mu.Unlock()
	return nil
}

func (s *c15flState) CanTransition() bool {
	x := s.x
	switch n := atomic.AddInt32(&x.polls[s.k], 1); n {
	case c15flStallPoll / 2:
		// the state is not getting ready: send a probe. Deliveries to the
		// machine are first-in first-out, so a probe that reaches Receive
		// proves that everything handed before it and not received is lost.
		_ = x.channel.Send(x.ctx, &c15flMsg{Sender: 0, Round: s.k, ID: -2})
		x.r.Count("probes_sent", 1)
	case c15flStallPoll:
		atomic.StoreInt32(&x.stalled, 1)
		x.cancel()
	}
	x.checkHistory(s.BaseAsyncState, fmt.Sprintf("CanTransition of state %d", s.k))
	own := false
	got := map[int]bool{}
	for _, p := range ExtractMessagesPayloads[*c15flMsg](s.BaseAsyncState, fmt.Sprintf("c15fl/round_%d", s.k)) {
		if p.ID == -1 {
			own = true
		} else if p.ID >= 0 {
			got[p.ID] = true
		}
	}
	ok := own && len(got) == len(x.expect[s.k])
	x.log.Add("", "ct", fmt.Sprint(s.k), ok)
	return ok
}

func (s *c15flState) Next() (AsyncState, error) {
	s.x.log.Add("", "next", fmt.Sprint(s.k), nil)
	s.x.checkHistory(s.BaseAsyncState, fmt.Sprintf("Next of state %d", s.k))
	if s.k == c15flStates-1 {
		return nil, nil
	}
	return &c15flState{s.BaseAsyncState, s.x, s.k + 1}, nil
}

func (x *c15flExec) snapshot() string {
	s := fmt.Sprint(atomic.LoadInt64(&x.nHanded), atomic.LoadInt64(&x.nRecv))
	for i := range x.progress {
		s += fmt.Sprint(" ", atomic.LoadInt64(&x.progress[i]))
	}
	return s
}

func c15flRun(r *verifkit.Run, provider net.Provider, c *c15flCase, name string) {
	desc := verifkit.JSON(c)
	ctx, cancel := context.WithCancel(context.Background())
	defer cancel()
	x := &c15flExec{r: r, c: c, ctx: ctx, cancel: cancel, gate: make(chan struct{}), heldSig: make(chan struct{})}
	if c.Channel == "local" {
		ch, err := provider.BroadcastChannelFor(name)
		if err != nil {
			r.Inconclusive("cannot create local channel: " + err.Error())
			return
		}
		for k := 0; k < c15flStates; k++ {
			k := k
			ch.SetUnmarshaler(func() net.TaggedUnmarshaler { return &c15flMsg{Round: k} })
		}
		x.channel = ch
	} else {
		x.channel = &c15flStub{}
	}
	// the flood: unique ids spread over the held and the later rounds
	var flood []*c15flMsg
	x.expect = make([]map[int]bool, c15flStates)
	for k := range x.expect {
		x.expect[k] = map[int]bool{}
	}
	id := 0
	for ri, cnt := range c.Split {
		for j := 0; j < cnt; j++ {
			round := c15flHeld + ri
			flood = append(flood, &c15flMsg{Sender: 1 + id%3, Round: round, ID: id})
			x.expect[round][id] = true
			id++
		}
	}
	// interleave rounds so that later-state messages arrive among current ones
	for i := range flood {
		j := (i * 7919) % len(flood)
		flood[i], flood[j] = flood[j], flood[i]
	}

	var result AsyncState
	var err error
	done := make(chan bool, 1)
	go func() {
		p := r.Guard("flood:", desc, func() {
			am := NewAsyncMachine(&testutils.MockLogger{}, ctx, &c15flTap{x.channel, x}, &c15flState{NewBaseAsyncState(), x, 0})
			result, err = am.Execute()
		})
		done <- p
	}()
	watchdog := time.After(60 * time.Second)
	select {
	case <-x.heldSig:
	case <-done:
		r.Inconclusive("flood: the machine ended before reaching the held state: " + desc)
		return
	case <-watchdog:
		r.Inconclusive("flood watchdog: held state not reached: " + desc)
		return
	}
	// feeders
	handedBase, recvBase := atomic.LoadInt64(&x.nHanded), atomic.LoadInt64(&x.nRecv)
	var fdone int32
	for f := 0; f < c15flFeeders; f++ {
		f := f
		go func() {
			for i := f; i < len(flood); i += c15flFeeders {
				_ = x.channel.Send(ctx, flood[i])
				atomic.AddInt64(&x.progress[f], 1)
			}
			atomic.AddInt32(&fdone, 1)
		}()
	}
	// open the gate once every feeder is done or blocked: progress and the
	// handed count stable over consecutive samples
	// (a feeder that is merely slow must not be taken for a blocked one: while
	// some feeder is unfinished the samples have to agree twenty times in a row)
	prev, same := "", 0
	need := func() int {
		if atomic.LoadInt32(&fdone) == c15flFeeders {
			return 3
		}
		return 20
	}
	for same < need() {
		select {
		case <-watchdog:
			r.Inconclusive("flood watchdog: feeders never settled: " + desc)
			return
		case <-time.After(15 * time.Millisecond):
		}
		cur := x.snapshot()
		if cur == prev {
			same++
		} else {
			prev, same = cur, 0
		}
	}
	handedAtOpen, recvAtOpen := atomic.LoadInt64(&x.nHanded)-handedBase, atomic.LoadInt64(&x.nRecv)-recvBase
	feedersBlocked := int(c15flFeeders - atomic.LoadInt32(&fdone))
	close(x.gate)
	finished, panicked := false, false
	select {
	case panicked = <-done:
		finished = true
	case <-watchdog:
	}
	if panicked {
		return
	}
	full := handedAtOpen > asyncReceiveBuffer && recvAtOpen <= 1
	r.Case(desc, full)
	if full {
		r.Count("runs_with_full_machine_buffer_at_gate", 1)
	} else if c.N > asyncReceiveBuffer+1 {
		r.Sample(map[string]interface{}{"case": c, "not_full_at_gate": true, "handed_at_gate": handedAtOpen, "received_at_gate": recvAtOpen, "feeders_blocked": feedersBlocked})
	}
	if feedersBlocked > 0 {
		r.Count("runs_with_feeders_blocked_in_handler", 1)
	}
	r.Count("flood_messages", int64(c.N))

	// ---- oracle
	x.mu.Lock()
	handed := append([]string(nil), x.handed...)
	received := append([]string(nil), x.received...)
	hv := append([]string(nil), x.histViol...)
	adm := append([][2]string(nil), x.admitted...)
	x.mu.Unlock()
	wit := map[string]interface{}{"handed_at_gate": handedAtOpen, "received_at_gate": recvAtOpen, "handed": len(handed), "received": len(received), "feeders_blocked_at_gate": feedersBlocked}
	bad := false
	for _, v := range hv {
		bad = true
		r.Violation("flood:history-lost-message", v, desc, wit)
	}
	seen := map[string]bool{}
	for j, k := range received {
		if seen[k] {
			bad = true
			r.Violation("flood:message-received-twice", fmt.Sprintf("message %s was handed once but reached Receive twice", k), desc, wit)
			break
		}
		seen[k] = true
		if j >= len(handed) {
			bad = true
			r.Violation("flood:phantom-message", fmt.Sprintf("message %s reached Receive but was never handed to the machine", k), desc, wit)
			break
		}
		if handed[j] != k {
			bad = true
			r.Violation("flood:handed-message-dropped", fmt.Sprintf("delivery #%d handed to the machine's handler was %s but the machine passed %s to Receive next: a message handed to the machine (with %d handed and %d received while the member was held) was dropped or reordered", j, handed[j], k, handedAtOpen, recvAtOpen), desc, wit)
			break
		}
	}
	if finished && err == nil {
		fs, ok := result.(*c15flState)
		if !ok || fs.k != c15flStates-1 {
			r.Violation("flood:outcome:not-final-state", fmt.Sprintf("Execute returned %T without error", result), desc, wit)
		} else {
			have := map[string]bool{}
			for k := 0; k < c15flStates; k++ {
				for _, msg := range fs.GetAllReceivedMessages(fmt.Sprintf("c15fl/round_%d", k)) {
					have[c15flKey(msg)] = true
				}
			}
			for _, a := range adm {
				if !have[a[0]] {
					r.Violation("flood:history-lost-message", fmt.Sprintf("final state: admitted message %s is not in the history", a[0]), desc, wit)
					break
				}
			}
		}
		return
	}
	if bad {
		return
	}
	switch {
	case !finished:
		r.Inconclusive(fmt.Sprintf("flood watchdog: the member did not finish (handed %d, received %d): %s", len(handed), len(received), desc))
	case atomic.LoadInt32(&x.stalled) == 1:
		r.Inconclusive(fmt.Sprintf("flood: a state was polled %d times without becoming ready (handed %d, received %d): %s", c15flStallPoll, len(handed), len(received), desc))
	default:
		r.Violation("flood:outcome:unexpected-error", "the member did not end in the final state: "+fmt.Sprint(err), desc, wit)
	}
}

func TestVerif_C15_Flood(t *testing.T) {
	r := verifkit.Start(t, "C15", "flood")
	defer r.Finish()
	r.SetRule("one real AsyncMachine member held in state 1 (Initiate and its first Receive wait for the monitor's gate) while 4 feeder goroutines broadcast N unique messages for rounds 1-3 (peers ahead), N in {100, 511, 512, 513, 514, 600, 1500 + PRNG values}, through the real pkg/net/local channel and through a stub channel that calls the handler directly; the gate opens once all feeders are done and the handed count is stable over 3 samples, or feeder progress is stable over 20 samples (feeders blocked in the handler). non-trivial = more than 512 messages had been handed with at most one received when the gate opened (the machine's buffer was full)")
	rng := r.Rand("flood")
	ns := []int{100, 511, 512, 513, 514, 600, 1500}
	for i := 0; i < r.N(2, 20); i++ {
		ns = append(ns, 515+rng.Intn(1200))
	}
	var cases []*c15flCase
	for rep := 0; rep < r.N(1, 4); rep++ {
		for _, n := range ns {
			for _, ch := range []string{"local", "stub"} {
				a := 1 + rng.Intn(n-2)
				b := 1 + rng.Intn(n-a-1)
				if rng.Intn(3) == 0 { // most for later states
					a = 1 + rng.Intn(10)
				}
				if a+b >= n {
					b = 1
				}
				cases = append(cases, &c15flCase{N: n, Channel: ch, Rep: rep, Split: []int{a, b, n - a - b}})
			}
		}
	}
	provider := netlocal.Connect()
	verifkit.Parallel(len(cases), 0, func(i int) {
		c15flRun(r, provider, cases[i], fmt.Sprintf("c15fl-%d-%d", r.Seed(), i))
	})
}
