//go:build verif

package state

// C14 — the block-synchronised SyncMachine runs every phase in its block
// window. Toy protocols (random delay/active lengths, zero-length silent
// states) are executed by the real SyncMachine on the kit's virtual block
// counter; every call the machine makes (block waits, handler registrations,
// Initiate/Receive/Next of every state) is recorded and compared with a
// schedule computed from the configuration alone.

import (
	"context"
	"fmt"
	"math/rand"
	"runtime"
	"sync"
	"sync/atomic"
	"testing"
	"time"

	"github.com/keep-network/keep-core/internal/testutils"
	"github.com/keep-network/keep-core/internal/verifkit"
	"github.com/keep-network/keep-core/pkg/net"
	"github.com/keep-network/keep-core/pkg/protocol/group"
)

// ---------------------------------------------------------------- case

type c14Act struct {
	Kind string `json:"k"` // "inj": hand N messages to the own handler, "adv": the clock jumps N blocks
	N    int    `json:"n"`
}

type c14StateCfg struct {
	D    uint64   `json:"d"`
	A    uint64   `json:"a"`
	Acts []c14Act `json:"in_initiate,omitempty"`
}

type c14Case struct {
	Index   int           `json:"i"`
	Mode    string        `json:"mode"` // step | initburst | ctlburst
	States  []c14StateCfg `json:"states"`
	Start   uint64        `json:"start"`
	H0      uint64        `json:"clock_at_launch"`
	Members int           `json:"members"`
	Join    []uint64      `json:"join_at"` // per member: launched once the clock reached this height
	PInj    int           `json:"p_inject"`
	PRace   int           `json:"p_race"`
	PBurst  int           `json:"p_burst"`
}

func (c *c14Case) total() uint64 {
	var t uint64
	for _, s := range c.States {
		t += s.D + s.A
	}
	return t
}

// nominal schedule computed from the configuration only.
type c14Sched struct {
	e, i, f []uint64
}

func c14Nominal(c *c14Case) c14Sched {
	var s c14Sched
	cur := c.Start
	for _, st := range c.States {
		s.e = append(s.e, cur)
		s.i = append(s.i, cur+st.D)
		s.f = append(s.f, cur+st.D+st.A)
		cur += st.D + st.A
	}
	return s
}

// position of a machine that is parked (quiescent) at height h.
// phase: 0 before start, 1 delay (buffering), 2 active (draining), 3 finished
func (s *c14Sched) at(h uint64) (k int, phase int) {
	if h < s.e[0] {
		return 0, 0
	}
	for k := range s.e {
		if s.e[k] <= h && h < s.f[k] {
			if h < s.i[k] {
				return k, 1
			}
			return k, 2
		}
	}
	return len(s.e) - 1, 3
}

// ---------------------------------------------------------------- message, channel, block counter

type c14TID string

func (t c14TID) String() string { return string(t) }

type c14Msg struct{ id int }

func (m *c14Msg) TransportSenderID() net.TransportIdentifier { return c14TID("c14-peer") }
func (m *c14Msg) SenderPublicKey() []byte                    { return []byte{1} }
func (m *c14Msg) Payload() interface{}                       { return m.id }
func (m *c14Msg) Type() string                               { return "c14/msg" }
func (m *c14Msg) Seqno() uint64                              { return uint64(m.id) }

type c14Handler struct {
	ctx context.Context
	fn  func(net.Message)
}

// c14Chan is one member's view of the broadcast channel: a message is handed
// to every handler whose context is alive at the instant of the delivery,
// which is what the real channels do.
type c14Chan struct {
	mu        sync.Mutex
	handlers  []*c14Handler
	delivered int64
	maxLive   int
	recvCalls int
}

func (c *c14Chan) Name() string { return "c14" }
func (c *c14Chan) Send(context.Context, net.TaggedMarshaler, ...net.RetransmissionStrategy) error {
	return nil
}
func (c *c14Chan) SetUnmarshaler(func() net.TaggedUnmarshaler) {}
func (c *c14Chan) SetFilter(net.BroadcastChannelFilter) error  { return nil }
func (c *c14Chan) Recv(ctx context.Context, fn func(net.Message)) {
	c.mu.Lock()
	live := c.handlers[:0]
	for _, h := range c.handlers {
		if h.ctx.Err() == nil {
			live = append(live, h)
		}
	}
	c.handlers = append(live, &c14Handler{ctx, fn})
	if len(c.handlers) > c.maxLive {
		c.maxLive = len(c.handlers)
	}
	c.recvCalls++
	c.mu.Unlock()
}

func (c *c14Chan) inject(m net.Message) (handed int) {
	c.mu.Lock()
	hs := append([]*c14Handler(nil), c.handlers...)
	c.mu.Unlock()
	for _, h := range hs {
		if h.ctx.Err() != nil {
			continue
		}
		atomic.AddInt64(&c.delivered, 1)
		h.fn(m)
		handed++
	}
	return handed
}

const (
	c14ModeRun int32 = iota
	c14ModeWait
	c14ModeSel
)

// c14BC is the member's block counter: the kit's virtual clock view, with the
// emission rule of keep-core's real block counters (local_v1 and ethereum):
// a height waiter emits the *requested* block number, also when that block
// has already passed. It remembers which kind of wait the machine is in.
type c14BC struct {
	v     *verifkit.View
	mode  int32
	mu    sync.Mutex
	kinds []string
}

func (b *c14BC) note(kind string) {
	b.mu.Lock()
	b.kinds = append(b.kinds, kind)
	b.mu.Unlock()
}
func (b *c14BC) WaitForBlockHeight(h uint64) error {
	b.note("wait")
	atomic.StoreInt32(&b.mode, c14ModeWait)
	err := b.v.WaitForBlockHeight(h)
	atomic.StoreInt32(&b.mode, c14ModeRun)
	return err
}
func (b *c14BC) BlockHeightWaiter(h uint64) (<-chan uint64, error) {
	b.note("waiter")
	atomic.StoreInt32(&b.mode, c14ModeSel)
	inner, err := b.v.BlockHeightWaiter(h)
	out := make(chan uint64, 1)
	go func() {
		<-inner
		out <- h
	}()
	return out, err
}
func (b *c14BC) CurrentBlock() (uint64, error)                 { return b.v.CurrentBlock() }
func (b *c14BC) WatchBlocks(ctx context.Context) <-chan uint64 { return b.v.WatchBlocks(ctx) }

// ---------------------------------------------------------------- toy states

type c14Ev struct {
	Kind string `json:"e"`
	K    int    `json:"k"`
	Msg  int    `json:"m,omitempty"`
	H    uint64 `json:"h"`
}

type c14Member struct {
	idx       int
	x         *c14Exec
	ch        *c14Chan
	bc        *c14BC
	mu        sync.Mutex
	ev        []c14Ev
	processed int64
	started   int32
	done      int32
	endBlock  uint64
	last      SyncState
	err       error
	panicked  bool
}

func (m *c14Member) add(kind string, k, msg int) {
	h := m.x.clk.Height()
	m.mu.Lock()
	m.ev = append(m.ev, c14Ev{kind, k, msg, h})
	m.mu.Unlock()
}

type c14State struct {
	m *c14Member
	k int
}

func (s *c14State) DelayBlocks() uint64            { return s.m.x.c.States[s.k].D }
func (s *c14State) ActiveBlocks() uint64           { return s.m.x.c.States[s.k].A }
func (s *c14State) MemberIndex() group.MemberIndex { return group.MemberIndex(s.m.idx + 1) }
func (s *c14State) Initiate(ctx context.Context) error {
	s.m.add("init-begin", s.k, 0)
	for _, a := range s.m.x.c.States[s.k].Acts {
		switch a.Kind {
		case "inj":
			for n := 0; n < a.N; n++ {
				s.m.x.injectFromInitiate(s.m, s.k)
			}
		case "adv":
			atomic.AddInt64(&s.m.x.bursts, 1)
			s.m.x.clk.Advance(uint64(a.N))
		}
	}
	if ctx.Err() != nil {
		s.m.add("ctx-dead-in-initiate", s.k, 0)
	}
	s.m.add("init-end", s.k, 0)
	return nil
}
func (s *c14State) Receive(msg net.Message) error {
	id := -1
	if cm, ok := msg.(*c14Msg); ok {
		id = cm.id
	}
	s.m.add("recv", s.k, id)
	atomic.AddInt64(&s.m.processed, 1)
	return nil
}
func (s *c14State) Next() (SyncState, error) {
	s.m.add("next", s.k, 0)
	if s.k == len(s.m.x.c.States)-1 {
		return nil, nil
	}
	return &c14State{s.m, s.k + 1}, nil
}

// ---------------------------------------------------------------- execution

type c14QPoint struct {
	h     uint64
	modes []int32
}

type c14Inj struct {
	Q      int    `json:"after_quiescent_point"`
	ID     int    `json:"id"`
	How    string `json:"how"` // quiescent | initiate | racing
	H      uint64 `json:"h"`
	H2     uint64 `json:"h_after,omitempty"`
	Member int    `json:"member"` // -1: all members
	K      int    `json:"k,omitempty"`
	Handed []int  `json:"handed"`
}

type c14Exec struct {
	r       *verifkit.Run
	c       *c14Case
	clk     *verifkit.Clock
	members []*c14Member
	mu      sync.Mutex
	inj     []*c14Inj
	nextID  int
	bursts  int64
	races   int64
	steps   []string
	qlog    []c14QPoint
}

// notePoint records a quiescent point: the height and, per member, whether it
// is parked in its receive loop (everything handed so far has been received).
func (x *c14Exec) notePoint() {
	q := c14QPoint{h: x.clk.Height()}
	for _, m := range x.members {
		md := int32(-1)
		if atomic.LoadInt32(&m.started) == 1 && atomic.LoadInt32(&m.done) == 0 {
			md = atomic.LoadInt32(&m.bc.mode)
		}
		q.modes = append(q.modes, md)
	}
	x.mu.Lock()
	x.qlog = append(x.qlog, q)
	x.mu.Unlock()
}

// drainedIn returns the state in which member m is first seen parked in its
// receive loop at a quiescent point after point q; -1 if never.
func (x *c14Exec) drainedIn(sched *c14Sched, m, q int) int {
	for j := q + 1; j < len(x.qlog); j++ {
		if x.qlog[j].modes[m] == c14ModeSel {
			k, ph := sched.at(x.qlog[j].h)
			if ph != 2 {
				return -1
			}
			return k
		}
	}
	return -1
}

func (x *c14Exec) newInj(how string, member, k int) *c14Inj {
	x.mu.Lock()
	x.nextID++
	in := &c14Inj{Q: len(x.qlog) - 1, ID: x.nextID, How: how, H: x.clk.Height(), Member: member, K: k, Handed: make([]int, len(x.members))}
	x.inj = append(x.inj, in)
	x.mu.Unlock()
	return in
}

func (x *c14Exec) injectFromInitiate(m *c14Member, k int) {
	in := x.newInj("initiate", m.idx, k)
	in.Handed[m.idx] = m.ch.inject(&c14Msg{in.ID})
}

func (x *c14Exec) injectAll(in *c14Inj) {
	for _, m := range x.members {
		if atomic.LoadInt32(&m.started) == 1 && atomic.LoadInt32(&m.done) == 0 {
			in.Handed[m.idx] = m.ch.inject(&c14Msg{in.ID})
		} else {
			in.Handed[m.idx] = -1 // not launched or finished: no expectation
		}
	}
}

func (x *c14Exec) liveCount() (live, unstarted int) {
	for _, m := range x.members {
		if atomic.LoadInt32(&m.started) == 0 {
			unstarted++
		} else if atomic.LoadInt32(&m.done) == 0 {
			live++
		}
	}
	return
}

// quiescent: every launched, unfinished member is parked on a future block,
// and the ones that are in their receive loop have drained what was handed.
func (x *c14Exec) quiescent() bool {
	live, _ := x.liveCount()
	if int64(live) != x.clk.Pending() {
		return false
	}
	for _, m := range x.members {
		if atomic.LoadInt32(&m.started) == 0 || atomic.LoadInt32(&m.done) == 1 {
			continue
		}
		switch atomic.LoadInt32(&m.bc.mode) {
		case c14ModeWait:
		case c14ModeSel:
			if atomic.LoadInt64(&m.ch.delivered) != atomic.LoadInt64(&m.processed) {
				return false
			}
		default:
			return false
		}
	}
	l2, _ := x.liveCount()
	return l2 == live
}

func (x *c14Exec) waitQuiescent(deadline time.Time) bool {
	for spins := 0; ; spins++ {
		if x.quiescent() {
			return true
		}
		if spins%64 == 63 {
			if time.Now().After(deadline) {
				return false
			}
			time.Sleep(20 * time.Microsecond)
		} else {
			runtime.Gosched()
		}
	}
}

func (x *c14Exec) launch(m *c14Member) {
	atomic.StoreInt32(&m.started, 1)
	sm := NewSyncMachine(&testutils.MockLogger{}, m.ch, m.bc, &c14State{m, 0})
	go func() {
		m.panicked = x.r.Guard("toy:", verifkit.JSON(x.c), func() {
			m.last, m.endBlock, m.err = sm.Execute(x.c.Start)
		})
		atomic.StoreInt32(&m.done, 1)
	}()
}

func (x *c14Exec) step(s string) { x.steps = append(x.steps, s) }

// run drives the execution; false = watchdog fired.
func (x *c14Exec) run(rng *rand.Rand) bool {
	deadline := time.Now().Add(60 * time.Second)
	budget := 30
	for {
		// launch members that are due
		h := x.clk.Height()
		for _, m := range x.members {
			if atomic.LoadInt32(&m.started) == 0 && x.c.Join[m.idx] <= h {
				x.launch(m)
				x.step(fmt.Sprintf("launch%d@%d", m.idx, h))
			}
		}
		if !x.waitQuiescent(deadline) {
			return false
		}
		x.notePoint()
		live, unstarted := x.liveCount()
		if live == 0 {
			if unstarted == 0 {
				return true
			}
			// nobody is running: move the clock to the next launch height
			next := ^uint64(0)
			for _, m := range x.members {
				if atomic.LoadInt32(&m.started) == 0 && x.c.Join[m.idx] < next {
					next = x.c.Join[m.idx]
				}
			}
			x.clk.Set(next, true)
			continue
		}
		u := rng.Intn(100)
		switch {
		case budget > 0 && u < x.c.PInj:
			budget--
			in := x.newInj("quiescent", -1, 0)
			x.injectAll(in)
			x.step(fmt.Sprintf("inj%d@%d", in.ID, in.H))
		case budget > 0 && u < x.c.PInj+x.c.PRace:
			budget--
			n := uint64(1 + rng.Intn(3))
			yields := rng.Intn(4)
			first := rng.Intn(2)
			in := x.newInj("racing", -1, 0)
			var wg sync.WaitGroup
			wg.Add(1)
			go func() {
				defer wg.Done()
				if first == 0 {
					for y := 0; y < yields; y++ {
						runtime.Gosched()
					}
				}
				x.injectAll(in)
			}()
			if first == 1 {
				for y := 0; y < yields; y++ {
					runtime.Gosched()
				}
			}
			x.clk.Advance(n)
			wg.Wait()
			atomic.AddInt64(&x.races, 1)
			if n > 1 {
				atomic.AddInt64(&x.bursts, 1)
			}
			if !x.waitQuiescent(deadline) {
				return false
			}
			x.notePoint()
			in.H2 = x.clk.Height()
			x.step(fmt.Sprintf("race%d@%d+%d", in.ID, in.H, n))
		case u >= x.c.PInj+x.c.PRace && u < x.c.PInj+x.c.PRace+x.c.PBurst:
			n := uint64(2 + rng.Intn(3))
			atomic.AddInt64(&x.bursts, 1)
			x.clk.Advance(n)
			x.step(fmt.Sprintf("burst%d", n))
		default:
			x.clk.Advance(1)
			x.step("+1")
		}
	}
}

// ---------------------------------------------------------------- oracle

func c14FP(r *verifkit.Run, x *c14Exec, fp, what string, wit interface{}) {
	r.Violation(fp, what, verifkit.JSON(x.c), map[string]interface{}{"detail": wit, "schedule": x.steps})
}

// firstParked returns the first state j >= k whose end-of-window waiter was
// registered for a block that was still in the future (the machine sat in its
// receive loop there), from the member's wait log; -1 when there is none.
func c14FirstParked(waits []verifkit.WaitRecord, k int) int {
	for j := k; 2+2*j < len(waits); j++ {
		w := waits[2+2*j]
		if w.Block > w.AtBlock {
			return j
		}
	}
	return -1
}

func (x *c14Exec) check(deterministic bool) {
	r, c := x.r, x.c
	sched := c14Nominal(c)
	n := len(c.States)
	allWaits := x.clk.WaitLog()
	var vectors [][]uint64
	for _, m := range x.members {
		if m.panicked {
			continue
		}
		who := fmt.Sprintf("member%d", m.idx)
		var waits []verifkit.WaitRecord
		for _, w := range allWaits {
			if w.Owner == who {
				waits = append(waits, w)
			}
		}
		// ---- outcome
		if m.err != nil {
			c14FP(r, x, "toy:execute-error", "Execute returned an error although no state fails: "+m.err.Error(), who)
			continue
		}
		want := c.Start + c.total()
		if m.endBlock != want {
			c14FP(r, x, "toy:end-block", fmt.Sprintf("Execute returned end block %d, start %d + total duration %d = %d", m.endBlock, c.Start, c.total(), want), who)
		}
		if ls, ok := m.last.(*c14State); !ok || ls.k != n-1 || ls.m != m {
			c14FP(r, x, "toy:final-state", "Execute did not return the last state of the chain", fmt.Sprintf("%T %+v", m.last, m.last))
		}
		// ---- the machine's block waits: start, then (initiate block, end block) per state
		expB := []uint64{c.Start}
		expK := []string{"wait"}
		for k := 0; k < n; k++ {
			expB = append(expB, sched.i[k], sched.f[k])
			expK = append(expK, "wait", "waiter")
		}
		m.bc.mu.Lock()
		kinds := append([]string(nil), m.bc.kinds...)
		m.bc.mu.Unlock()
		schedOK := len(waits) == len(expB) && len(kinds) == len(expK)
		for j := 0; j < len(expB) && j < len(waits) && j < len(kinds); j++ {
			if waits[j].Block != expB[j] || kinds[j] != expK[j] {
				schedOK = false
				fp := "toy:schedule:start-wait"
				what := "start"
				if j > 0 {
					if j%2 == 1 {
						fp, what = "toy:schedule:initiate-block", fmt.Sprintf("initiation of state %d (entered %d, delay %d)", (j-1)/2, sched.e[(j-1)/2], c.States[(j-1)/2].D)
					} else {
						fp, what = "toy:schedule:end-block", fmt.Sprintf("end of state %d (initiated %d, active %d)", (j-1)/2, sched.i[(j-1)/2], c.States[(j-1)/2].A)
					}
				}
				c14FP(r, x, fp, fmt.Sprintf("machine waited for block %d (%s) where the %s is block %d", waits[j].Block, kinds[j], what, expB[j]), map[string]interface{}{"member": who, "waits": waits, "expected": expB})
				break
			}
		}
		if !schedOK && len(waits) != len(expB) {
			c14FP(r, x, "toy:schedule:wait-count", fmt.Sprintf("machine registered %d block waits, expected %d", len(waits), len(expB)), map[string]interface{}{"member": who, "waits": waits, "expected": expB})
		}
		var v []uint64
		for _, w := range waits {
			v = append(v, w.Block)
		}
		vectors = append(vectors, v)

		// ---- call order: init-begin(k) init-end(k) recv(k)* next(k) for k = 0..n-1
		m.mu.Lock()
		ev := append([]c14Ev(nil), m.ev...)
		m.mu.Unlock()
		k, stage := 0, 0 // stage 0: expect init-begin, 1: expect init-end, 2: recv or next
		recvBy := map[int][]int{}
		orderOK := true
		hm := c.H0 // model clock for the deterministic modes
		if c.Join[m.idx] > hm {
			hm = c.Join[m.idx]
		}
		if c.Start > hm {
			hm = c.Start
		}
		for _, e := range ev {
			bad := ""
			switch e.Kind {
			case "init-begin":
				if stage != 0 || e.K != k {
					bad = "Initiate"
				} else {
					stage = 1
					if e.H < sched.i[k] {
						c14FP(r, x, "toy:early-initiate", fmt.Sprintf("Initiate of state %d ran at block %d, before entered+delay = %d", k, e.H, sched.i[k]), who)
					}
					if deterministic {
						if sched.i[k] > hm {
							hm = sched.i[k]
						}
						if e.H != hm {
							c14FP(r, x, "toy:initiate-block", fmt.Sprintf("Initiate of state %d ran at block %d, expected %d (blocks arrive one at a time, only when the machine is parked)", k, e.H, hm), who)
						}
					}
				}
			case "init-end":
				if stage != 1 || e.K != k {
					bad = "Initiate return"
				} else {
					stage = 2
					if deterministic {
						for _, a := range c.States[k].Acts {
							if a.Kind == "adv" {
								hm += uint64(a.N)
							}
						}
						if sched.f[k] > hm {
							hm = sched.f[k]
						}
					}
				}
			case "recv":
				if stage != 2 || e.K != k {
					bad = "Receive"
				}
				recvBy[e.Msg] = append(recvBy[e.Msg], e.K)
			case "next":
				if stage != 2 || e.K != k {
					bad = "Next"
				} else {
					if e.H < sched.f[k] {
						c14FP(r, x, "toy:early-next", fmt.Sprintf("state %d was left at block %d, before its end block %d", k, e.H, sched.f[k]), who)
					}
					if deterministic && e.H != hm {
						c14FP(r, x, "toy:next-block", fmt.Sprintf("state %d was left at block %d, expected %d", k, e.H, hm), who)
					}
					k++
					stage = 0
				}
			case "ctx-dead-in-initiate":
				c14FP(r, x, "toy:ctx-cancelled-before-initiate-returned", fmt.Sprintf("the context handed to Initiate of state %d was already cancelled before Initiate returned", e.K), who)
			}
			if bad != "" && orderOK {
				orderOK = false
				c14FP(r, x, "toy:order:"+bad, fmt.Sprintf("%s of state %d called while the machine should be in state %d (stage %d)", bad, e.K, k, stage), map[string]interface{}{"member": who, "events": ev})
			}
		}
		if orderOK && (k != n || stage != 0) {
			c14FP(r, x, "toy:order:incomplete", fmt.Sprintf("the chain was not run to its end: stopped in state %d stage %d", k, stage), map[string]interface{}{"member": who, "events": ev})
		}
		m.ch.mu.Lock()
		maxLive := m.ch.maxLive
		m.ch.mu.Unlock()
		if maxLive > 1 {
			r.Count("members_with_two_live_handlers", 1)
		}
		if !schedOK || !orderOK {
			continue
		}
		// ---- messages
		for _, in := range x.inj {
			if in.Member >= 0 && in.Member != m.idx {
				continue
			}
			handed := in.Handed[m.idx]
			got := recvBy[in.ID]
			if handed < 0 {
				continue
			}
			if handed > 1 {
				c14FP(r, x, "toy:msg:two-live-handlers", fmt.Sprintf("message %d was taken by %d live handlers of the same machine", in.ID, handed), map[string]interface{}{"member": who, "inj": in, "received_by": got})
			}
			if len(got) > 1 {
				c14FP(r, x, "toy:msg:received-twice", fmt.Sprintf("message %d reached Receive %d times (states %v)", in.ID, len(got), got), map[string]interface{}{"member": who, "inj": in})
				continue
			}
			if handed == 0 {
				if len(got) != 0 {
					c14FP(r, x, "toy:msg:phantom", fmt.Sprintf("message %d was not taken by any handler but reached state %v", in.ID, got), who)
				}
				if in.How != "racing" {
					c14FP(r, x, "toy:msg:no-handler-while-current", fmt.Sprintf("message %d delivered at block %d while the machine was parked found no live handler", in.ID, in.H), map[string]interface{}{"member": who, "inj": in})
				} else {
					r.Count("racing_messages_dropped_between_handlers", 1)
				}
				continue
			}
			lo, hi, must := 0, 0, true
			// upper bound: the state in which the machine is known to have
			// drained its buffer. With blocks arriving only when the machine
			// is parked that is the first state whose end-of-window waiter was
			// still in the future when registered; otherwise (bursts, other
			// members moving the clock) the first later quiescent point at
			// which the member sits in its receive loop.
			drained := func(k int) int {
				if deterministic {
					return c14FirstParked(waits, k)
				}
				return x.drainedIn(&sched, m.idx, in.Q)
			}
			switch in.How {
			case "initiate":
				lo = in.K
				hi = drained(lo)
			case "quiescent":
				kk, ph := sched.at(in.H)
				lo = kk
				if ph == 2 {
					hi = kk
				} else if ph == 3 {
					hi = -1
				} else {
					hi = drained(lo)
				}
			case "racing":
				kk, _ := sched.at(in.H)
				lo = kk
				hi = x.drainedIn(&sched, m.idx, in.Q)
			}
			if hi < 0 {
				hi, must = n-1, false
			}
			if len(got) == 0 {
				if must {
					c14FP(r, x, "toy:msg:lost:"+in.How, fmt.Sprintf("message %d (%s, block %d) was handed to the machine while state %d was current and never reached a state although the machine drained its buffer in state %d", in.ID, in.How, in.H, lo, hi), map[string]interface{}{"member": who, "inj": in})
				}
				continue
			}
			if got[0] < lo || got[0] > hi {
				c14FP(r, x, "toy:msg:wrong-state:"+in.How, fmt.Sprintf("message %d (%s at block %d) reached state %d; states that were current when it arrived and until the buffer was drained: %d..%d", in.ID, in.How, in.H, got[0], lo, hi), map[string]interface{}{"member": who, "inj": in, "sched": map[string]interface{}{"entered": sched.e, "initiated": sched.i, "ended": sched.f}})
			} else if got[0] != lo {
				r.Count("messages_spilled_to_later_state", 1)
			}
			r.Count("messages_checked", 1)
		}
	}
	for j := 1; j < len(vectors); j++ {
		if fmt.Sprint(vectors[j]) != fmt.Sprint(vectors[0]) {
			c14FP(r, x, "toy:members-differ", "members started for the same block moved through phases at different blocks", vectors)
			break
		}
	}
}

// ---------------------------------------------------------------- generation

func c14Gen(rng *rand.Rand, i int) *c14Case {
	c := &c14Case{Index: i}
	switch i % 4 {
	case 0:
		c.Mode = "step"
	case 1:
		c.Mode = "initburst"
	default:
		c.Mode = "ctlburst"
	}
	n := 3 + rng.Intn(6)
	for k := 0; k < n; k++ {
		st := c14StateCfg{D: uint64(rng.Intn(4)), A: uint64(rng.Intn(4))}
		if rng.Intn(4) == 0 { // silent state
			st.D, st.A = 0, 0
		}
		if rng.Intn(3) == 0 {
			st.Acts = append(st.Acts, c14Act{"inj", 1 + rng.Intn(3)})
		}
		if c.Mode != "step" && rng.Intn(3) == 0 {
			st.Acts = append(st.Acts, c14Act{"adv", 1 + rng.Intn(4)})
			if rng.Intn(2) == 0 {
				st.Acts = append(st.Acts, c14Act{"inj", 1})
			}
		}
		c.States = append(c.States, st)
	}
	c.H0 = uint64(rng.Intn(20))
	switch rng.Intn(5) {
	case 0: // start block already passed
		c.Start = c.H0 - uint64(rng.Intn(int(c.H0)+1))
		if c.H0 > 0 && c.Start == c.H0 && rng.Intn(2) == 0 {
			c.Start = c.H0 - 1
		}
	case 1:
		c.Start = c.H0
	default:
		c.Start = c.H0 + 1 + uint64(rng.Intn(4))
	}
	c.Members = 1
	if c.Mode == "ctlburst" && i%8 >= 4 {
		c.Members = 2 + rng.Intn(3)
	}
	c.Join = make([]uint64, c.Members)
	for m := 1; m < c.Members; m++ {
		if rng.Intn(3) == 0 { // a late member
			c.Join[m] = c.H0 + uint64(rng.Intn(6))
		}
	}
	c.PInj = 20 + rng.Intn(40)
	if c.Mode == "ctlburst" {
		c.PRace = 10 + rng.Intn(25)
		c.PBurst = rng.Intn(15)
	}
	return c
}

func c14RunCases(r *verifkit.Run, stream string, n int) {
	var wd int64
	verifkit.Parallel(n, 0, func(i int) {
		rng := r.SubRand(stream, i)
		c := c14Gen(rng, i)
		x := &c14Exec{r: r, c: c, clk: verifkit.NewClock(c.H0)}
		for m := 0; m < c.Members; m++ {
			mem := &c14Member{idx: m, x: x, ch: &c14Chan{}}
			mem.bc = &c14BC{v: x.clk.View(fmt.Sprintf("member%d", m))}
			x.members = append(x.members, mem)
		}
		if !x.run(rng) {
			if atomic.AddInt64(&wd, 1) <= 3 {
				r.Inconclusive("watchdog: toy execution did not reach quiescence within 60 s: " + verifkit.JSON(c))
			}
			return
		}
		zero := false
		for _, s := range c.States {
			if s.D+s.A == 0 {
				zero = true
			}
		}
		passed := c.Start < c.H0
		nontrivial := zero || atomic.LoadInt64(&x.bursts) > 0 || atomic.LoadInt64(&x.races) > 0 || passed
		r.Case(verifkit.JSON(c), nontrivial)
		r.Count("messages_injected", int64(len(x.inj)))
		r.Count("bursts", atomic.LoadInt64(&x.bursts))
		r.Count("boundary_races", atomic.LoadInt64(&x.races))
		if zero {
			r.Count("cases_with_zero_length_state", 1)
		}
		if passed {
			r.Count("cases_start_block_already_passed", 1)
		}
		if c.Members > 1 {
			r.Count("multi_member_cases", 1)
		}
		deterministic := c.Members == 1 && c.Mode != "ctlburst"
		x.check(deterministic)
		r.SampleAt(i, n, func() interface{} {
			return map[string]interface{}{"case": c, "schedule": x.steps, "end_block": x.members[0].endBlock}
		})
	})
}

const c14Rule = "toy chains of 3-8 states with (delay, active) drawn from {0..3}^2 and silent (0,0) states, run by the real SyncMachine on the virtual clock; start block ahead of, at, or behind the clock; blocks arrive one at a time at quiescence (step), jump inside Initiate (initburst), or in bursts and racing against deliveries with 1-4 members, some launched late (ctlburst); messages handed during delay, Initiate, active window, and concurrently with a block. non-trivial = the execution had a zero-length state, a jump of >= 2 blocks, a delivery racing a block, or a start block already passed"

func TestVerif_C14_Toy(t *testing.T) {
	r := verifkit.Start(t, "C14", "toy")
	defer r.Finish()
	r.SetRule(c14Rule)
	r.Assume("the virtual block counter emits the requested block number from a height waiter, as keep-core's local_v1 and ethereum block counters do")
	c14RunCases(r, "toy", r.N(600, 30000))
}

// The same workload under the race detector (side channel).
func TestVerif_C14_ToyRace(t *testing.T) {
	r := verifkit.Start(t, "C14", "toy-race")
	defer r.Finish()
	r.SetRule(c14Rule + " (race-detector pass)")
	for rep := 0; rep < r.N(3, 10); rep++ {
		c14RunCases(r, fmt.Sprintf("toyrace%d", rep), r.N(80, 600))
	}
}
