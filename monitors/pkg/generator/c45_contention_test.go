//go:build verif

package generator

// C45: what the latch answers while other executions enter and leave it. One
// execution holds the latch for the whole run, so "is a protocol executing"
// is true at every instant; goroutines hammer nested Lock/Unlock on top of
// it. Every answer, and every check of a scheduler watching the latch, must
// say "executing".

import (
	"context"
	"fmt"
	"sync"
	"sync/atomic"
	"testing"

	"github.com/keep-network/keep-core/internal/verifkit"
)

func TestVerif_C45_AnswerUnderContention(t *testing.T) {
	r := verifkit.Start(t, "C45", "answer-under-contention")
	defer r.Finish()
	r.SetRule("per trial: one execution holds a real ProtocolLatch from before the first to after the last observation; 2-8 goroutines run 200-2000 nested Lock/Unlock pairs each on the same latch; concurrently IsExecuting is asked 2000-20000 times and a scheduler with one worker runs checkProtocols 200-2000 times. Every IsExecuting answer must be true, and from the first completed check on the worker must never be invoked with a live context. Non-trivial: always (the answers are taken while Lock/Unlock calls are in progress).")
	n := r.N(60, 1500)
	var asked, wrong int64
	verifkit.Parallel(n, 4, func(i int) {
		rng := r.SubRand("trial", i)
		nG := 2 + rng.Intn(7)
		pairs := 200 + rng.Intn(1801)
		asks := 2000 + rng.Intn(18001)
		checks := 200 + rng.Intn(1801)
		desc := fmt.Sprintf("trial#%d hammering-goroutines=%d pairs=%d asks=%d checks=%d", i, nG, pairs, asks, checks)
		latch := NewProtocolLatch()
		s := &Scheduler{}
		s.RegisterProtocol(latch)
		latch.Lock() // the execution that lasts for the whole trial
		var armed int32
		var leaked int64
		s.compute(func(ctx context.Context) {
			if atomic.LoadInt32(&armed) == 1 && ctx.Err() == nil && atomic.LoadInt32(&armed) == 1 {
				atomic.AddInt64(&leaked, 1)
			}
		})
		s.checkProtocols()
		atomic.StoreInt32(&armed, 1)
		var wg sync.WaitGroup
		start := make(chan struct{})
		for g := 0; g < nG; g++ {
			wg.Add(1)
			go func() {
				defer wg.Done()
				<-start
				for k := 0; k < pairs; k++ {
					latch.Lock()
					latch.Unlock()
				}
			}()
		}
		var falseAnswers int64
		wg.Add(2)
		go func() {
			defer wg.Done()
			<-start
			for k := 0; k < asks; k++ {
				if !latch.IsExecuting() {
					atomic.AddInt64(&falseAnswers, 1)
				}
			}
		}()
		go func() {
			defer wg.Done()
			<-start
			for k := 0; k < checks; k++ {
				s.checkProtocols()
			}
		}()
		close(start)
		wg.Wait()
		s.checkProtocols()
		atomic.StoreInt32(&armed, 0)
		latch.Unlock()
		s.stop()
		r.Case(desc, true)
		atomic.AddInt64(&asked, int64(asks))
		if f := atomic.LoadInt64(&falseAnswers); f > 0 {
			atomic.AddInt64(&wrong, f)
			r.Violation("latch:not-executing-answer-while-held", fmt.Sprintf("IsExecuting answered false %d times while an execution held the latch for the whole trial", f), desc, nil)
		}
		if l := atomic.LoadInt64(&leaked); l > 0 {
			r.Violation("compute:generation-while-protocol-executes", fmt.Sprintf("the worker was invoked %d times with a live context while an execution held the latch and a check had completed", l), desc, nil)
		}
	})
	r.Count("is_executing_answers", asked)
}
