//go:build verif

package generator

// C39: a restart on a store that already holds records, with a generator
// that produces at once, and a storage whose Delete is idempotent (it does
// not complain about a record that is already gone - the storage cannot be
// relied upon to mask a double hand-out). Whatever the interleaving of the
// loading of stored records and the generation worker, the pool construction
// must complete, no parameter may be handed out twice, and the pool never
// holds more than its size.

import (
	"context"
	"fmt"
	"runtime"
	"strings"
	"sync"
	"sync/atomic"
	"testing"
	"time"

	"github.com/keep-network/keep-core/internal/verifkit"
)

type c39fStore struct {
	mu      sync.Mutex
	records map[string]*c39Param
	next    int64
	slow    time.Duration
}

func (s *c39fStore) Save(p *c39Param) (*Persisted[c39Param], error) {
	s.mu.Lock()
	defer s.mu.Unlock()
	id := fmt.Sprintf("rec-%d", p.ID)
	cp := *p
	s.records[id] = &cp
	return &Persisted[c39Param]{Data: *p, ID: id}, nil
}
func (s *c39fStore) Delete(p *Persisted[c39Param]) error {
	s.mu.Lock()
	defer s.mu.Unlock()
	delete(s.records, p.ID)
	return nil
}
func (s *c39fStore) ReadAll() ([]*Persisted[c39Param], error) {
	if s.slow > 0 {
		time.Sleep(s.slow) // a slow directory listing widens the window; decides nothing
	}
	s.mu.Lock()
	defer s.mu.Unlock()
	var out []*Persisted[c39Param]
	for id, p := range s.records {
		out = append(out, &Persisted[c39Param]{Data: *p, ID: id})
	}
	return out, nil
}

func c39fBlockedInConstruction() bool {
	buf := make([]byte, 4<<20)
	n := runtime.Stack(buf, true)
	for _, blk := range strings.Split(string(buf[:n]), "\n\n") {
		if strings.Contains(blk, "generator.NewParameterPool") && strings.Contains(strings.SplitN(blk, "\n", 2)[0], "[chan send") {
			return true
		}
	}
	return false
}

func TestVerif_C39_RestartWithFastGenerator(t *testing.T) {
	r := verifkit.Start(t, "C39", "restart_fast_generator")
	defer r.Finish()
	r.SetRule("a store holding 0..size+3 records, pool size 2-6, a generator that returns a fresh parameter at once, a storage with an idempotent Delete and a ReadAll that takes 0-3 ms; NewParameterPool is started on it (the restart), must return, and after the worker has been stopped the pool is drained with GetNow. No parameter may come out twice, none that was never stored or generated, and the pool never holds more than its size. A construction that has not returned after 20 s is a violation only if two goroutine dumps 500 ms apart show NewParameterPool blocked on a channel send (a full pool that nobody drains), otherwise inconclusive. Non-trivial: the store held at least one record at the restart.")
	n := r.N(150, 3000)
	var handed, preloaded int64
	blocked := 0
	for ci := 0; ci < n && blocked < 2; ci++ {
		rng := r.SubRand("restart", ci)
		size := 2 + rng.Intn(5)
		stored := rng.Intn(size + 4)
		store := &c39fStore{records: map[string]*c39Param{}, slow: time.Duration(rng.Intn(4)) * time.Millisecond}
		for k := 0; k < stored; k++ {
			id := 1000 + k
			store.records[fmt.Sprintf("rec-%d", id)] = &c39Param{ID: id, Sum: c39Sum(id)}
		}
		desc := fmt.Sprintf("restart#%d size=%d stored=%d slow-readall=%v", ci, size, stored, store.slow)
		var gen int64
		sch := &Scheduler{}
		var pool *ParameterPool[c39Param]
		done := make(chan struct{})
		go func() {
			defer close(done)
			r.Guard("restart-fast:", desc, func() {
				pool = NewParameterPool[c39Param](&c39Logger{}, sch, store, size, func(ctx context.Context) *c39Param {
					id := int(atomic.AddInt64(&gen, 1))
					return &c39Param{ID: id, Sum: c39Sum(id)}
				}, 0)
			})
		}()
		select {
		case <-done:
		case <-time.After(20 * time.Second):
			b1 := c39fBlockedInConstruction()
			time.Sleep(500 * time.Millisecond)
			b2 := c39fBlockedInConstruction()
			r.Case(desc, stored > 0)
			if b1 && b2 {
				blocked++
				r.Violation("restart:construction-blocked-on-full-pool", "NewParameterPool did not return: it is blocked sending a stored record to a pool that is already full", desc, nil)
			} else {
				blocked++
				r.Inconclusive("watchdog: NewParameterPool did not return: " + desc)
			}
			sch.stop()
			continue
		}
		if pool == nil {
			continue
		}
		time.Sleep(time.Duration(rng.Intn(3)) * time.Millisecond) // lets the worker fill the pool; decides nothing
		sch.stop()
		if c := pool.ParametersCount(); c > size {
			r.Violation("pool:over-capacity", fmt.Sprintf("the pool holds %d parameters, its size is %d", c, size), desc, nil)
		}
		seen := map[int]int{}
		for k := 0; k < size+stored+8; k++ {
			var p *c39Param
			var err error
			if r.Guard("restart-fast:", desc, func() { p, err = pool.GetNow() }) {
				break
			}
			if err != nil || p == nil {
				break
			}
			seen[p.ID]++
			if p.Sum != c39Sum(p.ID) {
				r.Violation("pool:handed-out-invalid", "a parameter that was never stored or generated was handed out", desc, nil)
			}
		}
		r.Case(desc, stored > 0)
		atomic.AddInt64(&preloaded, int64(stored))
		for id, c := range seen {
			atomic.AddInt64(&handed, int64(c))
			if c > 1 {
				r.Violation("pool:handed-out-twice", fmt.Sprintf("parameter %d was handed out %d times after a restart with a fast generator", id, c), desc, nil)
			}
		}
	}
	r.Count("parameters_handed_out", handed)
	r.Count("records_in_store_at_restart", preloaded)
}
