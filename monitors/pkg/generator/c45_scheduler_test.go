//go:build verif

package generator

import (
	"context"
	"fmt"
	"runtime"
	"sort"
	"strings"
	"sync"
	"sync/atomic"
	"testing"
	"time"

	"github.com/keep-network/keep-core/internal/verifkit"
)

// ---------------------------------------------------------------------------
// Observation harness (oracle passes; not used by the race pass).
// ---------------------------------------------------------------------------

// c45Inv is one invocation of a worker function by a scheduler loop.
type c45Inv struct {
	worker      int
	ctx         context.Context
	begin       int64 // stamp taken on entry, before reading ctx.Err()
	liveAtBegin bool
}

// c45Proto wraps a real ProtocolLatch and records what the scheduler saw.
type c45Proto struct {
	h     *c45Harness
	idx   int
	latch *ProtocolLatch
}

type c45Query struct {
	latch    int
	call     int64
	ret      int64
	result   bool
	modelCnt int // sequential mode: model counter at the time of the query
}

func (p *c45Proto) IsExecuting() bool {
	a := p.h.log.Stamp()
	res := p.latch.IsExecuting()
	b := p.h.log.Stamp()
	// only the single checker goroutine calls this (under protocolsMutex)
	p.h.curQueries = append(p.h.curQueries, c45Query{latch: p.idx, call: a, ret: b, result: res})
	return res
}

type c45Check struct {
	call, ret int64
	queries   []c45Query
	saw       bool // at least one protocol reported executing
}

type c45Harness struct {
	r     *verifkit.Run
	desc  string
	log   verifkit.EventLog
	s     *Scheduler
	latch []*ProtocolLatch

	mu       sync.Mutex
	inflight map[*c45Inv]struct{}
	begins   []*c45Inv // every invocation that began with a live context
	nInv     int64
	tokens   []chan struct{}
	spin     []int // >0: worker returns after that many yields instead of waiting for a token
	invCap   int64

	curQueries []c45Query
	checks     []c45Check
	viol       int32
}

func (h *c45Harness) violation(fp, what string, wit interface{}) {
	atomic.AddInt32(&h.viol, 1)
	h.r.Violation(fp, what, h.desc, wit)
}

// worker returns the worker function number w.
func (h *c45Harness) worker(w int) func(context.Context) {
	return func(ctx context.Context) {
		s := h.log.Stamp()
		live := ctx.Err() == nil
		inv := &c45Inv{worker: w, ctx: ctx, begin: s, liveAtBegin: live}
		h.mu.Lock()
		h.nInv++
		n := h.nInv
		if live {
			// two loops of one worker, both with a non-cancelled context
			for o := range h.inflight {
				if o.worker == w && o.ctx != ctx && o.ctx.Err() == nil && ctx.Err() == nil {
					h.mu.Unlock()
					h.violation("worker:two-live-loops", fmt.Sprintf("worker %d is being run by two loops whose contexts are both not cancelled", w), nil)
					h.mu.Lock()
					break
				}
			}
			h.begins = append(h.begins, inv)
		}
		h.inflight[inv] = struct{}{}
		spin := h.spin[w]
		tok := h.tokens[w]
		h.mu.Unlock()

		if spin > 0 && n < h.invCap {
			for i := 0; i < spin && ctx.Err() == nil; i++ {
				runtime.Gosched()
			}
		} else {
			select {
			case <-ctx.Done():
			case <-tok:
			}
		}
		h.mu.Lock()
		delete(h.inflight, inv)
		h.mu.Unlock()
	}
}

// liveLoops returns, per worker, the number of distinct non-cancelled
// contexts among the in-flight invocations.
func (h *c45Harness) liveLoops(nWorkers int) []int {
	out := make([]int, nWorkers)
	seen := map[context.Context]bool{}
	h.mu.Lock()
	for o := range h.inflight {
		if o.ctx.Err() == nil && !seen[o.ctx] {
			seen[o.ctx] = true
			out[o.worker]++
		}
	}
	h.mu.Unlock()
	return out
}

var c45SlowResume int32 // after a few missed resumes stop waiting long (mutant runs)

// check runs the real checkProtocols and applies the rules that can be
// decided at its return. nWorkers = workers registered before the call.
func (h *c45Harness) check(nWorkers int) c45Check {
	h.curQueries = nil
	c := c45Check{call: h.log.Stamp()}
	h.s.checkProtocols()
	c.ret = h.log.Stamp()
	c.queries = h.curQueries
	for _, q := range c.queries {
		if q.result {
			c.saw = true
		}
	}
	h.checks = append(h.checks, c)
	if len(c.queries) == 0 {
		return c // no protocol registered: the scheduler keeps its state
	}
	if c.saw {
		// all background work is stopped: every invocation in flight now was
		// started from a context created before this check returned, and the
		// next resume can only come from the next check
		h.mu.Lock()
		var bad []int
		for o := range h.inflight {
			if o.ctx.Err() == nil {
				bad = append(bad, o.worker)
			}
		}
		h.mu.Unlock()
		if len(bad) > 0 {
			sort.Ints(bad)
			h.violation("stop:work-continues", fmt.Sprintf("a scheduler check saw an executing protocol, yet after it returned workers %v still run with a non-cancelled context", bad), c.queries)
		}
		return c
	}
	// no protocol executing: every registered worker gets (or keeps) exactly one live loop
	deadline := 3 * time.Second
	if atomic.LoadInt32(&c45SlowResume) >= 3 {
		deadline = 30 * time.Millisecond
	}
	start := time.Now()
	for spins := 0; ; spins++ {
		ll := h.liveLoops(nWorkers)
		missing := -1
		for w, n := range ll {
			if n == 0 {
				missing = w
			}
			if n > 1 {
				h.violation("worker:two-live-loops", fmt.Sprintf("worker %d has %d loops with a non-cancelled context", w, n), nil)
				return c
			}
		}
		if missing < 0 {
			return c
		}
		if time.Since(start) > deadline {
			// decide by the scheduler's own state, not by the clock
			h.s.workMutex.Lock()
			st, nStops, nW := h.s.state, len(h.s.stops), len(h.s.workers)
			h.s.workMutex.Unlock()
			if st != working || nStops < nW {
				atomic.AddInt32(&c45SlowResume, 1)
				h.violation("resume:not-resumed", fmt.Sprintf("a scheduler check saw no executing protocol but worker %d has no running loop (scheduler state=%d, %d loops for %d workers)", missing, st, nStops, nW), c.queries)
			} else {
				h.r.Inconclusive(fmt.Sprintf("worker %d loop not observed within the watchdog after a resume (scheduler state says working): %s", missing, h.desc))
			}
			return c
		}
		if spins < 200 {
			runtime.Gosched()
		} else {
			time.Sleep(20 * time.Microsecond)
		}
	}
}

// windows applies the stamp rule: an invocation that begins after a check
// that saw an executing protocol has returned and before the next check is
// called must have a cancelled context at its begin.
func (h *c45Harness) windows() {
	h.mu.Lock()
	begins := append([]*c45Inv(nil), h.begins...)
	h.mu.Unlock()
	for i, c := range h.checks {
		if !c.saw {
			continue
		}
		next := int64(1) << 62
		if i+1 < len(h.checks) {
			next = h.checks[i+1].call
		}
		for _, b := range begins {
			if b.begin > c.ret && b.begin < next {
				h.violation("stop:work-starts", fmt.Sprintf("worker %d began an iteration with a non-cancelled context after a check that saw an executing protocol had returned (before the next check)", b.worker), c.queries)
				return
			}
		}
	}
}

func c45NewHarness(r *verifkit.Run, desc string, nLatch, nWorkers int, spin []int) *c45Harness {
	h := &c45Harness{r: r, desc: desc, s: &Scheduler{}, inflight: map[*c45Inv]struct{}{}, invCap: 400}
	for i := 0; i < nLatch; i++ {
		l := NewProtocolLatch()
		h.latch = append(h.latch, l)
		h.s.RegisterProtocol(&c45Proto{h: h, idx: i, latch: l})
	}
	h.spin = spin
	for w := 0; w < len(spin); w++ {
		h.tokens = append(h.tokens, make(chan struct{}, 256))
	}
	for w := 0; w < nWorkers; w++ {
		h.s.compute(h.worker(w))
	}
	return h
}

func (h *c45Harness) tick(w int) {
	select {
	case h.tokens[w] <- struct{}{}:
	default:
	}
}

// ---------------------------------------------------------------------------
// Part 1: sequential scripts (every step completes before the next one).
// ---------------------------------------------------------------------------

func TestVerif_C45_Script(t *testing.T) {
	r := verifkit.Start(t, "C45", "script")
	defer r.Finish()
	r.SetRule("PRNG scripts of 20-50 steps over 1-3 real latches and 1-4 workers (token-paced or self-returning): lock / unlock (nesting depth up to 4 per latch, several latches held at once) / real checkProtocols / worker tick / late compute of a further worker; model counter per latch; non-trivial = at least one check executed while some latch was locked >= 2 times and a worker loop was running with a live context")
	n := r.N(1500, 22000)
	verifkit.Parallel(n, 0, func(i int) {
		rng := r.SubRand("script", i)
		nLatch := 1 + rng.Intn(3)
		if rng.Intn(12) == 0 {
			nLatch = 0
		}
		nW := 1 + rng.Intn(4)
		late := 0
		if rng.Intn(3) == 0 {
			late = 1 + rng.Intn(2)
		}
		spin := make([]int, nW+late)
		for w := range spin {
			if rng.Intn(3) == 0 {
				spin[w] = 1 + rng.Intn(4)
			}
		}
		steps := 20 + rng.Intn(26)
		var script []string
		// build the script against the model so that unlocks are always legal
		cnt := make([]int, nLatch)
		added := 0
		for len(script) < steps {
			x := rng.Intn(100)
			idle := true
			for _, c := range cnt {
				if c > 0 {
					idle = false
				}
			}
			if idle && nLatch > 0 && rng.Intn(5) == 0 {
				// motif: resume, let the workers run, lock the same latch twice
				// (and maybe another one), check while nested
				l := rng.Intn(nLatch)
				script = append(script, "C", fmt.Sprintf("T%d", rng.Intn(nW+added)), fmt.Sprintf("L%d", l), fmt.Sprintf("L%d", l))
				cnt[l] += 2
				if nLatch > 1 && rng.Intn(2) == 0 {
					m := rng.Intn(nLatch)
					if cnt[m] < 4 {
						script = append(script, fmt.Sprintf("L%d", m))
						cnt[m]++
					}
				}
				script = append(script, "C")
				continue
			}
			switch {
			case x < 26 && nLatch > 0:
				l := rng.Intn(nLatch)
				if cnt[l] < 4 {
					cnt[l]++
					script = append(script, fmt.Sprintf("L%d", l))
				}
			case x < 50 && nLatch > 0:
				l := rng.Intn(nLatch)
				if cnt[l] > 0 {
					cnt[l]--
					script = append(script, fmt.Sprintf("U%d", l))
				}
			case x < 80:
				script = append(script, "C")
			case x < 95:
				script = append(script, fmt.Sprintf("T%d", rng.Intn(nW+added)))
			default:
				if added < late {
					script = append(script, "W")
					added++
				}
			}
		}
		// drain: unlock everything and check once more (must resume)
		for l := range cnt {
			for ; cnt[l] > 0; cnt[l]-- {
				script = append(script, fmt.Sprintf("U%d", l))
			}
		}
		script = append(script, "C")
		desc := fmt.Sprintf("script latches=%d workers=%d spin=%v steps=%s", nLatch, nW, spin, strings.Join(script, " "))

		h := c45NewHarness(r, desc, nLatch, nW, spin)
		defer h.s.stop()
		model := make([]int, nLatch)
		workers := nW
		nontrivial := false
		checksWhileLocked, checksIdle := 0, 0
		panicked := r.Guard("script:", desc, func() {
			for _, st := range script {
				if atomic.LoadInt32(&h.viol) > 0 {
					return
				}
				var k int
				switch st[0] {
				case 'L':
					fmt.Sscanf(st[1:], "%d", &k)
					h.latch[k].Lock()
					model[k]++
				case 'U':
					fmt.Sscanf(st[1:], "%d", &k)
					h.latch[k].Unlock()
					model[k]--
				case 'T':
					fmt.Sscanf(st[1:], "%d", &k)
					h.tick(k)
				case 'W':
					h.s.compute(h.worker(workers))
					workers++
				case 'C':
					nested, any := false, false
					for _, m := range model {
						if m >= 2 {
							nested = true
						}
						if m > 0 {
							any = true
						}
					}
					running := false
					for _, n := range h.liveLoops(workers) {
						if n > 0 {
							running = true
						}
					}
					c := h.check(workers)
					if nested && running {
						nontrivial = true
					}
					if any {
						checksWhileLocked++
					} else {
						checksIdle++
					}
					// latch oracle, exact in a sequential script
					for _, q := range c.queries {
						want := model[q.latch] > 0
						if q.result != want {
							fp := "latch:reports-idle-while-locked"
							if q.result {
								fp = "latch:reports-executing-while-unlocked"
							}
							h.violation(fp, fmt.Sprintf("latch %d: IsExecuting()=%v with %d more Lock than Unlock calls", q.latch, q.result, model[q.latch]), nil)
						}
					}
					if nLatch > 0 && c.saw != any {
						h.violation("check:verdict", fmt.Sprintf("check saw executing=%v, locks outstanding per latch=%v", c.saw, model), c.queries)
					}
				}
			}
		})
		_ = panicked
		h.windows()
		r.Case(desc, nontrivial)
		r.Count("checks_while_locked", int64(checksWhileLocked))
		r.Count("checks_idle", int64(checksIdle))
		h.mu.Lock()
		r.Count("worker_iterations", h.nInv)
		h.mu.Unlock()
		if i%97 == 0 {
			r.Sample(map[string]interface{}{"latches": nLatch, "workers": nW, "late_workers": late, "self_returning": spin, "script": strings.Join(script, " "), "nontrivial": nontrivial})
		}
	})
}

// ---------------------------------------------------------------------------
// Part 2: concurrent protocols (oracle pass with stamps).
// ---------------------------------------------------------------------------

type c45Op struct {
	latch     int
	lock      bool
	call, ret int64
}

// c45ProtoScript is a balanced, properly nested lock/unlock sequence for one
// goroutine; pauses[i] yields after op i.
func c45ProtoScript(rng interface{ Intn(int) int }, nLatch, maxOps int) (ops []c45Op, pauses []int) {
	var stack []int
	for len(ops) < maxOps {
		if len(stack) > 0 && (len(stack) >= 4 || rng.Intn(2) == 0) {
			l := stack[len(stack)-1]
			stack = stack[:len(stack)-1]
			ops = append(ops, c45Op{latch: l, lock: false})
		} else {
			l := rng.Intn(nLatch)
			stack = append(stack, l)
			ops = append(ops, c45Op{latch: l, lock: true})
		}
		pauses = append(pauses, rng.Intn(4))
	}
	for len(stack) > 0 {
		l := stack[len(stack)-1]
		stack = stack[:len(stack)-1]
		ops = append(ops, c45Op{latch: l, lock: false})
		pauses = append(pauses, rng.Intn(2))
	}
	return
}

func TestVerif_C45_Concurrent(t *testing.T) {
	r := verifkit.Start(t, "C45", "concurrent")
	defer r.Finish()
	r.SetRule("2-8 goroutines run PRNG nested lock/unlock sequences over 1-3 real latches (each waits for the checker to advance at PRNG points), one checker goroutine runs the real checkProtocols 12-30 times, 1-4 workers; latch answers checked against the interval of possible counter values from call/return stamps; non-trivial = a check whose latch query was certainly made under >= 2 outstanding locks while a worker loop ran with a live context")
	n := r.N(500, 8000)
	verifkit.Parallel(n, 0, func(i int) {
		rng := r.SubRand("conc", i)
		nLatch := 1 + rng.Intn(3)
		nW := 1 + rng.Intn(4)
		nG := 2 + rng.Intn(7)
		nChecks := 12 + rng.Intn(19)
		spin := make([]int, nW)
		for w := range spin {
			if rng.Intn(2) == 0 {
				spin[w] = 1 + rng.Intn(3)
			}
		}
		scripts := make([][]c45Op, nG)
		pauses := make([][]int, nG)
		var sb strings.Builder
		for g := 0; g < nG; g++ {
			scripts[g], pauses[g] = c45ProtoScript(rng, nLatch, 4+rng.Intn(10))
			sb.WriteString(fmt.Sprintf(" g%d:", g))
			for k, o := range scripts[g] {
				if o.lock {
					sb.WriteString(fmt.Sprintf("L%d", o.latch))
				} else {
					sb.WriteString(fmt.Sprintf("U%d", o.latch))
				}
				if pauses[g][k] > 0 {
					sb.WriteString(fmt.Sprintf("+%d", pauses[g][k]))
				}
			}
		}
		desc := fmt.Sprintf("concurrent latches=%d workers=%d spin=%v checks=%d%s", nLatch, nW, spin, nChecks, sb.String())
		h := c45NewHarness(r, desc, nLatch, nW, spin)
		defer h.s.stop()
		var checksDone int64
		var done int32
		var wg sync.WaitGroup
		for g := 0; g < nG; g++ {
			wg.Add(1)
			go func(g int) {
				defer wg.Done()
				defer func() {
					if p := recover(); p != nil {
						h.violation("latch:panic", fmt.Sprintf("Lock/Unlock panicked in a properly nested sequence: %v", p), nil)
					}
				}()
				ops := scripts[g]
				for k := range ops {
					ops[k].call = h.log.Stamp()
					if ops[k].lock {
						h.latch[ops[k].latch].Lock()
					} else {
						h.latch[ops[k].latch].Unlock()
					}
					ops[k].ret = h.log.Stamp()
					// hold the state across `pause` checks (bounded: gives up when
					// the checker has finished)
					target := atomic.LoadInt64(&checksDone) + int64(pauses[g][k])
					for atomic.LoadInt64(&checksDone) < target && atomic.LoadInt32(&done) == 0 {
						runtime.Gosched()
					}
				}
			}(g)
		}
		runningAt := make([]bool, 0, nChecks+1)
		panicked := false
		var cwg sync.WaitGroup
		cwg.Add(1)
		go func() {
			defer cwg.Done()
			panicked = r.Guard("concurrent:", desc, func() {
				for c := 0; c < nChecks; c++ {
					running := false
					for _, n := range h.liveLoops(nW) {
						if n > 0 {
							running = true
						}
					}
					runningAt = append(runningAt, running)
					h.check(nW)
					atomic.AddInt64(&checksDone, 1)
					for w := 0; w < nW; w++ {
						if rng.Intn(3) == 0 {
							h.tick(w)
						}
					}
					runtime.Gosched()
				}
			})
			atomic.StoreInt32(&done, 1)
		}()
		cwg.Wait()
		wg.Wait()
		if panicked {
			r.Case(desc, true)
			return
		}
		// everything is unlocked now: the final check must see nothing and resume
		final := h.check(nW)
		if final.saw {
			h.violation("latch:reports-executing-while-unlocked", "every Lock was matched by a returned Unlock, yet a latch reports executing", final.queries)
		}
		h.windows()
		// latch interval oracle
		var all []c45Op
		for g := range scripts {
			all = append(all, scripts[g]...)
		}
		nontrivial := false
		for ci, c := range h.checks {
			for _, q := range c.queries {
				lo, hi := 0, 0
				for _, o := range all {
					if o.latch != q.latch {
						continue
					}
					if o.lock {
						if o.ret != 0 && o.ret < q.call {
							lo++
						}
						if o.call != 0 && o.call < q.ret {
							hi++
						}
					} else {
						if o.call != 0 && o.call < q.ret {
							lo--
						}
						if o.ret != 0 && o.ret < q.call {
							hi--
						}
					}
				}
				if lo > 0 && !q.result {
					h.violation("latch:reports-idle-while-locked", fmt.Sprintf("latch %d: IsExecuting()=false although at least %d Lock calls had returned and were not yet being unlocked", q.latch, lo), nil)
				}
				if hi <= 0 && q.result {
					h.violation("latch:reports-executing-while-unlocked", fmt.Sprintf("latch %d: IsExecuting()=true although no Lock could be outstanding", q.latch), nil)
				}
				if lo >= 2 && ci < len(runningAt) && runningAt[ci] {
					nontrivial = true
				}
			}
		}
		r.Case(desc, nontrivial)
		h.mu.Lock()
		r.Count("worker_iterations", h.nInv)
		h.mu.Unlock()
		nsaw := 0
		for _, c := range h.checks {
			if c.saw {
				nsaw++
			}
		}
		r.Count("checks_saw_executing", int64(nsaw))
		r.Count("checks_saw_idle", int64(len(h.checks)-nsaw))
		if i%47 == 0 {
			r.Sample(map[string]interface{}{"case": desc, "checks": len(h.checks), "saw_executing": nsaw, "nontrivial": nontrivial})
		}
	})
}

// ---------------------------------------------------------------------------
// Part 3: race pass. No stamps, no shared monitor state: the only
// synchronisation is the code's own. Reports in scheduler.go / latch.go are
// picked up by the driver.
// ---------------------------------------------------------------------------

type c45BareProto struct{ l *ProtocolLatch }

func (p c45BareProto) IsExecuting() bool { return p.l.IsExecuting() }

func TestVerif_C45_SchedulerRace(t *testing.T) {
	r := verifkit.Start(t, "C45", "race")
	defer r.Finish()
	r.SetRule("race pass: 2-8 goroutines doing nested lock/unlock on 1-3 real latches, a checker goroutine calling the real checkProtocols, a goroutine registering a further protocol and computing a further worker meanwhile, 1-4 self-returning workers; each workload repeated 3 times (10 in thorough); monitor keeps no shared state; non-trivial = every case (the detector observes whatever interleaving happens)")
	n := r.N(100, 1200)
	reps := r.N(3, 10)
	verifkit.Parallel(n, 8, func(i int) {
		rng := r.SubRand("race", i)
		nLatch := 1 + rng.Intn(3)
		nW := 1 + rng.Intn(4)
		nG := 2 + rng.Intn(7)
		nChecks := 10 + rng.Intn(20)
		scripts := make([][]c45Op, nG)
		pauses := make([][]int, nG)
		for g := 0; g < nG; g++ {
			scripts[g], pauses[g] = c45ProtoScript(rng, nLatch, 4+rng.Intn(10))
		}
		desc := fmt.Sprintf("race latches=%d workers=%d goroutines=%d checks=%d case=%d", nLatch, nW, nG, nChecks, i)
		for rep := 0; rep < reps; rep++ {
			r.Guard("race:", desc, func() {
				s := &Scheduler{}
				latches := make([]*ProtocolLatch, nLatch+1)
				for l := range latches {
					latches[l] = NewProtocolLatch()
				}
				for l := 0; l < nLatch; l++ {
					s.RegisterProtocol(c45BareProto{latches[l]})
				}
				wf := func(ctx context.Context) {
					runtime.Gosched()
				}
				for w := 0; w < nW; w++ {
					s.compute(wf)
				}
				var wg sync.WaitGroup
				for g := 0; g < nG; g++ {
					wg.Add(1)
					go func(g int) {
						defer wg.Done()
						defer func() {
							if p := recover(); p != nil {
								r.Violation("latch:panic", fmt.Sprintf("Lock/Unlock panicked in a properly nested sequence: %v", p), desc, nil)
							}
						}()
						for k, o := range scripts[g] {
							if o.lock {
								latches[o.latch].Lock()
							} else {
								latches[o.latch].Unlock()
							}
							for y := 0; y < pauses[g][k]; y++ {
								runtime.Gosched()
							}
						}
					}(g)
				}
				wg.Add(2)
				go func() {
					defer wg.Done()
					for c := 0; c < nChecks; c++ {
						s.checkProtocols()
						runtime.Gosched()
					}
				}()
				go func() {
					defer wg.Done()
					runtime.Gosched()
					s.RegisterProtocol(c45BareProto{latches[nLatch]})
					latches[nLatch].Lock()
					s.compute(wf)
					runtime.Gosched()
					latches[nLatch].Unlock()
				}()
				wg.Wait()
				s.checkProtocols()
				s.stop()
			})
		}
		r.Case(desc, true)
	})
	r.Count("repetitions_per_case", int64(reps))
}
