//go:build verif

package generator

import (
	"context"
	"errors"
	"fmt"
	"runtime"
	"runtime/debug"
	"sort"
	"strings"
	"sync"
	"sync/atomic"
	"testing"
	"time"

	"github.com/keep-network/keep-core/internal/verifkit"
)

// ---------------------------------------------------------------------------
// The parameter type, the silent logger and the scripted storage.
// ---------------------------------------------------------------------------

// c39Param is a generated parameter. Sum makes "valid" checkable: a
// zero-valued or foreign struct does not satisfy Sum == c39Sum(ID).
type c39Param struct {
	ID  int
	Sum uint64
}

func c39Sum(id int) uint64 { return uint64(id)*0x9E3779B97F4A7C15 + 0xC39 }

type c39Logger struct{ errors int64 }

func (l *c39Logger) Debug(...interface{})          {}
func (l *c39Logger) Debugf(string, ...interface{}) {}
func (l *c39Logger) Error(...interface{})          { atomic.AddInt64(&l.errors, 1) }
func (l *c39Logger) Errorf(string, ...interface{}) { atomic.AddInt64(&l.errors, 1) }
func (l *c39Logger) Fatal(...interface{})          {}
func (l *c39Logger) Fatalf(string, ...interface{}) {}
func (l *c39Logger) Info(...interface{})           {}
func (l *c39Logger) Infof(string, ...interface{})  {}
func (l *c39Logger) Panic(...interface{})          {}
func (l *c39Logger) Panicf(string, ...interface{}) {}
func (l *c39Logger) Warn(...interface{})           {}
func (l *c39Logger) Warnf(string, ...interface{})  {}

var c39ErrInjected = errors.New("c39: injected storage failure")

// fault kinds: what happens at the chosen storage call
const (
	c39None        = ""
	c39ErrBefore   = "err-before"   // error returned, the operation had no effect
	c39ErrAfter    = "err-after"    // the operation took effect, an error is returned all the same
	c39CrashBefore = "crash-before" // the process dies (goroutine exits, memory state abandoned) before the effect
	c39CrashAfter  = "crash-after"  // ... after the effect
)

var c39Kinds = []string{c39ErrBefore, c39ErrAfter, c39CrashBefore, c39CrashAfter}

// c39Store is an in-memory Persistence[c39Param] that survives "restarts"
// and applies one fault at a chosen call index.
type c39Store struct {
	mu      sync.Mutex
	data    map[string]c39Param
	order   []string
	calls   int
	callLog []string // "Save" | "Delete" | "ReadAll" per call index
	faultAt int      // -1 = none
	fault   string
	fired   bool
	nilDel  int
	// onWorkerCrash is called (on the worker goroutine) just before a crash
	// injected into Save terminates that goroutine.
	onWorkerCrash func()
	onSaveReturn  func()
	// concurrent workloads: every n-th Save / Delete fails (0 = never);
	// odd failures are without effect, even ones after the effect
	failSaveEvery, failDeleteEvery int
	nSave, nDelete, nFailed       int
}

func c39NewStore() *c39Store {
	return &c39Store{data: map[string]c39Param{}, faultAt: -1}
}

// begin registers a call and tells which fault applies to it.
func (s *c39Store) begin(kind string) string {
	idx := s.calls
	s.calls++
	if s.failSaveEvery == 0 && s.failDeleteEvery == 0 {
		s.callLog = append(s.callLog, kind)
	}
	if idx == s.faultAt && !s.fired {
		s.fired = true
		return s.fault
	}
	every, n := 0, 0
	switch kind {
	case "Save":
		s.nSave++
		every, n = s.failSaveEvery, s.nSave
	case "Delete":
		s.nDelete++
		every, n = s.failDeleteEvery, s.nDelete
	}
	if every > 0 && n%every == 0 {
		s.nFailed++
		if s.nFailed%2 == 1 {
			return c39ErrBefore
		}
		return c39ErrAfter
	}
	return c39None
}

func (s *c39Store) Save(p *c39Param) (*Persisted[c39Param], error) {
	s.mu.Lock()
	f := s.begin("Save")
	id := fmt.Sprintf("p%d", p.ID)
	apply := func() {
		if _, ok := s.data[id]; !ok {
			s.order = append(s.order, id)
		}
		s.data[id] = *p
	}
	switch f {
	case c39ErrBefore:
		s.mu.Unlock()
		s.saveReturned()
		return nil, c39ErrInjected
	case c39ErrAfter:
		apply()
		s.mu.Unlock()
		s.saveReturned()
		return nil, c39ErrInjected
	case c39CrashBefore, c39CrashAfter:
		if f == c39CrashAfter {
			apply()
		}
		cb := s.onWorkerCrash
		s.mu.Unlock()
		if cb != nil {
			cb()
		}
		runtime.Goexit()
	}
	apply()
	s.mu.Unlock()
	s.saveReturned()
	return &Persisted[c39Param]{Data: *p, ID: id}, nil
}

func (s *c39Store) saveReturned() {
	s.mu.Lock()
	cb := s.onSaveReturn
	s.mu.Unlock()
	if cb != nil {
		cb()
	}
}

func (s *c39Store) Delete(p *Persisted[c39Param]) error {
	s.mu.Lock()
	defer s.mu.Unlock()
	f := s.begin("Delete")
	apply := func() {
		if p == nil {
			s.nilDel++
			return
		}
		if _, ok := s.data[p.ID]; ok {
			delete(s.data, p.ID)
			for i, k := range s.order {
				if k == p.ID {
					s.order = append(s.order[:i:i], s.order[i+1:]...)
					break
				}
			}
		}
	}
	switch f {
	case c39ErrBefore:
		return c39ErrInjected
	case c39ErrAfter:
		apply()
		return c39ErrInjected
	case c39CrashBefore:
		runtime.Goexit() // deferred Unlock runs
	case c39CrashAfter:
		apply()
		runtime.Goexit()
	}
	apply()
	return nil
}

func (s *c39Store) ReadAll() ([]*Persisted[c39Param], error) {
	s.mu.Lock()
	defer s.mu.Unlock()
	f := s.begin("ReadAll")
	all := make([]*Persisted[c39Param], 0, len(s.order))
	for _, k := range s.order {
		all = append(all, &Persisted[c39Param]{Data: s.data[k], ID: k})
	}
	switch f {
	case c39ErrBefore:
		return nil, c39ErrInjected
	case c39ErrAfter:
		return all, c39ErrInjected
	case c39CrashBefore, c39CrashAfter:
		runtime.Goexit()
	}
	return all, nil
}

func (s *c39Store) has(id int) bool {
	s.mu.Lock()
	defer s.mu.Unlock()
	_, ok := s.data[fmt.Sprintf("p%d", id)]
	return ok
}

func (s *c39Store) size() int {
	s.mu.Lock()
	defer s.mu.Unlock()
	return len(s.data)
}

// ---------------------------------------------------------------------------
// One incarnation of the pool ("process") and the sequential driver.
// ---------------------------------------------------------------------------

const (
	c39WStarting int32 = iota
	c39WIdle           // parked inside generateFn, waiting for a command
	c39WBusy           // producing / saving / pushing
	c39WSaved          // Save has returned; next: push into the pool (there is room)
	c39WBlocked        // Save has returned while the pool was full: parked on the channel send
	c39WDead           // goroutine gone (crash or cancelled)
)

type c39Proc struct {
	sched  *Scheduler
	pool   *ParameterPool[c39Param]
	state  int32
	genCmd chan int // id to produce
}

type c39Outcome struct {
	returned bool
	crashed  bool // goroutine left through Goexit (injected crash)
	panicked bool
	hung     bool
	pval     string
	frame    string
	stack    string
}

// c39Call runs fn on its own goroutine so that an injected crash (Goexit)
// or a panic is observed instead of killing the driver.
func c39Call(fn func()) (o c39Outcome) {
	done := make(chan struct{})
	go func() {
		normal := false
		defer func() {
			if !normal {
				if p := recover(); p != nil {
					o.panicked = true
					o.pval = fmt.Sprint(p)
					st := debug.Stack()
					o.frame = verifkit.RepoFrame(st)
					o.stack = string(st)
					if len(o.stack) > 2500 {
						o.stack = o.stack[:2500]
					}
				} else {
					o.crashed = true
				}
			}
			close(done)
		}()
		fn()
		normal = true
		o.returned = true
	}()
	select {
	case <-done:
	case <-time.After(20 * time.Second):
		return c39Outcome{hung: true}
	}
	return o
}

type c39History struct {
	Size    int      `json:"size"`
	Steps   []string `json:"steps"` // gen | get | restart
	FaultAt int      `json:"fault_at"`
	Fault   string   `json:"fault,omitempty"`
	OnCall  string   `json:"on_call,omitempty"`
}

type c39Result struct {
	calls        []string
	faultFired   bool
	restarts     int
	handed       []int
	generated    int
	emptyGets    int
	deleteErrs   int
	loggedErrors int64
	inconclusive string
	trace        []string
}

type c39Violation struct{ fp, what string }

// c39RunHistory executes one history against the real pool and returns what
// was observed plus the violations of the property.
func c39RunHistory(hist c39History) (res c39Result, viols []c39Violation) {
	store := c39NewStore()
	store.faultAt, store.fault = hist.FaultAt, hist.Fault
	lg := &c39Logger{}
	nextID := 1
	generatedIDs := map[int]bool{}
	handedIDs := map[int]bool{}
	add := func(fp, what string) { viols = append(viols, c39Violation{fp, what}) }
	tr := func(f string, a ...interface{}) { res.trace = append(res.trace, fmt.Sprintf(f, a...)) }

	var proc *c39Proc

	// start creates a fresh "process": new scheduler, new pool over the same store.
	// Returns false when the process died during start-up (crash in ReadAll).
	start := func() bool {
		p := &c39Proc{sched: &Scheduler{}, genCmd: make(chan int)}
		store.mu.Lock()
		store.onWorkerCrash = func() { atomic.StoreInt32(&p.state, c39WDead) }
		store.onSaveReturn = func() {
			// runs on the worker goroutine; in a sequential history nobody else
			// touches the pool at this moment
			if p.pool != nil && len(p.pool.pool) == cap(p.pool.pool) {
				atomic.StoreInt32(&p.state, c39WBlocked)
			} else {
				atomic.StoreInt32(&p.state, c39WSaved)
			}
		}
		store.mu.Unlock()
		gen := func(ctx context.Context) *c39Param {
			atomic.StoreInt32(&p.state, c39WIdle)
			select {
			case <-ctx.Done():
				atomic.StoreInt32(&p.state, c39WDead)
				return nil
			case id := <-p.genCmd:
				atomic.StoreInt32(&p.state, c39WBusy)
				return &c39Param{ID: id, Sum: c39Sum(id)}
			}
		}
		o := c39Call(func() {
			p.pool = NewParameterPool[c39Param](lg, p.sched, store, hist.Size, gen, 0)
		})
		switch {
		case o.hung:
			res.inconclusive = "NewParameterPool did not return"
			return false
		case o.panicked:
			add("generic:start:panic@"+o.frame, "NewParameterPool panicked: "+o.pval)
			return false
		case o.crashed:
			tr("start: crashed in ReadAll")
			return false
		}
		proc = p
		return true
	}

	// settle waits until the worker can make no further step on its own.
	settle := func() bool {
		deadline := time.Now().Add(10 * time.Second)
		for spins := 0; ; spins++ {
			st := atomic.LoadInt32(&proc.state)
			if st == c39WIdle || st == c39WDead || st == c39WBlocked {
				// Blocked: Save returned while the pool was full, so the worker is
				// (or will be) parked on the channel send; nothing else moves in a
				// sequential run
				return true
			}
			if spins > 100 {
				if time.Now().After(deadline) {
					res.inconclusive = fmt.Sprintf("worker did not settle (state %d)", st)
					return false
				}
				time.Sleep(10 * time.Microsecond)
			} else {
				runtime.Gosched()
			}
		}
	}

	// kill abandons the current process: cancel the worker and forget the pool.
	kill := func() {
		if proc != nil {
			proc.sched.stop()
			proc = nil
		}
	}
	defer kill()

	restart := func() bool {
		kill()
		res.restarts++
		for attempt := 0; attempt < 3; attempt++ {
			if start() {
				return settle()
			}
			if res.inconclusive != "" || len(viols) > 0 {
				return false
			}
		}
		res.inconclusive = "could not start the pool"
		return false
	}

	countCheck := func(where string) {
		if proc == nil {
			return
		}
		if n := proc.pool.ParametersCount(); n > hist.Size {
			add("generic:pool-over-size", fmt.Sprintf("%s: pool holds %d parameters, configured size %d", where, n, hist.Size))
		}
	}

	if !start() {
		if res.inconclusive != "" || len(viols) > 0 {
			return
		}
		if !restart() {
			return
		}
	} else if !settle() {
		return
	}

	for si, step := range hist.Steps {
		if res.inconclusive != "" || proc == nil {
			break
		}
		switch step {
		case "gen":
			if atomic.LoadInt32(&proc.state) != c39WIdle {
				tr("%d gen: worker not idle (blocked on a full pool or dead)", si)
				continue
			}
			id := nextID
			nextID++
			generatedIDs[id] = true
			res.generated++
			atomic.StoreInt32(&proc.state, c39WBusy)
			proc.genCmd <- id
			if !settle() {
				break
			}
			tr("%d gen %d -> pool=%d store=%d", si, id, proc.pool.ParametersCount(), store.size())
			if atomic.LoadInt32(&proc.state) == c39WDead {
				// the process died inside Save: restart
				tr("%d crash in Save, restarting", si)
				if !restart() {
					break
				}
			}
		case "get":
			var p *c39Param
			var err error
			pl := proc.pool
			wasBlocked := atomic.LoadInt32(&proc.state) == c39WBlocked
			o := c39Call(func() { p, err = pl.GetNow() })
			if wasBlocked && !(o.returned && errors.Is(err, ErrEmptyPool)) {
				// an element left the full pool: the parked worker moves on
				atomic.CompareAndSwapInt32(&proc.state, c39WBlocked, c39WBusy)
			}
			switch {
			case o.hung:
				res.inconclusive = "GetNow did not return"
			case o.panicked:
				add("generic:getnow:panic@"+o.frame, fmt.Sprintf("GetNow panicked instead of handing out a parameter or an error: %s", o.pval))
				tr("%d get: PANIC %s", si, o.pval)
			case o.crashed:
				tr("%d get: crash in Delete, restarting", si)
				if !restart() {
					break
				}
			case err != nil:
				if errors.Is(err, ErrEmptyPool) {
					res.emptyGets++
				} else {
					res.deleteErrs++
				}
				tr("%d get: %v", si, err)
				if p != nil {
					add("generic:param-with-error", "GetNow returned a parameter together with an error")
				}
			default:
				switch {
				case p == nil:
					tr("%d get -> nil", si)
					add("generic:handed-out-nil", "GetNow returned (nil, nil)")
				case p.Sum != c39Sum(p.ID) || !generatedIDs[p.ID]:
					add("generic:handed-out-invalid", fmt.Sprintf("GetNow handed out %+v which the generator never produced", *p))
				default:
					tr("%d get -> %d", si, p.ID)
					if handedIDs[p.ID] {
						add("generic:handed-out-twice", fmt.Sprintf("parameter %d handed out a second time", p.ID))
					}
					handedIDs[p.ID] = true
					res.handed = append(res.handed, p.ID)
					if store.has(p.ID) {
						add("generic:handed-out-still-stored", fmt.Sprintf("parameter %d was handed out while it is still in storage", p.ID))
					}
				}
			}
			if proc != nil && res.inconclusive == "" {
				settle() // a blocked worker may now push
			}
		case "restart":
			tr("%d restart (store=%d)", si, store.size())
			if !restart() {
				break
			}
		}
		countCheck(fmt.Sprintf("step %d (%s)", si, step))
	}
	store.mu.Lock()
	res.calls = append([]string(nil), store.callLog...)
	res.faultFired = store.fired
	store.mu.Unlock()
	res.loggedErrors = atomic.LoadInt64(&lg.errors)
	return
}

func TestVerif_C39_PoolFaults(t *testing.T) {
	r := verifkit.Start(t, "C39", "faults")
	defer r.Finish()
	r.SetRule("base histories of 6-12 gen/get/restart steps over the real ParameterPool (size 1-3, tagged-struct parameters, gated generator); each base history is run fault-free, then once per (storage call index, fault kind) with kind in {error without effect, error after effect, crash before effect, crash after effect} for Save, Delete and ReadAll calls - a crash abandons the process and a new pool is built on the same storage; non-trivial = the injected fault fired or the history contains a restart")
	nBase := r.N(36, 900)
	rng := r.Rand("bases")
	type job struct {
		h c39History
	}
	var bases []c39History
	for b := 0; b < nBase; b++ {
		h := c39History{Size: 1 + rng.Intn(3), FaultAt: -1}
		n := 6 + rng.Intn(7)
		for k := 0; k < n; k++ {
			x := rng.Intn(100)
			switch {
			case x < 45:
				h.Steps = append(h.Steps, "gen")
			case x < 82:
				h.Steps = append(h.Steps, "get")
			default:
				h.Steps = append(h.Steps, "restart")
			}
		}
		bases = append(bases, h)
	}
	// a few fixed shapes so the interesting orders are always there
	bases = append(bases,
		c39History{Size: 1, FaultAt: -1, Steps: []string{"gen", "get", "gen", "get"}},
		c39History{Size: 2, FaultAt: -1, Steps: []string{"gen", "gen", "gen", "restart", "get", "get", "get", "restart", "get"}},
		c39History{Size: 1, FaultAt: -1, Steps: []string{"gen", "gen", "get", "get", "restart", "get", "gen", "get"}},
		c39History{Size: 3, FaultAt: -1, Steps: []string{"gen", "gen", "get", "restart", "gen", "get", "get", "restart", "get", "gen", "get"}},
	)
	// pass 1: fault-free runs give the storage call sequence of every base
	var jobs []job
	var jmu sync.Mutex
	verifkit.Parallel(len(bases), 0, func(b int) {
		res, _ := c39RunHistory(bases[b])
		var mine []job
		mine = append(mine, job{bases[b]})
		for idx, call := range res.calls {
			for _, k := range c39Kinds {
				h := bases[b]
				h.FaultAt, h.Fault, h.OnCall = idx, k, call
				mine = append(mine, job{h})
			}
		}
		jmu.Lock()
		jobs = append(jobs, mine...)
		jmu.Unlock()
	})
	// deterministic order whatever the scheduling of pass 1
	descOf := func(h c39History) string {
		return fmt.Sprintf("pool size=%d steps=%s fault=%s@%d(%s)", h.Size, strings.Join(h.Steps, ","), h.Fault, h.FaultAt, h.OnCall)
	}
	sortJobs := make([]string, len(jobs))
	for i := range jobs {
		sortJobs[i] = descOf(jobs[i].h)
	}
	idx := make([]int, len(jobs))
	for i := range idx {
		idx[i] = i
	}
	sort.SliceStable(idx, func(a, b int) bool { return sortJobs[idx[a]] < sortJobs[idx[b]] })

	var sampled int32
	verifkit.Parallel(len(idx), 0, func(n int) {
		h := jobs[idx[n]].h
		desc := descOf(h)
		res, viols := c39RunHistory(h)
		if res.inconclusive != "" {
			r.Inconclusive(res.inconclusive + ": " + desc)
			return
		}
		hasRestart := res.restarts > 0
		r.Case(desc, res.faultFired || hasRestart)
		if res.faultFired {
			r.Count("faults_fired_"+h.OnCall+"_"+h.Fault, 1)
		}
		r.Count("handed_out", int64(len(res.handed)))
		r.Count("restarts", int64(res.restarts))
		r.Count("logged_errors", res.loggedErrors)
		seen := map[string]bool{}
		for _, v := range viols {
			if seen[v.fp] {
				continue
			}
			seen[v.fp] = true
			r.Violation(v.fp, v.what, desc, res.trace)
		}
		if res.faultFired && len(res.handed) > 0 && atomic.AddInt32(&sampled, 1)%200 == 1 {
			r.Sample(map[string]interface{}{"history": h, "handed_out": res.handed, "restarts": res.restarts, "trace": res.trace})
		}
	})
	r.Count("base_histories", int64(len(bases)))
}
