//go:build verif

package generator

import (
	"context"
	"errors"
	"fmt"
	"runtime"
	"runtime/debug"
	"sync"
	"sync/atomic"
	"testing"

	"github.com/keep-network/keep-core/internal/verifkit"
)

type c39Got struct {
	p        *c39Param
	err      error
	stored   bool // oracle pass only: still in storage when GetNow returned
	panicked string
	frame    string
}

// c39ConcurrentCase runs one free-running pool with several concurrent
// getters. Each getter records into its own slice; slices are merged after
// wg.Wait(). checkStore=false (race pass) keeps the getters away from any
// monitor-owned shared state.
func c39ConcurrentCase(size, getters, perGetter, maxGen, failSave, failDelete int, checkStore bool) (got [][]c39Got, store *c39Store, overSize int) {
	store = c39NewStore()
	store.failSaveEvery, store.failDeleteEvery = failSave, failDelete
	lg := &c39Logger{}
	var next int64
	gen := func(ctx context.Context) *c39Param {
		if ctx.Err() != nil {
			return nil
		}
		id := int(atomic.AddInt64(&next, 1))
		if id > maxGen {
			<-ctx.Done()
			return nil
		}
		return &c39Param{ID: id, Sum: c39Sum(id)}
	}
	sched := &Scheduler{}
	pool := NewParameterPool[c39Param](lg, sched, store, size, gen, 0)
	got = make([][]c39Got, getters)
	over := make([]int, getters)
	var wg sync.WaitGroup
	for g := 0; g < getters; g++ {
		wg.Add(1)
		go func(g int) {
			defer wg.Done()
			for k := 0; k < perGetter; k++ {
				var x c39Got
				func() {
					defer func() {
						if p := recover(); p != nil {
							x.panicked = fmt.Sprint(p)
							x.frame = verifkit.RepoFrame(debug.Stack())
						}
					}()
					x.p, x.err = pool.GetNow()
					if checkStore && x.err == nil && x.p != nil {
						x.stored = store.has(x.p.ID)
					}
				}()
				if n := pool.ParametersCount(); n > size {
					over[g] = n
				}
				got[g] = append(got[g], x)
				if x.err != nil {
					runtime.Gosched()
				}
			}
		}(g)
	}
	wg.Wait()
	sched.stop()
	for _, n := range over {
		if n > overSize {
			overSize = n
		}
	}
	return
}

// c39JudgeConcurrent applies the property to the merged results.
func c39JudgeConcurrent(r *verifkit.Run, desc string, got [][]c39Got, size, maxGen, overSize int) (handed int) {
	seen := map[int]bool{}
	for _, gs := range got {
		for _, x := range gs {
			switch {
			case x.panicked != "":
				r.Violation("generic:getnow:panic@"+x.frame, "GetNow panicked instead of handing out a parameter or an error: "+x.panicked, desc, nil)
			case x.err != nil:
				if x.p != nil {
					r.Violation("generic:param-with-error", "GetNow returned a parameter together with an error", desc, nil)
				}
			case x.p == nil:
				r.Violation("generic:handed-out-nil", "GetNow returned (nil, nil)", desc, nil)
			case x.p.Sum != c39Sum(x.p.ID) || x.p.ID < 1 || x.p.ID > maxGen:
				r.Violation("generic:handed-out-invalid", fmt.Sprintf("GetNow handed out %+v which the generator never produced", *x.p), desc, nil)
			default:
				handed++
				if seen[x.p.ID] {
					r.Violation("generic:handed-out-twice", fmt.Sprintf("parameter %d handed out twice (concurrent getters)", x.p.ID), desc, nil)
				}
				seen[x.p.ID] = true
				if x.stored {
					r.Violation("generic:handed-out-still-stored", fmt.Sprintf("parameter %d was handed out while it is still in storage", x.p.ID), desc, nil)
				}
			}
		}
	}
	if overSize > size {
		r.Violation("generic:pool-over-size", fmt.Sprintf("pool held %d parameters, configured size %d", overSize, size), desc, nil)
	}
	return
}

type c39ConcCfg struct {
	Size, Getters, PerGetter, MaxGen, FailSave, FailDelete int
}

func c39ConcCfgFor(rng interface{ Intn(int) int }) c39ConcCfg {
	c := c39ConcCfg{Size: 1 + rng.Intn(4), Getters: 2 + rng.Intn(5), PerGetter: 20 + rng.Intn(30), MaxGen: 20 + rng.Intn(60)}
	if rng.Intn(4) != 0 {
		c.FailSave = 2 + rng.Intn(5)
	}
	if rng.Intn(3) != 0 {
		c.FailDelete = 2 + rng.Intn(5)
	}
	return c
}

func TestVerif_C39_PoolConcurrent(t *testing.T) {
	r := verifkit.Start(t, "C39", "getters")
	defer r.Finish()
	r.SetRule("free-running real ParameterPool (size 1-4, 20-80 parameters) with 2-6 concurrent getters making a fixed number of GetNow calls each; every n-th Save and every m-th Delete fails (alternately without / after taking effect); results merged after the getters finished; non-trivial = at least one storage failure fired and at least one parameter was handed out")
	n := r.N(120, 6000)
	verifkit.Parallel(n, 0, func(i int) {
		c := c39ConcCfgFor(r.SubRand("conc", i))
		desc := fmt.Sprintf("concurrent pool %+v case=%d", c, i)
		var got [][]c39Got
		var store *c39Store
		var over int
		if r.Guard("generic:concurrent:", desc, func() {
			got, store, over = c39ConcurrentCase(c.Size, c.Getters, c.PerGetter, c.MaxGen, c.FailSave, c.FailDelete, true)
		}) {
			r.Case(desc, true)
			return
		}
		handed := c39JudgeConcurrent(r, desc, got, c.Size, c.MaxGen, over)
		store.mu.Lock()
		failed := store.nFailed
		store.mu.Unlock()
		r.Case(desc, failed > 0 && handed > 0)
		r.Count("handed_out", int64(handed))
		r.Count("storage_failures", int64(failed))
		if i%37 == 0 {
			r.Sample(map[string]interface{}{"config": c, "handed_out": handed, "storage_failures": failed})
		}
	})
}

// Race pass: same workload, getters touch only their own slots; the store's
// mutex plays the part of the real storage's own mutex.
func TestVerif_C39_PoolRace(t *testing.T) {
	r := verifkit.Start(t, "C39", "getters_race")
	defer r.Finish()
	r.SetRule("race pass of the concurrent-getters workload (each configuration repeated 3 times, 10 in thorough), per-goroutine result slots merged after Wait; non-trivial = a storage failure fired and a parameter was handed out")
	n := r.N(24, 600)
	reps := r.N(3, 10)
	verifkit.Parallel(n, 8, func(i int) {
		c := c39ConcCfgFor(r.SubRand("race", i))
		desc := fmt.Sprintf("race pool %+v case=%d", c, i)
		nt := false
		for rep := 0; rep < reps; rep++ {
			var got [][]c39Got
			var store *c39Store
			var over int
			if r.Guard("generic:race:", desc, func() {
				got, store, over = c39ConcurrentCase(c.Size, c.Getters, c.PerGetter, c.MaxGen, c.FailSave, c.FailDelete, false)
			}) {
				continue
			}
			handed := c39JudgeConcurrent(r, desc, got, c.Size, c.MaxGen, over)
			store.mu.Lock()
			if store.nFailed > 0 && handed > 0 {
				nt = true
			}
			store.mu.Unlock()
		}
		r.Case(desc, nt)
	})
	r.Count("repetitions_per_case", int64(reps))
	_ = errors.Is
}
