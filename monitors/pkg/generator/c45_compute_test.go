//go:build verif

package generator

// C45: workers handed to the scheduler WHILE it is stopping (a protocol has
// just started executing). Whatever the interleaving of compute() and
// checkProtocols(), once a check has completed with a protocol executing, no
// worker may be invoked with a live context.

import (
	"context"
	"fmt"
	"runtime"
	"sync"
	"sync/atomic"
	"testing"
	"time"

	"github.com/keep-network/keep-core/internal/verifkit"
)

func TestVerif_C45_ComputeDuringStop(t *testing.T) {
	r := verifkit.Start(t, "C45", "compute-during-stop")
	defer r.Finish()
	r.SetRule("per trial: a working scheduler with one registered latch; the latch is locked (1-3 nested), then 2-8 goroutines hand 8-64 workers each to compute() while 1-3 checkProtocols() calls run concurrently from a common start; after everything returned one more check runs (protocol still executing). From that check's return on, no worker invocation may begin with a non-cancelled context. Then the latch is unlocked step by step with a check after each: generation may resume only after the last unlock. Non-trivial: compute() calls and a check overlapped (both sides were released from one barrier).")
	n := r.N(400, 10000)
	var invocations, leaks, resumed int64
	verifkit.Parallel(n, 4, func(i int) {
		rng := r.SubRand("trial", i)
		nest := 1 + rng.Intn(3)
		nG := 2 + rng.Intn(7)
		per := 8 + rng.Intn(57)
		nChecks := 1 + rng.Intn(3)
		desc := fmt.Sprintf("trial#%d nested-locks=%d compute-goroutines=%d workers-each=%d concurrent-checks=%d", i, nest, nG, per, nChecks)
		s := &Scheduler{}
		latch := NewProtocolLatch()
		s.RegisterProtocol(latch)
		var phase int32 // 1: protocol executing and a check completed; 2: resumed
		var leaked, inv, afterResume int64
		worker := func(ctx context.Context) {
			atomic.AddInt64(&inv, 1)
			switch atomic.LoadInt32(&phase) {
			case 1:
				if ctx.Err() == nil && atomic.LoadInt32(&phase) == 1 {
					atomic.AddInt64(&leaked, 1)
				}
			case 2:
				if ctx.Err() == nil {
					atomic.AddInt64(&afterResume, 1)
				}
			}
			runtime.Gosched()
		}
		for k := 0; k < nest; k++ {
			latch.Lock()
		}
		start := make(chan struct{})
		var wg sync.WaitGroup
		for g := 0; g < nG; g++ {
			wg.Add(1)
			go func() {
				defer wg.Done()
				<-start
				for k := 0; k < per; k++ {
					s.compute(worker)
				}
			}()
		}
		for c := 0; c < nChecks; c++ {
			wg.Add(1)
			go func() {
				defer wg.Done()
				<-start
				s.checkProtocols()
			}()
		}
		close(start)
		wg.Wait()
		s.checkProtocols()
		atomic.StoreInt32(&phase, 1)
		time.Sleep(3 * time.Millisecond) // gives a leaked loop the chance to show; decides nothing on its own
		for k := 0; k < nest-1; k++ {
			latch.Unlock()
			s.checkProtocols()
			time.Sleep(500 * time.Microsecond)
		}
		l := atomic.LoadInt64(&leaked)
		atomic.StoreInt32(&phase, 0)
		latch.Unlock()
		atomic.StoreInt32(&phase, 2)
		s.checkProtocols()
		deadline := time.Now().Add(5 * time.Second)
		for atomic.LoadInt64(&afterResume) == 0 && time.Now().Before(deadline) {
			time.Sleep(200 * time.Microsecond)
		}
		res := atomic.LoadInt64(&afterResume)
		s.stop()
		r.Case(desc, true)
		atomic.AddInt64(&invocations, atomic.LoadInt64(&inv))
		atomic.AddInt64(&leaks, l)
		if l > 0 {
			r.Violation("compute:generation-while-protocol-executes", fmt.Sprintf("%d worker invocations began with a live context after a check had completed with a protocol executing", l), desc, nil)
		}
		if res == 0 {
			r.Inconclusive("no worker ran within the watchdog after the last unlock and a check: " + desc)
		} else {
			atomic.AddInt64(&resumed, 1)
		}
	})
	r.Count("worker_invocations", invocations)
	r.Count("trials_resumed_after_last_unlock", resumed)
}
