//go:build verif

package retry

import (
	"fmt"
	"math"
	"sort"
	"strings"
	"testing"

	"github.com/keep-network/keep-core/internal/verifkit"
	"github.com/keep-network/keep-core/pkg/chain"
)

// c09Layout builds a seat list for the given per-operator seat counts,
// shuffled by the PRNG (seat order is part of the input).
func c09Layout(counts []int, shuffle func(n int, swap func(i, j int))) []chain.Address {
	var seats []chain.Address
	for op, c := range counts {
		for s := 0; s < c; s++ {
			seats = append(seats, chain.Address(fmt.Sprintf("0x%02dop", op)))
		}
	}
	if shuffle != nil {
		shuffle(len(seats), func(i, j int) { seats[i], seats[j] = seats[j], seats[i] })
	}
	return seats
}

func c09Compositions(maxOps, maxSeats int) [][]int {
	var out [][]int
	var rec func(cur []int, sum int)
	rec = func(cur []int, sum int) {
		if len(cur) > 0 {
			out = append(out, append([]int(nil), cur...))
		}
		if len(cur) == maxOps {
			return
		}
		for c := 1; sum+c <= maxSeats; c++ {
			rec(append(cur, c), sum+c)
		}
	}
	rec(nil, 0)
	return out
}

// c09CheckSublist verifies the structural part of the property and returns
// the set of excluded operators.
func c09CheckSublist(members, result []chain.Address) (excluded []string, problem string) {
	// order-preserving sub-list
	j := 0
	for _, m := range members {
		if j < len(result) && result[j] == m {
			j++
		}
	}
	// because seats of one operator are indistinguishable, greedy matching is exact
	if j != len(result) {
		return nil, "result is not an order-preserving sub-list of the seats"
	}
	in := map[chain.Address]int{}
	for _, m := range members {
		in[m]++
	}
	out := map[chain.Address]int{}
	for _, m := range result {
		out[m]++
	}
	for op, c := range in {
		switch out[op] {
		case c:
		case 0:
			excluded = append(excluded, string(op))
		default:
			return nil, fmt.Sprintf("operator %s keeps %d of %d seats", op, out[op], c)
		}
	}
	sort.Strings(excluded)
	return excluded, ""
}

func c09Eq(a, b []chain.Address) bool {
	if len(a) != len(b) {
		return false
	}
	for i := range a {
		if a[i] != b[i] {
			return false
		}
	}
	return true
}

// c09BruteForce counts the operator subsets of size 1..3 whose removal leaves
// at least `requested` seats.
func c09BruteForce(counts map[chain.Address]int, total, requested int) [4]int {
	ops := make([]chain.Address, 0, len(counts))
	for op := range counts {
		ops = append(ops, op)
	}
	var n [4]int
	for i := 0; i < len(ops); i++ {
		if total-counts[ops[i]] >= requested {
			n[1]++
		}
		for j := i + 1; j < len(ops); j++ {
			if total-counts[ops[i]]-counts[ops[j]] >= requested {
				n[2]++
			}
			for k := j + 1; k < len(ops); k++ {
				if total-counts[ops[i]]-counts[ops[j]]-counts[ops[k]] >= requested {
					n[3]++
				}
			}
		}
	}
	return n
}

func TestVerif_C09_Retry(t *testing.T) {
	r := verifkit.Start(t, "C09", "retry")
	defer r.Finish()
	r.SetRule("seat layouts: every composition of <=maxSeats seats over <=maxOps operators (exhaustive), seat order shuffled by PRNG, every requested count, every retry count up to exhaustion, fixed+PRNG seeds; plus large random layouts. non-trivial = uneven seat counts or a retry beyond the single-exclusion range")
	rng := r.Rand("layouts")
	maxOps, maxSeats := 5, 7
	nSeeds := 3
	if !r.Quick() {
		maxOps, maxSeats, nSeeds = 6, 9, 8
	}
	seeds := []int64{0, 1, -1, math.MaxInt64, math.MinInt64}
	for i := 0; i < nSeeds; i++ {
		seeds = append(seeds, rng.Int63()-rng.Int63())
	}
	comps := c09Compositions(maxOps, maxSeats)
	type job struct {
		counts []int
		seats  []chain.Address
	}
	var jobs []job
	for _, c := range comps {
		jobs = append(jobs, job{c, c09Layout(c, rng.Shuffle)})
	}
	// large random layouts
	nLarge := r.N(30, 400)
	for i := 0; i < nLarge; i++ {
		nops := 3 + rng.Intn(18)
		c := make([]int, nops)
		for k := range c {
			c[k] = 1 + rng.Intn(4)
			if rng.Intn(6) == 0 {
				c[k] = 5 + rng.Intn(20)
			}
		}
		jobs = append(jobs, job{c, c09Layout(c, rng.Shuffle)})
	}
	r.SetExhaustive(false)
	verifkit.Parallel(len(jobs), 0, func(ji int) {
		jb := jobs[ji]
		members := jb.seats
		total := len(members)
		counts := map[chain.Address]int{}
		for _, m := range members {
			counts[m]++
		}
		uneven := false
		for _, c := range jb.counts {
			if c != jb.counts[0] {
				uneven = true
			}
		}
		large := ji >= len(comps)
		useSeeds := seeds
		if large {
			useSeeds = seeds[:3]
		}
		for _, seed := range useSeeds {
			reqs := []int{}
			if large {
				reqs = []int{total/2 + 1, total - 1, total, total + 1, 1}
			} else {
				for q := 0; q <= total+1; q++ {
					reqs = append(reqs, q)
				}
			}
			for _, req := range reqs {
				// ---- signing
				maxRetry := 6
				for retry := 0; retry < maxRetry; retry++ {
					desc := fmt.Sprintf("signing counts=%v seats=%v seed=%d retry=%d req=%d", jb.counts, members, seed, retry, req)
					var res, res2 []chain.Address
					var err, err2 error
					if r.Guard("signing:", desc, func() {
						res, err = EvaluateRetryParticipantsForSigning(members, seed, uint(retry), uint(req))
						res2, err2 = EvaluateRetryParticipantsForSigning(append([]chain.Address(nil), members...), seed, uint(retry), uint(req))
					}) {
						continue
					}
					r.Case(desc, uneven)
					if (err != nil) != (err2 != nil) || !c09Eq(res, res2) {
						r.Violation("signing:nondeterministic", "two evaluations of the same input differ", desc, []interface{}{res, res2})
					}
					if req > total {
						if err == nil {
							r.Violation("signing:no-error-too-many", "requested more seats than exist but no error", desc, res)
						}
						continue
					}
					if err != nil {
						r.Violation("signing:unexpected-error", err.Error(), desc, nil)
						continue
					}
					if _, p := c09CheckSublist(members, res); p != "" {
						r.Violation("signing:structure", p, desc, res)
					}
					if len(res) < req {
						r.Violation("signing:too-few-seats", fmt.Sprintf("kept %d < requested %d", len(res), req), desc, res)
					}
				}
				// ---- key generation: walk retries to exhaustion
				if req > total {
					_, err := EvaluateRetryParticipantsForKeyGeneration(members, seed, 0, uint(req))
					if err == nil {
						r.Violation("keygen:no-error-too-many", "requested more seats than exist but no error", fmt.Sprintf("keygen counts=%v req=%d", jb.counts, req), nil)
					}
					continue
				}
				bf := c09BruteForce(counts, total, req)
				expectTotal := bf[1] + bf[2] + bf[3]
				limit := expectTotal + 3
				if large && limit > 60 {
					limit = 60
				}
				seen := map[string]int{}
				lastSize := 0
				successes := 0
				for retry := 0; retry < limit; retry++ {
					desc := fmt.Sprintf("keygen counts=%v seats=%v seed=%d retry=%d req=%d", jb.counts, members, seed, retry, req)
					var res, res2 []chain.Address
					var err, err2 error
					if r.Guard("keygen:", desc, func() {
						res, err = EvaluateRetryParticipantsForKeyGeneration(members, seed, uint(retry), uint(req))
						res2, err2 = EvaluateRetryParticipantsForKeyGeneration(append([]chain.Address(nil), members...), seed, uint(retry), uint(req))
					}) {
						break
					}
					r.Case(desc, uneven || retry >= bf[1])
					if (err != nil) != (err2 != nil) || !c09Eq(res, res2) {
						r.Violation("keygen:nondeterministic", "two evaluations of the same input differ", desc, []interface{}{res, res2})
					}
					if err != nil {
						if retry < expectTotal && !(large && limit == 60 && retry >= limit) {
							r.Violation("keygen:early-exhaustion", fmt.Sprintf("error at retry %d although %d single + %d pair + %d triplet exclusions leave >= %d seats", retry, bf[1], bf[2], bf[3], req), desc, err.Error())
						}
						break
					}
					successes++
					if retry >= expectTotal {
						r.Violation("keygen:extra-exclusion", fmt.Sprintf("success at retry %d beyond the %d admissible exclusions", retry, expectTotal), desc, res)
					}
					excl, p := c09CheckSublist(members, res)
					if p != "" {
						r.Violation("keygen:structure", p, desc, res)
						continue
					}
					if len(res) < req {
						r.Violation("keygen:too-few-seats", fmt.Sprintf("kept %d < requested %d (excluded %v)", len(res), req, excl), desc, res)
					}
					key := strings.Join(excl, ",")
					if prev, dup := seen[key]; dup {
						r.Violation("keygen:duplicate-exclusion", fmt.Sprintf("exclusion %v used at retries %d and %d", excl, prev, retry), desc, nil)
					}
					seen[key] = retry
					if len(excl) < lastSize {
						r.Violation("keygen:size-order", fmt.Sprintf("exclusion size went from %d to %d", lastSize, len(excl)), desc, nil)
					}
					if len(excl) < 1 || len(excl) > 3 {
						r.Violation("keygen:size-range", fmt.Sprintf("exclusion of %d operators", len(excl)), desc, nil)
					}
					// phase order: singles first, then pairs, then triplets
					want := 1
					if retry >= bf[1] {
						want = 2
					}
					if retry >= bf[1]+bf[2] {
						want = 3
					}
					if len(excl) != want {
						r.Violation("keygen:phase", fmt.Sprintf("retry %d excluded %d operators, expected %d (singles=%d pairs=%d triplets=%d)", retry, len(excl), want, bf[1], bf[2], bf[3]), desc, excl)
					}
					lastSize = len(excl)
				}
				if ji%97 == 0 && req == total/2+1 && seed == 1 {
					r.Sample(map[string]interface{}{"counts": jb.counts, "seats": members, "seed": seed, "requested": req,
						"admissible": bf[1:], "successful_retries": successes})
				}
			}
		}
	})
	r.Count("layouts_exhaustive", int64(len(comps)))
	r.Count("layouts_large_random", int64(nLarge))
}
