//go:build verif

package dkg

import (
	"encoding/json"
	"fmt"
	"math/rand"
	"os"
	"testing"
	"time"

	"github.com/bnb-chain/tss-lib/crypto/paillier"
	"github.com/bnb-chain/tss-lib/ecdsa/keygen"
	"github.com/btcsuite/btcd/btcec"

	"github.com/keep-network/keep-core/internal/verifkit"
	"github.com/keep-network/keep-core/pkg/crypto/ephemeral"
	"github.com/keep-network/keep-core/pkg/internal/tecdsatest"
	"github.com/keep-network/keep-core/pkg/protocol/group"
)

// c19LoadPreParams collects pre-parameter sets: the five inside the key share
// fixtures of the repository plus the four extra ones in /verif/fixtures.
func c19LoadPreParams() ([]keygen.LocalPreParams, error) {
	shares, err := tecdsatest.LoadPrivateKeyShareTestFixtures(5)
	if err != nil {
		return nil, err
	}
	var out []keygen.LocalPreParams
	for _, s := range shares {
		out = append(out, s.LocalPreParams)
	}
	dir := os.Getenv("VERIF_DIR")
	if dir == "" {
		dir = "/verif"
	}
	for i := 5; i <= 8; i++ {
		b, err := os.ReadFile(fmt.Sprintf("%s/fixtures/tecdsa_preparams_%d.json", dir, i))
		if err != nil {
			return nil, err
		}
		var pp keygen.LocalPreParams
		if err := json.Unmarshal(b, &pp); err != nil {
			return nil, err
		}
		if !pp.ValidateWithProof() {
			return nil, fmt.Errorf("fixture %d is incomplete", i)
		}
		out = append(out, pp)
	}
	return out, nil
}

func c19Time(rng *rand.Rand) time.Time {
	switch rng.Intn(6) {
	case 0:
		return time.Unix(0, 0).UTC()
	case 1:
		return time.Time{}
	case 2:
		return time.Date(9999, 12, 31, 23, 59, 59, 999999999, time.UTC)
	}
	return time.Unix(rng.Int63n(4102444800), rng.Int63n(1000000000)).UTC()
}

func c19PeersPayload(rng *rand.Rand, i int) map[group.MemberIndex][]byte {
	m := map[group.MemberIndex][]byte{}
	for n := c19Size(rng, i, 5); n > 0; n-- {
		m[c19Index(rng)] = c19Bytes(rng, 0, 96)
	}
	return m
}

func TestVerif_C19_TecdsaDkg(t *testing.T) {
	r := verifkit.Start(t, "C19", "tecdsadkg")
	defer r.Finish()
	pps, err := c19LoadPreParams()
	if err != nil {
		r.Inconclusive("cannot load pre-parameter fixtures: " + err.Error())
		return
	}
	r.Count("preparams_fixtures", int64(len(pps)))
	const f = "marshaling.go"
	c19Run(r, "dkg", []c19Decoder{
		{
			Type: "ephemeralPublicKeyMessage", File: f,
			New: func() c19Codec { return &ephemeralPublicKeyMessage{} },
			Gen: func(rng *rand.Rand, i int) c19Codec {
				m := map[group.MemberIndex]*ephemeral.PublicKey{}
				for n := c19Size(rng, i, 5); n > 0; n-- {
					_, pub := btcec.PrivKeyFromBytes(btcec.S256(), c19Bytes(rng, 32, 32))
					m[c19Index(rng)] = (*ephemeral.PublicKey)(pub)
				}
				return &ephemeralPublicKeyMessage{senderID: c19Index(rng), ephemeralPublicKeys: m, sessionID: c19String(rng)}
			},
			IndexPaths: []string{"1", "2*.1"},
		},
		{
			Type: "tssRoundOneMessage", File: f,
			New: func() c19Codec { return &tssRoundOneMessage{} },
			Gen: func(rng *rand.Rand, i int) c19Codec {
				return &tssRoundOneMessage{senderID: c19Index(rng), broadcastPayload: c19Bytes(rng, 0, 200), sessionID: c19String(rng)}
			},
			IndexPaths: []string{"1"},
		},
		{
			Type: "tssRoundTwoMessage", File: f,
			New: func() c19Codec { return &tssRoundTwoMessage{} },
			Gen: func(rng *rand.Rand, i int) c19Codec {
				return &tssRoundTwoMessage{senderID: c19Index(rng), broadcastPayload: c19Bytes(rng, 0, 200), peersPayload: c19PeersPayload(rng, i), sessionID: c19String(rng)}
			},
			IndexPaths: []string{"1", "3*.1"},
		},
		{
			Type: "tssRoundThreeMessage", File: f,
			New: func() c19Codec { return &tssRoundThreeMessage{} },
			Gen: func(rng *rand.Rand, i int) c19Codec {
				return &tssRoundThreeMessage{senderID: c19Index(rng), broadcastPayload: c19Bytes(rng, 0, 200), sessionID: c19String(rng)}
			},
			IndexPaths: []string{"1"},
		},
		{
			Type: "tssFinalizationMessage", File: f,
			New: func() c19Codec { return &tssFinalizationMessage{} },
			Gen: func(rng *rand.Rand, i int) c19Codec {
				return &tssFinalizationMessage{senderID: c19Index(rng), sessionID: c19String(rng)}
			},
			IndexPaths: []string{"1"},
		},
		{
			Type: "resultSignatureMessage", File: f,
			New: func() c19Codec { return &resultSignatureMessage{} },
			Gen: func(rng *rand.Rand, i int) c19Codec {
				m := &resultSignatureMessage{senderID: c19Index(rng), signature: c19Bytes(rng, 0, 72), publicKey: c19Bytes(rng, 0, 65), sessionID: c19String(rng)}
				copy(m.resultHash[:], c19Bytes(rng, ResultSignatureHashByteSize, ResultSignatureHashByteSize))
				return m
			},
			IndexPaths: []string{"1"},
		},
		{
			Type: "PreParams", File: f,
			New: func() c19Codec { return &PreParams{} },
			Gen: func(rng *rand.Rand, i int) c19Codec {
				src := pps[i%len(pps)]
				if i >= len(pps) && rng.Intn(2) == 0 {
					// further valid values: numbers replaced (storage does not validate them)
					cp := src
					cp.PaillierSK = &paillier.PrivateKey{
						PublicKey: paillier.PublicKey{N: c19BigInt(rng, 256)},
						LambdaN:   c19BigInt(rng, 256), PhiN: c19BigInt(rng, 256),
					}
					cp.Alpha, cp.Beta, cp.P, cp.Q = c19BigInt(rng, 256), c19BigInt(rng, 256), c19BigInt(rng, 128), c19BigInt(rng, 128)
					src = cp
				}
				return &PreParams{data: &src, creationTimestamp: c19Time(rng)}
			},
		},
	})
}
