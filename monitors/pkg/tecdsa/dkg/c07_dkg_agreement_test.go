//go:build verif

package dkg

// C07 — tECDSA DKG: operating members derive one wallet key; excluded ones
// never join.
//
// The monitor runs complete key generations of small groups (3-of-5, thorough
// tier also 4-of-7) through the real AsyncMachine and the real pkg/net/local
// broadcast channels. Every operating member is built exactly as
// Executor.Execute builds it (one member per run really goes through
// Executor.Execute with a pre-parameter pool served from fixtures; the others
// are built with the same four statements so that the monitor can wrap their
// states with a forwarding proxy and keep a handle on their message history).
//
// A perturbing channel wrapper delays every delivery by a random amount
// (which reorders messages across senders), delivers duplicates, and injects
// hostile traffic around every honest Send: echoes signed by excluded members,
// copies carrying the session id of another attempt, copies with a spoofed
// sender index signed by an excluded member or by an outsider. One member is
// held back inside Initiate so that it receives messages of later protocol
// states while it is still in an earlier one.
//
// Oracles (all independent of the code under test):
//   - admission: at every Receive the proxy compares the history length before
//     and after; a message that is not (current session, operating sender other
//     than the receiver, signed with that sender's operator key) must not make
//     the history grow, and a message that is all of that must make it grow
//     in every state of the chain, whatever its phase (a state that drops an
//     early later-phase message would leave the group hanging). The histories
//     are scanned again after the run.
//   - agreement: all operating members complete, output the same public key,
//     the same misbehaved list, and that list equals the exclusion set.
//   - progress attribution (white-box, never the wall clock): duplicates and
//     early messages must not decide whether the attempt completes.
//     (1) transition: whenever the machine calls Next() on a state that waits
//     for a message type, the history must hold a legitimate message of that
//     type from EVERY operating member other than the member itself
//     (de-duplicated per sender); the silent symmetric-key state waits for
//     nothing (states.go: CanTransition returns true) and is exempt.
//     (2) stuck: when a member does not finish, its current state object is
//     inspected after all goroutines of the run have returned: if Initiate
//     has returned, the history holds a legitimate awaited message from every
//     other operating member and CanTransition() still answers false (asked
//     three times), the member can never move on - a violation whatever the
//     speed of the machine (a merely slow run is never in that situation).
//     The same predicate (completeness computed BEFORE asking the state) is
//     evaluated at every poll of the machine so that such a run is stopped at
//     once instead of waiting for the watchdog; the verdict is always the one
//     taken at quiescence.
//     (3) a member whose Execute returns an error while the run context is
//     still alive failed on its own (not because the monitor cancelled).
//     (4) the Executor.Execute member is covered as well: the machine passes
//     the current state object to the logger ("transitioning to a new state"),
//     so the logger handed to Execute gives the monitor the same handle on the
//     state and its history without touching the production path; (1) is
//     checked at that log call (main loop, right after Next()), (2) at
//     quiescence ("Initiate returned" = the state's own broadcast went out,
//     the last statement of every Initiate). Independently of the log format
//     there is a black-box variant of (1): the member must not send its phase
//     k+1 message before its handler has even been handed a legitimate phase
//     k message from every other operating member.
//     In every run one receiver Y is scripted: for the scripted phases the
//     message of member X is handed to Y twice in a row (a protocol-level
//     duplicate, below the network retransmission filter) and the message of
//     a "slow" member Z is withheld until Y has been handed X's duplicate and
//     the message of every other member, so the duplicate deterministically
//     sits in the history before the slowest member's message.
//   - algebra: Ks = {seed + original index} of the operating members, every
//     member's ShareID is its own identity, BigXj[j] = Xi_j*G, and every
//     (t+1)-subset of the secret shares interpolates (Lagrange at 0 over Ks) to
//     one scalar d with d*G = ECDSAPub = reported group public key.

import (
	"bytes"
	"context"
	"encoding/json"
	"fmt"
	"math/big"
	"math/rand"
	"os"
	"path/filepath"
	"sort"
	"strings"
	"sync"
	"sync/atomic"
	"testing"
	"time"

	"github.com/bnb-chain/tss-lib/crypto/paillier"
	"github.com/bnb-chain/tss-lib/ecdsa/keygen"

	"github.com/keep-network/keep-core/internal/testutils"
	"github.com/keep-network/keep-core/internal/verifkit"
	"github.com/keep-network/keep-core/pkg/chain"
	"github.com/keep-network/keep-core/pkg/chain/local_v1"
	"github.com/keep-network/keep-core/pkg/crypto/ephemeral"
	"github.com/keep-network/keep-core/pkg/generator"
	"github.com/keep-network/keep-core/pkg/internal/tecdsatest"
	"github.com/keep-network/keep-core/pkg/net"
	netlocal "github.com/keep-network/keep-core/pkg/net/local"
	"github.com/keep-network/keep-core/pkg/operator"
	"github.com/keep-network/keep-core/pkg/protocol/group"
	"github.com/keep-network/keep-core/pkg/protocol/state"
	"github.com/keep-network/keep-core/pkg/tecdsa"
)

// ---------------------------------------------------------------- fixtures

func c07CopyInt(x *big.Int) *big.Int {
	if x == nil {
		return nil
	}
	return new(big.Int).Set(x)
}

// c07CopyPreParams returns a deep copy, so that concurrently running key
// generations never share a big.Int.
func c07CopyPreParams(p keygen.LocalPreParams) keygen.LocalPreParams {
	out := keygen.LocalPreParams{
		NTildei: c07CopyInt(p.NTildei), H1i: c07CopyInt(p.H1i), H2i: c07CopyInt(p.H2i),
		Alpha: c07CopyInt(p.Alpha), Beta: c07CopyInt(p.Beta), P: c07CopyInt(p.P), Q: c07CopyInt(p.Q),
	}
	if p.PaillierSK != nil {
		out.PaillierSK = &paillier.PrivateKey{
			PublicKey: paillier.PublicKey{N: c07CopyInt(p.PaillierSK.N)},
			LambdaN:   c07CopyInt(p.PaillierSK.LambdaN),
			PhiN:      c07CopyInt(p.PaillierSK.PhiN),
		}
	}
	return out
}

// c07LoadPreParams loads the five pre-parameter sets of tecdsatest plus the
// four committed in /verif/fixtures.
func c07LoadPreParams() ([]keygen.LocalPreParams, error) {
	fx, err := tecdsatest.LoadPrivateKeyShareTestFixtures(5)
	if err != nil {
		return nil, err
	}
	var out []keygen.LocalPreParams
	for _, f := range fx {
		out = append(out, f.LocalPreParams)
	}
	dir := os.Getenv("VERIF_DIR")
	if dir == "" {
		dir = "/verif"
	}
	for i := 5; i <= 8; i++ {
		b, err := os.ReadFile(filepath.Join(dir, "fixtures", fmt.Sprintf("tecdsa_preparams_%d.json", i)))
		if err != nil {
			return nil, err
		}
		var pp keygen.LocalPreParams
		if err := json.Unmarshal(b, &pp); err != nil {
			return nil, err
		}
		out = append(out, pp)
	}
	for i, pp := range out {
		if !pp.ValidateWithProof() {
			return nil, fmt.Errorf("pre-parameter set %d is incomplete", i)
		}
	}
	return out, nil
}

// c07Persist serves one fixture pre-parameter set to the real parameter pool
// used by Executor.Execute.
type c07Persist struct {
	items []*generator.Persisted[PreParams]
}

func (p *c07Persist) Save(pp *PreParams) (*generator.Persisted[PreParams], error) {
	return &generator.Persisted[PreParams]{Data: *pp, ID: "generated"}, nil
}
func (p *c07Persist) Delete(*generator.Persisted[PreParams]) error { return nil }
func (p *c07Persist) ReadAll() ([]*generator.Persisted[PreParams], error) {
	return p.items, nil
}

func c07Executor(pp keygen.LocalPreParams) *Executor {
	logger := &testutils.MockLogger{}
	persist := &c07Persist{items: []*generator.Persisted[PreParams]{
		{Data: PreParams{data: &pp, creationTimestamp: time.Unix(1, 0)}, ID: "fixture"},
	}}
	// The generation function never produces anything: the pool only hands
	// out the fixture set (nothing is generated at check time).
	gen := func(ctx context.Context) *PreParams {
		<-ctx.Done()
		return nil
	}
	pool := generator.NewParameterPool[PreParams](logger, &generator.Scheduler{}, persist, 1, gen, 0)
	return &Executor{
		tssPreParamsPool:         &tssPreParamsPool{pool, logger},
		keyGenerationConcurrency: 1,
	}
}

// ---------------------------------------------------------------- messages

// c07StateOfType maps a protocol message type to the number of the state that
// consumes it (1 ephemeral keys, 2 symmetric keys - silent, 3..5 TSS rounds,
// 6 finalization).
func c07StateOfType(t string) int {
	switch t {
	case (&ephemeralPublicKeyMessage{}).Type():
		return 1
	case (&tssRoundOneMessage{}).Type():
		return 3
	case (&tssRoundTwoMessage{}).Type():
		return 4
	case (&tssRoundThreeMessage{}).Type():
		return 5
	case (&tssFinalizationMessage{}).Type():
		return 6
	}
	return 0
}

func c07StateNo(s state.AsyncState) int {
	switch s.(type) {
	case *ephemeralKeyPairGenerationState:
		return 1
	case *symmetricKeyGenerationState:
		return 2
	case *tssRoundOneState:
		return 3
	case *tssRoundTwoState:
		return 4
	case *tssRoundThreeState:
		return 5
	case *finalizationState:
		return 6
	}
	return 0
}

// c07AwaitedType is the message type whose arrival from every other operating
// member ends the given state (states.go CanTransition); the symmetric-key
// state (2) waits for nothing: its CanTransition is the constant true.
func c07AwaitedType(stateNo int) string {
	switch stateNo {
	case 1:
		return (&ephemeralPublicKeyMessage{}).Type()
	case 3:
		return (&tssRoundOneMessage{}).Type()
	case 4:
		return (&tssRoundTwoMessage{}).Type()
	case 5:
		return (&tssRoundThreeMessage{}).Type()
	case 6:
		return (&tssFinalizationMessage{}).Type()
	}
	return ""
}

var c07AllTypes = []string{
	(&ephemeralPublicKeyMessage{}).Type(),
	(&tssRoundOneMessage{}).Type(),
	(&tssRoundTwoMessage{}).Type(),
	(&tssRoundThreeMessage{}).Type(),
	(&tssFinalizationMessage{}).Type(),
}

func c07Garble(b []byte, rng *rand.Rand) []byte {
	out := append([]byte(nil), b...)
	if len(out) == 0 {
		return []byte{byte(rng.Intn(256))}
	}
	for k := 0; k < 3; k++ {
		out[rng.Intn(len(out))] ^= byte(1 + rng.Intn(255))
	}
	return out
}

// c07Clone builds a copy of a protocol message with another sender index and
// session id; with garble the payload is altered as well (so that an admitted
// copy changes what the receiver computes).
func c07Clone(m message, sender group.MemberIndex, session string, garble bool, n int, rng *rand.Rand) net.TaggedMarshaler {
	switch t := m.(type) {
	case *ephemeralPublicKeyMessage:
		keys := map[group.MemberIndex]*ephemeral.PublicKey{}
		for k, v := range t.ephemeralPublicKeys {
			keys[k] = v
		}
		if garble || sender != t.senderID {
			// a full key set for everybody but the claimed sender
			keys = map[group.MemberIndex]*ephemeral.PublicKey{}
			for i := 1; i <= n; i++ {
				if group.MemberIndex(i) == sender {
					continue
				}
				kp, err := ephemeral.GenerateKeyPair()
				if err != nil {
					continue
				}
				keys[group.MemberIndex(i)] = kp.PublicKey
			}
		}
		return &ephemeralPublicKeyMessage{senderID: sender, ephemeralPublicKeys: keys, sessionID: session}
	case *tssRoundOneMessage:
		p := t.broadcastPayload
		if garble {
			p = c07Garble(p, rng)
		}
		return &tssRoundOneMessage{senderID: sender, broadcastPayload: p, sessionID: session}
	case *tssRoundTwoMessage:
		p := t.broadcastPayload
		peers := map[group.MemberIndex][]byte{}
		for k, v := range t.peersPayload {
			if garble {
				v = c07Garble(v, rng)
			}
			peers[k] = v
		}
		if garble {
			p = c07Garble(p, rng)
		}
		return &tssRoundTwoMessage{senderID: sender, broadcastPayload: p, peersPayload: peers, sessionID: session}
	case *tssRoundThreeMessage:
		p := t.broadcastPayload
		if garble {
			p = c07Garble(p, rng)
		}
		return &tssRoundThreeMessage{senderID: sender, broadcastPayload: p, sessionID: session}
	case *tssFinalizationMessage:
		return &tssFinalizationMessage{senderID: sender, sessionID: session}
	}
	return nil
}

// c07Blank builds a syntactically valid message of the given state number
// without any template (used for the burst sent before the protocol starts).
func c07Blank(stateNo int, sender group.MemberIndex, session string, n int, rng *rand.Rand) net.TaggedMarshaler {
	junk := make([]byte, 40+rng.Intn(60))
	rng.Read(junk)
	switch stateNo {
	case 1:
		return c07Clone(&ephemeralPublicKeyMessage{senderID: sender}, sender, session, true, n, rng)
	case 3:
		return &tssRoundOneMessage{senderID: sender, broadcastPayload: junk, sessionID: session}
	case 4:
		peers := map[group.MemberIndex][]byte{}
		for i := 1; i <= n; i++ {
			if group.MemberIndex(i) != sender {
				peers[group.MemberIndex(i)] = c07Garble(junk, rng)
			}
		}
		return &tssRoundTwoMessage{senderID: sender, broadcastPayload: junk, peersPayload: peers, sessionID: session}
	case 5:
		return &tssRoundThreeMessage{senderID: sender, broadcastPayload: junk, sessionID: session}
	case 6:
		return &tssFinalizationMessage{senderID: sender, sessionID: session}
	}
	return nil
}

// ---------------------------------------------------------------- run plan

type c07Plan struct {
	idx         int
	n, dt       int
	excluded    []group.MemberIndex
	seed        *big.Int
	holdMember  group.MemberIndex // 0 = nobody is held back
	holdState   int
	holdWant    int
	execMember  group.MemberIndex // member run through Executor.Execute (0 = none)
	ppOffset    int
	maxDelayMs  int
	dupProb     float64
	injectProb  float64
	race        bool
	holdSleepMs int // race mode only: plain sleep instead of an observed hold
	// scripted duplicate: at receiver scriptY, for the message types awaited by
	// the states scriptStates, scriptX's message is handed over twice in a row
	// and scriptZ's message is withheld until that happened and every other
	// operating member's message of the type was handed over
	scriptY, scriptX, scriptZ group.MemberIndex
	scriptStates              []int
}

func (p *c07Plan) operating() []group.MemberIndex {
	var out []group.MemberIndex
	for i := 1; i <= p.n; i++ {
		if !c07In(p.excluded, group.MemberIndex(i)) {
			out = append(out, group.MemberIndex(i))
		}
	}
	return out
}

func (p *c07Plan) desc() string {
	return fmt.Sprintf("n=%d honest=%d excluded=%v seed=%s hold=m%d@state%d(want %d) executor=m%d preparams+%d delay<=%dms dup=%.2f inject=%.2f script(at m%d: m%d twice before slow m%d, states %v)",
		p.n, p.n-p.dt, p.excluded, p.seed.Text(16), p.holdMember, p.holdState, p.holdWant, p.execMember, p.ppOffset, p.maxDelayMs, p.dupProb, p.injectProb,
		p.scriptY, p.scriptX, p.scriptZ, p.scriptStates)
}

func c07In(l []group.MemberIndex, x group.MemberIndex) bool {
	for _, v := range l {
		if v == x {
			return true
		}
	}
	return false
}

// c07ExclusionSets enumerates every subset of {1..n} of size <= maxSize.
func c07ExclusionSets(n, maxSize int) [][]group.MemberIndex {
	var out [][]group.MemberIndex
	var rec func(start int, cur []group.MemberIndex)
	rec = func(start int, cur []group.MemberIndex) {
		out = append(out, append([]group.MemberIndex(nil), cur...))
		if len(cur) == maxSize {
			return
		}
		for i := start; i <= n; i++ {
			rec(i+1, append(cur, group.MemberIndex(i)))
		}
	}
	rec(1, nil)
	sort.SliceStable(out, func(i, j int) bool { return len(out[i]) < len(out[j]) })
	return out
}

func c07MakePlan(idx, n, dt int, excluded []group.MemberIndex, rng *rand.Rand, race bool) *c07Plan {
	p := &c07Plan{idx: idx, n: n, dt: dt, excluded: excluded, race: race}
	// 256-bit seed like the on-chain DKG seed; every third run a small one
	b := make([]byte, 32)
	rng.Read(b)
	p.seed = new(big.Int).SetBytes(b)
	if rng.Intn(3) == 0 {
		p.seed = big.NewInt(int64(rng.Intn(1000)))
	}
	ops := p.operating()
	p.execMember = ops[rng.Intn(len(ops))]
	// the held member is one of the proxied ones
	var proxied []group.MemberIndex
	for _, o := range ops {
		if o != p.execMember {
			proxied = append(proxied, o)
		}
	}
	p.holdMember = proxied[rng.Intn(len(proxied))]
	p.holdState = []int{1, 1, 3, 4, 5}[rng.Intn(5)]
	p.holdWant = 1 + rng.Intn(len(ops)-1)
	p.holdSleepMs = 3000 + rng.Intn(3000)
	p.ppOffset = rng.Intn(9)
	p.maxDelayMs = []int{5, 30, 30, 60}[rng.Intn(4)]
	p.dupProb = []float64{0.1, 0.25, 0.5}[rng.Intn(3)]
	p.injectProb = []float64{0.6, 0.9}[rng.Intn(2)]
	// the scripted receiver is a proxied member (its history is inspected at
	// the transition); X and Z are two other operating members (there are at
	// least two: the honest threshold of a 3-of-5 / 4-of-7 group is >= 3)
	p.scriptY = proxied[rng.Intn(len(proxied))]
	var others []group.MemberIndex
	for _, o := range ops {
		if o != p.scriptY {
			others = append(others, o)
		}
	}
	rng.Shuffle(len(others), func(i, j int) { others[i], others[j] = others[j], others[i] })
	p.scriptX, p.scriptZ = others[0], others[1]
	for _, st := range []int{1, 3, 4, 5, 6} {
		if rng.Intn(2) == 0 {
			p.scriptStates = append(p.scriptStates, st)
		}
	}
	if len(p.scriptStates) == 0 {
		p.scriptStates = []int{[]int{1, 3, 4, 5, 6}[rng.Intn(5)]}
	}
	return p
}

// ---------------------------------------------------------------- observation

// c07Obs is the per-member observation slot. It is written only by the
// goroutines of that member (Receive: the machine's main loop; Send: the
// state's Initiate goroutine, which the machine orders) and read by the test
// after wg.Wait. The single exception is `ahead`, used by the observed hold
// of the non-race pass.
type c07Obs struct {
	id           group.MemberIndex
	receives     int
	admitted     int
	foreign      map[string]int // class -> receives
	foreignAdm   []string       // violations: class@state
	legitDropped []string       // state types that dropped a legitimate message
	lagReceives  int
	maxLag       int
	dupDelivered int
	injectedSent map[string]int
	ahead        int64 // atomic
	holdObserved int

	// progress attribution. cur and the transition fields are owned by the
	// machine's main loop (Next), the poll counters are atomics written by
	// the state's polling goroutine, exec* (Executor.Execute member, non-race
	// pass only) are guarded by mu.
	cur                *c07Proxy
	transitionsChecked int
	transitionsWithDup int
	transitionsSilent  int
	earlyTransitions   []c07Early
	scriptOrdered      int   // transitions whose history had X twice before Z's first
	scriptedDups       int   // written by the channel's receive goroutine
	scriptFallbacks    int32 // atomic: withheld message released by the safety timer
	pollsComplete      int64 // atomic: polls with a complete message set that answered true
	suspect            int64 // atomic: polls with a complete message set that answered false
	mu                 sync.Mutex
	execState          state.AsyncState      // mu; written by the main loop (logger hook)
	execBase           *state.BaseAsyncState // mu; written by the main loop (logger hook)
	execSent           map[string]bool       // mu: types whose Send returned nil
	execFed            map[string]map[group.MemberIndex]bool
	execSendsChecked   int
	execEarly          []c07Early
}

// c07Early describes a transition (or a send) that happened with an incomplete
// set of awaited messages.
type c07Early struct {
	State   string `json:"state"`
	Awaited string `json:"awaited_type"`
	Counts  string `json:"legit_entries_per_sender"`
	Missing []int  `json:"missing_senders"`
	Dups    bool   `json:"duplicates_present"`
}

// c07Tally is the per-sender view of the legitimate history entries of one
// message type (legitimate = classify(...) == "": current session, member
// index of the group, signed with that member's operator key, operating, not
// the receiver itself - the predicate of the admission rule).
type c07Tally struct {
	counts  map[group.MemberIndex]int
	order   []group.MemberIndex // senders of the legitimate entries in history order
	missing []group.MemberIndex
	dups    bool
}

func (t *c07Tally) complete() bool { return len(t.missing) == 0 }

func (t *c07Tally) String() string {
	var ks []int
	for k := range t.counts {
		ks = append(ks, int(k))
	}
	sort.Ints(ks)
	var sb strings.Builder
	for i, k := range ks {
		if i > 0 {
			sb.WriteByte(' ')
		}
		fmt.Fprintf(&sb, "m%d:%d", k, t.counts[group.MemberIndex(k)])
	}
	return sb.String()
}

func (t *c07Tally) early(stateName, typ string) c07Early {
	e := c07Early{State: stateName, Awaited: typ, Counts: t.String(), Dups: t.dups}
	for _, m := range t.missing {
		e.Missing = append(e.Missing, int(m))
	}
	return e
}

func (e *c07Env) tallyOf(me group.MemberIndex, msgs []net.Message) *c07Tally {
	t := &c07Tally{counts: map[group.MemberIndex]int{}}
	for _, m := range msgs {
		if e.classify(me, m) != "" {
			continue
		}
		s := m.Payload().(message).SenderID()
		t.counts[s]++
		t.order = append(t.order, s)
		if t.counts[s] > 1 {
			t.dups = true
		}
	}
	for _, o := range e.operating {
		if o != me && t.counts[o] == 0 {
			t.missing = append(t.missing, o)
		}
	}
	return t
}

func (e *c07Env) tally(me group.MemberIndex, base *state.BaseAsyncState, typ string) *c07Tally {
	return e.tallyOf(me, base.GetAllReceivedMessages(typ))
}

// c07Env is the immutable description of one run shared by all members.
type c07Env struct {
	plan      *c07Plan
	session   string
	other     string
	pubBytes  map[group.MemberIndex][]byte
	operating []group.MemberIndex
	advCh     map[group.MemberIndex]net.BroadcastChannel // channels of excluded members
	outsider  net.BroadcastChannel
	// abort stops the run shortly after a definite violation was observed
	// (the members would otherwise wait for each other until the watchdog)
	abort func()
}

// classify returns "" for a message the property allows into the history of
// member me, "self" for the member's own broadcast (no expectation), and the
// class of foreign message otherwise.
func (e *c07Env) classify(me group.MemberIndex, msg net.Message) string {
	pm, ok := msg.Payload().(message)
	if !ok {
		return "not-a-protocol-message"
	}
	s := pm.SenderID()
	switch {
	case pm.SessionID() != e.session:
		return "other-session"
	case int(s) < 1 || int(s) > e.plan.n:
		return "non-member-index"
	case !bytes.Equal(msg.SenderPublicKey(), e.pubBytes[s]):
		return "sender-key-mismatch"
	case s == me:
		return "self"
	case !c07In(e.operating, s):
		return "excluded-sender"
	}
	return ""
}

func c07HistLen(b *state.BaseAsyncState) int {
	n := 0
	for _, t := range c07AllTypes {
		n += len(b.GetAllReceivedMessages(t))
	}
	return n
}

func c07BaseOf(s state.AsyncState) *state.BaseAsyncState {
	switch t := s.(type) {
	case *ephemeralKeyPairGenerationState:
		return t.BaseAsyncState
	case *symmetricKeyGenerationState:
		return t.BaseAsyncState
	case *tssRoundOneState:
		return t.BaseAsyncState
	case *tssRoundTwoState:
		return t.BaseAsyncState
	case *tssRoundThreeState:
		return t.BaseAsyncState
	case *finalizationState:
		return t.BaseAsyncState
	}
	return nil
}

// c07NoteTransition applies the transition rule to a state that is being left
// (main loop of the member's machine).
func c07NoteTransition(env *c07Env, obs *c07Obs, left state.AsyncState, base *state.BaseAsyncState) {
	stateNo := c07StateNo(left)
	typ := c07AwaitedType(stateNo)
	if typ == "" || base == nil {
		obs.transitionsSilent++
		return
	}
	t := env.tally(obs.id, base, typ)
	obs.transitionsChecked++
	if t.dups {
		obs.transitionsWithDup++
	}
	if !t.complete() {
		obs.earlyTransitions = append(obs.earlyTransitions, t.early(fmt.Sprintf("%T", left), typ))
		env.abort()
	}
	pl := env.plan
	scriptedState := false
	for _, st := range pl.scriptStates {
		scriptedState = scriptedState || st == stateNo
	}
	if pl.scriptY == obs.id && scriptedState {
		// did the scripted order reach the history: X's second entry
		// before Z's first
		xs, ok := 0, false
		for _, s := range t.order {
			if s == pl.scriptX {
				xs++
			}
			if s == pl.scriptZ {
				ok = xs >= 2
				break
			}
		}
		if ok {
			obs.scriptOrdered++
		}
	}
}

// c07ExecLogger is the logger handed to Executor.Execute. The asynchronous
// machine logs every state it enters ("transitioning to a new state",
// "reached final state") with the state object itself among the arguments,
// from its main loop: that is the monitor's handle on the states of the
// member that runs through the unmodified production entry point.
type c07ExecLogger struct {
	*testutils.MockLogger
	env *c07Env
	obs *c07Obs
}

func (l *c07ExecLogger) Infof(format string, args ...interface{}) {
	for _, a := range args {
		st, ok := a.(state.AsyncState)
		if !ok || c07StateNo(st) == 0 {
			continue
		}
		o := l.obs
		prev, prevBase := o.execState, o.execBase // only this goroutine writes them
		if st != prev {
			if prev != nil {
				c07NoteTransition(l.env, o, prev, prevBase)
			}
			o.mu.Lock()
			o.execState, o.execBase = st, c07BaseOf(st)
			o.mu.Unlock()
		} else if strings.Contains(format, "final state") {
			c07NoteTransition(l.env, o, st, prevBase)
		}
	}
}

// c07PollExec is the poll-time stuck suspicion (see c07Proxy.CanTransition)
// for the Executor.Execute member, whose polls the monitor cannot intercept:
// the monitor asks the state itself, from a goroutine of its own. Like there
// the completeness is computed first and the suspicion only stops the run.
func c07PollExec(env *c07Env, ob *c07Obs) {
	ob.mu.Lock()
	st, base := ob.execState, ob.execBase
	typ := ""
	if st != nil {
		typ = c07AwaitedType(c07StateNo(st))
	}
	sent := ob.execSent[typ]
	ob.mu.Unlock()
	if st == nil || base == nil || typ == "" || !sent {
		return
	}
	if !env.tally(ob.id, base, typ).complete() {
		return
	}
	if st.CanTransition() {
		atomic.AddInt64(&ob.pollsComplete, 1)
	} else if atomic.AddInt64(&ob.suspect, 1) == 1 {
		env.abort()
	}
}

// c07Proxy forwards every call of the AsyncState interface to the real state.
type c07Proxy struct {
	inner   state.AsyncState
	base    *state.BaseAsyncState
	env     *c07Env
	obs     *c07Obs
	stateNo int
	// initiated is set (atomically, by the goroutine that ran Initiate) once
	// Initiate has returned without error: from then on the machine polls
	// CanTransition
	initiated int32
}

func c07Wrap(s state.AsyncState, base *state.BaseAsyncState, env *c07Env, obs *c07Obs) *c07Proxy {
	p := &c07Proxy{inner: s, base: base, env: env, obs: obs, stateNo: c07StateNo(s)}
	obs.cur = p
	return p
}

func (p *c07Proxy) Initiate(ctx context.Context) error {
	err := p.inner.Initiate(ctx)
	pl := p.env.plan
	if err == nil && pl.holdMember == p.obs.id && pl.holdState == p.stateNo {
		if pl.race {
			select {
			case <-time.After(time.Duration(pl.holdSleepMs) * time.Millisecond):
			case <-ctx.Done():
			}
			return nil
		}
		// hold this member inside Initiate until it has received holdWant
		// messages of later states (bounded, so that a harness problem can
		// never block the protocol)
		deadline := time.Now().Add(25 * time.Second)
		for atomic.LoadInt64(&p.obs.ahead) < int64(pl.holdWant) && time.Now().Before(deadline) && ctx.Err() == nil {
			time.Sleep(5 * time.Millisecond)
		}
		if atomic.LoadInt64(&p.obs.ahead) >= int64(pl.holdWant) {
			p.obs.holdObserved = 1
		}
	}
	if err == nil {
		atomic.StoreInt32(&p.initiated, 1)
	}
	return err
}

func (p *c07Proxy) Receive(msg net.Message) error {
	before := c07HistLen(p.base)
	err := p.inner.Receive(msg)
	grew := c07HistLen(p.base) > before
	o := p.obs
	o.receives++
	if grew {
		o.admitted++
	}
	class := p.env.classify(o.id, msg)
	switch class {
	case "":
		if !grew {
			// every state of the key-generation chain (states.go: ephemeral
			// keys, symmetric keys, TSS rounds one..three, finalization)
			// stores every accepted `message` with ReceiveToHistory whatever
			// its phase; no state is exempt
			o.legitDropped = append(o.legitDropped, fmt.Sprintf("%T", p.inner))
			p.env.abort()
		}
		if lag := c07StateOfType(msg.Type()) - p.stateNo; lag > 0 {
			o.lagReceives++
			if lag > o.maxLag {
				o.maxLag = lag
			}
			if !p.env.plan.race {
				atomic.AddInt64(&o.ahead, 1)
			}
		}
	case "self":
	default:
		o.foreign[class]++
		if grew {
			o.foreignAdm = append(o.foreignAdm, fmt.Sprintf("%s@%T", class, p.inner))
			p.env.abort()
		}
	}
	return err
}

// CanTransition forwards the machine's poll. The completeness of the awaited
// message set is computed BEFORE the state is asked: the history only grows,
// so "complete before" implies "complete while the state evaluated its
// condition", and a state that answers false then is suspected of being stuck.
// The suspicion only stops the run early; the verdict is taken at quiescence.
func (p *c07Proxy) CanTransition() bool {
	typ := c07AwaitedType(p.stateNo)
	complete := typ != "" && p.env.tally(p.obs.id, p.base, typ).complete()
	ok := p.inner.CanTransition()
	if complete {
		if ok {
			atomic.AddInt64(&p.obs.pollsComplete, 1)
		} else if atomic.AddInt64(&p.obs.suspect, 1) == 1 {
			p.env.abort()
		}
	}
	return ok
}

func (p *c07Proxy) Next() (state.AsyncState, error) {
	// the machine moves this member on: the awaited messages of every other
	// operating member must be in the history now (Next runs on the machine's
	// main loop, the only writer of the history)
	c07NoteTransition(p.env, p.obs, p.inner, p.base)
	n, err := p.inner.Next()
	if err != nil || n == nil {
		return n, err
	}
	return c07Wrap(n, p.base, p.env, p.obs), nil
}

func (p *c07Proxy) MemberIndex() group.MemberIndex { return p.inner.MemberIndex() }

// ---------------------------------------------------------------- channel

// c07Chan perturbs one member's view of the broadcast channel.
type c07Chan struct {
	inner   net.BroadcastChannel
	id      group.MemberIndex
	env     *c07Env
	obs     *c07Obs
	sendRng *rand.Rand // used on the Send path only
	recvRng *rand.Rand // used by the channel's receive goroutine only
	runCtx  context.Context
}

func (c *c07Chan) Name() string                                  { return c.inner.Name() }
func (c *c07Chan) SetUnmarshaler(u func() net.TaggedUnmarshaler) { c.inner.SetUnmarshaler(u) }
func (c *c07Chan) SetFilter(filter net.BroadcastChannelFilter) error {
	return c.inner.SetFilter(filter)
}

func (c *c07Chan) inject(class string, ch net.BroadcastChannel, m net.TaggedMarshaler) {
	if m == nil || ch == nil {
		return
	}
	if err := ch.Send(c.runCtx, m, net.BackoffRetransmissionStrategy); err == nil {
		c.obs.injectedSent[class]++
	}
}

// execCheckSend is the black-box transition check for the member that runs
// through Executor.Execute (no handle on its states): sending the message of
// state k+1 proves that state k was left; the state's history is a subset of
// what the handler was handed, so if even that is incomplete the transition
// happened with an incomplete set.
func (c *c07Chan) execCheckSend(pm message) {
	pl := c.env.plan
	if pl.race || c.id != pl.execMember {
		return
	}
	prev := 0
	switch c07StateOfType(pm.Type()) {
	case 3:
		prev = 1 // the silent state 2 lies in between
	case 4:
		prev = 3
	case 5:
		prev = 4
	case 6:
		prev = 5
	default:
		return
	}
	typ := c07AwaitedType(prev)
	o := c.obs
	o.mu.Lock()
	defer o.mu.Unlock()
	o.execSendsChecked++
	e := c07Early{State: fmt.Sprintf("state %d (left before sending %s)", prev, pm.Type()), Awaited: typ}
	var have []string
	for _, op := range c.env.operating {
		if op == c.id {
			continue
		}
		if o.execFed[typ][op] {
			have = append(have, fmt.Sprintf("m%d", op))
		} else {
			e.Missing = append(e.Missing, int(op))
		}
	}
	e.Counts = "handed to the handler: " + strings.Join(have, " ")
	if len(e.Missing) > 0 {
		o.execEarly = append(o.execEarly, e)
		c.env.abort()
	}
}

// execNoteFed records (before the handler is called) that a legitimate message
// is handed to the Executor.Execute member.
func (c *c07Chan) execNoteFed(m net.Message) {
	pl := c.env.plan
	if pl.race || c.id != pl.execMember || c.env.classify(c.id, m) != "" {
		return
	}
	o := c.obs
	o.mu.Lock()
	if o.execFed == nil {
		o.execFed = map[string]map[group.MemberIndex]bool{}
	}
	if o.execFed[m.Type()] == nil {
		o.execFed[m.Type()] = map[group.MemberIndex]bool{}
	}
	o.execFed[m.Type()][m.Payload().(message).SenderID()] = true
	o.mu.Unlock()
}

func (c *c07Chan) Send(ctx context.Context, m net.TaggedMarshaler, strategy ...net.RetransmissionStrategy) error {
	pm, ok := m.(message)
	if ok {
		c.execCheckSend(pm)
		env, rng, n := c.env, c.sendRng, c.env.plan.n
		p := env.plan.injectProb
		// hostile traffic goes out *before* the honest message, so that an
		// admitted copy would be the first one of its sender in the history
		if rng.Float64() < p {
			// the same sender, the session id of another attempt, altered payload
			c.inject("other-session", c.inner, c07Clone(pm, c.id, env.other, true, n, rng))
		}
		for _, e := range env.plan.excluded {
			if rng.Float64() < p {
				// an excluded member takes part as if it were operating
				c.inject("excluded-sender", env.advCh[e], c07Clone(pm, e, env.session, false, n, rng))
			}
			if rng.Float64() < p/2 {
				// an excluded member claims the honest sender's index
				c.inject("sender-key-mismatch", env.advCh[e], c07Clone(pm, c.id, env.session, true, n, rng))
			}
		}
		if rng.Float64() < p/2 {
			c.inject("sender-key-mismatch", env.outsider, c07Clone(pm, c.id, env.session, true, n, rng))
		}
		if rng.Float64() < p/4 {
			c.inject("non-member-index", env.outsider, c07Clone(pm, group.MemberIndex(n+1), env.session, false, n, rng))
		}
	}
	err := c.inner.Send(ctx, m, strategy...)
	if ok && err == nil && c.id == c.env.plan.execMember {
		c.obs.mu.Lock()
		if c.obs.execSent == nil {
			c.obs.execSent = map[string]bool{}
		}
		c.obs.execSent[pm.Type()] = true
		c.obs.mu.Unlock()
	}
	return err
}

// c07ScriptType is the scripted delivery of one message type at the scripted
// receiver. Apart from `released` it is touched only by the channel's receive
// goroutine (the local channel calls the Recv callback from one goroutine,
// after its retransmission filter).
type c07ScriptType struct {
	seen     map[group.MemberIndex]bool
	dupDone  bool
	pendingZ func()
	released int32 // atomic: Z's withheld message went out
}

func (c *c07Chan) newScript() map[string]*c07ScriptType {
	pl := c.env.plan
	if pl.scriptY != c.id {
		return nil
	}
	sc := map[string]*c07ScriptType{}
	for _, st := range pl.scriptStates {
		sc[c07AwaitedType(st)] = &c07ScriptType{seen: map[group.MemberIndex]bool{}}
	}
	return sc
}

// scripted handles a legitimate message of a scripted type at the scripted
// receiver and reports whether it took the message over. X's message is handed
// over twice in a row, every other sender's once and at once, Z's only after
// all of that (plus a pause longer than the machine's polling interval, so
// that the machine gets to look at the history with the duplicate in and Z's
// message missing). Handing over is sequential on this goroutine, the
// machine's receive buffer is a FIFO: the order in the history is the order
// produced here. A safety timer releases Z's message anyway.
func (c *c07Chan) scripted(sc map[string]*c07ScriptType, m net.Message, deliver func()) bool {
	st := sc[m.Type()]
	if st == nil || c.env.classify(c.id, m) != "" {
		return false
	}
	pl := c.env.plan
	s := m.Payload().(message).SenderID()
	if st.seen[s] {
		return false
	}
	st.seen[s] = true
	condMet := func() bool {
		if !st.dupDone {
			return false
		}
		for _, o := range c.env.operating {
			if o != c.id && o != pl.scriptZ && !st.seen[o] {
				return false
			}
		}
		return true
	}
	if s == pl.scriptZ {
		release := func() {
			if atomic.CompareAndSwapInt32(&st.released, 0, 1) {
				deliver()
			}
		}
		if condMet() {
			time.AfterFunc(250*time.Millisecond, release)
		} else {
			st.pendingZ = release
			time.AfterFunc(20*time.Second, func() {
				if atomic.LoadInt32(&st.released) == 0 {
					atomic.AddInt32(&c.obs.scriptFallbacks, 1)
				}
				release()
			})
		}
		return true
	}
	if s == pl.scriptX {
		c.obs.dupDelivered++
		c.obs.scriptedDups++
		deliver()
		deliver()
		st.dupDone = true
	} else {
		deliver()
	}
	if st.pendingZ != nil && condMet() {
		time.AfterFunc(250*time.Millisecond, st.pendingZ)
		st.pendingZ = nil
	}
	return true
}

func (c *c07Chan) Recv(ctx context.Context, handler func(m net.Message)) {
	pl := c.env.plan
	sc := c.newScript()
	c.inner.Recv(ctx, func(m net.Message) {
		deliver := func() {
			if ctx.Err() == nil {
				c.execNoteFed(m)
				handler(m)
			}
		}
		if sc != nil && c.scripted(sc, m, deliver) {
			return
		}
		d := time.Duration(c.recvRng.Intn(pl.maxDelayMs*1000+1)) * time.Microsecond
		time.AfterFunc(d, deliver)
		if c.recvRng.Float64() < pl.dupProb {
			// the duplicate may arrive much later, in a later state
			d2 := d + time.Duration(c.recvRng.Intn(400_000))*time.Microsecond
			time.AfterFunc(d2, deliver)
			c.obs.dupDelivered++
		}
	})
}

// ---------------------------------------------------------------- one run

type c07Out struct {
	id       group.MemberIndex
	res      *Result
	err      error
	panicked bool
	base     *state.BaseAsyncState // nil for the Executor.Execute member
	obs      *c07Obs
	// firstFailure marks the member whose own error ended the run
	firstFailure bool
	// failedLive: Execute returned an error (or panicked) while the run
	// context was still alive, i.e. not because the monitor cancelled
	failedLive bool
}

type c07Fixture struct {
	pre      []keygen.LocalPreParams
	signing  chain.Signing
	pubs     []*operator.PublicKey // n operators + 1 outsider (last)
	addrs    []chain.Address
	pubBytes [][]byte
}

func c07NewFixture(n int) (*c07Fixture, error) {
	pre, err := c07LoadPreParams()
	if err != nil {
		return nil, err
	}
	f := &c07Fixture{pre: pre, signing: local_v1.Connect(n, n).Signing()}
	for i := 0; i <= n; i++ {
		_, pub, err := operator.GenerateKeyPair(local_v1.DefaultCurve)
		if err != nil {
			return nil, err
		}
		a, err := f.signing.PublicKeyToAddress(pub)
		if err != nil {
			return nil, err
		}
		f.pubs = append(f.pubs, pub)
		f.addrs = append(f.addrs, a)
		f.pubBytes = append(f.pubBytes, operator.MarshalUncompressed(pub))
	}
	return f, nil
}

type c07RunResult struct {
	outs       []*c07Out
	ctxExpired bool
	env        *c07Env
}

func c07Run(r *verifkit.Run, f *c07Fixture, pl *c07Plan, rng *rand.Rand, watchdog time.Duration) *c07RunResult {
	n := pl.n
	logger := &testutils.MockLogger{}
	mv := group.NewMembershipValidator(logger, f.addrs[:n], f.signing)
	name := fmt.Sprintf("c07-%d-%d-%s-%d", r.Seed(), pl.idx, pl.seed.Text(16), time.Now().UnixNano())
	env := &c07Env{
		plan:      pl,
		session:   fmt.Sprintf("%s-%d", pl.seed.Text(16), 2),
		other:     fmt.Sprintf("%s-%d", pl.seed.Text(16), 1),
		pubBytes:  map[group.MemberIndex][]byte{},
		operating: pl.operating(),
		advCh:     map[group.MemberIndex]net.BroadcastChannel{},
	}
	for i := 1; i <= n; i++ {
		env.pubBytes[group.MemberIndex(i)] = f.pubBytes[i-1]
	}
	// The watchdog is a timer, not a deadline, so that a run cut by the
	// watchdog (inconclusive) is told apart from a run the monitor stops
	// because a member already failed with an error of its own (then the
	// others would only wait for the watchdog).
	ctx, cancel := context.WithCancel(context.Background())
	defer cancel()
	var watchdogFired int32
	wd := time.AfterFunc(watchdog, func() {
		atomic.StoreInt32(&watchdogFired, 1)
		cancel()
	})
	defer wd.Stop()
	var stopOnce sync.Once
	env.abort = func() { stopOnce.Do(func() { time.AfterFunc(3*time.Second, cancel) }) }

	open := func(pub *operator.PublicKey) net.BroadcastChannel {
		ch, _ := netlocal.ConnectWithKey(pub).BroadcastChannelFor(name)
		RegisterUnmarshallers(ch)
		return ch
	}
	for _, e := range pl.excluded {
		env.advCh[e] = open(f.pubs[e-1])
	}
	env.outsider = open(f.pubs[n])

	outs := make([]*c07Out, 0, len(env.operating))
	chans := map[group.MemberIndex]*c07Chan{}
	for _, id := range env.operating {
		o := &c07Obs{id: id, foreign: map[string]int{}, injectedSent: map[string]int{}}
		outs = append(outs, &c07Out{id: id, obs: o})
		chans[id] = &c07Chan{
			inner: open(f.pubs[id-1]), id: id, env: env, obs: o, runCtx: ctx,
			sendRng: rand.New(rand.NewSource(rng.Int63())),
			recvRng: rand.New(rand.NewSource(rng.Int63())),
		}
	}

	// A burst before anybody listens: the channel's retransmissions deliver
	// it while the members are still in their first state. It contains
	// messages of every state, from every excluded member (current session)
	// and in every operating member's name (session of another attempt).
	burstRng := rand.New(rand.NewSource(rng.Int63()))
	for _, st := range []int{1, 3, 4, 5, 6} {
		for _, e := range pl.excluded {
			chans[env.operating[0]].inject("excluded-sender", env.advCh[e], c07Blank(st, e, env.session, n, burstRng))
		}
		for _, id := range env.operating {
			chans[id].inject("other-session", chans[id].inner, c07Blank(st, id, env.other, n, burstRng))
		}
	}

	var wg sync.WaitGroup
	for _, out := range outs {
		out := out
		id := out.id
		pp := c07CopyPreParams(f.pre[(int(id)-1+pl.ppOffset)%len(f.pre)])
		ch := chans[id]
		wg.Add(1)
		go func() {
			defer wg.Done()
			defer func() {
				if (out.err != nil || out.panicked) && ctx.Err() == nil {
					out.failedLive = true
				}
				if (out.err != nil || out.panicked) && atomic.LoadInt32(&watchdogFired) == 0 {
					stopOnce.Do(func() {
						out.firstFailure = true
						// give the others a moment to fail on their own, then stop them
						time.AfterFunc(3*time.Second, cancel)
					})
				}
			}()
			out.panicked = r.Guard("dkg:", pl.desc(), func() {
				if id == pl.execMember {
					// the production entry point, unmodified
					out.res, out.err = c07Executor(pp).Execute(
						ctx, &c07ExecLogger{MockLogger: logger, env: env, obs: out.obs}, pl.seed, env.session, id, n, pl.dt,
						append([]group.MemberIndex(nil), pl.excluded...), ch, mv,
					)
					return
				}
				// the same four statements as Executor.Execute, with the
				// initial state wrapped by the forwarding proxy
				m := newMember(logger, pl.seed, id, n, pl.dt, mv, env.session,
					func() (*PreParams, error) { return &PreParams{data: &pp}, nil }, 1)
				for _, e := range pl.excluded {
					if e != m.id {
						m.group.MarkMemberAsDisqualified(e)
					}
				}
				out.base = state.NewBaseAsyncState()
				initial := &ephemeralKeyPairGenerationState{
					BaseAsyncState: out.base,
					channel:        ch,
					member:         m.initializeEphemeralKeysGeneration(),
				}
				sm := state.NewAsyncMachine(logger, ctx, ch, c07Wrap(initial, out.base, env, out.obs))
				last, err := sm.Execute()
				if err != nil {
					out.err = err
					return
				}
				fs, ok := last.(*c07Proxy).inner.(*finalizationState)
				if !ok {
					out.err = fmt.Errorf("execution ended on state: %T", last.(*c07Proxy).inner)
					return
				}
				out.res = fs.result()
			})
		}()
	}
	// poll-time stuck suspicion for the Executor.Execute member
	pollStop := make(chan struct{})
	var pollWg sync.WaitGroup
	for _, out := range outs {
		if out.id != pl.execMember {
			continue
		}
		ob := out.obs
		pollWg.Add(1)
		go func() {
			defer pollWg.Done()
			tk := time.NewTicker(500 * time.Millisecond)
			defer tk.Stop()
			for {
				select {
				case <-pollStop:
					return
				case <-tk.C:
					if ctx.Err() == nil {
						r.Guard("dkg:stuck-inspection:", pl.desc(), func() { c07PollExec(env, ob) })
					}
				}
			}
		}()
	}
	wg.Wait()
	close(pollStop)
	pollWg.Wait()
	expired := atomic.LoadInt32(&watchdogFired) == 1
	return &c07RunResult{outs: outs, ctxExpired: expired, env: env}
}

// ---------------------------------------------------------------- oracle

func c07Lagrange0(xs []*big.Int, j int, q *big.Int) *big.Int {
	num, den := big.NewInt(1), big.NewInt(1)
	for m := range xs {
		if m == j {
			continue
		}
		num.Mul(num, xs[m])
		num.Mod(num, q)
		d := new(big.Int).Sub(xs[m], xs[j])
		d.Mod(d, q)
		den.Mul(den, d)
		den.Mod(den, q)
	}
	inv := new(big.Int).ModInverse(den, q)
	if inv == nil {
		return nil
	}
	return num.Mul(num, inv).Mod(num, q)
}

func c07Subsets(n, k int) [][]int {
	var out [][]int
	var rec func(start int, cur []int)
	rec = func(start int, cur []int) {
		if len(cur) == k {
			out = append(out, append([]int(nil), cur...))
			return
		}
		for i := start; i < n; i++ {
			rec(i+1, append(cur, i))
		}
	}
	rec(0, nil)
	return out
}

func c07IdxEq(a, b []group.MemberIndex) bool {
	if len(a) != len(b) {
		return false
	}
	for i := range a {
		if a[i] != b[i] {
			return false
		}
	}
	return true
}

var c07StatMu sync.Mutex

// c07Handle is the monitor's handle on the state a member stands in after the
// run: through the proxy for the members built by the monitor, through the
// logger for the Executor.Execute member.
type c07Handle struct {
	inner     state.AsyncState
	base      *state.BaseAsyncState
	stateNo   int
	initiated bool // Initiate returned without error
}

func c07HandleOf(o *c07Out) *c07Handle {
	ob := o.obs
	if o.base != nil {
		if ob.cur == nil {
			return nil
		}
		return &c07Handle{inner: ob.cur.inner, base: o.base, stateNo: ob.cur.stateNo,
			initiated: atomic.LoadInt32(&ob.cur.initiated) == 1}
	}
	ob.mu.Lock()
	defer ob.mu.Unlock()
	if ob.execState == nil || ob.execBase == nil {
		return nil
	}
	h := &c07Handle{inner: ob.execState, base: ob.execBase, stateNo: c07StateNo(ob.execState)}
	// every Initiate that waits for messages ends with the broadcast of the
	// state's own message of the awaited type (states.go)
	h.initiated = ob.execSent[c07AwaitedType(h.stateNo)]
	return h
}

// c07Judge applies the oracles to one finished run and reports whether the
// run observed a non-trivial condition.
func c07Judge(r *verifkit.Run, pl *c07Plan, rr *c07RunResult) (nontrivial bool) {
	desc := pl.desc()
	env := rr.env
	violated := false
	viol := func(fp, what string, wit interface{}) {
		violated = true
		r.Violation(fp, what, desc, wit)
	}

	// ---- admission (white-box)
	var injectedReceived, lagReceives, legitDropped int
	for _, o := range rr.outs {
		ob := o.obs
		for _, fa := range ob.foreignAdm {
			parts := strings.SplitN(fa, "@", 2)
			viol("history:foreign-admitted:"+parts[0],
				fmt.Sprintf("member %d admitted a %s message into its history in state %s", o.id, parts[0], parts[1]),
				map[string]interface{}{"member": o.id, "excluded": pl.excluded})
		}
		for c, k := range ob.foreign {
			injectedReceived += k
			r.Count("foreign_received:"+c, int64(k))
		}
		for c, k := range ob.injectedSent {
			r.Count("injected_sent:"+c, int64(k))
		}
		lagReceives += ob.lagReceives
		legitDropped += len(ob.legitDropped)
		for _, st := range ob.legitDropped {
			viol("history:legit-dropped:"+st,
				fmt.Sprintf("member %d: state %s was handed a legitimate protocol message (current session, operating sender, that sender's key) and did not store it in the message history", o.id, st),
				map[string]interface{}{"member": o.id, "excluded": pl.excluded})
		}
		r.Count("receives", int64(ob.receives))
		r.Count("admitted", int64(ob.admitted))
		r.Count("lagging_receives", int64(ob.lagReceives))
		r.Count("duplicates_scheduled", int64(ob.dupDelivered))
		r.Count("holds_observed", int64(ob.holdObserved))
		c07StatMu.Lock()
		if int64(ob.maxLag) > r.Counter("max_lag_states") {
			r.Count("max_lag_states", int64(ob.maxLag)-r.Counter("max_lag_states"))
		}
		c07StatMu.Unlock()
		// second look at the final history
		if o.base != nil {
			for _, t := range c07AllTypes {
				for _, m := range o.base.GetAllReceivedMessages(t) {
					if c := env.classify(o.id, m); c != "" {
						viol("history:foreign-present:"+c,
							fmt.Sprintf("member %d holds a %s message of type %s in its history", o.id, c, t),
							map[string]interface{}{"member": o.id, "excluded": pl.excluded})
					}
				}
			}
		}
	}
	r.Count("legit_not_admitted", int64(legitDropped))
	nontrivial = len(pl.excluded) > 0 || injectedReceived > 0 || lagReceives > 0

	// ---- progress attribution (white-box; all goroutines of the run returned)
	var suspects int64
	var where []string // where every unfinished member stands (diagnosis)
	stuckConfirmed := false
	for _, o := range rr.outs {
		ob := o.obs
		r.Count("transitions_checked", int64(ob.transitionsChecked))
		r.Count("transitions_with_duplicates_in_history", int64(ob.transitionsWithDup))
		r.Count("transitions_of_silent_state_exempt", int64(ob.transitionsSilent))
		r.Count("scripted_duplicates_handed_over", int64(ob.scriptedDups))
		r.Count("transitions_with_scripted_dup_before_slow_member", int64(ob.scriptOrdered))
		r.Count("scripted_withheld_released_by_safety_timer", int64(atomic.LoadInt32(&ob.scriptFallbacks)))
		r.Count("polls_with_complete_messages_answered_true", atomic.LoadInt64(&ob.pollsComplete))
		suspects += atomic.LoadInt64(&ob.suspect)
		for _, e := range ob.earlyTransitions {
			viol("dkg:transition-with-incomplete-messages",
				fmt.Sprintf("member %d left state %s although its history holds no legitimate %s message from member(s) %v (entries per sender: %s; duplicates present: %v)",
					o.id, e.State, e.Awaited, e.Missing, e.Counts, e.Dups),
				map[string]interface{}{"member": o.id, "excluded": pl.excluded, "transition": e})
		}
		ob.mu.Lock()
		r.Count("executor_member_sends_checked", int64(ob.execSendsChecked))
		if o.base == nil {
			r.Count("executor_member_transitions_checked", int64(ob.transitionsChecked))
		}
		for _, e := range ob.execEarly {
			viol("dkg:transition-with-incomplete-messages",
				fmt.Sprintf("member %d (Executor.Execute) left %s: its handler had not even been handed a legitimate %s message from member(s) %v (%s)",
					o.id, e.State, e.Awaited, e.Missing, e.Counts),
				map[string]interface{}{"member": o.id, "excluded": pl.excluded, "transition": e})
		}
		ob.mu.Unlock()

		if o.res != nil || o.panicked {
			continue
		}
		h := c07HandleOf(o)
		if h == nil {
			where = append(where, fmt.Sprintf("m%d: no handle on its state", o.id))
			continue
		}
		typ := c07AwaitedType(h.stateNo)
		initiated := h.initiated
		if typ == "" {
			where = append(where, fmt.Sprintf("m%d: %T initiated=%v (awaits nothing)", o.id, h.inner, initiated))
			continue
		}
		t := env.tally(o.id, h.base, typ)
		where = append(where, fmt.Sprintf("m%d: %T initiated=%v awaited entries [%s] missing %v", o.id, h.inner, initiated, t.String(), t.missing))
		if o.failedLive {
			continue // failed on its own: judged below
		}
		if !initiated || !t.complete() {
			continue // still computing, or really waiting for somebody
		}
		r.Count("unfinished_members_with_complete_messages_inspected", 1)
		can := false
		r.Guard("dkg:stuck-inspection:", desc, func() {
			for k := 0; k < 3; k++ {
				if h.inner.CanTransition() {
					can = true
				}
			}
		})
		if !can {
			stuckConfirmed = true
			viol("dkg:stuck-with-complete-messages",
				fmt.Sprintf("member %d cannot leave state %T: Initiate returned, the history holds a legitimate %s message from every other operating member (entries per sender: %s; duplicates present: %v), yet CanTransition() answers false at quiescence (asked 3 times)",
					o.id, h.inner, typ, t.String(), t.dups),
				map[string]interface{}{"member": o.id, "excluded": pl.excluded, "state": fmt.Sprintf("%T", h.inner), "via_executor": o.base == nil,
					"awaited_type": typ, "legit_entries_per_sender": t.String(), "duplicates_present": t.dups,
					"polls_answered_false_with_complete_messages": atomic.LoadInt64(&ob.suspect)})
		}
	}
	r.Count("polls_with_complete_messages_answered_false", suspects)

	// ---- completion
	var failed, live []string
	panicked := false
	for _, o := range rr.outs {
		if o.panicked {
			panicked = true
		}
		if o.err != nil || o.res == nil {
			tag := ""
			if o.firstFailure {
				tag = " (first failure)"
			}
			if o.failedLive {
				tag += " (run context still alive)"
			}
			failed = append(failed, fmt.Sprintf("member %d%s: %v", o.id, tag, o.err))
		}
	}
	if panicked {
		return nontrivial // already a violation through Guard
	}
	if len(failed) > 0 {
		if violated {
			// the run was stopped by the monitor after a definite violation
			// (or the members starve behind a stuck one); the members' errors
			// are a consequence
			return nontrivial
		}
		// a member that failed while the run context was alive failed on its
		// own: nobody had cancelled, every operating member was running
		for _, o := range rr.outs {
			if !o.failedLive || o.err == nil {
				continue
			}
			live = append(live, fmt.Sprintf("member %d: %v", o.id, o.err))
			fp, what := "dkg:member-error", "an operating member failed (run context alive) although every operating member is honest"
			wit := map[string]interface{}{"member": o.id, "excluded": pl.excluded, "error": o.err.Error()}
			if h := c07HandleOf(o); h != nil {
				// every message consumed so far was in (the transitions were
				// checked one by one above)
				complete := true
				var have []string
				for st := 1; st < h.stateNo; st++ {
					if typ := c07AwaitedType(st); typ != "" {
						t := env.tally(o.id, h.base, typ)
						complete = complete && t.complete()
						have = append(have, fmt.Sprintf("state %d [%s]", st, t.String()))
					}
				}
				wit["state"] = fmt.Sprintf("%T", h.inner)
				wit["consumed_legit_entries_per_sender"] = have
				if complete {
					fp = "dkg:member-failed-with-complete-messages"
					what = fmt.Sprintf("an operating member failed in state %T (run context alive) although every message it had to consume was in its history", h.inner)
				}
			}
			viol(fp, what+": "+fmt.Sprintf("member %d: %v", o.id, o.err), wit)
		}
		if len(live) > 0 {
			return nontrivial
		}
		diag := fmt.Sprintf("%s | %s | unfinished: %s", desc, strings.Join(failed, "; "), strings.Join(where, "; "))
		if suspects > 0 && !stuckConfirmed {
			// cannot happen with a CanTransition that is a function of the
			// history; reported for completeness
			r.Inconclusive("the monitor stopped the run on a stuck suspicion that was not confirmed at quiescence: " + diag)
			return nontrivial
		}
		if rr.ctxExpired {
			r.Inconclusive(fmt.Sprintf("watchdog expired before the key generation finished and no attribution rule applies (no member is stuck with a complete message set, no transition with an incomplete one, no member failed on its own; legit messages not admitted: %d): %s", legitDropped, diag))
			return nontrivial
		}
		viol("dkg:member-error", "an operating member failed although every operating member is honest: "+strings.Join(failed, "; "), failed)
		return nontrivial
	}
	r.Count("members_completed", int64(len(rr.outs)))

	// ---- agreement
	want := append([]group.MemberIndex(nil), pl.excluded...)
	sort.Slice(want, func(i, j int) bool { return want[i] < want[j] })
	var key0 []byte
	for _, o := range rr.outs {
		kb, err := o.res.GroupPublicKeyBytes()
		if err != nil {
			viol("agreement:no-key", fmt.Sprintf("member %d: %v", o.id, err), nil)
			return nontrivial
		}
		if key0 == nil {
			key0 = kb
		} else if !bytes.Equal(key0, kb) {
			viol("agreement:key-mismatch", fmt.Sprintf("member %d and member %d output different wallet keys", rr.outs[0].id, o.id),
				[]string{verifkit.Hex(key0), verifkit.Hex(kb)})
		}
		mis := o.res.MisbehavedMembersIndexes()
		if !c07IdxEq(mis, want) {
			viol("agreement:misbehaved-list", fmt.Sprintf("member %d reports misbehaved %v, exclusion set is %v", o.id, mis, want), nil)
		}
		if ops := o.res.Group.OperatingMemberIndexes(); !c07IdxEq(ops, env.operating) {
			viol("agreement:operating-list", fmt.Sprintf("member %d reports operating %v, expected %v", o.id, ops, env.operating), nil)
		}
	}

	// ---- algebra
	q := tecdsa.Curve.Params().N
	var ks []*big.Int
	for _, id := range env.operating {
		ks = append(ks, new(big.Int).Add(pl.seed, big.NewInt(int64(id))))
	}
	d0 := rr.outs[0].res.PrivateKeyShare.Data()
	xs := make([]*big.Int, len(ks))
	shares := make([]*big.Int, len(ks))
	for pos, o := range rr.outs {
		d := o.res.PrivateKeyShare.Data()
		if len(d.Ks) != len(ks) || len(d.BigXj) != len(ks) {
			viol("algebra:party-count", fmt.Sprintf("member %d stores %d parties, %d operate", o.id, len(d.Ks), len(ks)), nil)
			return nontrivial
		}
		for j := range ks {
			if d.Ks[j] == nil || d.Ks[j].Cmp(ks[j]) != 0 {
				viol("algebra:party-ids", fmt.Sprintf("member %d: Ks[%d] is not seed+%d", o.id, j, env.operating[j]), nil)
				return nontrivial
			}
			if !d.BigXj[j].Equals(d0.BigXj[j]) {
				viol("algebra:public-shares-differ", fmt.Sprintf("members %d and %d disagree on BigXj[%d]", rr.outs[0].id, o.id, j), nil)
			}
		}
		if d.ShareID == nil || d.ShareID.Cmp(ks[pos]) != 0 {
			viol("algebra:share-id", fmt.Sprintf("member %d: ShareID is not seed+%d", o.id, o.id), nil)
		}
		if !d.ECDSAPub.Equals(d0.ECDSAPub) {
			viol("agreement:key-mismatch", fmt.Sprintf("members %d and %d store different ECDSAPub", rr.outs[0].id, o.id), nil)
		}
		gx, gy := tecdsa.Curve.ScalarBaseMult(new(big.Int).Mod(d.Xi, q).Bytes())
		if gx.Cmp(d.BigXj[pos].X()) != 0 || gy.Cmp(d.BigXj[pos].Y()) != 0 {
			viol("algebra:share-public-point", fmt.Sprintf("member %d: Xi*G differs from BigXj[%d]", o.id, pos), nil)
		}
		xs[pos] = new(big.Int).Mod(ks[pos], q)
		shares[pos] = d.Xi
	}
	t1 := pl.n - pl.dt // honest threshold = polynomial degree + 1
	subsets := append(c07Subsets(len(ks), t1), c07Subsets(len(ks), len(ks))...)
	var priv *big.Int
	for _, sub := range subsets {
		sx := make([]*big.Int, len(sub))
		for i, p := range sub {
			sx[i] = xs[p]
		}
		acc := big.NewInt(0)
		for i, p := range sub {
			l := c07Lagrange0(sx, i, q)
			if l == nil {
				viol("algebra:degenerate-ids", "two party ids coincide modulo the curve order", nil)
				return nontrivial
			}
			acc.Add(acc, l.Mul(l, shares[p]))
			acc.Mod(acc, q)
		}
		if priv == nil {
			priv = acc
		} else if priv.Cmp(acc) != 0 {
			viol("algebra:subsets-disagree", fmt.Sprintf("share subset %v interpolates to another secret than subset %v", sub, subsets[0]), nil)
		}
		r.Count("share_subsets_interpolated", 1)
	}
	px, py := tecdsa.Curve.ScalarBaseMult(priv.Bytes())
	if px.Cmp(d0.ECDSAPub.X()) != 0 || py.Cmp(d0.ECDSAPub.Y()) != 0 {
		viol("algebra:key-not-from-shares", "the secret interpolated from the members' shares does not match the wallet public key", nil)
	}
	pk, _ := rr.outs[0].res.GroupPublicKey()
	if pk == nil || pk.X.Cmp(px) != 0 || pk.Y.Cmp(py) != 0 {
		viol("algebra:key-not-from-shares", "GroupPublicKey() differs from the point interpolated from the shares", nil)
	}
	return nontrivial
}

// ---------------------------------------------------------------- tests

func c07Sample(pl *c07Plan, rr *c07RunResult) interface{} {
	s := map[string]interface{}{"case": pl.desc(), "ctx_expired": rr.ctxExpired}
	mem := []map[string]interface{}{}
	for _, o := range rr.outs {
		m := map[string]interface{}{"member": o.id, "receives": o.obs.receives, "admitted": o.obs.admitted,
			"foreign_received": o.obs.foreign, "lagging_receives": o.obs.lagReceives, "max_lag": o.obs.maxLag,
			"via_executor": o.base == nil}
		if o.res != nil {
			kb, _ := o.res.GroupPublicKeyBytes()
			if len(kb) > 9 {
				m["key"] = verifkit.Hex(kb[:9])
			}
			m["misbehaved"] = fmt.Sprint(o.res.MisbehavedMembersIndexes())
		}
		mem = append(mem, m)
	}
	s["members"] = mem
	return s
}

func TestVerif_C07_DKG(t *testing.T) {
	r := verifkit.Start(t, "C07", "dkg")
	defer r.Finish()
	r.SetRule("3-of-5 (thorough: also 4-of-7) key generations through the real AsyncMachine and net/local channels; exclusion sets: quick = {}, {1}, {n}, {1,2} + 4 PRNG picks of the 16 sets of size<=2, thorough = all 16 x 6 schedules + 24 4-of-7 runs; per run the PRNG fixes seed, held-back member/state, delivery delay bound, duplicate rate, the hostile traffic (excluded senders, other session, spoofed index) and a scripted receiver at which, for PRNG-chosen phases, one member's message is handed over twice in a row before a withheld slower member's message. non-trivial = the run had >=1 excluded member, or a member received >=1 injected foreign message, or a member received a message of a later state than its own")
	r.Assume("tss-lib key generation itself; operating members are honest (no Byzantine TSS payloads); the local broadcast channel authenticates the sender key")
	r.SetExhaustive(false)

	f5, err := c07NewFixture(5)
	if err != nil {
		r.Inconclusive("fixtures: " + err.Error())
		return
	}
	rng := r.Rand("plans")
	sets5 := c07ExclusionSets(5, 2)
	var plans []*c07Plan
	if r.Quick() {
		chosen := [][]group.MemberIndex{{}, {1}, {5}, {1, 2}}
		var rest [][]group.MemberIndex
		for _, s := range sets5 {
			dup := false
			for _, c := range chosen {
				if c07IdxEq(c, s) {
					dup = true
				}
			}
			if !dup {
				rest = append(rest, s)
			}
		}
		rng.Shuffle(len(rest), func(i, j int) { rest[i], rest[j] = rest[j], rest[i] })
		chosen = append(chosen, rest[:4]...)
		for i, s := range chosen {
			plans = append(plans, c07MakePlan(i, 5, 2, s, r.SubRand("plan", i), false))
		}
	} else {
		k := 0
		for rep := 0; rep < 6; rep++ {
			for _, s := range sets5 {
				plans = append(plans, c07MakePlan(k, 5, 2, s, r.SubRand("plan", k), false))
				k++
			}
		}
	}
	watchdog := 240 * time.Second
	var mu sync.Mutex
	sampled := 0
	run := func(f *c07Fixture, pl *c07Plan) {
		rr := c07Run(r, f, pl, r.SubRand("run", pl.idx), watchdog)
		nt := c07Judge(r, pl, rr)
		r.Case(pl.desc(), nt)
		mu.Lock()
		if sampled < 3 && (len(pl.excluded) > 0 || sampled == 0) {
			sampled++
			r.Sample(c07Sample(pl, rr))
		}
		mu.Unlock()
	}
	verifkit.Parallel(len(plans), 3, func(i int) { run(f5, plans[i]) })

	if !r.Quick() {
		f7, err := c07NewFixture(7)
		if err != nil {
			r.Inconclusive("fixtures: " + err.Error())
			return
		}
		sets7 := c07ExclusionSets(7, 3)
		rng7 := r.Rand("plans7")
		var plans7 []*c07Plan
		for i := 0; i < 24; i++ {
			s := sets7[rng7.Intn(len(sets7))]
			if i == 0 {
				s = []group.MemberIndex{1, 4, 7}
			}
			plans7 = append(plans7, c07MakePlan(1000+i, 7, 3, s, r.SubRand("plan7", i), false))
		}
		verifkit.Parallel(len(plans7), 2, func(i int) { run(f7, plans7[i]) })
	}
}

// TestVerif_C07_DKGRace runs the same workload under the race detector. The
// monitor's callbacks touch only per-member slots (read after wg.Wait), the
// hold is a plain sleep, so the only synchronisation is the code's own.
func TestVerif_C07_DKGRace(t *testing.T) {
	r := verifkit.Start(t, "C07", "dkg-race")
	defer r.Finish()
	r.SetRule("one 3-of-5 key generation per repetition with one PRNG-chosen excluded member under -race, same perturbing channel and hostile traffic, monitor state per goroutine; non-trivial as in the dkg part")
	f5, err := c07NewFixture(5)
	if err != nil {
		r.Inconclusive("fixtures: " + err.Error())
		return
	}
	reps := r.N(1, 4)
	rng := r.Rand("race-plans")
	for i := 0; i < reps; i++ {
		excl := []group.MemberIndex{group.MemberIndex(1 + rng.Intn(5))}
		if i%2 == 1 {
			excl = append(excl, group.MemberIndex(1+(int(excl[0])+rng.Intn(4))%5))
			sort.Slice(excl, func(a, b int) bool { return excl[a] < excl[b] })
		}
		pl := c07MakePlan(2000+i, 5, 2, excl, r.SubRand("race-plan", i), true)
		rr := c07Run(r, f5, pl, r.SubRand("race-run", i), 600*time.Second)
		nt := c07Judge(r, pl, rr)
		r.Case(pl.desc(), nt)
		if i == 0 {
			r.Sample(c07Sample(pl, rr))
		}
	}
}
