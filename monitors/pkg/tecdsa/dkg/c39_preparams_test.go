//go:build verif

package dkg

import (
	"context"
	"encoding/json"
	"errors"
	"fmt"
	"os"
	"path/filepath"
	"runtime"
	"runtime/debug"
	"sort"
	"strings"
	"sync"
	"sync/atomic"
	"testing"
	"time"

	"github.com/bnb-chain/tss-lib/ecdsa/keygen"
	"github.com/keep-network/keep-common/pkg/persistence"

	"github.com/keep-network/keep-core/internal/verifkit"
	"github.com/keep-network/keep-core/pkg/generator"
	"github.com/keep-network/keep-core/pkg/internal/tecdsatest"
)

// ---------------------------------------------------------------------------
// Fixtures: 5 pre-parameter sets from pkg/internal/tecdsatest + 4 from
// $VERIF_DIR/fixtures.
// ---------------------------------------------------------------------------

func c39LoadFixtures() ([]*keygen.LocalPreParams, error) {
	var out []*keygen.LocalPreParams
	shares, err := tecdsatest.LoadPrivateKeyShareTestFixtures(5)
	if err != nil {
		return nil, err
	}
	for i := range shares {
		pp := shares[i].LocalPreParams
		out = append(out, &pp)
	}
	dir := filepath.Join(os.Getenv("VERIF_DIR"), "fixtures")
	for i := 5; i <= 8; i++ {
		b, err := os.ReadFile(filepath.Join(dir, fmt.Sprintf("tecdsa_preparams_%d.json", i)))
		if err != nil {
			return nil, err
		}
		var pp keygen.LocalPreParams
		if err := json.Unmarshal(b, &pp); err != nil {
			return nil, err
		}
		out = append(out, &pp)
	}
	seen := map[string]bool{}
	for i, pp := range out {
		if !pp.ValidateWithProof() || pp.NTildei.Sign() == 0 {
			return nil, fmt.Errorf("fixture %d is not a valid pre-parameter set", i)
		}
		k := pp.NTildei.String()
		if seen[k] {
			return nil, fmt.Errorf("fixture %d duplicates another one", i)
		}
		seen[k] = true
	}
	return out, nil
}

// c39Identify returns the index of the fixture p is equal to (all ten
// numbers), or -1.
func c39Identify(fx []*keygen.LocalPreParams, p *keygen.LocalPreParams) int {
	if p == nil || p.PaillierSK == nil {
		return -1
	}
	for i, f := range fx {
		eq := func(a, b interface{ String() string }) bool { return a != nil && b != nil && a.String() == b.String() }
		if p.NTildei == nil || p.H1i == nil || p.H2i == nil || p.Alpha == nil || p.Beta == nil || p.P == nil || p.Q == nil ||
			p.PaillierSK.N == nil || p.PaillierSK.LambdaN == nil || p.PaillierSK.PhiN == nil {
			return -1
		}
		if eq(p.NTildei, f.NTildei) && eq(p.H1i, f.H1i) && eq(p.H2i, f.H2i) && eq(p.Alpha, f.Alpha) && eq(p.Beta, f.Beta) &&
			eq(p.P, f.P) && eq(p.Q, f.Q) && eq(p.PaillierSK.N, f.PaillierSK.N) && eq(p.PaillierSK.LambdaN, f.PaillierSK.LambdaN) &&
			eq(p.PaillierSK.PhiN, f.PaillierSK.PhiN) {
			return i
		}
	}
	return -1
}

type c39Logger struct{ errors int64 }

func (l *c39Logger) Debug(...interface{})          {}
func (l *c39Logger) Debugf(string, ...interface{}) {}
func (l *c39Logger) Error(...interface{})          { atomic.AddInt64(&l.errors, 1) }
func (l *c39Logger) Errorf(string, ...interface{}) { atomic.AddInt64(&l.errors, 1) }
func (l *c39Logger) Fatal(...interface{})          {}
func (l *c39Logger) Fatalf(string, ...interface{}) {}
func (l *c39Logger) Info(...interface{})           {}
func (l *c39Logger) Infof(string, ...interface{})  {}
func (l *c39Logger) Panic(...interface{})          {}
func (l *c39Logger) Panicf(string, ...interface{}) {}
func (l *c39Logger) Warn(...interface{})           {}
func (l *c39Logger) Warnf(string, ...interface{})  {}

// ---------------------------------------------------------------------------
// In-memory persistence.BasicHandle with one scripted fault. It behaves like
// keep-common's disk handle: Save creates the file and then writes it (not
// atomic), ReadAll streams descriptors over unbuffered channels.
// ---------------------------------------------------------------------------

var c39ErrInjected = errors.New("c39: injected storage failure")

const (
	c39ErrBefore   = "err-before"
	c39ErrAfter    = "err-after"
	c39CrashBefore = "crash-before"
	c39CrashAfter  = "crash-after"
	c39TornEmpty   = "crash-torn-empty" // Save: file created, process dies before any byte is written
	c39TornHalf    = "crash-torn-half"  // Save: dies after half of the bytes
	c39TornLast    = "crash-torn-last"  // Save: dies with the last byte missing
	c39ContentErr  = "content-err"      // ReadAll: the first descriptor's Content() fails
)

func c39KindsFor(call string) []string {
	switch call {
	case "Save":
		return []string{c39ErrBefore, c39ErrAfter, c39CrashBefore, c39CrashAfter, c39TornEmpty, c39TornHalf, c39TornLast}
	case "Delete":
		return []string{c39ErrBefore, c39ErrAfter, c39CrashBefore, c39CrashAfter}
	default:
		return []string{c39ErrBefore, c39CrashBefore, c39ContentErr}
	}
}

func c39IsTorn(k string) bool { return strings.HasPrefix(k, "crash-torn") }

type c39File struct {
	dir, name string
	data      []byte
}

type c39Handle struct {
	mu      sync.Mutex
	files   []*c39File
	calls   int
	callLog []string
	faultAt int
	fault   string
	fired   bool
	// hooks (set per process)
	onWorkerCrash func()
	onSaveDone    func()
}

func (h *c39Handle) begin(kind string) string {
	idx := h.calls
	h.calls++
	h.callLog = append(h.callLog, kind)
	if idx == h.faultAt && !h.fired {
		h.fired = true
		return h.fault
	}
	return ""
}

func (h *c39Handle) put(dir, name string, data []byte) {
	for _, f := range h.files {
		if f.dir == dir && f.name == name {
			f.data = append([]byte(nil), data...)
			return
		}
	}
	h.files = append(h.files, &c39File{dir, name, append([]byte(nil), data...)})
}

func (h *c39Handle) Save(data []byte, dir, name string) error {
	h.mu.Lock()
	f := h.begin("Save")
	done := func() {
		cb := h.onSaveDone
		h.mu.Unlock()
		if cb != nil {
			cb()
		}
	}
	crash := func() {
		cb := h.onWorkerCrash
		h.mu.Unlock()
		if cb != nil {
			cb()
		}
		runtime.Goexit()
	}
	switch f {
	case c39ErrBefore:
		done()
		return c39ErrInjected
	case c39ErrAfter:
		h.put(dir, name, data)
		done()
		return c39ErrInjected
	case c39CrashBefore:
		crash()
	case c39CrashAfter:
		h.put(dir, name, data)
		crash()
	case c39TornEmpty:
		h.put(dir, name, nil)
		crash()
	case c39TornHalf:
		h.put(dir, name, data[:len(data)/2])
		crash()
	case c39TornLast:
		h.put(dir, name, data[:len(data)-1])
		crash()
	}
	h.put(dir, name, data)
	done()
	return nil
}

func (h *c39Handle) Delete(dir, name string) error {
	h.mu.Lock()
	defer h.mu.Unlock()
	f := h.begin("Delete")
	apply := func() error {
		for i, x := range h.files {
			if x.dir == dir && x.name == name {
				h.files = append(h.files[:i:i], h.files[i+1:]...)
				return nil
			}
		}
		return fmt.Errorf("remove %s/%s: no such file", dir, name)
	}
	switch f {
	case c39ErrBefore:
		return c39ErrInjected
	case c39ErrAfter:
		_ = apply()
		return c39ErrInjected
	case c39CrashBefore:
		runtime.Goexit()
	case c39CrashAfter:
		_ = apply()
		runtime.Goexit()
	}
	return apply()
}

type c39Descriptor struct {
	name, dir string
	data      []byte
	fail      bool
}

func (d *c39Descriptor) Name() string      { return d.name }
func (d *c39Descriptor) Directory() string { return d.dir }
func (d *c39Descriptor) Content() ([]byte, error) {
	if d.fail {
		return nil, c39ErrInjected
	}
	return d.data, nil
}

func (h *c39Handle) ReadAll() (<-chan persistence.DataDescriptor, <-chan error) {
	h.mu.Lock()
	f := h.begin("ReadAll")
	var ds []*c39Descriptor
	// directory listing order = by name, as on disk
	files := append([]*c39File(nil), h.files...)
	sort.Slice(files, func(i, j int) bool { return files[i].name < files[j].name })
	for _, x := range files {
		ds = append(ds, &c39Descriptor{name: x.name, dir: x.dir, data: append([]byte(nil), x.data...)})
	}
	// a file of somebody else's directory must be ignored by the storage
	ds = append(ds, &c39Descriptor{name: "other", dir: "membership", data: []byte{1, 2, 3}})
	h.mu.Unlock()
	if f == c39CrashBefore {
		runtime.Goexit()
	}
	dc := make(chan persistence.DataDescriptor)
	ec := make(chan error)
	go func() {
		defer close(dc)
		defer close(ec)
		if f == c39ErrBefore {
			ec <- c39ErrInjected
			return
		}
		for i, d := range ds {
			if f == c39ContentErr && i == 0 {
				d.fail = true
			}
			dc <- d
		}
	}()
	return dc, ec
}

// holds tells whether some stored file decodes to fixture k.
func (h *c39Handle) holds(fx []*keygen.LocalPreParams, k int) bool {
	h.mu.Lock()
	defer h.mu.Unlock()
	for _, f := range h.files {
		if f.dir != dirName {
			continue
		}
		var pp PreParams
		if err := pp.Unmarshal(f.data); err == nil && c39Identify(fx, pp.data) == k {
			return true
		}
	}
	return false
}

func (h *c39Handle) count() int {
	h.mu.Lock()
	defer h.mu.Unlock()
	return len(h.files)
}

// ---------------------------------------------------------------------------
// Sequential driver (same scheme as the generic monitor in pkg/generator).
// ---------------------------------------------------------------------------

const (
	c39WStarting int32 = iota
	c39WIdle
	c39WBusy
	c39WSaved
	c39WBlocked
	c39WDead
)

type c39Proc struct {
	pool   *generator.ParameterPool[PreParams]
	state  int32
	genCmd chan int // fixture index to produce; -1 = die
}

type c39Outcome struct {
	returned, crashed, panicked, hung bool
	pval, frame                       string
}

func c39Call(fn func()) (o c39Outcome) {
	done := make(chan struct{})
	go func() {
		normal := false
		defer func() {
			if !normal {
				if p := recover(); p != nil {
					o.panicked = true
					o.pval = fmt.Sprint(p)
					o.frame = verifkit.RepoFrame(debug.Stack())
				} else {
					o.crashed = true
				}
			}
			close(done)
		}()
		fn()
		normal = true
		o.returned = true
	}()
	select {
	case <-done:
	case <-time.After(20 * time.Second):
		return c39Outcome{hung: true}
	}
	return o
}

type c39History struct {
	Size    int      `json:"size"`
	Steps   []string `json:"steps"`
	FaultAt int      `json:"fault_at"`
	Fault   string   `json:"fault,omitempty"`
	OnCall  string   `json:"on_call,omitempty"`
}

type c39Result struct {
	calls        []string
	faultFired   bool
	restarts     int
	handed       []int
	inconclusive string
	trace        []string
	loggedErrors int64
}

type c39Violation struct{ fp, what string }

func c39RunHistory(fx []*keygen.LocalPreParams, hist c39History) (res c39Result, viols []c39Violation) {
	handle := &c39Handle{faultAt: hist.FaultAt, fault: hist.Fault}
	lg := &c39Logger{}
	nextFx := 0
	handedFx := map[int]bool{}
	add := func(fp, what string) { viols = append(viols, c39Violation{fp, what}) }
	tr := func(f string, a ...interface{}) { res.trace = append(res.trace, fmt.Sprintf(f, a...)) }
	var proc *c39Proc

	start := func() bool {
		p := &c39Proc{genCmd: make(chan int)}
		handle.mu.Lock()
		handle.onWorkerCrash = func() { atomic.StoreInt32(&p.state, c39WDead) }
		handle.onSaveDone = func() {
			if p.pool != nil && p.pool.ParametersCount() >= hist.Size {
				atomic.StoreInt32(&p.state, c39WBlocked)
			} else {
				atomic.StoreInt32(&p.state, c39WSaved)
			}
		}
		handle.mu.Unlock()
		gen := func(ctx context.Context) *PreParams {
			atomic.StoreInt32(&p.state, c39WIdle)
			k := <-p.genCmd
			if k < 0 {
				atomic.StoreInt32(&p.state, c39WDead)
				runtime.Goexit()
			}
			atomic.StoreInt32(&p.state, c39WBusy)
			cp := *fx[k]
			return newPreParams(&cp)
		}
		// the real storage over the in-memory handle, the real generic pool
		storage := newPreParamsStorage(handle, lg)
		o := c39Call(func() {
			p.pool = generator.NewParameterPool[PreParams](lg, &generator.Scheduler{}, &storage, hist.Size, gen, 0)
		})
		switch {
		case o.hung:
			res.inconclusive = "NewParameterPool did not return"
			return false
		case o.panicked:
			add("tecdsa:start:panic@"+o.frame, "NewParameterPool over preParamsStorage panicked: "+o.pval)
			return false
		case o.crashed:
			tr("start: crashed in ReadAll")
			return false
		}
		proc = p
		return true
	}
	settle := func() bool {
		deadline := time.Now().Add(10 * time.Second)
		for spins := 0; ; spins++ {
			st := atomic.LoadInt32(&proc.state)
			if st == c39WIdle || st == c39WDead || st == c39WBlocked {
				return true
			}
			if spins > 100 {
				if time.Now().After(deadline) {
					res.inconclusive = fmt.Sprintf("worker did not settle (state %d)", st)
					return false
				}
				time.Sleep(10 * time.Microsecond)
			} else {
				runtime.Gosched()
			}
		}
	}
	// kill: the Scheduler's stop is not reachable from this package; the
	// worker goroutine is ended from inside generateFn instead (a worker parked
	// on a full pool stays parked on the abandoned pool for good, like a dead
	// process it never acts again).
	kill := func() {
		if proc != nil {
			if atomic.LoadInt32(&proc.state) == c39WIdle {
				proc.genCmd <- -1
			}
			proc = nil
		}
	}
	defer kill()
	restart := func() bool {
		kill()
		res.restarts++
		for attempt := 0; attempt < 3; attempt++ {
			if start() {
				return settle()
			}
			if res.inconclusive != "" || len(viols) > 0 {
				return false
			}
		}
		res.inconclusive = "could not start the pool"
		return false
	}
	if !start() {
		if res.inconclusive != "" || len(viols) > 0 {
			return
		}
		if !restart() {
			return
		}
	} else if !settle() {
		return
	}

	for si, step := range hist.Steps {
		if res.inconclusive != "" || proc == nil {
			break
		}
		switch step {
		case "gen":
			if atomic.LoadInt32(&proc.state) != c39WIdle || nextFx >= len(fx) {
				tr("%d gen: skipped (worker parked on a full pool, or fixtures used up)", si)
				continue
			}
			k := nextFx
			nextFx++
			atomic.StoreInt32(&proc.state, c39WBusy)
			proc.genCmd <- k
			if !settle() {
				break
			}
			tr("%d gen fixture %d -> pool=%d files=%d", si, k, proc.pool.ParametersCount(), handle.count())
			if atomic.LoadInt32(&proc.state) == c39WDead {
				tr("%d crash in Save, restarting", si)
				restart()
			}
		case "get":
			var p *PreParams
			var err error
			pl := proc.pool
			wasBlocked := atomic.LoadInt32(&proc.state) == c39WBlocked
			o := c39Call(func() { p, err = pl.GetNow() })
			if wasBlocked && !(o.returned && errors.Is(err, generator.ErrEmptyPool)) {
				atomic.CompareAndSwapInt32(&proc.state, c39WBlocked, c39WBusy)
			}
			switch {
			case o.hung:
				res.inconclusive = "GetNow did not return"
			case o.panicked:
				add("tecdsa:getnow:panic@"+o.frame, "GetNow panicked instead of handing out pre-parameters or an error: "+o.pval)
				tr("%d get: PANIC %s", si, o.pval)
			case o.crashed:
				tr("%d get: crash in Delete, restarting", si)
				restart()
			case err != nil:
				tr("%d get: %v", si, err)
				if p != nil {
					add("tecdsa:param-with-error", "GetNow returned pre-parameters together with an error")
				}
			case p == nil || p.data == nil:
				add("tecdsa:handed-out-nil", "GetNow returned nil pre-parameters without an error")
			default:
				k := c39Identify(fx, p.data)
				tr("%d get -> fixture %d (NTildei=%s...)", si, k, c39Clip(p.data.NTildei.String(), 10))
				switch {
				case !p.data.ValidateWithProof():
					add("tecdsa:handed-out-invalid", "handed-out pre-parameters fail ValidateWithProof")
				case k < 0 || k >= nextFx:
					what := "handed-out pre-parameters are not ones the generator produced"
					if hist.Fault != "" && c39IsTorn(hist.Fault) {
						add("tecdsa:handed-out-invalid-after-torn-write", what+fmt.Sprintf(" (NTildei=%s..., a file left by an interrupted Save was accepted at restart)", c39Clip(p.data.NTildei.String(), 12)))
					} else {
						add("tecdsa:handed-out-invalid", what)
					}
				default:
					if handedFx[k] {
						add("tecdsa:handed-out-twice", fmt.Sprintf("pre-parameters (fixture %d) handed out a second time", k))
					}
					handedFx[k] = true
					res.handed = append(res.handed, k)
					if handle.holds(fx, k) {
						add("tecdsa:handed-out-still-stored", fmt.Sprintf("pre-parameters (fixture %d) handed out while still in storage", k))
					}
				}
			}
			if proc != nil && res.inconclusive == "" {
				settle()
			}
		case "restart":
			tr("%d restart (files=%d)", si, handle.count())
			restart()
		}
		if proc != nil {
			if n := proc.pool.ParametersCount(); n > hist.Size {
				add("tecdsa:pool-over-size", fmt.Sprintf("pool holds %d, configured size %d", n, hist.Size))
			}
		}
	}
	handle.mu.Lock()
	res.calls = append([]string(nil), handle.callLog...)
	res.faultFired = handle.fired
	handle.mu.Unlock()
	res.loggedErrors = atomic.LoadInt64(&lg.errors)
	return
}

func c39Clip(s string, n int) string {
	if len(s) > n {
		return s[:n]
	}
	return s
}

func TestVerif_C39_TecdsaStorage(t *testing.T) {
	r := verifkit.Start(t, "C39", "tecdsa_storage")
	defer r.Finish()
	r.SetRule("base histories of 6-12 gen/get/restart steps over the real generic pool + the real preParamsStorage on an in-memory BasicHandle (size 1-3, nine fixture pre-parameter sets, each generated at most once); each base history is run fault-free, then once per (handle call index, fault kind): Save/Delete error without or after effect, crash before/after effect, Save interrupted with an empty / half / all-but-last-byte file, ReadAll error, unreadable descriptor, crash in ReadAll; a crash abandons the process and a new pool is built on the same handle; non-trivial = the fault fired or the history has a restart")
	fx, err := c39LoadFixtures()
	if err != nil {
		r.Inconclusive("fixtures: " + err.Error())
		return
	}
	nBase := r.N(24, 600)
	rng := r.Rand("bases")
	var bases []c39History
	for b := 0; b < nBase; b++ {
		h := c39History{Size: 1 + rng.Intn(3), FaultAt: -1}
		n := 6 + rng.Intn(7)
		for k := 0; k < n; k++ {
			x := rng.Intn(100)
			switch {
			case x < 45:
				h.Steps = append(h.Steps, "gen")
			case x < 82:
				h.Steps = append(h.Steps, "get")
			default:
				h.Steps = append(h.Steps, "restart")
			}
		}
		bases = append(bases, h)
	}
	bases = append(bases,
		c39History{Size: 1, FaultAt: -1, Steps: []string{"gen", "get", "gen", "get"}},
		c39History{Size: 2, FaultAt: -1, Steps: []string{"gen", "gen", "gen", "restart", "get", "get", "get", "restart", "get"}},
		c39History{Size: 2, FaultAt: -1, Steps: []string{"gen", "restart", "get", "gen", "restart", "get", "get"}},
		c39History{Size: 3, FaultAt: -1, Steps: []string{"gen", "gen", "get", "restart", "gen", "get", "get", "restart", "get", "gen", "get"}},
	)
	var jobs []c39History
	var jmu sync.Mutex
	verifkit.Parallel(len(bases), 0, func(b int) {
		res, _ := c39RunHistory(fx, bases[b])
		mine := []c39History{bases[b]}
		for idx, call := range res.calls {
			for _, k := range c39KindsFor(call) {
				h := bases[b]
				h.FaultAt, h.Fault, h.OnCall = idx, k, call
				mine = append(mine, h)
			}
		}
		jmu.Lock()
		jobs = append(jobs, mine...)
		jmu.Unlock()
	})
	descOf := func(h c39History) string {
		return fmt.Sprintf("tecdsa pool size=%d steps=%s fault=%s@%d(%s)", h.Size, strings.Join(h.Steps, ","), h.Fault, h.FaultAt, h.OnCall)
	}
	sort.SliceStable(jobs, func(a, b int) bool { return descOf(jobs[a]) < descOf(jobs[b]) })
	var sampled int32
	verifkit.Parallel(len(jobs), 0, func(n int) {
		h := jobs[n]
		desc := descOf(h)
		res, viols := c39RunHistory(fx, h)
		if res.inconclusive != "" {
			r.Inconclusive(res.inconclusive + ": " + desc)
			return
		}
		r.Case(desc, res.faultFired || res.restarts > 0)
		if res.faultFired {
			r.Count("faults_fired_"+h.OnCall+"_"+h.Fault, 1)
		}
		r.Count("handed_out", int64(len(res.handed)))
		r.Count("restarts", int64(res.restarts))
		r.Count("logged_errors", res.loggedErrors)
		seen := map[string]bool{}
		for _, v := range viols {
			if seen[v.fp] {
				continue
			}
			seen[v.fp] = true
			r.Violation(v.fp, v.what, desc, res.trace)
		}
		if res.faultFired && len(res.handed) > 0 && atomic.AddInt32(&sampled, 1)%150 == 1 {
			r.Sample(map[string]interface{}{"history": h, "handed_out_fixtures": res.handed, "restarts": res.restarts, "trace": res.trace})
		}
	})
	r.Count("base_histories", int64(len(bases)))
	r.Count("fixtures", int64(len(fx)))
}
