//go:build verif

package dkg

import (
	"fmt"
	"math/big"
	"testing"

	"github.com/keep-network/keep-core/internal/testutils"
	"github.com/keep-network/keep-core/internal/verifkit"
	"github.com/keep-network/keep-core/pkg/chain"
	"github.com/keep-network/keep-core/pkg/chain/local_v1"
	"github.com/keep-network/keep-core/pkg/net"
	"github.com/keep-network/keep-core/pkg/operator"
	"github.com/keep-network/keep-core/pkg/protocol/group"
	"github.com/keep-network/keep-core/pkg/protocol/state"
)

// ---------------------------------------------------------------------------
// C12 (tECDSA DKG part): each of the 6 protocol states and the result signing
// state is fed a synthetic net.Message for every (layout, receiver, claimed
// index, sender key, session, sender status[, payload key]) combination and
// every message type; "acted on" = present in the state's message history.
// The reference verdict is computed from the seat table only.
// ---------------------------------------------------------------------------

type c12Msg struct {
	payload message
	key     []byte
}

func (m *c12Msg) TransportSenderID() net.TransportIdentifier { return nil }
func (m *c12Msg) SenderPublicKey() []byte                    { return m.key }
func (m *c12Msg) Payload() interface{}                       { return m.payload }
func (m *c12Msg) Type() string                               { return m.payload.Type() }
func (m *c12Msg) Seqno() uint64                              { return 0 }

type c12Layout struct {
	name  string
	seats []int // seat (position) -> operator number
}

type c12Key struct {
	name string
	op   int // operator number, -1 = not a group operator
	pub  []byte
}

type c12Case struct {
	layout   c12Layout
	receiver int
	claimed  int
	key      c12Key
	session  string // "own", "other", "prefix"
	status   string // "operating", "IA", "DQ", "siblingDQ"
	bind     string // result signing only: key named inside the payload
}

func (c c12Case) desc(rp string) string {
	return fmt.Sprintf("rp=%s layout=%s seats=%v receiver=%d claimed=%d key=%s payloadkey=%s session=%s status=%s",
		rp, c.layout.name, c.layout.seats, c.receiver, c.claimed, c.key.name, c.bind, c.session, c.status)
}

// c12Expect is the reference admission rule. It returns whether the message
// is fully legitimate and, when not, the first reason it is not.
func c12Expect(c c12Case, checkBind bool) (bool, string) {
	n := len(c.layout.seats)
	held := c.claimed >= 1 && c.claimed <= n && c.key.op >= 0 && c.layout.seats[c.claimed-1] == c.key.op
	switch {
	case !held:
		return false, "index-not-held"
	case c.claimed == c.receiver:
		return false, "own-index"
	case checkBind && c.bind != "network-key":
		return false, "payload-key-differs-from-network-key"
	case c.session != "own":
		return false, "other-session"
	case c.status == "IA" || c.status == "DQ":
		return false, "sender-excluded"
	}
	return true, ""
}

func c12Siblings(c c12Case) []int {
	var out []int
	for pos, op := range c.layout.seats {
		idx := pos + 1
		if op == c.key.op && idx != c.claimed && idx != c.receiver {
			out = append(out, idx)
		}
	}
	return out
}

func c12Grid(layouts []c12Layout, keysOf func(l c12Layout) []c12Key, binds []string) []c12Case {
	var out []c12Case
	for _, l := range layouts {
		n := len(l.seats)
		claims := []int{0}
		for i := 1; i <= n+1; i++ {
			claims = append(claims, i)
		}
		claims = append(claims, 255)
		for recv := 1; recv <= n; recv++ {
			for _, cl := range claims {
				for _, k := range keysOf(l) {
					for _, sess := range []string{"own", "other", "prefix"} {
						for _, st := range []string{"operating", "IA", "DQ", "siblingDQ"} {
							for _, b := range binds {
								c := c12Case{l, recv, cl, k, sess, st, b}
								inRange := cl >= 1 && cl <= n && cl != recv
								if (st == "IA" || st == "DQ") && !inRange {
									continue
								}
								if st == "siblingDQ" && len(c12Siblings(c)) == 0 {
									continue
								}
								if b == "empty" && len(k.pub) == 0 {
									continue
								}
								out = append(out, c)
							}
						}
					}
				}
			}
		}
	}
	return out
}

const c12OwnSession = "session-1"

func c12Session(kind string) string {
	switch kind {
	case "own":
		return c12OwnSession
	case "prefix":
		return c12OwnSession + "0"
	}
	return "session-2"
}

// c12State is what the monitor needs from a state under test.
type c12State interface {
	Receive(net.Message) error
	GetAllReceivedMessages(messageType string) []net.Message
}

func c12MarkStatus(g *group.Group, c c12Case) {
	switch c.status {
	case "IA":
		g.MarkMemberAsInactive(group.MemberIndex(c.claimed))
	case "DQ":
		g.MarkMemberAsDisqualified(group.MemberIndex(c.claimed))
	case "siblingDQ":
		for _, s := range c12Siblings(c) {
			g.MarkMemberAsDisqualified(group.MemberIndex(s))
		}
	}
}

func TestVerif_C12_TecdsaDkg(t *testing.T) {
	r := verifkit.Start(t, "C12", "tecdsa-dkg")
	defer r.Finish()
	r.SetRule("exhaustive grid: seat layouts (5 seats over operators 2/2/1 interleaved, 3 seats one operator; thorough adds 9 seats 4/3/1/1) x receiver seat x claimed index {0,1..n,n+1,255} x sender key {each operator, outsider, truncated operator key, empty} x session {own, other, own+suffix} x claimed member status {operating, IA, DQ, sibling seat DQ}; delivered to each of the 6 tECDSA DKG protocol states for each of the 6 message types, and to resultSigningState additionally x key named in the payload {network key, other operator's, outsider's, empty}; non-trivial = claimed index not held by the sender key, payload key differing, foreign session, or non-operating sender")
	r.Assume("local_v1 signing maps a public key to the hex of its bytes; operator keys are freshly generated secp256k1 keys (values do not enter the verdict); TSS parties are not constructed (admission is decided before any TSS computation)")

	signing := local_v1.Connect(5, 3).Signing()
	newKey := func() []byte {
		_, pub, err := operator.GenerateKeyPair(local_v1.DefaultCurve)
		if err != nil {
			t.Fatal(err)
		}
		return operator.MarshalUncompressed(pub)
	}
	opKeys := [][]byte{newKey(), newKey(), newKey(), newKey(), newKey()}
	outsider := newKey()
	outsider2 := newKey()

	layouts := []c12Layout{
		{"5seats-2/2/1", []int{0, 1, 0, 2, 1}},
		{"3seats-single-operator", []int{0, 0, 0}},
	}
	if !r.Quick() {
		layouts = append(layouts, c12Layout{"9seats-4/3/1/1", []int{0, 1, 0, 2, 1, 0, 3, 1, 0}})
	}
	keysOf := func(l c12Layout) []c12Key {
		seen := map[int]bool{}
		var ks []c12Key
		for _, op := range l.seats {
			if !seen[op] {
				seen[op] = true
				ks = append(ks, c12Key{fmt.Sprintf("op%c", 'A'+op), op, opKeys[op]})
			}
		}
		ks = append(ks,
			c12Key{"outsider", -1, outsider},
			c12Key{"truncated-opA", -1, opKeys[0][:64]},
			c12Key{"empty", -1, nil},
		)
		return ks
	}
	r.SetExhaustive(true)

	validators := map[string]*group.MembershipValidator{}
	for _, l := range layouts {
		addrs := make([]chain.Address, len(l.seats))
		for i, op := range l.seats {
			addrs[i] = signing.PublicKeyBytesToAddress(opKeys[op])
		}
		validators[l.name] = group.NewMembershipValidator(&testutils.MockLogger{}, addrs, signing)
	}
	payloadKey := func(c c12Case) []byte {
		switch c.bind {
		case "network-key":
			return append([]byte(nil), c.key.pub...)
		case "other-operator-key":
			n := len(c.layout.seats)
			if c.claimed >= 1 && c.claimed <= n && c.layout.seats[c.claimed-1] != c.key.op {
				return opKeys[c.layout.seats[c.claimed-1]]
			}
			return opKeys[4]
		case "outsider-key":
			return outsider2
		}
		return nil
	}

	// message constructors (all 6 types implement `message`)
	type mk struct {
		name string
		fn   func(s group.MemberIndex, sess string, pk []byte) message
	}
	msgTypes := []mk{
		{"ephemeralPublicKeyMessage", func(s group.MemberIndex, sess string, pk []byte) message {
			return &ephemeralPublicKeyMessage{senderID: s, sessionID: sess}
		}},
		{"tssRoundOneMessage", func(s group.MemberIndex, sess string, pk []byte) message {
			return &tssRoundOneMessage{senderID: s, sessionID: sess, broadcastPayload: []byte{1}}
		}},
		{"tssRoundTwoMessage", func(s group.MemberIndex, sess string, pk []byte) message {
			return &tssRoundTwoMessage{senderID: s, sessionID: sess, broadcastPayload: []byte{1}}
		}},
		{"tssRoundThreeMessage", func(s group.MemberIndex, sess string, pk []byte) message {
			return &tssRoundThreeMessage{senderID: s, sessionID: sess, broadcastPayload: []byte{1}}
		}},
		{"tssFinalizationMessage", func(s group.MemberIndex, sess string, pk []byte) message {
			return &tssFinalizationMessage{senderID: s, sessionID: sess}
		}},
		{"resultSignatureMessage", func(s group.MemberIndex, sess string, pk []byte) message {
			return &resultSignatureMessage{senderID: s, sessionID: sess, resultHash: [32]byte{1}, signature: []byte{1, 2}, publicKey: pk}
		}},
	}

	// protocol states, built around a fresh member
	type sb struct {
		name string
		fn   func(m *member) c12State
	}
	r1 := func(m *member) *tssRoundOneMember {
		return &tssRoundOneMember{symmetricKeyGeneratingMember: m.initializeEphemeralKeysGeneration().initializeSymmetricKeyGeneration()}
	}
	states := []sb{
		{"ephemeralKeyPairGenerationState", func(m *member) c12State {
			return &ephemeralKeyPairGenerationState{BaseAsyncState: state.NewBaseAsyncState(), member: m.initializeEphemeralKeysGeneration()}
		}},
		{"symmetricKeyGenerationState", func(m *member) c12State {
			return &symmetricKeyGenerationState{BaseAsyncState: state.NewBaseAsyncState(), member: m.initializeEphemeralKeysGeneration().initializeSymmetricKeyGeneration()}
		}},
		{"tssRoundOneState", func(m *member) c12State {
			return &tssRoundOneState{BaseAsyncState: state.NewBaseAsyncState(), member: r1(m)}
		}},
		{"tssRoundTwoState", func(m *member) c12State {
			return &tssRoundTwoState{BaseAsyncState: state.NewBaseAsyncState(), member: r1(m).initializeTssRoundTwo()}
		}},
		{"tssRoundThreeState", func(m *member) c12State {
			return &tssRoundThreeState{BaseAsyncState: state.NewBaseAsyncState(), member: r1(m).initializeTssRoundTwo().initializeTssRoundThree()}
		}},
		{"finalizationState", func(m *member) c12State {
			return &finalizationState{BaseAsyncState: state.NewBaseAsyncState(), member: r1(m).initializeTssRoundTwo().initializeTssRoundThree().initializeFinalization()}
		}},
	}

	var acted, rejected int64
	sampled := map[string]bool{}
	evaluate := func(rp string, st c12State, c c12Case, p message, checkBind bool) {
		desc := c.desc(rp)
		var rerr error
		if r.Guard("tecdsa-dkg:"+rp+":", desc, func() { rerr = st.Receive(&c12Msg{p, c.key.pub}) }) {
			return
		}
		hist := st.GetAllReceivedMessages(p.Type())
		got := len(hist) == 1 && hist[0].Payload() == interface{}(p)
		legit, why := c12Expect(c, checkBind)
		r.Case(desc, !legit)
		if rerr != nil {
			r.Violation("tecdsa-dkg:"+rp+":receive-error", "Receive returned an error: "+rerr.Error(), desc, nil)
		}
		if got {
			acted++
		} else {
			rejected++
		}
		switch {
		case got && !legit:
			r.Violation("tecdsa-dkg:"+rp+":accepted:"+why, "state stored a message that is not legitimate ("+why+")", desc, map[string]interface{}{"legitimate": legit, "acted_on": got, "reason": why})
		case !got && legit:
			r.Violation("tecdsa-dkg:"+rp+":rejected-legitimate", "state ignored a fully legitimate message", desc, map[string]interface{}{"legitimate": legit, "acted_on": got})
		}
		tag := why
		if !sampled[tag] && (why == "" && c.status == "siblingDQ" || why == "payload-key-differs-from-network-key" || why == "index-not-held" && c.claimed == 0 && c.key.op >= 0) {
			sampled[tag] = true
			r.Sample(map[string]interface{}{"case": desc, "legitimate": legit, "acted_on": got})
		}
	}

	gridProto := c12Grid(layouts, keysOf, []string{"network-key"})
	for _, s := range states {
		for _, mt := range msgTypes {
			rp := s.name + "/" + mt.name
			for _, c := range gridProto {
				n := len(c.layout.seats)
				m := newMember(&testutils.MockLogger{}, big.NewInt(1000), group.MemberIndex(c.receiver), n, n-(n/2+1),
					validators[c.layout.name], c12OwnSession, nil, 1)
				c12MarkStatus(m.group, c)
				evaluate(rp, s.fn(m), c, mt.fn(group.MemberIndex(c.claimed), c12Session(c.session), payloadKey(c)), false)
			}
		}
	}
	gridResult := c12Grid(layouts, keysOf, []string{"network-key", "other-operator-key", "outsider-key", "empty"})
	for _, c := range gridResult {
		n := len(c.layout.seats)
		g := group.NewGroup(n-(n/2+1), n)
		c12MarkStatus(g, c)
		st := &resultSigningState{
			BaseAsyncState: state.NewBaseAsyncState(),
			member:         newSigningMember(&testutils.MockLogger{}, group.MemberIndex(c.receiver), g, validators[c.layout.name], c12OwnSession),
		}
		p := &resultSignatureMessage{senderID: group.MemberIndex(c.claimed), sessionID: c12Session(c.session),
			resultHash: [32]byte{1}, signature: []byte{1, 2}, publicKey: payloadKey(c)}
		evaluate("resultSigningState/resultSignatureMessage", st, c, p, true)
	}

	r.Count("receive_points", int64(len(states)+1))
	r.Count("receive_point_x_message_type", int64(len(states)*len(msgTypes)+1))
	r.Count("grid_cases_protocol_state", int64(len(gridProto)))
	r.Count("grid_cases_result_signing", int64(len(gridResult)))
	r.Count("acted_on", acted)
	r.Count("ignored", rejected)
}
