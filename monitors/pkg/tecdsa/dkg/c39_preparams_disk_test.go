//go:build verif

package dkg

import (
	"context"
	"errors"
	"fmt"
	"os"
	"path/filepath"
	"runtime"
	"testing"

	"github.com/keep-network/keep-common/pkg/persistence"

	"github.com/keep-network/keep-core/internal/verifkit"
	"github.com/keep-network/keep-core/pkg/generator"
)

// TestVerif_C39_TecdsaDisk uses keep-common's real on-disk BasicHandle. Its
// Save is os.Create + Write + Sync, so a process that dies inside Save leaves
// a prefix of the file. Every such prefix (restart "at every point" of the
// write) is put next to a complete file and a pool is started on the
// directory: whatever GetNow then hands out must be pre-parameters the
// generator produced, once, and gone from the disk.
func TestVerif_C39_TecdsaDisk(t *testing.T) {
	r := verifkit.Start(t, "C39", "tecdsa_disk")
	defer r.Finish()
	r.SetRule("real disk persistence handle + real preParamsStorage + real pool: directory holding one complete pre-parameter file (written by the storage's own Save) and one file cut at byte n of another fixture's encoding, n over a grid of prefix lengths including 0, 1 and len-1 (every length in thorough); the pool is started on it and drained with GetNow; non-trivial = every case (each contains a restart on a directory with an interrupted write)")
	fx, err := c39LoadFixtures()
	if err != nil {
		r.Inconclusive("fixtures: " + err.Error())
		return
	}
	root := r.TmpDir("disk")
	type job struct{ whole, torn, n int }
	var jobs []job
	encLen := make([]int, len(fx))
	enc := make([][]byte, len(fx))
	for k := range fx {
		cp := *fx[k]
		b, err := newPreParams(&cp).Marshal()
		if err != nil {
			r.Inconclusive("marshal: " + err.Error())
			return
		}
		enc[k], encLen[k] = b, len(b)
	}
	step := r.N(61, 1)
	for k := range fx {
		for n := 0; n < encLen[k]; n++ {
			if n%step == 0 || n <= 2 || n >= encLen[k]-2 {
				jobs = append(jobs, job{(k + 1) % len(fx), k, n})
			}
		}
	}
	verifkit.Parallel(len(jobs), 0, func(i int) {
		jb := jobs[i]
		desc := fmt.Sprintf("disk: complete file of fixture %d + file of fixture %d cut at byte %d of %d", jb.whole, jb.torn, jb.n, encLen[jb.torn])
		dir := filepath.Join(root, fmt.Sprintf("c%d", i))
		if err := os.MkdirAll(dir, 0o755); err != nil {
			r.Inconclusive(err.Error())
			return
		}
		defer os.RemoveAll(dir)
		handle, err := persistence.NewBasicDiskHandle(dir)
		if err != nil {
			r.Inconclusive("disk handle: " + err.Error())
			return
		}
		lg := &c39Logger{}
		storage := newPreParamsStorage(handle, lg)
		cp := *fx[jb.whole]
		if _, err := storage.Save(newPreParams(&cp)); err != nil {
			r.Inconclusive("Save on disk failed: " + err.Error())
			return
		}
		// what an interrupted persistence.Write leaves behind
		if err := os.WriteFile(filepath.Join(dir, dirName, "pp_9999999999999_00000000000000"), enc[jb.torn][:jb.n], 0o644); err != nil {
			r.Inconclusive(err.Error())
			return
		}
		die := make(chan struct{})
		defer close(die)
		gen := func(ctx context.Context) *PreParams {
			<-die
			runtime.Goexit()
			return nil
		}
		var pool *generator.ParameterPool[PreParams]
		if r.Guard("tecdsa:disk:start:", desc, func() {
			pool = generator.NewParameterPool[PreParams](lg, &generator.Scheduler{}, &storage, 3, gen, 0)
		}) {
			r.Case(desc, true)
			return
		}
		handed := map[int]bool{}
		for k := 0; k < 4; k++ {
			var p *PreParams
			var gerr error
			if r.Guard("tecdsa:disk:getnow:", desc, func() { p, gerr = pool.GetNow() }) {
				break
			}
			if errors.Is(gerr, generator.ErrEmptyPool) {
				break
			}
			if gerr != nil {
				continue
			}
			if p == nil || p.data == nil {
				r.Violation("tecdsa:handed-out-nil", "GetNow returned nil pre-parameters without an error", desc, nil)
				continue
			}
			id := c39Identify(fx, p.data)
			switch {
			case id < 0:
				r.Violation("tecdsa:handed-out-invalid-after-torn-write", fmt.Sprintf("after a restart on a directory with a file cut at byte %d, GetNow handed out pre-parameters the generator never produced (NTildei=%s)", jb.n, c39Clip(p.data.NTildei.String(), 16)), desc, nil)
			case handed[id]:
				r.Violation("tecdsa:handed-out-twice", fmt.Sprintf("fixture %d handed out twice", id), desc, nil)
			default:
				handed[id] = true
			}
		}
		if !handed[jb.whole] {
			r.Count("complete_file_not_served", 1)
		}
		// a handed-out parameter is gone from the disk
		left, _ := os.ReadDir(filepath.Join(dir, dirName))
		for _, f := range left {
			b, _ := os.ReadFile(filepath.Join(dir, dirName, f.Name()))
			var pp PreParams
			if err := pp.Unmarshal(b); err == nil {
				if id := c39Identify(fx, pp.data); id >= 0 && handed[id] {
					r.Violation("tecdsa:handed-out-still-stored", fmt.Sprintf("fixture %d was handed out but its file %s is still on disk", id, f.Name()), desc, nil)
				}
			}
		}
		r.Case(desc, true)
		r.Count("handed_out", int64(len(handed)))
		if i%97 == 0 {
			r.Sample(map[string]interface{}{"case": desc, "handed_out_fixtures": len(handed), "files_left": len(left)})
		}
	})
}
