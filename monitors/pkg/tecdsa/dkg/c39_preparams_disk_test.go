//go:build verif

package dkg

import (
	"context"
	"errors"
	"fmt"
	"os"
	"path/filepath"
	"runtime"
	"sync"
	"testing"

	"github.com/keep-network/keep-common/pkg/persistence"

	"github.com/keep-network/keep-core/internal/verifkit"
	"github.com/keep-network/keep-core/pkg/generator"
)

// TestVerif_C39_TecdsaDisk uses keep-common's real on-disk BasicHandle. Its
// Save is os.Create + Write + Sync, so a process that dies inside Save leaves
// a prefix of the file. Every such prefix (restart "at every point" of the
// write) is put next to a complete file and a pool is started on the
// directory: whatever GetNow then hands out must be pre-parameters the
// generator produced, once, and gone from the disk.
func TestVerif_C39_TecdsaDisk(t *testing.T) {
	r := verifkit.Start(t, "C39", "tecdsa_disk")
	defer r.Finish()
	r.SetRule("real disk persistence handle + real preParamsStorage + real pool: directory holding one complete pre-parameter file (written by the storage's own Save) and one file cut at byte n of another fixture's encoding, n over a grid of prefix lengths including 0, 1 and len-1 (every length in thorough); the pool is started on it and drained with GetNow; non-trivial = every case (each contains a restart on a directory with an interrupted write)")
	fx, err := c39LoadFixtures()
	if err != nil {
		r.Inconclusive("fixtures: " + err.Error())
		return
	}
	root := r.TmpDir("disk")
	type job struct{ whole, torn, n int }
	var jobs []job
	encLen := make([]int, len(fx))
	enc := make([][]byte, len(fx))
	for k := range fx {
		cp := *fx[k]
		b, err := newPreParams(&cp).Marshal()
		if err != nil {
			r.Inconclusive("marshal: " + err.Error())
			return
		}
		enc[k], encLen[k] = b, len(b)
	}
	step := r.N(61, 1)
	for k := range fx {
		for n := 0; n < encLen[k]; n++ {
			if n%step == 0 || n <= 2 || n >= encLen[k]-2 {
				jobs = append(jobs, job{(k + 1) % len(fx), k, n})
			}
		}
	}
	verifkit.Parallel(len(jobs), 0, func(i int) {
		jb := jobs[i]
		desc := fmt.Sprintf("disk: complete file of fixture %d + file of fixture %d cut at byte %d of %d", jb.whole, jb.torn, jb.n, encLen[jb.torn])
		dir := filepath.Join(root, fmt.Sprintf("c%d", i))
		if err := os.MkdirAll(dir, 0o755); err != nil {
			r.Inconclusive(err.Error())
			return
		}
		defer os.RemoveAll(dir)
		handle, err := persistence.NewBasicDiskHandle(dir)
		if err != nil {
			r.Inconclusive("disk handle: " + err.Error())
			return
		}
		lg := &c39Logger{}
		storage := newPreParamsStorage(handle, lg)
		cp := *fx[jb.whole]
		if _, err := storage.Save(newPreParams(&cp)); err != nil {
			r.Inconclusive("Save on disk failed: " + err.Error())
			return
		}
		// what an interrupted persistence.Write leaves behind
		if err := os.WriteFile(filepath.Join(dir, dirName, "pp_9999999999999_00000000000000"), enc[jb.torn][:jb.n], 0o644); err != nil {
			r.Inconclusive(err.Error())
			return
		}
		die := make(chan struct{})
		defer close(die)
		gen := func(ctx context.Context) *PreParams {
			<-die
			runtime.Goexit()
			return nil
		}
		var pool *generator.ParameterPool[PreParams]
		if r.Guard("tecdsa:disk:start:", desc, func() {
			pool = generator.NewParameterPool[PreParams](lg, &generator.Scheduler{}, &storage, 3, gen, 0)
		}) {
			r.Case(desc, true)
			return
		}
		handed := map[int]bool{}
		for k := 0; k < 4; k++ {
			var p *PreParams
			var gerr error
			if r.Guard("tecdsa:disk:getnow:", desc, func() { p, gerr = pool.GetNow() }) {
				break
			}
			if errors.Is(gerr, generator.ErrEmptyPool) {
				break
			}
			if gerr != nil {
				continue
			}
			if p == nil || p.data == nil {
				r.Violation("tecdsa:handed-out-nil", "GetNow returned nil pre-parameters without an error", desc, nil)
				continue
			}
			id := c39Identify(fx, p.data)
			switch {
			case id < 0:
				r.Violation("tecdsa:handed-out-invalid-after-torn-write", fmt.Sprintf("after a restart on a directory with a file cut at byte %d, GetNow handed out pre-parameters the generator never produced (NTildei=%s)", jb.n, c39Clip(p.data.NTildei.String(), 16)), desc, nil)
			case handed[id]:
				r.Violation("tecdsa:handed-out-twice", fmt.Sprintf("fixture %d handed out twice", id), desc, nil)
			default:
				handed[id] = true
			}
		}
		if !handed[jb.whole] {
			r.Count("complete_file_not_served", 1)
		}
		// a handed-out parameter is gone from the disk
		left, _ := os.ReadDir(filepath.Join(dir, dirName))
		for _, f := range left {
			b, _ := os.ReadFile(filepath.Join(dir, dirName, f.Name()))
			var pp PreParams
			if err := pp.Unmarshal(b); err == nil {
				if id := c39Identify(fx, pp.data); id >= 0 && handed[id] {
					r.Violation("tecdsa:handed-out-still-stored", fmt.Sprintf("fixture %d was handed out but its file %s is still on disk", id, f.Name()), desc, nil)
				}
			}
		}
		r.Case(desc, true)
		r.Count("handed_out", int64(len(handed)))
		if i%97 == 0 {
			r.Sample(map[string]interface{}{"case": desc, "handed_out_fixtures": len(handed), "files_left": len(left)})
		}
	})
}

// TestVerif_C39_TecdsaDiskOverlap: a restart that overlaps the previous
// instance. Two pools are started, one after the other, on the same
// directory (the first one is still alive and holds the records it loaded),
// and both are drained, sequentially or concurrently. Across the two
// instances no pre-parameter may be handed out twice, and what was handed out
// is gone from the disk.
func TestVerif_C39_TecdsaDiskOverlap(t *testing.T) {
	r := verifkit.Start(t, "C39", "tecdsa_disk_overlap")
	defer r.Finish()
	r.SetRule("real disk persistence handle + real preParamsStorage + two real pools started one after the other on a directory holding 1-3 complete pre-parameter files (restart while the previous instance is still alive); both pools are drained with GetNow in a PRNG interleaving (one goroutine) or concurrently; across both instances every fixture may be handed out at most once, and a handed-out one is gone from the disk. Non-trivial: both instances had loaded at least one common record.")
	fx, err := c39LoadFixtures()
	if err != nil {
		r.Inconclusive("fixtures: " + err.Error())
		return
	}
	root := r.TmpDir("disk-overlap")
	n := r.N(120, 3000)
	verifkit.Parallel(n, 0, func(i int) {
		rng := r.SubRand("overlap", i)
		nFiles := 1 + rng.Intn(len(fx))
		if nFiles > 3 {
			nFiles = 3
		}
		concurrent := rng.Intn(2) == 0
		desc := fmt.Sprintf("overlap#%d: %d stored records, two live pools on one directory, concurrent=%v", i, nFiles, concurrent)
		dir := filepath.Join(root, fmt.Sprintf("o%d", i))
		if err := os.MkdirAll(dir, 0o755); err != nil {
			r.Inconclusive(err.Error())
			return
		}
		defer os.RemoveAll(dir)
		die := make(chan struct{})
		defer close(die)
		gen := func(ctx context.Context) *PreParams {
			<-die
			runtime.Goexit()
			return nil
		}
		lg := &c39Logger{}
		mk := func() (*generator.ParameterPool[PreParams], bool) {
			handle, err := persistence.NewBasicDiskHandle(dir)
			if err != nil {
				r.Inconclusive("disk handle: " + err.Error())
				return nil, false
			}
			storage := newPreParamsStorage(handle, lg)
			var pool *generator.ParameterPool[PreParams]
			if r.Guard("tecdsa:overlap:start:", desc, func() {
				pool = generator.NewParameterPool[PreParams](lg, &generator.Scheduler{}, &storage, 3, gen, 0)
			}) {
				return nil, false
			}
			return pool, true
		}
		{
			handle, err := persistence.NewBasicDiskHandle(dir)
			if err != nil {
				r.Inconclusive("disk handle: " + err.Error())
				return
			}
			storage := newPreParamsStorage(handle, lg)
			for k := 0; k < nFiles; k++ {
				cp := *fx[k]
				if _, err := storage.Save(newPreParams(&cp)); err != nil {
					r.Inconclusive("Save on disk failed: " + err.Error())
					return
				}
			}
		}
		a, ok := mk()
		if !ok {
			return
		}
		b, ok := mk()
		if !ok {
			return
		}
		var mu sync.Mutex
		count := map[int]int{}
		take := func(p *generator.ParameterPool[PreParams]) bool {
			var pp *PreParams
			var gerr error
			if r.Guard("tecdsa:overlap:getnow:", desc, func() { pp, gerr = p.GetNow() }) {
				return false
			}
			if errors.Is(gerr, generator.ErrEmptyPool) {
				return false
			}
			if gerr != nil || pp == nil || pp.data == nil {
				return true
			}
			if id := c39Identify(fx, pp.data); id >= 0 {
				mu.Lock()
				count[id]++
				mu.Unlock()
			}
			return true
		}
		if concurrent {
			var wg sync.WaitGroup
			for _, p := range []*generator.ParameterPool[PreParams]{a, b} {
				wg.Add(1)
				go func(p *generator.ParameterPool[PreParams]) {
					defer wg.Done()
					for k := 0; k < 5 && take(p); k++ {
					}
				}(p)
			}
			wg.Wait()
		} else {
			aLive, bLive := true, true
			for k := 0; k < 12 && (aLive || bLive); k++ {
				if (rng.Intn(2) == 0 && aLive) || !bLive {
					aLive = take(a)
				} else {
					bLive = take(b)
				}
			}
		}
		r.Case(desc, true)
		for id, c := range count {
			r.Count("handed_out", int64(c))
			if c > 1 {
				r.Violation("tecdsa:handed-out-twice-across-overlapping-instances", fmt.Sprintf("fixture %d was handed out %d times by two pools started on the same directory", id, c), desc, nil)
			}
		}
		left, _ := os.ReadDir(filepath.Join(dir, dirName))
		for _, f := range left {
			bts, _ := os.ReadFile(filepath.Join(dir, dirName, f.Name()))
			var pp PreParams
			if err := pp.Unmarshal(bts); err == nil {
				if id := c39Identify(fx, pp.data); id >= 0 && count[id] > 0 {
					r.Violation("tecdsa:handed-out-still-stored", fmt.Sprintf("fixture %d was handed out but its file %s is still on disk", id, f.Name()), desc, nil)
				}
			}
		}
	})
}
