//go:build verif

package signing

// C08 (part "early-messages") — a member that lags behind its quorum must
// keep the later-phase messages that reach it early.
//
// Every member of a quorum of the fixture 3-of-5 wallet is built with the
// same statements as signing.Execute, its states wrapped in a forwarding
// proxy with a handle on the member's BaseAsyncState. One PRNG-chosen member
// is made to lag DETERMINISTICALLY: it is held after the Initiate of its
// first state, and one peer's ephemeral-key message is withheld from it (so
// CanTransition of the first state cannot become true), until its first
// state has been handed k >= 1 legitimate messages of later phases (the
// peers' TSS round-one messages). Then the withheld message is delivered and
// the hold released.
//
// Oracles:
//   - white-box, at every Receive of every member: a legitimate protocol
//     message (current session, sender in the quorum and other than the
//     receiver, signed with that sender's operator key) handed to a state
//     makes the message history grow. Reading pkg/tecdsa/signing/states.go:
//     the eleven states ephemeralKeyPairGeneration, symmetricKeyGeneration and
//     tssRoundOne..tssRoundNine all store every accepted message of the
//     `message` interface with ReceiveToHistory whatever its phase;
//     finalizationState.Receive stores nothing - it is the last state, no
//     later phase exists and every earlier message was already consumed - so
//     exactly *finalizationState is excluded.
//   - the run ends with one signature at every member that verifies under
//     the fixture wallet key (crypto/ecdsa), with S <= N/2.
// A run cut by the wall-clock watchdog is inconclusive.

import (
	"bytes"
	"context"
	"crypto/ecdsa"
	"fmt"
	"math/big"
	"math/rand"
	"strings"
	"sync"
	"sync/atomic"
	"testing"
	"time"

	"github.com/keep-network/keep-core/internal/testutils"
	"github.com/keep-network/keep-core/internal/verifkit"
	"github.com/keep-network/keep-core/pkg/chain"
	"github.com/keep-network/keep-core/pkg/chain/local_v1"
	"github.com/keep-network/keep-core/pkg/internal/tecdsatest"
	"github.com/keep-network/keep-core/pkg/net"
	netlocal "github.com/keep-network/keep-core/pkg/net/local"
	"github.com/keep-network/keep-core/pkg/operator"
	"github.com/keep-network/keep-core/pkg/protocol/group"
	"github.com/keep-network/keep-core/pkg/protocol/state"
	"github.com/keep-network/keep-core/pkg/tecdsa"
)

var c08emTypes = []string{
	(&ephemeralPublicKeyMessage{}).Type(),
	(&tssRoundOneMessage{}).Type(),
	(&tssRoundTwoMessage{}).Type(),
	(&tssRoundThreeMessage{}).Type(),
	(&tssRoundFourMessage{}).Type(),
	(&tssRoundFiveMessage{}).Type(),
	(&tssRoundSixMessage{}).Type(),
	(&tssRoundSevenMessage{}).Type(),
	(&tssRoundEightMessage{}).Type(),
	(&tssRoundNineMessage{}).Type(),
}

// c08emPhaseOfType: 1 ephemeral keys, 3..11 TSS rounds one..nine (2 is the
// silent symmetric-key state, 12 finalization).
func c08emPhaseOfType(t string) int {
	for i, x := range c08emTypes {
		if x == t {
			if i == 0 {
				return 1
			}
			return i + 2
		}
	}
	return 0
}

func c08emStateNo(s state.AsyncState) int {
	switch s.(type) {
	case *ephemeralKeyPairGenerationState:
		return 1
	case *symmetricKeyGenerationState:
		return 2
	case *tssRoundOneState:
		return 3
	case *tssRoundTwoState:
		return 4
	case *tssRoundThreeState:
		return 5
	case *tssRoundFourState:
		return 6
	case *tssRoundFiveState:
		return 7
	case *tssRoundSixState:
		return 8
	case *tssRoundSevenState:
		return 9
	case *tssRoundEightState:
		return 10
	case *tssRoundNineState:
		return 11
	case *finalizationState:
		return 12
	}
	return 0
}

func c08emHistLen(b *state.BaseAsyncState) int {
	n := 0
	for _, t := range c08emTypes {
		n += len(b.GetAllReceivedMessages(t))
	}
	return n
}

func c08emIn(l []group.MemberIndex, x group.MemberIndex) bool {
	for _, v := range l {
		if v == x {
			return true
		}
	}
	return false
}

// c08emEnv describes one run.
type c08emEnv struct {
	session  string
	quorum   []group.MemberIndex
	pubBytes map[group.MemberIndex][]byte
	lagger   group.MemberIndex // the member made to lag
	withheld group.MemberIndex // the peer whose ephemeral-key message is withheld from the lagger
	want     int64             // later-phase messages the lagger's first state must be handed

	early    int64         // atomic: later-phase legitimate messages handed to the lagger's first state
	gate     chan struct{} // closed when early >= want (or the bound passed)
	gateOnce sync.Once
	gateOK   int32 // atomic: 1 when the gate opened because the condition was met
	abort    func()
}

func (e *c08emEnv) open(ok bool) {
	e.gateOnce.Do(func() {
		if ok {
			atomic.StoreInt32(&e.gateOK, 1)
		}
		close(e.gate)
	})
}

// legit tells whether the property expects member me to keep the message.
func (e *c08emEnv) legit(me group.MemberIndex, msg net.Message) bool {
	pm, ok := msg.Payload().(message)
	if !ok {
		return false
	}
	s := pm.SenderID()
	return pm.SessionID() == e.session && s != me && c08emIn(e.quorum, s) &&
		bytes.Equal(msg.SenderPublicKey(), e.pubBytes[s])
}

// c08emObs is written by the member's machine loop only and read after wg.Wait.
type c08emObs struct {
	id          group.MemberIndex
	receives    int
	legit       int
	lagReceives int
	maxLag      int
	dropped     []string // state types that dropped a legitimate message
}

type c08emProxy struct {
	inner   state.AsyncState
	base    *state.BaseAsyncState
	env     *c08emEnv
	obs     *c08emObs
	stateNo int
}

func c08emWrap(s state.AsyncState, base *state.BaseAsyncState, env *c08emEnv, obs *c08emObs) *c08emProxy {
	return &c08emProxy{inner: s, base: base, env: env, obs: obs, stateNo: c08emStateNo(s)}
}

func (p *c08emProxy) Initiate(ctx context.Context) error {
	err := p.inner.Initiate(ctx)
	if err == nil && p.stateNo == 1 && p.obs.id == p.env.lagger {
		// the gate: the lagging member stays inside the Initiate of its
		// first state until it was handed the later-phase messages
		select {
		case <-p.env.gate:
		case <-ctx.Done():
		}
	}
	return err
}

func (p *c08emProxy) Receive(msg net.Message) error {
	before := c08emHistLen(p.base)
	err := p.inner.Receive(msg)
	grew := c08emHistLen(p.base) > before
	o := p.obs
	o.receives++
	if !p.env.legit(o.id, msg) {
		return err
	}
	o.legit++
	if _, last := p.inner.(*finalizationState); !grew && !last {
		o.dropped = append(o.dropped, fmt.Sprintf("%T", p.inner))
		p.env.abort()
	}
	if lag := c08emPhaseOfType(msg.Type()) - p.stateNo; lag > 0 {
		o.lagReceives++
		if lag > o.maxLag {
			o.maxLag = lag
		}
		if o.id == p.env.lagger && p.stateNo == 1 {
			if atomic.AddInt64(&p.env.early, 1) >= p.env.want {
				p.env.open(true)
			}
		}
	}
	return err
}

func (p *c08emProxy) CanTransition() bool { return p.inner.CanTransition() }

func (p *c08emProxy) Next() (state.AsyncState, error) {
	n, err := p.inner.Next()
	if err != nil || n == nil {
		return n, err
	}
	return c08emWrap(n, p.base, p.env, p.obs), nil
}

func (p *c08emProxy) MemberIndex() group.MemberIndex { return p.inner.MemberIndex() }

// c08emChan withholds one peer's ephemeral-key message from the lagging
// member until the gate opens and adds a small random delay to everything.
type c08emChan struct {
	inner net.BroadcastChannel
	id    group.MemberIndex
	env   *c08emEnv
	rng   *rand.Rand // used by the channel's receive goroutine only
}

func (c *c08emChan) Name() string                                  { return c.inner.Name() }
func (c *c08emChan) SetUnmarshaler(u func() net.TaggedUnmarshaler) { c.inner.SetUnmarshaler(u) }
func (c *c08emChan) SetFilter(f net.BroadcastChannelFilter) error  { return c.inner.SetFilter(f) }
func (c *c08emChan) Send(ctx context.Context, m net.TaggedMarshaler, s ...net.RetransmissionStrategy) error {
	return c.inner.Send(ctx, m, s...)
}
func (c *c08emChan) Recv(ctx context.Context, handler func(m net.Message)) {
	c.inner.Recv(ctx, func(m net.Message) {
		deliver := func() {
			if ctx.Err() == nil {
				handler(m)
			}
		}
		if c.id == c.env.lagger {
			if pm, ok := m.Payload().(*ephemeralPublicKeyMessage); ok &&
				pm.SenderID() == c.env.withheld && pm.SessionID() == c.env.session {
				go func() {
					select {
					case <-c.env.gate:
						deliver()
					case <-ctx.Done():
					}
				}()
				return
			}
		}
		time.AfterFunc(time.Duration(c.rng.Intn(8_000))*time.Microsecond, deliver)
	})
}

type c08emFixture struct {
	shares   []*tecdsa.PrivateKeyShare
	pub      *ecdsa.PublicKey
	signing  chain.Signing
	pubs     []*operator.PublicKey
	addrs    []chain.Address
	pubBytes [][]byte
}

func c08emNewFixture() (*c08emFixture, error) {
	data, err := tecdsatest.LoadPrivateKeyShareTestFixtures(5)
	if err != nil {
		return nil, err
	}
	f := &c08emFixture{signing: local_v1.Connect(5, 5).Signing()}
	for i := range data {
		f.shares = append(f.shares, tecdsa.NewPrivateKeyShare(data[i]))
		_, pub, err := operator.GenerateKeyPair(local_v1.DefaultCurve)
		if err != nil {
			return nil, err
		}
		a, err := f.signing.PublicKeyToAddress(pub)
		if err != nil {
			return nil, err
		}
		f.pubs = append(f.pubs, pub)
		f.addrs = append(f.addrs, a)
		f.pubBytes = append(f.pubBytes, operator.MarshalUncompressed(pub))
	}
	f.pub = f.shares[0].PublicKey()
	return f, nil
}

type c08emOut struct {
	id  group.MemberIndex
	res *Result
	err error
	obs *c08emObs
}

func c08emSubsets(k, size int) [][]group.MemberIndex {
	var out [][]group.MemberIndex
	var rec func(start int, cur []group.MemberIndex)
	rec = func(start int, cur []group.MemberIndex) {
		if len(cur) == size {
			out = append(out, append([]group.MemberIndex(nil), cur...))
			return
		}
		for i := start; i <= k; i++ {
			rec(i+1, append(cur, group.MemberIndex(i)))
		}
	}
	rec(1, nil)
	return out
}

func c08emRun(r *verifkit.Run, f *c08emFixture, idx int, quorum []group.MemberIndex, rng *rand.Rand, watchdog time.Duration) {
	logger := &testutils.MockLogger{}
	const groupSize, dishonest = 5, 2
	b := make([]byte, 32)
	rng.Read(b)
	msg := new(big.Int).SetBytes(b)
	if n := tecdsa.Curve.Params().N; msg.Cmp(n) >= 0 {
		msg.Sub(msg, n)
	}
	env := &c08emEnv{
		session:  fmt.Sprintf("%v-%v", msg.Text(16), idx),
		quorum:   quorum,
		pubBytes: map[group.MemberIndex][]byte{},
		gate:     make(chan struct{}),
	}
	for i := 1; i <= groupSize; i++ {
		env.pubBytes[group.MemberIndex(i)] = f.pubBytes[i-1]
	}
	li := rng.Intn(len(quorum))
	env.lagger = quorum[li]
	env.withheld = quorum[(li+1+rng.Intn(len(quorum)-1))%len(quorum)]
	env.want = int64(1 + rng.Intn(len(quorum)-1)) // each peer sends one round-one message
	desc := fmt.Sprintf("fixture 3-of-5 quorum=%v lagging=m%d withheld-ephemeral-from=m%d early-messages-wanted=%d msg=%s",
		quorum, env.lagger, env.withheld, env.want, msg.Text(16))

	var excluded []group.MemberIndex
	for i := 1; i <= groupSize; i++ {
		if !c08emIn(quorum, group.MemberIndex(i)) {
			excluded = append(excluded, group.MemberIndex(i))
		}
	}
	mv := group.NewMembershipValidator(logger, f.addrs, f.signing)
	name := fmt.Sprintf("c08em-%d-%d-%d", r.Seed(), idx, time.Now().UnixNano())

	ctx, cancel := context.WithCancel(context.Background())
	defer cancel()
	var watchdogFired int32
	wd := time.AfterFunc(watchdog, func() {
		atomic.StoreInt32(&watchdogFired, 1)
		cancel()
	})
	defer wd.Stop()
	var stopOnce sync.Once
	env.abort = func() { stopOnce.Do(func() { time.AfterFunc(2*time.Second, cancel) }) }
	// harness bound: never keep the gate shut for ever
	gateBound := time.AfterFunc(watchdog/2, func() { env.open(false) })
	defer gateBound.Stop()

	outs := make([]*c08emOut, len(quorum))
	var wg sync.WaitGroup
	for qi, id := range quorum {
		qi, id := qi, id
		inner, err := netlocal.ConnectWithKey(f.pubs[id-1]).BroadcastChannelFor(name)
		if err != nil {
			r.Inconclusive("channel: " + err.Error())
			return
		}
		RegisterUnmarshallers(inner)
		ch := &c08emChan{inner: inner, id: id, env: env, rng: rand.New(rand.NewSource(rng.Int63()))}
		out := &c08emOut{id: id, obs: &c08emObs{id: id}}
		outs[qi] = out
		wg.Add(1)
		go func() {
			defer wg.Done()
			defer func() {
				if out.err != nil && atomic.LoadInt32(&watchdogFired) == 0 {
					env.abort()
				}
			}()
			r.Guard("early:", desc, func() {
				// the statements of signing.Execute, with the initial state
				// wrapped by the forwarding proxy
				m := newMember(logger, id, groupSize, dishonest, mv, env.session, msg, f.shares[id-1])
				for _, e := range excluded {
					if e != m.id {
						m.group.MarkMemberAsDisqualified(e)
					}
				}
				base := state.NewBaseAsyncState()
				initial := &ephemeralKeyPairGenerationState{
					BaseAsyncState: base,
					channel:        ch,
					member:         m.initializeEphemeralKeysGeneration(),
				}
				sm := state.NewAsyncMachine(logger, ctx, ch, c08emWrap(initial, base, env, out.obs))
				last, err := sm.Execute()
				if err != nil {
					out.err = err
					return
				}
				fs, ok := last.(*c08emProxy).inner.(*finalizationState)
				if !ok {
					out.err = fmt.Errorf("execution ended on state: %T", last.(*c08emProxy).inner)
					return
				}
				out.res = fs.result()
			})
		}()
	}
	wg.Wait()
	expired := atomic.LoadInt32(&watchdogFired) == 1
	gateOK := atomic.LoadInt32(&env.gateOK) == 1
	early := atomic.LoadInt64(&env.early)

	// non-trivial: the lagging member's first state really was handed later-phase messages
	r.Case(desc, gateOK && early >= env.want)
	r.Count("early_messages_handed_to_first_state", early)
	if gateOK {
		r.Count("gates_satisfied", 1)
	}

	violated := false
	for _, o := range outs {
		r.Count("receives", int64(o.obs.receives))
		r.Count("legit_receives", int64(o.obs.legit))
		r.Count("lagging_receives", int64(o.obs.lagReceives))
		for _, st := range o.obs.dropped {
			violated = true
			r.Violation("history:legit-dropped:"+st,
				fmt.Sprintf("member %d: state %s was handed a legitimate protocol message and did not store it in the message history", o.id, st),
				desc, map[string]interface{}{"member": o.id, "lagging": env.lagger})
		}
	}
	var failed []string
	for _, o := range outs {
		if o.err != nil || o.res == nil || o.res.Signature == nil {
			failed = append(failed, fmt.Sprintf("member %d: %v", o.id, o.err))
		}
	}
	if len(failed) > 0 {
		switch {
		case violated:
		case expired:
			r.Inconclusive("watchdog expired before the signing finished: " + desc + " | " + strings.Join(failed, "; "))
		default:
			r.Violation("sign:member-error", "an honest quorum failed to sign: "+strings.Join(failed, "; "), desc, failed)
		}
		return
	}
	if !gateOK {
		r.Inconclusive("the lagging member was not handed the wanted later-phase messages within the harness bound: " + desc)
	}
	r.Count("signings_completed", 1)
	sig := outs[0].res.Signature
	n := tecdsa.Curve.Params().N
	for _, o := range outs {
		s := o.res.Signature
		if !sig.Equals(s) {
			r.Violation("sig:members-differ", fmt.Sprintf("members %d and %d hold different signatures", outs[0].id, o.id), desc, []string{sig.String(), s.String()})
		}
		if s.R == nil || s.S == nil || s.R.Sign() <= 0 || s.S.Sign() <= 0 || s.R.Cmp(n) >= 0 || s.S.Cmp(n) >= 0 {
			r.Violation("sig:range", "R or S outside [1,N-1]", desc, s.String())
			continue
		}
		if !ecdsa.Verify(f.pub, msg.Bytes(), s.R, s.S) {
			r.Violation("sig:invalid", fmt.Sprintf("member %d: the signature does not verify under the wallet key", o.id), desc, s.String())
		}
		if s.S.Cmp(new(big.Int).Rsh(n, 1)) > 0 {
			r.Violation("sig:high-s", "S is above N/2", desc, s.String())
		}
	}
	if idx < 3 {
		r.Sample(map[string]interface{}{"case": desc, "early_messages": early, "gate_satisfied": gateOK,
			"lagging_member_max_lag_states": func() int {
				for _, o := range outs {
					if o.id == env.lagger {
						return o.obs.maxLag
					}
				}
				return 0
			}()})
	}
}

func TestVerif_C08_EarlyMessages(t *testing.T) {
	r := verifkit.Start(t, "C08", "early-messages")
	defer r.Finish()
	r.SetRule("fixture 3-of-5 wallet, PRNG-picked size-3 quorums (quick 3, thorough all 10 twice), random message; in each run one PRNG-chosen member is held in its first state (gate after Initiate + one peer's ephemeral-key message withheld) until that state was handed k (PRNG, 1..2) legitimate later-phase messages. non-trivial = the run observed those k early messages being handed to the first state")
	r.Assume("finalizationState is the only signing state that legitimately stores nothing (last state); tss-lib; crypto/ecdsa")
	r.SetExhaustive(false)
	f, err := c08emNewFixture()
	if err != nil {
		r.Inconclusive("fixtures: " + err.Error())
		return
	}
	subs := c08emSubsets(5, 3)
	rng := r.Rand("quorums")
	var quorums [][]group.MemberIndex
	if r.Quick() {
		rng.Shuffle(len(subs), func(i, j int) { subs[i], subs[j] = subs[j], subs[i] })
		quorums = subs[:3]
	} else {
		quorums = append(append([][]group.MemberIndex(nil), subs...), subs...)
	}
	verifkit.Parallel(len(quorums), 3, func(i int) {
		c08emRun(r, f, i, quorums[i], r.SubRand("run", i), 180*time.Second)
	})
}
