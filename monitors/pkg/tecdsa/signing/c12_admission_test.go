//go:build verif

package signing

import (
	"fmt"
	"sync/atomic"
	"testing"

	"github.com/keep-network/keep-core/internal/testutils"
	"github.com/keep-network/keep-core/internal/verifkit"
	"github.com/keep-network/keep-core/pkg/chain"
	"github.com/keep-network/keep-core/pkg/chain/local_v1"
	"github.com/keep-network/keep-core/pkg/internal/tecdsatest"
	"github.com/keep-network/keep-core/pkg/net"
	"github.com/keep-network/keep-core/pkg/operator"
	"github.com/keep-network/keep-core/pkg/protocol/group"
	"github.com/keep-network/keep-core/pkg/protocol/state"
	"github.com/keep-network/keep-core/pkg/tecdsa"
)

// ---------------------------------------------------------------------------
// C12 (tECDSA signing part): each of the 11 message-storing signing states is
// fed a synthetic net.Message for every (layout, receiver, claimed index,
// sender key, session, sender status) combination and each of the 10 message
// types; "acted on" = present in the state's message history. The reference
// verdict is computed from the seat table only.
// ---------------------------------------------------------------------------

type c12Msg struct {
	payload message
	key     []byte
}

func (m *c12Msg) TransportSenderID() net.TransportIdentifier { return nil }
func (m *c12Msg) SenderPublicKey() []byte                    { return m.key }
func (m *c12Msg) Payload() interface{}                       { return m.payload }
func (m *c12Msg) Type() string                               { return m.payload.Type() }
func (m *c12Msg) Seqno() uint64                              { return 0 }

type c12Layout struct {
	name  string
	seats []int // seat (position) -> operator number
}

type c12Key struct {
	name string
	op   int // operator number, -1 = not a group operator
	pub  []byte
}

type c12Case struct {
	layout   c12Layout
	receiver int
	claimed  int
	key      c12Key
	session  string // "own", "other", "prefix"
	status   string // "operating", "IA", "DQ", "siblingDQ"
}

func (c c12Case) desc(rp string) string {
	return fmt.Sprintf("rp=%s layout=%s seats=%v receiver=%d claimed=%d key=%s session=%s status=%s",
		rp, c.layout.name, c.layout.seats, c.receiver, c.claimed, c.key.name, c.session, c.status)
}

// c12Expect is the reference admission rule. It returns whether the message
// is fully legitimate and, when not, the first reason it is not.
func c12Expect(c c12Case) (bool, string) {
	n := len(c.layout.seats)
	held := c.claimed >= 1 && c.claimed <= n && c.key.op >= 0 && c.layout.seats[c.claimed-1] == c.key.op
	switch {
	case !held:
		return false, "index-not-held"
	case c.claimed == c.receiver:
		return false, "own-index"
	case c.session != "own":
		return false, "other-session"
	case c.status == "IA" || c.status == "DQ":
		return false, "sender-excluded"
	}
	return true, ""
}

func c12Siblings(c c12Case) []int {
	var out []int
	for pos, op := range c.layout.seats {
		idx := pos + 1
		if op == c.key.op && idx != c.claimed && idx != c.receiver {
			out = append(out, idx)
		}
	}
	return out
}

func c12Grid(layouts []c12Layout, keysOf func(l c12Layout) []c12Key) []c12Case {
	var out []c12Case
	for _, l := range layouts {
		n := len(l.seats)
		claims := []int{0}
		for i := 1; i <= n+1; i++ {
			claims = append(claims, i)
		}
		claims = append(claims, 255)
		for recv := 1; recv <= n; recv++ {
			for _, cl := range claims {
				for _, k := range keysOf(l) {
					for _, sess := range []string{"own", "other", "prefix"} {
						for _, st := range []string{"operating", "IA", "DQ", "siblingDQ"} {
							c := c12Case{l, recv, cl, k, sess, st}
							inRange := cl >= 1 && cl <= n && cl != recv
							if (st == "IA" || st == "DQ") && !inRange {
								continue
							}
							if st == "siblingDQ" && len(c12Siblings(c)) == 0 {
								continue
							}
							out = append(out, c)
						}
					}
				}
			}
		}
	}
	return out
}

const c12OwnSession = "session-1"

func c12Session(kind string) string {
	switch kind {
	case "own":
		return c12OwnSession
	case "prefix":
		return c12OwnSession + "0"
	}
	return "session-2"
}

// c12State is what the monitor needs from a state under test.
type c12State interface {
	Receive(net.Message) error
	GetAllReceivedMessages(messageType string) []net.Message
}

func c12MarkStatus(g *group.Group, c c12Case) {
	switch c.status {
	case "IA":
		g.MarkMemberAsInactive(group.MemberIndex(c.claimed))
	case "DQ":
		g.MarkMemberAsDisqualified(group.MemberIndex(c.claimed))
	case "siblingDQ":
		for _, s := range c12Siblings(c) {
			g.MarkMemberAsDisqualified(group.MemberIndex(s))
		}
	}
}

func TestVerif_C12_TecdsaSigning(t *testing.T) {
	r := verifkit.Start(t, "C12", "tecdsa-signing")
	defer r.Finish()
	r.SetRule("exhaustive grid: seat layouts (5 seats over operators 2/2/1 interleaved, 3 seats one operator; thorough adds 9 seats 4/3/1/1) x receiver seat x claimed index {0,1..n,n+1,255} x sender key {each operator, outsider, truncated operator key, empty} x session {own, other, own+suffix} x claimed member status {operating, IA, DQ, sibling seat DQ}; delivered to each of the 11 message-storing tECDSA signing states for each of the 10 message types; non-trivial = claimed index not held by the sender key, foreign session, or non-operating sender")
	r.Assume("local_v1 signing maps a public key to the hex of its bytes; operator keys are freshly generated secp256k1 keys (values do not enter the verdict); the member is built by newMember with a fixture key share (content irrelevant) and TSS parties are not constructed (admission is decided before any TSS computation)")

	signing := local_v1.Connect(5, 3).Signing()
	newKey := func() []byte {
		_, pub, err := operator.GenerateKeyPair(local_v1.DefaultCurve)
		if err != nil {
			t.Fatal(err)
		}
		return operator.MarshalUncompressed(pub)
	}
	opKeys := [][]byte{newKey(), newKey(), newKey(), newKey(), newKey()}
	outsider := newKey()

	layouts := []c12Layout{
		{"5seats-2/2/1", []int{0, 1, 0, 2, 1}},
		{"3seats-single-operator", []int{0, 0, 0}},
	}
	if !r.Quick() {
		layouts = append(layouts, c12Layout{"9seats-4/3/1/1", []int{0, 1, 0, 2, 1, 0, 3, 1, 0}})
	}
	keysOf := func(l c12Layout) []c12Key {
		seen := map[int]bool{}
		var ks []c12Key
		for _, op := range l.seats {
			if !seen[op] {
				seen[op] = true
				ks = append(ks, c12Key{fmt.Sprintf("op%c", 'A'+op), op, opKeys[op]})
			}
		}
		ks = append(ks,
			c12Key{"outsider", -1, outsider},
			c12Key{"truncated-opA", -1, opKeys[0][:64]},
			c12Key{"empty", -1, nil},
		)
		return ks
	}
	r.SetExhaustive(true)

	validators := map[string]*group.MembershipValidator{}
	for _, l := range layouts {
		addrs := make([]chain.Address, len(l.seats))
		for i, op := range l.seats {
			addrs[i] = signing.PublicKeyBytesToAddress(opKeys[op])
		}
		validators[l.name] = group.NewMembershipValidator(&testutils.MockLogger{}, addrs, signing)
	}

	type mk struct {
		name string
		fn   func(s group.MemberIndex, sess string) message
	}
	msgTypes := []mk{
		{"ephemeralPublicKeyMessage", func(s group.MemberIndex, sess string) message {
			return &ephemeralPublicKeyMessage{senderID: s, sessionID: sess}
		}},
		{"tssRoundOneMessage", func(s group.MemberIndex, sess string) message {
			return &tssRoundOneMessage{senderID: s, sessionID: sess, broadcastPayload: []byte{1}}
		}},
		{"tssRoundTwoMessage", func(s group.MemberIndex, sess string) message {
			return &tssRoundTwoMessage{senderID: s, sessionID: sess}
		}},
		{"tssRoundThreeMessage", func(s group.MemberIndex, sess string) message {
			return &tssRoundThreeMessage{senderID: s, sessionID: sess, broadcastPayload: []byte{1}}
		}},
		{"tssRoundFourMessage", func(s group.MemberIndex, sess string) message {
			return &tssRoundFourMessage{senderID: s, sessionID: sess, broadcastPayload: []byte{1}}
		}},
		{"tssRoundFiveMessage", func(s group.MemberIndex, sess string) message {
			return &tssRoundFiveMessage{senderID: s, sessionID: sess, broadcastPayload: []byte{1}}
		}},
		{"tssRoundSixMessage", func(s group.MemberIndex, sess string) message {
			return &tssRoundSixMessage{senderID: s, sessionID: sess, broadcastPayload: []byte{1}}
		}},
		{"tssRoundSevenMessage", func(s group.MemberIndex, sess string) message {
			return &tssRoundSevenMessage{senderID: s, sessionID: sess, broadcastPayload: []byte{1}}
		}},
		{"tssRoundEightMessage", func(s group.MemberIndex, sess string) message {
			return &tssRoundEightMessage{senderID: s, sessionID: sess, broadcastPayload: []byte{1}}
		}},
		{"tssRoundNineMessage", func(s group.MemberIndex, sess string) message {
			return &tssRoundNineMessage{senderID: s, sessionID: sess, broadcastPayload: []byte{1}}
		}},
	}

	type sb struct {
		name string
		fn   func(m *member) c12State
	}
	r1 := func(m *member) *tssRoundOneMember {
		return &tssRoundOneMember{symmetricKeyGeneratingMember: m.initializeEphemeralKeysGeneration().initializeSymmetricKeyGeneration()}
	}
	r5 := func(m *member) *tssRoundFiveMember {
		return r1(m).initializeTssRoundTwo().initializeTssRoundThree().initializeTssRoundFour().initializeTssRoundFive()
	}
	states := []sb{
		{"ephemeralKeyPairGenerationState", func(m *member) c12State {
			return &ephemeralKeyPairGenerationState{BaseAsyncState: state.NewBaseAsyncState(), member: m.initializeEphemeralKeysGeneration()}
		}},
		{"symmetricKeyGenerationState", func(m *member) c12State {
			return &symmetricKeyGenerationState{BaseAsyncState: state.NewBaseAsyncState(), member: m.initializeEphemeralKeysGeneration().initializeSymmetricKeyGeneration()}
		}},
		{"tssRoundOneState", func(m *member) c12State {
			return &tssRoundOneState{BaseAsyncState: state.NewBaseAsyncState(), member: r1(m)}
		}},
		{"tssRoundTwoState", func(m *member) c12State {
			return &tssRoundTwoState{BaseAsyncState: state.NewBaseAsyncState(), member: r1(m).initializeTssRoundTwo()}
		}},
		{"tssRoundThreeState", func(m *member) c12State {
			return &tssRoundThreeState{BaseAsyncState: state.NewBaseAsyncState(), member: r1(m).initializeTssRoundTwo().initializeTssRoundThree()}
		}},
		{"tssRoundFourState", func(m *member) c12State {
			return &tssRoundFourState{BaseAsyncState: state.NewBaseAsyncState(), member: r1(m).initializeTssRoundTwo().initializeTssRoundThree().initializeTssRoundFour()}
		}},
		{"tssRoundFiveState", func(m *member) c12State {
			return &tssRoundFiveState{BaseAsyncState: state.NewBaseAsyncState(), member: r5(m)}
		}},
		{"tssRoundSixState", func(m *member) c12State {
			return &tssRoundSixState{BaseAsyncState: state.NewBaseAsyncState(), member: r5(m).initializeTssRoundSix()}
		}},
		{"tssRoundSevenState", func(m *member) c12State {
			return &tssRoundSevenState{BaseAsyncState: state.NewBaseAsyncState(), member: r5(m).initializeTssRoundSix().initializeTssRoundSeven()}
		}},
		{"tssRoundEightState", func(m *member) c12State {
			return &tssRoundEightState{BaseAsyncState: state.NewBaseAsyncState(), member: r5(m).initializeTssRoundSix().initializeTssRoundSeven().initializeTssRoundEight()}
		}},
		{"tssRoundNineState", func(m *member) c12State {
			return &tssRoundNineState{BaseAsyncState: state.NewBaseAsyncState(), member: r5(m).initializeTssRoundSix().initializeTssRoundSeven().initializeTssRoundEight().initializeTssRoundNine()}
		}},
	}

	// members are built by the production constructor (a key share is needed
	// by it; its content does not enter admission)
	shareData, shareErr := tecdsatest.LoadPrivateKeyShareTestFixtures(1)
	if shareErr != nil || len(shareData) == 0 {
		r.Inconclusive(fmt.Sprintf("could not load a key share fixture: %v", shareErr))
		return
	}
	share := tecdsa.NewPrivateKeyShare(shareData[0])

	var acted, rejected, followUps int64
	grid := c12Grid(layouts, keysOf)
	verifkit.Parallel(len(states), 0, func(si int) {
		s := states[si]
		for _, mt := range msgTypes {
			rp := s.name + "/" + mt.name
			for ci, c := range grid {
				n := len(c.layout.seats)
				m := newMember(&testutils.MockLogger{}, group.MemberIndex(c.receiver), n, n-(n/2+1),
					validators[c.layout.name], c12OwnSession, nil, share)
				c12MarkStatus(m.group, c)
				st := s.fn(m)
				p := mt.fn(group.MemberIndex(c.claimed), c12Session(c.session))
				desc := c.desc(rp)
				var rerr error
				if r.Guard("tecdsa-signing:"+rp+":", desc, func() { rerr = st.Receive(&c12Msg{p, c.key.pub}) }) {
					continue
				}
				hist := st.GetAllReceivedMessages(p.Type())
				got := len(hist) == 1 && hist[0].Payload() == interface{}(p)
				legit, why := c12Expect(c)
				r.Case(desc, !legit)
				if rerr != nil {
					r.Violation("tecdsa-signing:"+rp+":receive-error", "Receive returned an error: "+rerr.Error(), desc, nil)
				}
				if got {
					atomic.AddInt64(&acted, 1)
				} else {
					atomic.AddInt64(&rejected, 1)
				}
				switch {
				case got && !legit:
					r.Violation("tecdsa-signing:"+rp+":accepted:"+why, "state stored a message that is not legitimate ("+why+")", desc, map[string]interface{}{"legitimate": legit, "acted_on": got, "reason": why})
				case !got && legit:
					r.Violation("tecdsa-signing:"+rp+":rejected-legitimate", "state ignored a fully legitimate message", desc, map[string]interface{}{"legitimate": legit, "acted_on": got})
				}
				// admission must not depend on what the same member admitted or
				// refused before: a follow-up on the same state object
				if rerr == nil && c.session == "own" && (c.status == "operating" || c.status == "siblingDQ") {
					switch {
					case legit && got:
						// the genuine holder spoke; now other keys claim the same index
						for _, k := range keysOf(c.layout) {
							if k.op >= 0 && c.layout.seats[c.claimed-1] == k.op {
								continue
							}
							p2 := mt.fn(group.MemberIndex(c.claimed), c12OwnSession)
							d2 := desc + " then-same-index-from-key=" + k.name
							if r.Guard("tecdsa-signing:"+rp+":", d2, func() { _ = st.Receive(&c12Msg{p2, k.pub}) }) {
								break
							}
							atomic.AddInt64(&followUps, 1)
							for _, h := range st.GetAllReceivedMessages(p2.Type()) {
								if h.Payload() == interface{}(p2) {
									r.Violation("tecdsa-signing:"+rp+":accepted-after-genuine:index-not-held", "after a genuine message of a member, a message claiming the same index under a key that does not hold it was stored", d2, nil)
								}
							}
						}
					case !legit && why == "index-not-held" && c.claimed >= 1 && c.claimed <= n && c.claimed != c.receiver:
						// a spoof was refused; the genuine holder must still be heard
						hk := opKeys[c.layout.seats[c.claimed-1]]
						p2 := mt.fn(group.MemberIndex(c.claimed), c12OwnSession)
						d2 := desc + " then-genuine-holder"
						if !r.Guard("tecdsa-signing:"+rp+":", d2, func() { _ = st.Receive(&c12Msg{p2, hk}) }) {
							atomic.AddInt64(&followUps, 1)
							found := false
							for _, h := range st.GetAllReceivedMessages(p2.Type()) {
								if h.Payload() == interface{}(p2) {
									found = true
								}
							}
							if !found {
								r.Violation("tecdsa-signing:"+rp+":rejected-legitimate-after-spoof", "after a refused spoof of an index, the genuine holder's message was ignored", d2, nil)
							}
						}
					}
				}
				if si == 5 && mt.name == "tssRoundFourMessage" && (ci == 7 || why == "" && c.status == "siblingDQ" && c.receiver == 2 && c.claimed == 1 || why == "own-index" && c.receiver == 3 && c.session == "own" && c.status == "operating") {
					r.Sample(map[string]interface{}{"case": desc, "legitimate": legit, "acted_on": got})
				}
			}
		}
	})

	r.Count("receive_points", int64(len(states)))
	r.Count("receive_point_x_message_type", int64(len(states)*len(msgTypes)))
	r.Count("grid_cases_per_receive_point", int64(len(grid)))
	r.Count("acted_on", acted)
	r.Count("follow_up_messages_on_same_state", followUps)
	r.Count("ignored", rejected)
}
