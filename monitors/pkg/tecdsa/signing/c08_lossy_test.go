//go:build verif

package signing

// C08 (part "lossy") — honest-threshold quorums sign although first
// transmissions of protocol messages are LOST and only retransmissions heal
// the loss.
//
// Every member of a quorum of the fixture 3-of-5 wallet runs the REAL
// signing.Execute over an in-memory broadcast channel written here (c08lChan)
// which is wired exactly as pkg/net/local/broadcast_channel.go wires the
// production retransmission primitives:
//
//	Send : marshal -> registered unmarshaler -> message with a per-channel
//	       sequence number -> retransmission.ScheduleRetransmissions(ctx, ...,
//	       ticker, retransmitFn, retransmission.WithStrategy(<strategy the
//	       code passed>)) -> first broadcast
//	Recv : buffered handler channel drained by a goroutine into
//	       retransmission.WithRetransmissionSupport(handler) (receiver-side
//	       de-duplication by transport id + sequence number)
//
// (the real pkg/net/local channel cannot be used: its ticker is a wall-clock
// ticker and its de-duplication sits inside Recv, out of reach of this
// package). Each endpoint owns a retransmission.Ticker created with
// retransmission.NewTicker(chan) - the monitor feeds the chan, one logical
// tick = one value fed to every endpoint's ticker. The loss script sits
// between broadcast and the receiver's handler channel, i.e. BEFORE the
// receiver-side de-duplication.
//
// The attempt context handed to every Execute stays alive until ALL members
// have returned (as pkg/tbtc keeps it alive, see "Requirement 1" in
// pkg/protocol/state/state.go) and ticks keep being fed.
//
// Verdicts:
//   - lossy:member-failed  - a member's Execute returned an error (or no
//     result) while the attempt context was alive;
//   - lossy:member-stuck-after-loss-healed - LOGICAL witness: no loss window
//     has been open since logical tick T0, B further ticks have been fed
//     (B = the backoff schedule's bound after which a strategy that saw at most
//     T0 ticks MUST have triggered three more retransmissions), a member is
//     still inside Execute and lacks a message (sender,type) that the sender
//     did transmit before, and the sender made NO transmission of that message
//     after T0 although the attempt context is alive. (A wall-clock grace is
//     only given for the goroutines spawned by the fed ticks to run.)
//   - the usual signature oracle: one signature at every member, valid under
//     the wallet key (crypto/ecdsa), 0<R,S<N, S<=N/2.
//
// A case cut by the wall-clock watchdog without such a witness is
// inconclusive.

import (
	"context"
	"crypto/ecdsa"
	"fmt"
	"math/big"
	"math/rand"
	"sort"
	"strings"
	"sync"
	"sync/atomic"
	"testing"
	"time"

	"github.com/keep-network/keep-core/internal/testutils"
	"github.com/keep-network/keep-core/internal/verifkit"
	"github.com/keep-network/keep-core/pkg/chain"
	"github.com/keep-network/keep-core/pkg/chain/local_v1"
	"github.com/keep-network/keep-core/pkg/internal/tecdsatest"
	"github.com/keep-network/keep-core/pkg/net"
	"github.com/keep-network/keep-core/pkg/net/retransmission"
	"github.com/keep-network/keep-core/pkg/operator"
	"github.com/keep-network/keep-core/pkg/protocol/group"
	"github.com/keep-network/keep-core/pkg/tecdsa"
)

var c08lTypes = []string{
	(&ephemeralPublicKeyMessage{}).Type(),
	(&tssRoundOneMessage{}).Type(),
	(&tssRoundTwoMessage{}).Type(),
	(&tssRoundThreeMessage{}).Type(),
	(&tssRoundFourMessage{}).Type(),
	(&tssRoundFiveMessage{}).Type(),
	(&tssRoundSixMessage{}).Type(),
	(&tssRoundSevenMessage{}).Type(),
	(&tssRoundEightMessage{}).Type(),
	(&tssRoundNineMessage{}).Type(),
}

var c08lTypeNames = []string{"ephemeral", "tss1", "tss2", "tss3", "tss4", "tss5", "tss6", "tss7", "tss8", "tss9"}

const c08lLast = 9 // index of the last protocol round's message type (tss round nine)

func c08lTypeIdx(t string) int {
	for i, x := range c08lTypes {
		if x == t {
			return i
		}
	}
	return -1
}

// c08lRetxTick is the tick count at which pkg/net/retransmission's
// BackoffStrategy triggers its k-th retransmission (k >= 1): 1, 3, 6, 11, 20,
// 37, 70, ... (delay doubles): r(k) = 2^(k-1) + k - 1.
func c08lRetxTick(k int) int64 { return (int64(1) << uint(k-1)) + int64(k) - 1 }

// c08lBound: a strategy that has seen c <= t0 ticks has triggered at most the
// retransmissions r(1..J) with J = max{k : r(k) <= t0}; once it has seen
// r(J+3) ticks it has triggered r(J+1), r(J+2), r(J+3) too. So after t0 +
// r(J+3) fed ticks every live strategy triggered >= 3 retransmissions after
// t0 (the StandardStrategy triggers on every tick).
func c08lBound(t0 int64) int64 {
	j := 1
	for c08lRetxTick(j+1) <= t0 {
		j++
	}
	return c08lRetxTick(j + 3)
}

const (
	c08lModeCount          = iota // drop the first K transmissions
	c08lModeStateEnded            // drop until the sender transmitted a message of a later type (its state that sent this one ended), + X ticks
	c08lModeSenderReturned        // last round: drop until the sender's own Execute returned, + X ticks
	c08lModeFirstFinisher         // last round: drop until the first member's Execute returned, + X ticks
	c08lModeOthersReturned        // last round: drop until every member other than the receiver returned, + X ticks
)

// c08lEventCap: an event window is closed at the latest this many ticks after
// its first drop (never drop for ever, whatever the code under test does).
const c08lEventCap = 4000

// c08lRule is one entry of the loss script plus its run-time state (guarded
// by c08lNet.mu).
type c08lRule struct {
	from, to group.MemberIndex
	typ      int
	mode     int
	k        int   // c08lModeCount: transmissions to drop
	x        int64 // event modes: further ticks after the event

	dropped   int
	startTick int64 // tick of the first drop, -1
	eventTick int64 // tick of the event, -1
	closed    bool
	closedBy  string
	closeTick int64
}

func (ru *c08lRule) String() string {
	p := fmt.Sprintf("m%d>m%d:%s:", ru.from, ru.to, c08lTypeNames[ru.typ])
	switch ru.mode {
	case c08lModeCount:
		return p + fmt.Sprintf("first-%d", ru.k)
	case c08lModeStateEnded:
		return p + fmt.Sprintf("until-sender-sent-later-type+%dt", ru.x)
	case c08lModeSenderReturned:
		return p + fmt.Sprintf("until-sender-returned+%dt", ru.x)
	case c08lModeFirstFinisher:
		return p + fmt.Sprintf("until-first-finisher+%dt", ru.x)
	default:
		return p + fmt.Sprintf("until-all-but-receiver-returned+%dt", ru.x)
	}
}

type c08lSendStat struct {
	tx            int // transmissions (first + retransmissions)
	txAfterReturn int // transmissions made after the sender's own Execute returned
	firstTick     int64
	lastTick      int64
}

type c08lLinkStat struct {
	attempts     int // transmissions that met a listening receiver
	missed       int // transmissions while the receiver was not (yet / any more) listening
	dropped      int // transmissions dropped by the script
	overflow     int // handler channel full (as pkg/net/local: dropped)
	accepted     bool
	acceptedTick int64
	healed       bool // accepted after >= 1 scripted drop
	healedAfterSenderReturned,
	healedAfterFirstFinisher bool
}

type c08lID string

func (i c08lID) String() string { return string(i) }

type c08lMsg struct {
	id      net.TransportIdentifier
	payload interface{}
	typ     string
	pub     []byte
	seq     uint64
	from    group.MemberIndex
	typIdx  int
}

func (m *c08lMsg) TransportSenderID() net.TransportIdentifier { return m.id }
func (m *c08lMsg) Payload() interface{}                       { return m.payload }
func (m *c08lMsg) Type() string                               { return m.typ }
func (m *c08lMsg) SenderPublicKey() []byte                    { return m.pub }
func (m *c08lMsg) Seqno() uint64                              { return m.seq }

type c08lHandler struct {
	ctx context.Context
	ch  chan net.Message
}

// c08lNet is the shared medium of one case.
type c08lNet struct {
	mu       sync.Mutex
	tick     int64
	order    []*c08lChan
	eps      map[group.MemberIndex]*c08lChan
	rules    []*c08lRule
	sent     map[[2]int]*c08lSendStat
	link     map[[3]int]*c08lLinkStat
	returned map[group.MemberIndex]int64
	first    int64 // tick at which the first member returned, -1
	t0       int64 // no loss window has been open since this tick; -1 while one is open
	strategy map[string]int
}

func (n *c08lNet) sendStat(s group.MemberIndex, typ int) *c08lSendStat {
	k := [2]int{int(s), typ}
	st := n.sent[k]
	if st == nil {
		st = &c08lSendStat{firstTick: -1, lastTick: -1}
		n.sent[k] = st
	}
	return st
}

func (n *c08lNet) linkStat(s, r group.MemberIndex, typ int) *c08lLinkStat {
	k := [3]int{int(s), int(r), typ}
	st := n.link[k]
	if st == nil {
		st = &c08lLinkStat{acceptedTick: -1}
		n.link[k] = st
	}
	return st
}

// refreshLocked closes the windows whose end has come and maintains t0.
func (n *c08lNet) refreshLocked() {
	active := false
	for _, ru := range n.rules {
		if ru.closed {
			continue
		}
		cl := ""
		if ru.mode == c08lModeCount {
			switch {
			case ru.dropped >= ru.k:
				cl = "count"
			case ru.startTick >= 0 && n.tick >= ru.startTick+c08lRetxTick(ru.k+3):
				cl = "tick-cap"
			}
		} else {
			switch {
			case ru.eventTick >= 0 && n.tick >= ru.eventTick+ru.x:
				cl = "event"
			case ru.startTick >= 0 && n.tick >= ru.startTick+c08lEventCap:
				cl = "tick-cap"
			}
		}
		if cl != "" {
			ru.closed, ru.closedBy, ru.closeTick = true, cl, n.tick
			continue
		}
		if ru.startTick >= 0 {
			active = true
		}
	}
	if active {
		n.t0 = -1
	} else if n.t0 < 0 {
		n.t0 = n.tick
	}
}

// feedTick feeds one logical tick to the ticker of every endpoint.
func (n *c08lNet) feedTick() {
	n.mu.Lock()
	n.tick++
	t := n.tick
	n.refreshLocked()
	n.mu.Unlock()
	for _, ep := range n.order {
		ep.ticks <- uint64(t)
	}
}

func (n *c08lNet) markReturned(m group.MemberIndex) {
	n.mu.Lock()
	defer n.mu.Unlock()
	n.returned[m] = n.tick
	if n.first < 0 {
		n.first = n.tick
	}
	for _, ru := range n.rules {
		if ru.eventTick >= 0 {
			continue
		}
		switch ru.mode {
		case c08lModeSenderReturned:
			if ru.from == m {
				ru.eventTick = n.tick
			}
		case c08lModeFirstFinisher:
			ru.eventTick = n.tick
		case c08lModeOthersReturned:
			all := true
			for _, ep := range n.order {
				if _, ok := n.returned[ep.id]; !ok && ep.id != ru.to {
					all = false
				}
			}
			if all {
				ru.eventTick = n.tick
			}
		}
	}
	n.refreshLocked()
}

// broadcast is one transmission (the first or a retransmission) of msg.
func (n *c08lNet) broadcast(msg *c08lMsg) error {
	var targets []*c08lHandler
	n.mu.Lock()
	ss := n.sendStat(msg.from, msg.typIdx)
	ss.tx++
	if ss.firstTick < 0 {
		ss.firstTick = n.tick
		// the sender's state that sent every earlier type has ended
		for _, ru := range n.rules {
			if ru.mode == c08lModeStateEnded && ru.from == msg.from && ru.typ < msg.typIdx && ru.eventTick < 0 {
				ru.eventTick = n.tick
			}
		}
		n.refreshLocked()
	}
	ss.lastTick = n.tick
	if _, ok := n.returned[msg.from]; ok {
		ss.txAfterReturn++
	}
	for _, ep := range n.order {
		ls := n.linkStat(msg.from, ep.id, msg.typIdx)
		if len(ep.handlers) == 0 {
			ls.missed++
			continue
		}
		ls.attempts++
		drop := false
		for _, ru := range n.rules {
			if ru.closed || ru.from != msg.from || ru.to != ep.id || ru.typ != msg.typIdx {
				continue
			}
			drop = true
			ru.dropped++
			if ru.startTick < 0 {
				ru.startTick = n.tick
			}
		}
		if drop {
			ls.dropped++
			n.refreshLocked()
			continue
		}
		targets = append(targets, ep.handlers...)
		// overflow accounting needs the link; done below without the lock
	}
	n.mu.Unlock()
	for _, h := range targets {
		select {
		case h.ch <- msg:
		default:
			// as pkg/net/local: "handler too slow, dropping message"
			n.mu.Lock()
			n.linkStat(msg.from, 0, msg.typIdx).overflow++
			n.mu.Unlock()
		}
	}
	return nil
}

// accepted is called by the receiver-side de-duplication's delegate: the
// first copy of msg that reached receiver r.
func (n *c08lNet) accepted(r group.MemberIndex, m net.Message) {
	msg, ok := m.(*c08lMsg)
	if !ok {
		return
	}
	n.mu.Lock()
	defer n.mu.Unlock()
	ls := n.linkStat(msg.from, r, msg.typIdx)
	if ls.accepted {
		return
	}
	ls.accepted, ls.acceptedTick = true, n.tick
	if ls.dropped > 0 {
		ls.healed = true
		_, ls.healedAfterSenderReturned = n.returned[msg.from]
		ls.healedAfterFirstFinisher = n.first >= 0
	}
}

// c08lStuck is the witness of the stuck verdict.
type c08lStuck struct {
	Member          group.MemberIndex `json:"stuck_member"`
	Sender          group.MemberIndex `json:"sender"`
	Type            string            `json:"message_type"`
	Transmissions   int               `json:"transmissions_total"`
	AfterReturn     int               `json:"transmissions_after_sender_returned"`
	LastTxTick      int64             `json:"last_transmission_tick"`
	SenderReturned  int64             `json:"sender_returned_tick"`
	T0              int64             `json:"no_window_open_since_tick"`
	Tick            int64             `json:"tick_now"`
	Bound           int64             `json:"ticks_after_which_3_retransmissions_are_due"`
	DroppedOnLink   int               `json:"dropped_on_link"`
	ReturnedMembers []string          `json:"returned_members"`
}

// stuckWitness: see the file comment. nil when there is none.
func (n *c08lNet) stuckWitness() *c08lStuck {
	n.mu.Lock()
	defer n.mu.Unlock()
	if n.t0 < 0 || n.tick-n.t0 < c08lBound(n.t0) {
		return nil
	}
	for _, rcv := range n.order {
		if _, done := n.returned[rcv.id]; done {
			continue
		}
		for _, snd := range n.order {
			if snd.id == rcv.id {
				continue
			}
			for typ := range c08lTypes {
				ss := n.sent[[2]int{int(snd.id), typ}]
				if ss == nil || ss.tx == 0 || ss.lastTick > n.t0 {
					continue
				}
				ls := n.linkStat(snd.id, rcv.id, typ)
				if ls.accepted {
					continue
				}
				w := &c08lStuck{Member: rcv.id, Sender: snd.id, Type: c08lTypeNames[typ],
					Transmissions: ss.tx, AfterReturn: ss.txAfterReturn, LastTxTick: ss.lastTick,
					SenderReturned: -1, T0: n.t0, Tick: n.tick, Bound: c08lBound(n.t0), DroppedOnLink: ls.dropped}
				if t, ok := n.returned[snd.id]; ok {
					w.SenderReturned = t
				}
				for _, ep := range n.order {
					if t, ok := n.returned[ep.id]; ok {
						w.ReturnedMembers = append(w.ReturnedMembers, fmt.Sprintf("m%d@%d", ep.id, t))
					}
				}
				return w
			}
		}
	}
	return nil
}

// c08lChan is one member's endpoint; it implements net.BroadcastChannel.
type c08lChan struct {
	nw           *c08lNet
	name         string
	id           group.MemberIndex
	tid          c08lID
	pub          []byte
	seq          uint64
	umu          sync.Mutex
	unmarshalers map[string]func() net.TaggedUnmarshaler
	ticks        chan uint64
	ticker       *retransmission.Ticker
	handlers     []*c08lHandler // guarded by nw.mu
}

func (c *c08lChan) Name() string { return c.name }

func (c *c08lChan) Send(ctx context.Context, message net.TaggedMarshaler, rs ...net.RetransmissionStrategy) error {
	bytes, err := message.Marshal()
	if err != nil {
		return err
	}
	c.umu.Lock()
	unmarshaler, found := c.unmarshalers[message.Type()]
	c.umu.Unlock()
	if !found {
		return fmt.Errorf("couldn't find unmarshaler for type %s", message.Type())
	}
	unmarshaled := unmarshaler()
	if err := unmarshaled.Unmarshal(bytes); err != nil {
		return err
	}
	msg := &c08lMsg{
		id: c.tid, payload: unmarshaled, typ: message.Type(), pub: c.pub,
		seq: atomic.AddUint64(&c.seq, 1), from: c.id, typIdx: c08lTypeIdx(message.Type()),
	}
	if msg.typIdx < 0 {
		return fmt.Errorf("c08l: unknown message type %s", message.Type())
	}
	var strategy net.RetransmissionStrategy
	switch len(rs) {
	case 1:
		strategy = rs[0]
	default:
		strategy = net.StandardRetransmissionStrategy
	}
	c.nw.mu.Lock()
	if strategy == net.BackoffRetransmissionStrategy {
		c.nw.strategy["backoff"]++
	} else {
		c.nw.strategy["standard"]++
	}
	c.nw.mu.Unlock()
	retransmission.ScheduleRetransmissions(
		ctx,
		&testutils.MockLogger{},
		c.ticker,
		func() error { return c.nw.broadcast(msg) },
		retransmission.WithStrategy(strategy),
	)
	return c.nw.broadcast(msg)
}

func (c *c08lChan) Recv(ctx context.Context, handler func(m net.Message)) {
	h := &c08lHandler{ctx: ctx, ch: make(chan net.Message, 256)}
	c.nw.mu.Lock()
	c.handlers = append(c.handlers, h)
	c.nw.mu.Unlock()
	handleWithRetransmissions := retransmission.WithRetransmissionSupport(func(m net.Message) {
		c.nw.accepted(c.id, m)
		handler(m)
	})
	go func() {
		for {
			select {
			case <-ctx.Done():
				c.nw.mu.Lock()
				for i, x := range c.handlers {
					if x == h {
						c.handlers = append(c.handlers[:i:i], c.handlers[i+1:]...)
						break
					}
				}
				c.nw.mu.Unlock()
				return
			case m := <-h.ch:
				if h.ctx.Err() != nil {
					continue
				}
				handleWithRetransmissions(m)
			}
		}
	}()
}

func (c *c08lChan) SetUnmarshaler(u func() net.TaggedUnmarshaler) {
	t := u().Type()
	c.umu.Lock()
	c.unmarshalers[t] = u
	c.umu.Unlock()
}

func (c *c08lChan) SetFilter(net.BroadcastChannelFilter) error { return nil }

type c08lFixture struct {
	shares   []*tecdsa.PrivateKeyShare
	pub      *ecdsa.PublicKey
	signing  chain.Signing
	pubs     []*operator.PublicKey
	addrs    []chain.Address
	pubBytes [][]byte
}

func c08lNewFixture() (*c08lFixture, error) {
	data, err := tecdsatest.LoadPrivateKeyShareTestFixtures(5)
	if err != nil {
		return nil, err
	}
	f := &c08lFixture{signing: local_v1.Connect(5, 5).Signing()}
	for i := range data {
		f.shares = append(f.shares, tecdsa.NewPrivateKeyShare(data[i]))
		_, pub, err := operator.GenerateKeyPair(local_v1.DefaultCurve)
		if err != nil {
			return nil, err
		}
		a, err := f.signing.PublicKeyToAddress(pub)
		if err != nil {
			return nil, err
		}
		f.pubs = append(f.pubs, pub)
		f.addrs = append(f.addrs, a)
		f.pubBytes = append(f.pubBytes, operator.MarshalUncompressed(pub))
	}
	f.pub = f.shares[0].PublicKey()
	return f, nil
}

func c08lSubsets(k, size int) [][]group.MemberIndex {
	var out [][]group.MemberIndex
	var rec func(start int, cur []group.MemberIndex)
	rec = func(start int, cur []group.MemberIndex) {
		if len(cur) == size {
			out = append(out, append([]group.MemberIndex(nil), cur...))
			return
		}
		for i := start; i <= k; i++ {
			rec(i+1, append(cur, group.MemberIndex(i)))
		}
	}
	rec(1, nil)
	return out
}

// c08lCase is one quorum x message x loss script.
type c08lCase struct {
	idx     int
	quorum  []group.MemberIndex
	msg     *big.Int
	profile string
	rules   []*c08lRule
	desc    string
}

var c08lProfiles = []string{
	"last-until-others-returned", "last-until-sender-returned", "last-until-first-finisher",
	"state-ended", "count", "every-round", "mixed",
}

func c08lX(rng *rand.Rand) int64 {
	if rng.Intn(4) == 0 {
		return int64(8 + rng.Intn(33)) // "a few more ticks", occasionally more
	}
	return int64(rng.Intn(7))
}

// c08lScript generates the loss script. Event windows (whose end depends on
// the protocol's progress) all have the SAME receiver (the victim) and their
// events depend on the senders only, which never wait for a message the
// victim could not send yet - so no window can wait for itself; count windows
// end after K transmissions or a tick cap and may sit on any link.
func c08lScript(rng *rand.Rand, idx int, quorum []group.MemberIndex) (string, []*c08lRule) {
	profile := c08lProfiles[idx%len(c08lProfiles)]
	q := len(quorum)
	vi := rng.Intn(q)
	victim := quorum[vi]
	var others []group.MemberIndex
	for _, m := range quorum {
		if m != victim {
			others = append(others, m)
		}
	}
	rng.Shuffle(len(others), func(i, j int) { others[i], others[j] = others[j], others[i] })
	var rules []*c08lRule
	add := func(from, to group.MemberIndex, typ, mode, k int, x int64) {
		if mode == c08lModeStateEnded && typ == c08lLast {
			mode = c08lModeSenderReturned
		}
		for _, ru := range rules {
			if ru.from == from && ru.to == to && ru.typ == typ {
				return
			}
		}
		rules = append(rules, &c08lRule{from: from, to: to, typ: typ, mode: mode, k: k, x: x, startTick: -1, eventTick: -1})
	}
	someSenders := func() []group.MemberIndex { return others[:1+rng.Intn(len(others))] }
	countRules := func(n int, withLast bool) {
		for i := 0; i < n; i++ {
			a := rng.Intn(q)
			b := (a + 1 + rng.Intn(q-1)) % q
			typ := rng.Intn(len(c08lTypes))
			if withLast && i == 0 {
				typ = c08lLast
			}
			add(quorum[a], quorum[b], typ, c08lModeCount, 1+rng.Intn(5), 0)
		}
	}
	switch profile {
	case "last-until-others-returned":
		for _, s := range someSenders() {
			add(s, victim, c08lLast, c08lModeOthersReturned, 0, c08lX(rng))
		}
	case "last-until-sender-returned":
		for _, s := range someSenders() {
			add(s, victim, c08lLast, c08lModeSenderReturned, 0, c08lX(rng))
		}
	case "last-until-first-finisher":
		for _, s := range someSenders() {
			add(s, victim, c08lLast, c08lModeFirstFinisher, 0, c08lX(rng))
		}
	case "state-ended":
		for n := 1 + rng.Intn(3); n > 0; n-- {
			typ := rng.Intn(c08lLast) // ephemeral .. tss8
			for _, s := range someSenders() {
				add(s, victim, typ, c08lModeStateEnded, 0, c08lX(rng))
			}
		}
	case "count":
		countRules(2+rng.Intn(4), true)
	case "every-round":
		s := others[0]
		for typ := range c08lTypes {
			add(s, victim, typ, c08lModeStateEnded, 0, int64(rng.Intn(4)))
		}
	default: // mixed
		add(others[0], victim, rng.Intn(c08lLast), c08lModeStateEnded, 0, c08lX(rng))
		add(others[rng.Intn(len(others))], victim, c08lLast, c08lModeOthersReturned, 0, c08lX(rng))
		countRules(1+rng.Intn(3), false)
	}
	return profile, rules
}

func c08lMakeCase(rng *rand.Rand, idx int, quorum []group.MemberIndex) *c08lCase {
	b := make([]byte, 32)
	rng.Read(b)
	msg := new(big.Int).SetBytes(b)
	if n := tecdsa.Curve.Params().N; msg.Cmp(n) >= 0 {
		msg.Sub(msg, n)
	}
	c := &c08lCase{idx: idx, quorum: quorum, msg: msg}
	c.profile, c.rules = c08lScript(rng, idx, quorum)
	var rs []string
	for _, ru := range c.rules {
		rs = append(rs, ru.String())
	}
	c.desc = fmt.Sprintf("fixture 3-of-5 quorum=%v msg=%s profile=%s loss=[%s]", quorum, msg.Text(16), c.profile, strings.Join(rs, " "))
	return c
}

type c08lOut struct {
	id        group.MemberIndex
	res       *Result
	err       error
	ownReturn bool // returned before the monitor cancelled the attempt context
}

const (
	c08lPace      = 2 * time.Millisecond   // pacing of logical ticks (not part of any verdict)
	c08lFastPace  = 200 * time.Microsecond // pacing while the tick bound of the stuck decision is being fed
	c08lSuspicion = 1000                   // ticks after t0 after which the bound is fed at the fast pace
	c08lGrace     = 12 * time.Second       // for the goroutines spawned by already fed ticks to run
	c08lWatchdog  = 300 * time.Second
)

func c08lRun(r *verifkit.Run, f *c08lFixture, c *c08lCase) {
	logger := &testutils.MockLogger{}
	const groupSize, dishonest = 5, 2
	desc := c.desc
	session := fmt.Sprintf("%v-%v", c.msg.Text(16), c.idx)
	in := func(x group.MemberIndex) bool {
		for _, v := range c.quorum {
			if v == x {
				return true
			}
		}
		return false
	}
	var excluded []group.MemberIndex
	for i := 1; i <= groupSize; i++ {
		if !in(group.MemberIndex(i)) {
			excluded = append(excluded, group.MemberIndex(i))
		}
	}
	mv := group.NewMembershipValidator(logger, f.addrs, f.signing)

	nw := &c08lNet{
		eps: map[group.MemberIndex]*c08lChan{}, rules: c.rules,
		sent: map[[2]int]*c08lSendStat{}, link: map[[3]int]*c08lLinkStat{},
		returned: map[group.MemberIndex]int64{}, first: -1, t0: 0,
		strategy: map[string]int{},
	}
	for _, id := range c.quorum {
		ticks := make(chan uint64)
		ep := &c08lChan{
			nw: nw, name: "c08l-" + session, id: id,
			tid: c08lID(fmt.Sprintf("c08l-%d-member-%d", c.idx, id)), pub: f.pubBytes[id-1],
			unmarshalers: map[string]func() net.TaggedUnmarshaler{},
			ticks:        ticks, ticker: retransmission.NewTicker(ticks),
		}
		RegisterUnmarshallers(ep)
		nw.eps[id] = ep
		nw.order = append(nw.order, ep)
	}

	// the attempt context: alive until ALL members returned
	ctx, cancel := context.WithCancel(context.Background())
	var cancelled int32
	stop := func() {
		atomic.StoreInt32(&cancelled, 1)
		cancel()
	}
	defer stop()
	var abortOnce sync.Once
	abort := func() { abortOnce.Do(func() { time.AfterFunc(2*time.Second, stop) }) }

	outs := make([]*c08lOut, len(c.quorum))
	var wg sync.WaitGroup
	for qi, id := range c.quorum {
		qi, id := qi, id
		out := &c08lOut{id: id}
		outs[qi] = out
		wg.Add(1)
		go func() {
			defer wg.Done()
			r.Guard("lossy:", desc, func() {
				out.res, out.err = Execute(
					ctx, logger, c.msg, session, id, f.shares[id-1],
					groupSize, dishonest,
					append([]group.MemberIndex(nil), excluded...),
					nw.eps[id], mv,
				)
			})
			out.ownReturn = atomic.LoadInt32(&cancelled) == 0
			nw.markReturned(id)
			if out.ownReturn && (out.err != nil || out.res == nil || out.res.Signature == nil) {
				abort()
			}
		}()
	}
	done := make(chan struct{})
	go func() { wg.Wait(); close(done) }()

	start := time.Now()
	expired := false
	var stuck *c08lStuck
	var boundReachedAt time.Time
	boundT0 := int64(-2)
	timer := time.NewTimer(c08lPace)
	defer timer.Stop()
loop:
	for {
		select {
		case <-done:
			break loop
		default:
		}
		nw.feedTick()
		nw.mu.Lock()
		t0, tick := nw.t0, nw.tick
		nw.mu.Unlock()
		pace := c08lPace
		if t0 >= 0 && atomic.LoadInt32(&cancelled) == 0 {
			since, bound := tick-t0, c08lBound(t0)
			if t0 != boundT0 {
				boundT0, boundReachedAt = t0, time.Time{}
			}
			switch {
			case since >= bound:
				if boundReachedAt.IsZero() {
					boundReachedAt = time.Now()
				} else if stuck == nil && time.Since(boundReachedAt) > c08lGrace {
					if w := nw.stuckWitness(); w != nil {
						stuck = w
						stop()
					}
				}
			case since >= c08lSuspicion:
				pace = c08lFastPace
			}
		}
		if !expired && time.Since(start) > c08lWatchdog {
			expired = true
			stop()
		}
		timer.Reset(pace)
		select {
		case <-done:
			break loop
		case <-timer.C:
		}
	}
	// one more tick lets the tickers forget the handlers of the dead context
	stop()
	nw.feedTick()

	// ---- evidence
	nw.mu.Lock()
	var dropped, retx, retxAfterReturn, healed, healedAfterReturn, missed, overflow int64
	lastHealedAfterFirst, lastHealedAfterSender := false, false
	for _, ss := range nw.sent {
		retx += int64(ss.tx - 1)
		retxAfterReturn += int64(ss.txAfterReturn)
	}
	for k, ls := range nw.link {
		dropped += int64(ls.dropped)
		missed += int64(ls.missed)
		overflow += int64(ls.overflow)
		if ls.healed {
			healed++
			if ls.healedAfterSenderReturned {
				healedAfterReturn++
			}
			if k[2] == c08lLast && ls.healedAfterFirstFinisher {
				lastHealedAfterFirst = true
			}
			if k[2] == c08lLast && ls.healedAfterSenderReturned {
				lastHealedAfterSender = true
			}
		}
	}
	ticksFed := nw.tick
	var ruleReport []string
	for _, ru := range nw.rules {
		ruleReport = append(ruleReport, fmt.Sprintf("%s dropped=%d closed-by=%s@%d", ru, ru.dropped, ru.closedBy, ru.closeTick))
	}
	txReport := map[string]string{}
	for k, ss := range nw.sent {
		txReport[fmt.Sprintf("m%d:%s", k[0], c08lTypeNames[k[1]])] =
			fmt.Sprintf("tx=%d before-sender-returned=%d after=%d", ss.tx, ss.tx-ss.txAfterReturn, ss.txAfterReturn)
	}
	standard, backoff := nw.strategy["standard"], nw.strategy["backoff"]
	nw.mu.Unlock()

	r.Case(desc, healed > 0)
	r.Count("transmissions_dropped", dropped)
	r.Count("retransmissions_observed", retx)
	r.Count("retransmissions_after_sender_returned", retxAfterReturn)
	r.Count("links_healed_by_accepted_retransmission", healed)
	r.Count("links_healed_after_sender_returned", healedAfterReturn)
	r.Count("transmissions_to_not_listening_receiver", missed)
	r.Count("handler_overflows", overflow)
	r.Count("logical_ticks_fed", ticksFed)
	r.Count("sends_backoff_strategy", int64(backoff))
	r.Count("sends_standard_strategy", int64(standard))
	if lastHealedAfterFirst {
		r.Count("cases_last_round_healed_after_first_finisher", 1)
	}
	if lastHealedAfterSender {
		r.Count("cases_last_round_healed_after_sender_returned", 1)
	}

	// ---- verdicts
	if stuck != nil {
		r.Violation("lossy:member-stuck-after-loss-healed",
			fmt.Sprintf("member %d is still inside signing.Execute and never received the %s message of member %d: no loss window has been open since tick %d, %d further ticks were fed (3 retransmissions of every message of a live context are due after %d), the attempt context is alive, and member %d made no transmission of that message after tick %d (last at tick %d, its own Execute returned at tick %d)",
				stuck.Member, stuck.Type, stuck.Sender, stuck.T0, stuck.Tick-stuck.T0, stuck.Bound, stuck.Sender, stuck.T0, stuck.LastTxTick, stuck.SenderReturned),
			desc, map[string]interface{}{"witness": stuck, "rules": ruleReport, "transmissions": txReport})
		return
	}
	var failed []string
	ownFailure := false
	for _, o := range outs {
		if o.err != nil || o.res == nil || o.res.Signature == nil {
			failed = append(failed, fmt.Sprintf("member %d: %v", o.id, o.err))
			if o.ownReturn {
				ownFailure = true
			}
		}
	}
	sort.Strings(failed)
	if len(failed) > 0 {
		switch {
		case ownFailure:
			r.Violation("lossy:member-failed",
				"signing.Execute of an honest quorum member returned an error / no signature while the attempt context was alive: "+strings.Join(failed, "; "),
				desc, map[string]interface{}{"members": failed, "rules": ruleReport, "transmissions": txReport})
		default:
			r.Inconclusive("watchdog expired before the signing finished (no stuck witness): " + desc + " | " + strings.Join(failed, "; ") + " | " + strings.Join(ruleReport, "; "))
		}
		return
	}
	r.Count("signings_completed", 1)
	sig := outs[0].res.Signature
	n := tecdsa.Curve.Params().N
	for _, o := range outs {
		s := o.res.Signature
		if !sig.Equals(s) {
			r.Violation("sig:members-differ", fmt.Sprintf("members %d and %d hold different signatures", outs[0].id, o.id), desc, []string{sig.String(), s.String()})
		}
		if s.R == nil || s.S == nil || s.R.Sign() <= 0 || s.S.Sign() <= 0 || s.R.Cmp(n) >= 0 || s.S.Cmp(n) >= 0 {
			r.Violation("sig:range", "R or S outside [1,N-1]", desc, s.String())
			continue
		}
		if !ecdsa.Verify(f.pub, c.msg.Bytes(), s.R, s.S) {
			r.Violation("sig:invalid", fmt.Sprintf("member %d: the signature does not verify under the wallet key", o.id), desc, s.String())
		}
		if s.S.Cmp(new(big.Int).Rsh(n, 1)) > 0 {
			r.Violation("sig:high-s", "S is above N/2", desc, s.String())
		}
	}
	if c.idx < 4 {
		r.Sample(map[string]interface{}{"case": desc, "rules": ruleReport, "ticks_fed": ticksFed,
			"dropped": dropped, "links_healed": healed, "retransmissions": retx,
			"retransmissions_after_sender_returned": retxAfterReturn,
			"last_round_healed_after_first_finisher": lastHealedAfterFirst})
	}
}

func TestVerif_C08_LossyDelivery(t *testing.T) {
	r := verifkit.Start(t, "C08", "lossy")
	defer r.Finish()
	r.SetRule("fixture 3-of-5 wallet, PRNG-ordered quorums (size 3; thorough: every fifth case size 4), random message, real signing.Execute per member over a lossy in-memory channel wired with the production retransmission primitives (ScheduleRetransmissions with the strategy the code passes, WithRetransmissionSupport, a Ticker fed one logical tick at a time by the monitor); attempt context alive until all members returned. Loss script per case (7 profiles in rotation, in the case string): for (sender>receiver:type) triples the transmissions are dropped before the receiver's de-duplication - `first-K`: the first K (1..5) transmissions that met a listening receiver (window also ends r(K+3) ticks after the first drop); `until-sender-sent-later-type+Xt` (any round but the last): until the sender transmitted a message of a later round, i.e. its state that sent the message ended, and X more ticks were fed; last round (tss round nine): `until-sender-returned+Xt`, `until-first-finisher+Xt`, `until-all-but-receiver-returned+Xt` (Execute returns are the events); every event window also ends 4000 ticks after its first drop; all event windows of a case share one receiver. Allowed: any delay of completion; not allowed: an Execute error while the context is alive, or (stuck) a member still in Execute lacking a message whose sender made no transmission of it during B ticks after the last window closed (B = backoff bound for 3 due retransmissions) plus a wall-clock grace. non-trivial = the run dropped at least one transmission on a link whose message the receiver later accepted from a retransmission")
	r.Assume("tss-lib; crypto/ecdsa; the in-memory channel mirrors pkg/net/local's wiring of pkg/net/retransmission (the real local channel's wall-clock ticker and in-Recv de-duplication cannot be scripted from outside); goroutines spawned by a fed tick run within the 12 s grace")
	r.SetExhaustive(false)
	f, err := c08lNewFixture()
	if err != nil {
		r.Inconclusive("fixtures: " + err.Error())
		return
	}
	n := r.N(21, 140)
	subs3 := c08lSubsets(5, 3)
	subs4 := c08lSubsets(5, 4)
	rng := r.Rand("quorums")
	rng.Shuffle(len(subs3), func(i, j int) { subs3[i], subs3[j] = subs3[j], subs3[i] })
	rng.Shuffle(len(subs4), func(i, j int) { subs4[i], subs4[j] = subs4[j], subs4[i] })
	cases := make([]*c08lCase, n)
	for i := range cases {
		q := subs3[i%len(subs3)]
		if !r.Quick() && i%5 == 4 {
			q = subs4[(i/5)%len(subs4)]
		}
		cases[i] = c08lMakeCase(r.SubRand("case", i), i, q)
	}
	if rp := r.Replay(); rp != "" {
		var only []*c08lCase
		for _, c := range cases {
			if c.desc == rp {
				only = append(only, c)
			}
		}
		if len(only) > 0 {
			cases = only
		}
	}
	verifkit.Parallel(len(cases), 7, func(i int) {
		c08lRun(r, f, cases[i])
	})
}
