//go:build verif

package signing

import (
	"math/rand"
	"testing"

	"github.com/btcsuite/btcd/btcec"

	"github.com/keep-network/keep-core/internal/verifkit"
	"github.com/keep-network/keep-core/pkg/crypto/ephemeral"
	"github.com/keep-network/keep-core/pkg/protocol/group"
)

func c19PeersPayload(rng *rand.Rand, i int) map[group.MemberIndex][]byte {
	m := map[group.MemberIndex][]byte{}
	for n := c19Size(rng, i, 5); n > 0; n-- {
		m[c19Index(rng)] = c19Bytes(rng, 0, 96)
	}
	return m
}

func TestVerif_C19_Signing(t *testing.T) {
	r := verifkit.Start(t, "C19", "signing")
	defer r.Finish()
	const f = "marshaling.go"
	c19Run(r, "signing", []c19Decoder{
		{
			Type: "ephemeralPublicKeyMessage", File: f,
			New: func() c19Codec { return &ephemeralPublicKeyMessage{} },
			Gen: func(rng *rand.Rand, i int) c19Codec {
				m := map[group.MemberIndex]*ephemeral.PublicKey{}
				for n := c19Size(rng, i, 5); n > 0; n-- {
					_, pub := btcec.PrivKeyFromBytes(btcec.S256(), c19Bytes(rng, 32, 32))
					m[c19Index(rng)] = (*ephemeral.PublicKey)(pub)
				}
				return &ephemeralPublicKeyMessage{senderID: c19Index(rng), ephemeralPublicKeys: m, sessionID: c19String(rng)}
			},
			IndexPaths: []string{"1", "2*.1"},
		},
		{
			Type: "tssRoundOneMessage", File: f,
			New: func() c19Codec { return &tssRoundOneMessage{} },
			Gen: func(rng *rand.Rand, i int) c19Codec {
				return &tssRoundOneMessage{senderID: c19Index(rng), broadcastPayload: c19Bytes(rng, 0, 200), peersPayload: c19PeersPayload(rng, i), sessionID: c19String(rng)}
			},
			IndexPaths: []string{"1", "3*.1"},
		},
		{
			Type: "tssRoundTwoMessage", File: f,
			New: func() c19Codec { return &tssRoundTwoMessage{} },
			Gen: func(rng *rand.Rand, i int) c19Codec {
				return &tssRoundTwoMessage{senderID: c19Index(rng), peersPayload: c19PeersPayload(rng, i), sessionID: c19String(rng)}
			},
			IndexPaths: []string{"1", "2*.1"},
		},
		{
			Type: "tssRoundThreeMessage", File: f,
			New: func() c19Codec { return &tssRoundThreeMessage{} },
			Gen: func(rng *rand.Rand, i int) c19Codec {
				return &tssRoundThreeMessage{senderID: c19Index(rng), broadcastPayload: c19Bytes(rng, 0, 200), sessionID: c19String(rng)}
			},
			IndexPaths: []string{"1"},
		},
		{
			Type: "tssRoundFourMessage", File: f,
			New: func() c19Codec { return &tssRoundFourMessage{} },
			Gen: func(rng *rand.Rand, i int) c19Codec {
				return &tssRoundFourMessage{senderID: c19Index(rng), broadcastPayload: c19Bytes(rng, 0, 200), sessionID: c19String(rng)}
			},
			IndexPaths: []string{"1"},
		},
		{
			Type: "tssRoundFiveMessage", File: f,
			New: func() c19Codec { return &tssRoundFiveMessage{} },
			Gen: func(rng *rand.Rand, i int) c19Codec {
				return &tssRoundFiveMessage{senderID: c19Index(rng), broadcastPayload: c19Bytes(rng, 0, 200), sessionID: c19String(rng)}
			},
			IndexPaths: []string{"1"},
		},
		{
			Type: "tssRoundSixMessage", File: f,
			New: func() c19Codec { return &tssRoundSixMessage{} },
			Gen: func(rng *rand.Rand, i int) c19Codec {
				return &tssRoundSixMessage{senderID: c19Index(rng), broadcastPayload: c19Bytes(rng, 0, 200), sessionID: c19String(rng)}
			},
			IndexPaths: []string{"1"},
		},
		{
			Type: "tssRoundSevenMessage", File: f,
			New: func() c19Codec { return &tssRoundSevenMessage{} },
			Gen: func(rng *rand.Rand, i int) c19Codec {
				return &tssRoundSevenMessage{senderID: c19Index(rng), broadcastPayload: c19Bytes(rng, 0, 200), sessionID: c19String(rng)}
			},
			IndexPaths: []string{"1"},
		},
		{
			Type: "tssRoundEightMessage", File: f,
			New: func() c19Codec { return &tssRoundEightMessage{} },
			Gen: func(rng *rand.Rand, i int) c19Codec {
				return &tssRoundEightMessage{senderID: c19Index(rng), broadcastPayload: c19Bytes(rng, 0, 200), sessionID: c19String(rng)}
			},
			IndexPaths: []string{"1"},
		},
		{
			Type: "tssRoundNineMessage", File: f,
			New: func() c19Codec { return &tssRoundNineMessage{} },
			Gen: func(rng *rand.Rand, i int) c19Codec {
				return &tssRoundNineMessage{senderID: c19Index(rng), broadcastPayload: c19Bytes(rng, 0, 200), sessionID: c19String(rng)}
			},
			IndexPaths: []string{"1"},
		},
	})
}
