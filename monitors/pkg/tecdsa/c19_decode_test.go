//go:build verif

package tecdsa

import (
	"math/big"
	"math/rand"
	"testing"

	"github.com/bnb-chain/tss-lib/crypto"
	"github.com/bnb-chain/tss-lib/crypto/paillier"
	"github.com/bnb-chain/tss-lib/ecdsa/keygen"

	"github.com/keep-network/keep-core/internal/verifkit"
	"github.com/keep-network/keep-core/pkg/internal/tecdsatest"
)

// c19ShareVariant derives further valid key-share values from a fixture:
// party lists cut to the first k entries, secrets replaced by other numbers.
func c19ShareVariant(rng *rand.Rand, src keygen.LocalPartySaveData, i int) keygen.LocalPartySaveData {
	d := src
	if i < 5 {
		return d
	}
	k := rng.Intn(len(src.Ks) + 1)
	d.Ks = append([]*big.Int(nil), src.Ks[:k]...)
	k = rng.Intn(len(src.NTildej) + 1)
	d.NTildej = append([]*big.Int(nil), src.NTildej[:k]...)
	k = rng.Intn(len(src.H1j) + 1)
	d.H1j = append([]*big.Int(nil), src.H1j[:k]...)
	k = rng.Intn(len(src.H2j) + 1)
	d.H2j = append([]*big.Int(nil), src.H2j[:k]...)
	k = rng.Intn(len(src.BigXj) + 1)
	d.BigXj = append([]*crypto.ECPoint(nil), src.BigXj[:k]...)
	k = rng.Intn(len(src.PaillierPKs) + 1)
	d.PaillierPKs = append([]*paillier.PublicKey(nil), src.PaillierPKs[:k]...)
	if rng.Intn(2) == 0 {
		d.LocalSecrets = keygen.LocalSecrets{Xi: c19BigInt(rng, 32), ShareID: c19BigInt(rng, 32)}
	}
	if rng.Intn(3) == 0 {
		pp := src.LocalPreParams
		pp.Alpha, pp.Beta = c19BigInt(rng, 256), c19BigInt(rng, 256)
		pp.H1i, pp.H2i = c19BigInt(rng, 256), new(big.Int)
		d.LocalPreParams = pp
	}
	if rng.Intn(3) == 0 && len(src.BigXj) > 0 {
		d.ECDSAPub = src.BigXj[rng.Intn(len(src.BigXj))]
	}
	return d
}

func TestVerif_C19_Tecdsa(t *testing.T) {
	r := verifkit.Start(t, "C19", "tecdsa")
	defer r.Finish()
	if decs := c19TecdsaDecoders(r); decs != nil {
		c19Run(r, "tecdsa", decs)
	}
}

// TestVerif_C19_TecdsaRace decodes key shares and signatures from four
// goroutines.
func TestVerif_C19_TecdsaRace(t *testing.T) {
	r := verifkit.Start(t, "C19", "tecdsa-race")
	defer r.Finish()
	if decs := c19TecdsaDecoders(r); decs != nil {
		c19RaceRun(r, "tecdsa", decs)
	}
}

func c19TecdsaDecoders(r *verifkit.Run) []c19Decoder {
	shares, err := tecdsatest.LoadPrivateKeyShareTestFixtures(5)
	if err != nil {
		r.Inconclusive("cannot load key share fixtures: " + err.Error())
		return nil
	}
	const f = "marshaling.go"
	return []c19Decoder{
		{
			Type: "PrivateKeyShare", File: f,
			New: func() c19Codec { return &PrivateKeyShare{} },
			Gen: func(rng *rand.Rand, i int) c19Codec {
				return NewPrivateKeyShare(c19ShareVariant(rng, shares[i%len(shares)], i))
			},
		},
		{
			Type: "Signature", File: f,
			New: func() c19Codec { return &Signature{} },
			Gen: func(rng *rand.Rand, i int) c19Codec {
				return &Signature{R: c19BigInt(rng, 32), S: c19BigInt(rng, 40), RecoveryID: int8(rng.Intn(256) - 128)}
			},
			// int32 recoveryID = 3 is narrowed to int8
			Ranges: []c19Range{{Path: "3", Min: -128, Max: 127, Signed: true}},
		},
	}
}
