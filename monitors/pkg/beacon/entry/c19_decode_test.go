//go:build verif

package entry

import (
	"math/rand"
	"testing"

	"github.com/keep-network/keep-core/internal/verifkit"
)

func TestVerif_C19_Entry(t *testing.T) {
	r := verifkit.Start(t, "C19", "entry")
	defer r.Finish()
	c19Run(r, "entry", []c19Decoder{
		{
			Type: "SignatureShareMessage", File: "marshaling.go",
			New: func() c19Codec { return &SignatureShareMessage{} },
			Gen: func(rng *rand.Rand, i int) c19Codec {
				return &SignatureShareMessage{
					senderID:   c19Index(rng),
					shareBytes: c19Bytes(rng, 0, 64),
					sessionID:  c19String(rng),
				}
			},
			IndexPaths: []string{"1"},
		},
	})
}
