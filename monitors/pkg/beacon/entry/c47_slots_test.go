//go:build verif

package entry

import (
	"fmt"
	"math/big"
	"runtime"
	"sort"
	"strings"
	"sync"
	"sync/atomic"
	"testing"
	"time"

	"github.com/keep-network/keep-core/internal/testutils"
	"github.com/keep-network/keep-core/internal/verifkit"
	beaconchain "github.com/keep-network/keep-core/pkg/beacon/chain"
	"github.com/keep-network/keep-core/pkg/beacon/event"
	"github.com/keep-network/keep-core/pkg/protocol/group"
	"github.com/keep-network/keep-core/pkg/subscription"
)

// ---------------------------------------------------------------------------
// Group-run engine (virtual clock, one chain stub shared by all members).
// The same engine is repeated in the C47 monitors of pkg/beacon/entry and
// pkg/tbtc (monitor files of different packages cannot share code).
// ---------------------------------------------------------------------------

type c47Call struct {
	Who     string `json:"who"`
	Block   uint64 `json:"block"`
	Start   int64  `json:"start_seq"`
	End     int64  `json:"end_seq"`
	Outcome string `json:"outcome"`
}

type c47Member struct {
	who   string
	index int
	late  bool // started only after the competing success
	// racer: started once everybody else is in place; the competing success
	// lands during its state query (right after the stub answered "not yet")
	racer bool
	run   func() error
}

type c47Group struct {
	clk  *verifkit.Clock
	seq  int64
	prog int64

	mu           sync.Mutex
	calls        []c47Call
	winner       int // ordinal (1-based) of the chain call that succeeds; 0 = none of them
	done         bool
	successSeq   int64
	successBlock uint64
	started      map[string]bool
	returned     map[string]bool
	retErr       map[string]string
	handlers     map[int]func(uint64)
	nextHandler  int
	hInvoked     int64
	hReturned    int64
	// gate holds back chain calls made while the members are still being
	// launched (a member whose slot is the current block submits at once)
	gate chan struct{}
	// raceWho: the participant during whose first state query the competing
	// success lands
	raceWho   string
	raceFired bool
	// mustReturn: a released member is settled only when it has returned
	// (relay entry with failing submissions: the failed call is followed by
	// the IsEntryInProgress query, and the member returns in every case)
	mustReturn bool
}

func c47NewGroup(height uint64, winner int) *c47Group {
	return &c47Group{
		clk: verifkit.NewClock(height), winner: winner,
		started: map[string]bool{}, returned: map[string]bool{}, retErr: map[string]string{},
		handlers: map[int]func(uint64){}, gate: make(chan struct{}),
	}
}

func (g *c47Group) stamp() int64 { atomic.AddInt64(&g.prog, 1); return atomic.AddInt64(&g.seq, 1) }

// beginCall records the start of a chain submission by `who` and decides its
// fate: "late" (somebody already succeeded), "win" or "fail".
func (g *c47Group) beginCall(who string) (idx int, fate string) {
	<-g.gate
	s := g.stamp()
	b := g.clk.Height()
	g.mu.Lock()
	defer g.mu.Unlock()
	g.calls = append(g.calls, c47Call{Who: who, Block: b, Start: s})
	idx = len(g.calls) - 1
	switch {
	case g.done:
		fate = "late"
	case len(g.calls) == g.winner:
		fate = "win"
		g.done, g.successSeq, g.successBlock = true, s, b
	default:
		fate = "fail"
	}
	return
}

func (g *c47Group) endCall(idx int, outcome string) {
	s := g.stamp()
	g.mu.Lock()
	g.calls[idx].End, g.calls[idx].Outcome = s, outcome
	g.mu.Unlock()
}

// raceNow is called by the chain stub inside a state query, after it has
// computed the ("not yet") answer and before it returns it. It reports
// whether the competing success must land now; the stub then performs it
// (state flip + event to whoever is subscribed at this instant) and only
// afterwards returns the stale answer to the member.
func (g *c47Group) raceNow(who string) bool {
	g.mu.Lock()
	defer g.mu.Unlock()
	if g.raceWho == "" || g.raceWho != who || g.raceFired || g.done {
		return false
	}
	g.raceFired = true
	return true
}

func (g *c47Group) isDone() bool { g.mu.Lock(); defer g.mu.Unlock(); return g.done }

func (g *c47Group) subscribe(fn func(uint64)) subscription.EventSubscription {
	g.mu.Lock()
	id := g.nextHandler
	g.nextHandler++
	g.handlers[id] = fn
	g.mu.Unlock()
	return subscription.NewEventSubscription(func() {
		g.mu.Lock()
		delete(g.handlers, id)
		g.mu.Unlock()
	})
}

// emit delivers the success event to every current subscriber, each on its
// own goroutine (as the local chains of keep-core do).
func (g *c47Group) emit(block uint64) {
	g.mu.Lock()
	var hs []func(uint64)
	for _, h := range g.handlers {
		hs = append(hs, h)
	}
	g.mu.Unlock()
	for _, h := range hs {
		atomic.AddInt64(&g.hInvoked, 1)
		go func(h func(uint64)) {
			h(block)
			atomic.AddInt64(&g.hReturned, 1)
			atomic.AddInt64(&g.prog, 1)
		}(h)
	}
}

// externalSuccess: somebody outside the observed members succeeded.
func (g *c47Group) externalSuccess() {
	s := g.stamp()
	b := g.clk.Height()
	g.mu.Lock()
	g.done, g.successSeq, g.successBlock = true, s, b
	g.mu.Unlock()
	g.emit(b)
}

func (g *c47Group) launch(r *verifkit.Run, desc string, m *c47Member) {
	g.mu.Lock()
	g.started[m.who] = true
	g.mu.Unlock()
	go func() {
		var err error
		r.Guard("relay-entry:", desc, func() { err = m.run() })
		g.mu.Lock()
		g.returned[m.who] = true
		if err != nil {
			g.retErr[m.who] = err.Error()
		}
		g.mu.Unlock()
		atomic.AddInt64(&g.prog, 1)
	}()
}

func (g *c47Group) isReturned(who string) bool { g.mu.Lock(); defer g.mu.Unlock(); return g.returned[who] }

func (g *c47Group) finishedCalls(who string) int {
	g.mu.Lock()
	defer g.mu.Unlock()
	n := 0
	for _, c := range g.calls {
		if c.Who == who && c.End != 0 {
			n++
		}
	}
	return n
}

// waits returns, per owner, the blocks it registered a waiter for.
func (g *c47Group) waits() map[string][]uint64 {
	out := map[string][]uint64{}
	for _, w := range g.clk.WaitLog() {
		out[w.Owner] = append(out[w.Owner], w.Block)
	}
	return out
}

var c47Impatient int32

// await polls cond. It gives up only after a long run of polls during which
// the group made no progress at all (counted in polls, not in seconds, so a
// stalled machine does not shorten it).
func (g *c47Group) await(cond func() bool) bool {
	limit := 8000
	if atomic.LoadInt32(&c47Impatient) != 0 {
		limit = 150
	}
	last, idle := atomic.LoadInt64(&g.prog), 0
	for spins := 0; ; spins++ {
		if cond() {
			return true
		}
		if spins < 200 {
			runtime.Gosched()
			continue
		}
		d := spins - 200
		if d > 4000 {
			d = 4000
		}
		time.Sleep(time.Duration(20+d) * time.Microsecond)
		if p := atomic.LoadInt64(&g.prog); p != last {
			last, idle = p, 0
		} else if idle++; idle > limit {
			return false
		}
	}
}

// drive runs the members to completion on the virtual clock: it moves the
// clock from one waited block to the next and, at each, waits until the
// released members have finished a chain call or returned. It returns false
// when some wait had to be abandoned (nothing is decided then, except for
// chain calls that were nevertheless observed after the success).
func (g *c47Group) drive(r *verifkit.Run, desc string, members []*c47Member, extBlock uint64, memberOf func(owner string) string) (conclusive bool) {
	conclusive = true
	var late, racers []*c47Member
	for _, m := range members {
		if m.late {
			late = append(late, m)
		} else if m.racer {
			racers = append(racers, m)
		} else {
			g.launch(r, desc, m)
		}
	}
	if !g.await(func() bool {
		ws := g.waits()
		for _, m := range members {
			if !m.late && !m.racer && len(ws[m.who]) == 0 && !g.isReturned(m.who) {
				return false
			}
		}
		return true
	}) {
		r.Inconclusive("members did not reach their eligibility wait")
		return false
	}
	// everybody is in place: let the submissions due at the launch block through
	{
		rel := map[string]int{}
		for owner, blocks := range g.waits() {
			for _, b := range blocks {
				if b <= g.clk.Height() {
					rel[memberOf(owner)] = 0
				}
			}
		}
		close(g.gate)
		if !g.await(func() bool {
			for who := range rel {
				if (g.mustReturn || g.finishedCalls(who) == 0) && !g.isReturned(who) {
					return false
				}
			}
			return true
		}) {
			r.Inconclusive("members eligible at the launch block neither submitted nor returned")
			return false
		}
	}
	// the racers join now, at the same block: the success lands inside
	// their state query
	for _, m := range racers {
		g.launch(r, desc, m)
	}
	if len(racers) > 0 && !g.await(func() bool {
		ws := g.waits()
		for _, m := range racers {
			if len(ws[m.who]) == 0 && !g.isReturned(m.who) {
				return false
			}
		}
		return true
	}) {
		r.Inconclusive("the racing member neither reached its eligibility wait nor returned")
		return false
	}
	post := false
	for {
		if g.isDone() && !post {
			post = true
			if !g.await(func() bool {
				g.mu.Lock()
				defer g.mu.Unlock()
				for who := range g.started {
					if !g.returned[who] {
						return false
					}
				}
				return true
			}) {
				conclusive = false
				atomic.StoreInt32(&c47Impatient, 1)
				r.Inconclusive("after the success event was emitted some members neither left nor made progress")
			}
			for _, m := range late {
				g.launch(r, desc, m)
			}
			if !g.await(func() bool {
				ws := g.waits()
				for _, m := range late {
					if len(ws[m.who]) == 0 && !g.isReturned(m.who) {
						return false
					}
				}
				return true
			}) {
				conclusive = false
			}
		}
		nb, any := g.clk.NextWaited()
		if extBlock != 0 && !g.isDone() && (!any || nb > extBlock) {
			if g.clk.Height() < extBlock {
				g.clk.Set(extBlock, false)
			}
			g.externalSuccess()
			continue
		}
		if !any {
			break
		}
		// owners released by moving to nb
		rel := map[string]int{}
		for owner, blocks := range g.waits() {
			for _, b := range blocks {
				if b > g.clk.Height() && b <= nb {
					rel[memberOf(owner)] = g.finishedCalls(memberOf(owner))
				}
			}
		}
		g.clk.Set(nb, false)
		if !g.await(func() bool {
			for who, before := range rel {
				if (g.mustReturn || g.finishedCalls(who) <= before) && !g.isReturned(who) {
					return false
				}
			}
			return true
		}) {
			r.Inconclusive(fmt.Sprintf("members released at block %d neither submitted nor returned", nb))
			return false
		}
	}
	if !g.await(func() bool {
		g.mu.Lock()
		defer g.mu.Unlock()
		for who := range g.started {
			if !g.returned[who] {
				return false
			}
		}
		return true
	}) {
		conclusive = false
		r.Inconclusive("some members never returned although no block wait is pending")
	}
	return conclusive
}

// ---------------------------------------------------------------------------
// Chain stub for relay entry submission
// ---------------------------------------------------------------------------

type c47Chain struct {
	beaconchain.Interface // nil: any method the code is not expected to use panics

	g      *c47Group
	who    string
	config *beaconchain.Config
	// silent: a submission that does not win is accepted into the mempool
	// (nil error) but never mined; otherwise it fails with an error
	silent bool
}

func (c *c47Chain) GetConfig() *beaconchain.Config { return c.config }

func (c *c47Chain) IsEntryInProgress() (bool, error) {
	answer := !c.g.isDone()
	if answer && c.g.raceNow(c.who) {
		// somebody else's entry lands right after "still in progress" was answered
		c.g.externalSuccess()
	}
	return answer, nil
}

func (c *c47Chain) OnRelayEntrySubmitted(
	handler func(entry *event.RelayEntrySubmitted),
) subscription.EventSubscription {
	return c.g.subscribe(func(block uint64) {
		handler(&event.RelayEntrySubmitted{BlockNumber: block})
	})
}

func (c *c47Chain) SubmitRelayEntry(entry []byte) error {
	idx, fate := c.g.beginCall(c.who)
	switch fate {
	case "win":
		c.g.emit(c.g.clk.Height())
		c.g.endCall(idx, "succeeded")
		return nil
	case "late":
		c.g.endCall(idx, "rejected: already submitted")
		return fmt.Errorf("c47: entry already submitted")
	}
	if c.silent {
		c.g.endCall(idx, "accepted, never mined")
		return nil
	}
	c.g.endCall(idx, "failed")
	return fmt.Errorf("c47: transaction reverted")
}

// ---------------------------------------------------------------------------

type c47Script struct {
	N       int    `json:"group_size"`
	Step    uint64 `json:"step"`
	Start   uint64 `json:"start_block"`
	Height  uint64 `json:"clock_at_launch"`
	Entry   string `json:"entry_hex"`
	Rem     int    `json:"entry_mod_group_size"`
	Winner  int    `json:"winning_call"` // k-th chain call succeeds (0: none)
	ExtAt   uint64 `json:"external_at"`  // block at which an outsider succeeds (0: never)
	Silent  bool   `json:"losing_calls_accepted_not_mined"`
	Racer   int    `json:"racing_member,omitempty"` // the success lands during this member's IsEntryInProgress query
	Variant string `json:"variant"`
}

func c47Owner(i int) string { return fmt.Sprintf("m%d", i) }

func c47MemberOf(owner string) string {
	if strings.HasPrefix(owner, "t") {
		return "m" + owner[1:]
	}
	return owner
}

func c47RunEntry(r *verifkit.Run, sc c47Script) {
	desc := "relay-entry " + verifkit.JSON(sc)
	g := c47NewGroup(sc.Height, sc.Winner)
	config := &beaconchain.Config{
		GroupSize:                  sc.N,
		HonestThreshold:            sc.N/2 + 1,
		ResultPublicationBlockStep: sc.Step,
		// the relation every keep-core chain implementation uses
		RelayEntryTimeout: uint64(sc.N) * sc.Step,
	}
	timeoutBlock := sc.Start + config.RelayEntryTimeout
	if sc.Racer != 0 {
		g.raceWho = c47Owner(sc.Racer)
	}
	g.mustReturn = !sc.Silent
	entryInt, _ := new(big.Int).SetString(sc.Entry, 16)
	entry := entryInt.Bytes()
	var members []*c47Member
	for i := 1; i <= sc.N; i++ {
		i := i
		who := c47Owner(i)
		ch := &c47Chain{g: g, who: who, config: config, silent: sc.Silent}
		view := g.clk.View(who)
		tview := g.clk.View(fmt.Sprintf("t%d", i))
		members = append(members, &c47Member{who: who, index: i, run: func() error {
			// the wiring SignAndSubmit does around submitRelayEntry
			submitted := make(chan uint64)
			sub := ch.OnRelayEntrySubmitted(func(e *event.RelayEntrySubmitted) {
				submitted <- e.BlockNumber
			})
			defer sub.Unsubscribe()
			timeoutCh, err := tview.BlockHeightWaiter(timeoutBlock)
			if err != nil {
				return err
			}
			s := &relayEntrySubmitter{
				logger:       &testutils.MockLogger{},
				chain:        ch,
				blockCounter: view,
				index:        group.MemberIndex(i),
			}
			return s.submitRelayEntry(entry, []byte{1, 2, 3}, sc.Start, submitted, timeoutCh)
		}})
	}
	conclusive := g.drive(r, desc, members, sc.ExtAt, c47MemberOf)

	// ------------------------------------------------------------- oracle
	ws := g.waits()
	g.mu.Lock()
	calls := append([]c47Call(nil), g.calls...)
	done, successSeq, successBlock := g.done, g.successSeq, g.successBlock
	g.mu.Unlock()
	r.Case(desc, done || sc.Rem == 0)
	r.Count("chain_calls", int64(len(calls)))
	g.mu.Lock()
	if g.raceFired {
		r.Count("success_landed_during_state_check", 1)
	}
	g.mu.Unlock()

	slotOf := map[string]uint64{}
	bySlot := map[uint64][]string{}
	for _, m := range members {
		bl := ws[m.who]
		if len(bl) != 1 {
			r.Violation("relay-entry:no-single-slot", fmt.Sprintf("member %d registered %d eligibility waits (expected exactly one)", m.index, len(bl)), desc, bl)
			continue
		}
		r.Count("slots_observed", 1)
		slotOf[m.who] = bl[0]
		bySlot[bl[0]] = append(bySlot[bl[0]], m.who)
		if bl[0] < sc.Start {
			r.Violation("relay-entry:slot-before-reference", fmt.Sprintf("member %d waits for block %d before the start block %d", m.index, bl[0], sc.Start), desc, nil)
		}
		if bl[0] >= timeoutBlock {
			class := "other"
			if m.index == sc.N && sc.Rem == 0 {
				class = "member==groupSize&&entry%groupSize==0"
			}
			r.Violation("relay-entry:slot-not-before-timeout:"+class,
				fmt.Sprintf("group size %d, step %d, entry 0x%s (entry mod group size = %d), start block %d: member %d waits for block %d = start+%d*step, the relay entry timeout is at block %d = start+%d",
					sc.N, sc.Step, sc.Entry, sc.Rem, sc.Start, m.index, bl[0], (bl[0]-sc.Start)/sc.Step, timeoutBlock, config.RelayEntryTimeout),
				desc, map[string]interface{}{"group_size": sc.N, "entry_hex": sc.Entry, "member": m.index, "start": sc.Start, "step": sc.Step, "waited_block": bl[0], "timeout_block": timeoutBlock})
		}
	}
	for b, who := range bySlot {
		if len(who) > 1 {
			sort.Strings(who)
			r.Violation("relay-entry:shared-slot", fmt.Sprintf("members %v share slot %d", who, b), desc, nil)
		}
	}
	callers := map[string]int{}
	for _, c := range calls {
		callers[c.Who]++
		slot, has := slotOf[c.Who]
		if done && c.Start > successSeq && c.Outcome != "succeeded" {
			fp := "relay-entry:submit-after-success"
			if sc.Racer != 0 {
				fp += ":landed-during-state-check"
			}
			r.Violation(fp, fmt.Sprintf("%s started a submission at block %d after the entry had been submitted at block %d", c.Who, c.Block, successBlock), desc, calls)
			continue
		}
		if !has {
			r.Violation("relay-entry:submit-without-slot", fmt.Sprintf("%s submitted at block %d without having waited for a slot", c.Who, c.Block), desc, nil)
			continue
		}
		if c.Block < slot {
			r.Violation("relay-entry:submit-before-slot", fmt.Sprintf("%s submitted at block %d, its slot is %d", c.Who, c.Block, slot), desc, nil)
		}
	}
	for who, n := range callers {
		if n > 1 {
			r.Violation("relay-entry:submitted-twice", fmt.Sprintf("%s submitted %d times", who, n), desc, nil)
		}
	}
	if conclusive {
		for _, m := range members {
			slot, has := slotOf[m.who]
			if !has || slot >= timeoutBlock {
				// at the timeout block submitting and giving up are both possible
				continue
			}
			should := !done || slot <= successBlock
			if should && callers[m.who] == 0 {
				g.mu.Lock()
				e := g.retErr[m.who]
				g.mu.Unlock()
				r.Violation("relay-entry:eligible-member-did-not-submit", fmt.Sprintf("member %d (slot %d) never submitted although nobody had succeeded by then (returned: %q)", m.index, slot, e), desc, nil)
			}
		}
	}
	if sc.N <= 4 {
		var cs []string
		for _, c := range calls {
			cs = append(cs, fmt.Sprintf("%s@%d:%s", c.Who, c.Block, strings.SplitN(c.Outcome, ":", 2)[0]))
		}
		r.Sample(map[string]interface{}{"script": sc, "calls": cs, "slots": slotOf, "timeout_block": timeoutBlock})
	}
}

func TestVerif_C47_RelayEntry(t *testing.T) {
	r := verifkit.Start(t, "C47", "relay-entry")
	defer r.Finish()
	r.SetRule("group runs of relayEntrySubmitter.submitRelayEntry wired as SignAndSubmit wires it: all members 1..N (N in 3..64, every N, plus PRNG repeats) concurrently on one virtual clock and one chain stub; step in {1,2,3,5}; RelayEntryTimeout = N*step; entry = q*N+rem with a 200-bit PRNG q and rem in {0,1,N-1,PRNG} (first cases: entry = N exactly); variants: nobody succeeds, the k-th submission succeeds, an outsider succeeds at a PRNG block, race-state (this path has no state query before submitting; the competing success lands inside the IsEntryInProgress query that follows a member's failed submission); losing submissions either fail with an error or are accepted and never mined. non-trivial = a competing success happened, or entry is divisible by the group size")
	r.Assume("RelayEntryTimeout = GroupSize * ResultPublicationBlockStep, as in pkg/chain/ethereum/beacon.go and pkg/chain/local_v1")
	r.Assume("blocks advance only after the released members finished their chain call or returned; the success event reaches every subscriber on its own goroutine")
	rng := r.Rand("scripts")
	var scripts []c47Script
	add := func(n int, variant string, rem int, exact bool) {
		sc := c47Script{N: n, Step: []uint64{1, 2, 3, 5}[rng.Intn(4)], Variant: variant, Rem: rem}
		sc.Start = uint64(10 + rng.Intn(100000))
		sc.Height = sc.Start - uint64(rng.Intn(3))
		q := new(big.Int).Rand(rng, new(big.Int).Lsh(big.NewInt(1), 200))
		if exact {
			q = big.NewInt(1)
			sc.Step, sc.Start, sc.Height = 1, 100, 100
		}
		e := new(big.Int).Add(new(big.Int).Mul(q, big.NewInt(int64(n))), big.NewInt(int64(rem)))
		sc.Entry = e.Text(16)
		sc.Silent = rng.Intn(2) == 0
		if exact {
			sc.Silent = true
		}
		switch variant {
		case "race-state":
			// the only state query of this path follows a failed submission
			sc.Silent = false
			sc.Racer = 1 + rng.Intn(n)
		case "nobody":
		case "winner":
			sc.Winner = []int{1, 2, n, 1 + rng.Intn(n), 1 + rng.Intn(n)}[rng.Intn(5)]
		case "external":
			sc.ExtAt = sc.Start + uint64(rng.Intn(n*int(sc.Step)))
		}
		scripts = append(scripts, sc)
	}
	// smallest concrete instances of the divisible-entry class
	add(3, "nobody", 0, true)
	add(64, "nobody", 0, true)
	for n := 3; n <= 64; n++ {
		rems := []int{0, 1, n - 1, rng.Intn(n)}
		add(n, []string{"nobody", "winner", "external"}[n%3], rems[n%4], false)
	}
	for n := 3; n <= 64; n += 6 {
		add(n, "race-state", rng.Intn(n), false)
	}
	for i := r.N(120, 4000); i > 0; i-- {
		n := 3 + rng.Intn(62)
		rems := []int{0, 1, n - 1, rng.Intn(n)}
		add(n, []string{"nobody", "winner", "winner", "external", "race-state"}[rng.Intn(5)], rems[rng.Intn(4)], false)
	}
	// the two minimal instances first, on their own, so that the recorded
	// witness of the divisible-entry class is the same on every seed
	c47RunEntry(r, scripts[0])
	c47RunEntry(r, scripts[1])
	rest := scripts[2:]
	verifkit.Parallel(len(rest), 0, func(i int) { c47RunEntry(r, rest[i]) })
}
