//go:build verif

package entry

import (
	"bytes"
	"context"
	"encoding/hex"
	"fmt"
	"math/big"
	"math/rand"
	"sort"
	"strings"
	"sync"
	"sync/atomic"
	"testing"
	"time"

	bn256 "github.com/ethereum/go-ethereum/crypto/bn256/cloudflare"
	"github.com/keep-network/keep-core/internal/verifkit"
	beaconchain "github.com/keep-network/keep-core/pkg/beacon/chain"
	"github.com/keep-network/keep-core/pkg/beacon/dkg"
	"github.com/keep-network/keep-core/pkg/beacon/event"
	"github.com/keep-network/keep-core/pkg/bls"
	"github.com/keep-network/keep-core/pkg/net"
	"github.com/keep-network/keep-core/pkg/protocol/group"
	"github.com/keep-network/keep-core/pkg/subscription"
)

// ---------------------------------------------------------------------------
// key material from a locally generated polynomial (monitor's own arithmetic)
// ---------------------------------------------------------------------------

type c03World struct {
	n, thr    int
	coeffs    []*big.Int
	prev      *bn256.G1
	prevBytes []byte
	secret    []*big.Int  // 1..n
	sigShare  []*bn256.G1 // prev^{f(i)}
	pubShares map[group.MemberIndex]*bn256.G2
	groupKey  *bn256.G2
	sigWant   []byte
	desc      string
}

func c03Eval(coeffs []*big.Int, x int64) *big.Int {
	acc := new(big.Int)
	bx := big.NewInt(x)
	for j := len(coeffs) - 1; j >= 0; j-- {
		acc.Mul(acc, bx)
		acc.Add(acc, coeffs[j])
		acc.Mod(acc, bn256.Order)
	}
	return acc
}

func c03Scalar(rng *rand.Rand) *big.Int {
	for {
		k := new(big.Int).Rand(rng, bn256.Order)
		if k.Sign() != 0 {
			return k
		}
	}
}

func c03NewWorld(rng *rand.Rand, n, thr int) *c03World {
	w := &c03World{n: n, thr: thr, pubShares: map[group.MemberIndex]*bn256.G2{}}
	var cs []string
	for j := 0; j < thr; j++ {
		c := c03Scalar(rng)
		w.coeffs = append(w.coeffs, c)
		cs = append(cs, c.Text(16))
	}
	pk := c03Scalar(rng)
	w.prev = new(bn256.G1).ScalarBaseMult(pk)
	w.prevBytes = w.prev.Marshal()
	w.secret = make([]*big.Int, n+1)
	w.sigShare = make([]*bn256.G1, n+1)
	for i := 1; i <= n; i++ {
		w.secret[i] = c03Eval(w.coeffs, int64(i))
		w.sigShare[i] = new(bn256.G1).ScalarMult(w.prev, w.secret[i])
		w.pubShares[group.MemberIndex(i)] = new(bn256.G2).ScalarBaseMult(w.secret[i])
	}
	s0 := c03Eval(w.coeffs, 0)
	w.groupKey = new(bn256.G2).ScalarBaseMult(s0)
	w.sigWant = new(bn256.G1).ScalarMult(w.prev, s0).Marshal()
	w.desc = fmt.Sprintf("n=%d threshold=%d coeffs=[%s] previousEntry=%s*G1", n, thr, strings.Join(cs, ","), pk.Text(16))
	return w
}

func (w *c03World) signer(i int) *dkg.ThresholdSigner {
	return dkg.NewThresholdSigner(group.MemberIndex(i), w.groupKey, w.secret[i], w.pubShares, nil)
}

type c03NopLogger struct{}

func (c03NopLogger) Debug(args ...interface{})                 {}
func (c03NopLogger) Debugf(format string, args ...interface{}) {}
func (c03NopLogger) Error(args ...interface{})                 {}
func (c03NopLogger) Errorf(format string, args ...interface{}) {}
func (c03NopLogger) Fatal(args ...interface{})                 {}
func (c03NopLogger) Fatalf(format string, args ...interface{}) {}
func (c03NopLogger) Info(args ...interface{})                  {}
func (c03NopLogger) Infof(format string, args ...interface{})  {}
func (c03NopLogger) Panic(args ...interface{})                 {}
func (c03NopLogger) Panicf(format string, args ...interface{}) {}
func (c03NopLogger) Warn(args ...interface{})                  {}
func (c03NopLogger) Warnf(format string, args ...interface{})  {}

// c03Variant is one share message candidate together with the monitor's own
// verdict: valid == the bytes start with the canonical encoding of
// previousEntry^{f(sender)} and sender is a group member.
type c03Variant struct {
	name   string
	sender group.MemberIndex
	bytes  []byte
	valid  bool
	// strict: the variant is canonical, so rejecting it when valid is a violation
	strict bool
}

func c03Variants(w *c03World, rng *rand.Rand, j int) []c03Variant {
	other := 1 + rng.Intn(w.n)
	for other == j {
		other = 1 + rng.Intn(w.n)
	}
	own := w.sigShare[j].Marshal()
	otherMsg := new(bn256.G1).ScalarBaseMult(c03Scalar(rng))
	wrongMsg := new(bn256.G1).ScalarMult(otherMsg, w.secret[j]).Marshal()
	neg := new(bn256.G1).Neg(w.sigShare[j]).Marshal()
	rnd := new(bn256.G1).ScalarBaseMult(c03Scalar(rng)).Marshal()
	tweak := new(bn256.G1).Add(w.sigShare[j], new(bn256.G1).ScalarBaseMult(big.NewInt(1))).Marshal()
	garbage := make([]byte, 64)
	rng.Read(garbage)
	bigCoord := append(bytes.Repeat([]byte{0xff}, 32), own[32:]...)
	flipped := append([]byte(nil), own...)
	flipped[rng.Intn(64)] ^= 1 << uint(rng.Intn(8))
	outside := group.MemberIndex(w.n + 1 + rng.Intn(3))
	sj := group.MemberIndex(j)
	return []c03Variant{
		{"honest", sj, own, true, true},
		{"share-of-other-member", sj, w.sigShare[other].Marshal(), false, true},
		{"share-over-other-message", sj, wrongMsg, false, true},
		{"identity", sj, make([]byte, 64), false, true},
		{"negated", sj, neg, false, true},
		{"random-point", sj, rnd, false, true},
		{"share-plus-generator", sj, tweak, false, true},
		{"random-bytes", sj, garbage, false, true},
		{"coordinate-above-modulus", sj, bigCoord, false, true},
		{"one-bit-flipped", sj, flipped, false, true},
		{"truncated", sj, own[:63], false, true},
		{"empty", sj, nil, false, true},
		{"sender-outside-group", outside, own, false, true},
		{"sender-zero", 0, own, false, true},
		{"trailing-bytes", sj, append(append([]byte(nil), own...), 0x01, 0x02), true, false},
	}
}

func TestVerif_C03_ShareValidation(t *testing.T) {
	r := verifkit.Start(t, "C03", "share_validation")
	defer r.Finish()
	r.SetRule("PRNG polynomials (n 3..9, threshold n/2+1), previous entry k*G1; for every claimed sender 15 share variants (honest, another member's share, share over another message, identity, negated, random point, share+G, random bytes, coordinate >= p, one bit flipped, truncated, empty, sender outside the group, sender 0, trailing bytes) through extractAndValidateShare: accepted iff the bytes are the monitor's previousEntry^f(sender); completeSignature over maps of >= threshold valid shares must give previousEntry^f(0) which verifies under the group key. non-trivial = a variant other than the honest one / a map larger than the threshold or any map (map order is random)")
	nW := r.N(40, 600)
	var accepted, rejected int64
	verifkit.Parallel(nW, 0, func(wi int) {
		rng := r.SubRand("world", wi)
		n := 3 + rng.Intn(7)
		thr := n/2 + 1
		w := c03NewWorld(rng, n, thr)
		for j := 1; j <= n; j++ {
			for _, v := range c03Variants(w, rng, j) {
				desc := fmt.Sprintf("extractAndValidateShare variant=%s claimedSender=%d share=%s %s", v.name, v.sender, verifkit.Hex(v.bytes), w.desc)
				msg := &SignatureShareMessage{senderID: v.sender, shareBytes: append([]byte(nil), v.bytes...), sessionID: hex.EncodeToString(w.prevBytes)}
				var got *bn256.G1
				var err error
				if r.Guard("extract:"+v.name+":", desc, func() {
					got, err = extractAndValidateShare(msg, w.pubShares, w.prev)
				}) {
					r.Case(desc, v.name != "honest")
					continue
				}
				r.Case(desc, v.name != "honest")
				if err == nil {
					atomic.AddInt64(&accepted, 1)
					if !v.valid {
						r.Violation("extract:accepted-invalid:"+v.name, "a share that is not previousEntry^f(sender) was accepted", desc, nil)
					} else if got == nil || !bytes.Equal(got.Marshal(), w.sigShare[int(v.sender)].Marshal()) {
						r.Violation("extract:returned-other-point", "the returned share is not the sender's share", desc, nil)
					}
				} else {
					atomic.AddInt64(&rejected, 1)
					if v.valid && v.strict {
						r.Violation("extract:honest-share-rejected", "the canonical encoding of the sender's correct share was rejected: "+err.Error(), desc, nil)
					}
				}
			}
		}
		// completeSignature over maps of valid shares
		for k := 0; k < 6; k++ {
			size := thr + rng.Intn(n-thr+1)
			if k == 0 {
				size = thr
			}
			me := 1 + rng.Intn(n)
			perm := rng.Perm(n)
			shares := map[group.MemberIndex]*bn256.G1{}
			var idx []int
			for _, p := range perm[:size] {
				shares[group.MemberIndex(p+1)] = w.sigShare[p+1]
				idx = append(idx, p+1)
			}
			sort.Ints(idx)
			desc := fmt.Sprintf("completeSignature members=%v as=%d rep=%d %s", idx, me, k, w.desc)
			var sig *bn256.G1
			var err error
			if r.Guard("complete:", desc, func() {
				sig, err = completeSignature(c03NopLogger{}, w.signer(me), shares, thr)
			}) {
				r.Case(desc, true)
				continue
			}
			r.Case(desc, true)
			if err != nil || sig == nil {
				r.Violation("complete:error", fmt.Sprintf("completeSignature failed with >= threshold valid shares: %v", err), desc, nil)
				continue
			}
			if !bytes.Equal(sig.Marshal(), w.sigWant) {
				r.Violation("complete:wrong-signature", "completed signature is not previousEntry^f(0)", desc, map[string]string{"got": verifkit.Hex(sig.Marshal()), "want": verifkit.Hex(w.sigWant)})
			}
			if k == 0 && !bls.VerifyG1(w.groupKey, w.prev, sig) {
				r.Violation("complete:not-verifying", "completed signature does not verify under the group public key", desc, nil)
			}
		}
		// below the threshold: an error, not a signature
		{
			perm := rng.Perm(n)
			shares := map[group.MemberIndex]*bn256.G1{}
			for _, p := range perm[:thr-1] {
				shares[group.MemberIndex(p+1)] = w.sigShare[p+1]
			}
			desc := fmt.Sprintf("completeSignature below threshold (%d shares) %s", thr-1, w.desc)
			var err error
			var sig *bn256.G1
			if !r.Guard("complete:", desc, func() {
				sig, err = completeSignature(c03NopLogger{}, w.signer(1), shares, thr)
			}) && err == nil {
				r.Violation("complete:no-error-below-threshold", "a signature was produced from fewer than threshold shares", desc, verifkit.Hex(sig.Marshal()))
			}
			r.Case(desc, true)
		}
		if wi < 3 {
			r.Sample(map[string]interface{}{"n": n, "threshold": thr, "previous_entry": verifkit.Hex(w.prevBytes), "expected_entry": verifkit.Hex(w.sigWant)})
		}
	})
	r.Count("shares_accepted", accepted)
	r.Count("shares_rejected", rejected)
}

// ---------------------------------------------------------------------------
// SignAndSubmit of one real member against a scripted group
// ---------------------------------------------------------------------------

type c03Msg struct {
	payload interface{}
	typ     string
	seq     uint64
}

type c03ID string

func (i c03ID) String() string { return string(i) }

func (m *c03Msg) TransportSenderID() net.TransportIdentifier { return c03ID("injector") }
func (m *c03Msg) SenderPublicKey() []byte                    { return []byte{4} }
func (m *c03Msg) Payload() interface{}                       { return m.payload }
func (m *c03Msg) Type() string                               { return m.typ }
func (m *c03Msg) Seqno() uint64                              { return m.seq }

// c03Channel is an in-memory net.BroadcastChannel: Send marshals and
// unmarshals through the registered unmarshaler and hands the message to
// every handler through a per-handler FIFO, so one sender's messages arrive
// in sending order.
type c03Channel struct {
	mu        sync.Mutex
	unm       map[string]func() net.TaggedUnmarshaler
	handlers  []*c03Handler
	seq       uint64
	recvReady chan struct{}
	once      sync.Once
	sent      []interface{}
}

type c03Handler struct {
	ctx context.Context
	q   chan net.Message
}

func c03NewChannel() *c03Channel {
	return &c03Channel{unm: map[string]func() net.TaggedUnmarshaler{}, recvReady: make(chan struct{})}
}

func (c *c03Channel) Name() string { return "c03" }

func (c *c03Channel) Send(ctx context.Context, m net.TaggedMarshaler, _ ...net.RetransmissionStrategy) error {
	b, err := m.Marshal()
	if err != nil {
		return err
	}
	c.mu.Lock()
	mk, ok := c.unm[m.Type()]
	if !ok {
		c.mu.Unlock()
		return fmt.Errorf("no unmarshaler for %s", m.Type())
	}
	u := mk()
	if err := u.Unmarshal(b); err != nil {
		c.mu.Unlock()
		return err
	}
	c.seq++
	msg := &c03Msg{payload: u, typ: m.Type(), seq: c.seq}
	c.sent = append(c.sent, u)
	hs := append([]*c03Handler(nil), c.handlers...)
	c.mu.Unlock()
	for _, h := range hs {
		select {
		case h.q <- msg:
		case <-h.ctx.Done():
		}
	}
	return nil
}

func (c *c03Channel) Recv(ctx context.Context, handler func(m net.Message)) {
	h := &c03Handler{ctx: ctx, q: make(chan net.Message, 4096)}
	c.mu.Lock()
	c.handlers = append(c.handlers, h)
	c.mu.Unlock()
	go func() {
		for {
			select {
			case <-ctx.Done():
				return
			case m := <-h.q:
				if ctx.Err() != nil {
					return
				}
				handler(m)
			}
		}
	}()
	c.once.Do(func() { close(c.recvReady) })
}

func (c *c03Channel) SetUnmarshaler(u func() net.TaggedUnmarshaler) {
	c.mu.Lock()
	c.unm[u().Type()] = u
	c.mu.Unlock()
}

func (c *c03Channel) SetFilter(net.BroadcastChannelFilter) error { return nil }

// c03Chain implements the part of the beacon chain interface SignAndSubmit
// uses; any other method panics through the nil embedded interface.
type c03Chain struct {
	beaconchain.Interface
	cfg      *beaconchain.Config
	clock    *verifkit.Clock
	mu       sync.Mutex
	entries  [][]byte
	handlers map[int]func(*event.RelayEntrySubmitted)
	next     int
}

func (c *c03Chain) GetConfig() *beaconchain.Config { return c.cfg }

func (c *c03Chain) OnRelayEntrySubmitted(h func(*event.RelayEntrySubmitted)) subscription.EventSubscription {
	c.mu.Lock()
	id := c.next
	c.next++
	c.handlers[id] = h
	c.mu.Unlock()
	return subscription.NewEventSubscription(func() {
		c.mu.Lock()
		delete(c.handlers, id)
		c.mu.Unlock()
	})
}

func (c *c03Chain) SubmitRelayEntry(entry []byte) error {
	c.mu.Lock()
	c.entries = append(c.entries, append([]byte(nil), entry...))
	var hs []func(*event.RelayEntrySubmitted)
	for _, h := range c.handlers {
		hs = append(hs, h)
	}
	c.mu.Unlock()
	bn := c.clock.Height()
	for _, h := range hs {
		go h(&event.RelayEntrySubmitted{BlockNumber: bn})
	}
	return nil
}

func (c *c03Chain) IsEntryInProgress() (bool, error) { return false, nil }

func (c *c03Chain) submitted() [][]byte {
	c.mu.Lock()
	defer c.mu.Unlock()
	return append([][]byte(nil), c.entries...)
}

func TestVerif_C03_SignAndSubmit(t *testing.T) {
	r := verifkit.Start(t, "C03", "sign_and_submit")
	defer r.Finish()
	c03SignAndSubmitWorkload(t, r, r.N(60, 600))
}

// TestVerif_C03_SignAndSubmitRace: the same workload under the race detector
// (the member's own goroutines - share broadcast, message loop, submission -
// work on shared curve points).
func TestVerif_C03_SignAndSubmitRace(t *testing.T) {
	r := verifkit.Start(t, "C03", "sign_and_submit_race")
	defer r.Finish()
	c03SignAndSubmitWorkload(t, r, r.N(40, 300))
}

func c03SignAndSubmitWorkload(t *testing.T, r *verifkit.Run, nRuns int) {
	r.SetRule("one real member runs SignAndSubmit (virtual block counter, in-memory ordered channel, stub chain) with keys from a PRNG polynomial (n 3..9, threshold n/2+1); the scripted rest of the group first sends, for every other sender, invalid shares (another member's share, share over another message, identity, negated, random point, random bytes, truncated), messages claiming the member's own index and senders outside the group, then the correct shares of exactly threshold-1 PRNG-chosen members in PRNG order; the entry submitted to the chain must be previousEntry^f(0). non-trivial = invalid shares were delivered before the valid ones (always)")
	r.Assume("keys come from a locally generated polynomial, not from a GJKR run; the message order seen by the member is the sending order")
	var badSent, goodSent int64
	verifkit.Parallel(nRuns, 0, func(ri int) {
		rng := r.SubRand("e2e", ri)
		n := 3 + rng.Intn(7)
		thr := n/2 + 1
		w := c03NewWorld(rng, n, thr)
		me := 1 + rng.Intn(n)
		session := hex.EncodeToString(w.prevBytes)

		type scripted struct {
			sender group.MemberIndex
			bytes  []byte
			tag    string
		}
		var script []scripted
		for j := 1; j <= n; j++ {
			if j == me {
				continue
			}
			vs := c03Variants(w, rng, j)
			for _, v := range vs {
				if v.valid || v.name == "empty" {
					continue
				}
				if rng.Intn(3) == 0 {
					continue
				}
				script = append(script, scripted{v.sender, v.bytes, v.name})
			}
		}
		garbage := make([]byte, 64)
		rng.Read(garbage)
		script = append(script, scripted{group.MemberIndex(me), garbage, "claims-own-index"})
		rng.Shuffle(len(script), func(a, b int) { script[a], script[b] = script[b], script[a] })
		nBad := len(script)
		var others []int
		for j := 1; j <= n; j++ {
			if j != me {
				others = append(others, j)
			}
		}
		rng.Shuffle(len(others), func(a, b int) { others[a], others[b] = others[b], others[a] })
		helpers := append([]int(nil), others[:thr-1]...)
		for _, j := range helpers {
			script = append(script, scripted{group.MemberIndex(j), w.sigShare[j].Marshal(), "honest"})
		}
		var tags []string
		for _, s := range script {
			tags = append(tags, fmt.Sprintf("%d:%s", s.sender, s.tag))
		}
		desc := fmt.Sprintf("SignAndSubmit member=%d script=[%s] %s", me, strings.Join(tags, " "), w.desc)
		r.Case(desc, nBad > 0)
		atomic.AddInt64(&badSent, int64(nBad))
		atomic.AddInt64(&goodSent, int64(len(helpers)))

		const start, step = 100, 3
		clock := verifkit.NewClock(start)
		chain := &c03Chain{cfg: &beaconchain.Config{GroupSize: n, HonestThreshold: thr, ResultPublicationBlockStep: step, RelayEntryTimeout: 100000}, clock: clock, handlers: map[int]func(*event.RelayEntrySubmitted){}}
		ch := c03NewChannel()
		RegisterUnmarshallers(ch)

		done := make(chan error, 1)
		go func() {
			var err error
			if r.Guard("e2e:", desc, func() {
				err = SignAndSubmit(c03NopLogger{}, clock, ch, chain, w.prevBytes, thr, w.signer(me), start)
			}) {
				err = fmt.Errorf("panicked")
			}
			done <- err
		}()
		select {
		case <-ch.recvReady:
		case err := <-done:
			r.Violation("e2e:returned-before-receiving", fmt.Sprintf("SignAndSubmit returned before listening: %v", err), desc, nil)
			return
		case <-time.After(30 * time.Second):
			r.Inconclusive("watchdog: member did not start receiving within 30 s")
			return
		}
		for _, s := range script {
			if err := ch.Send(context.Background(), NewSignatureShareMessage(s.sender, s.bytes, session)); err != nil {
				r.Inconclusive("harness: injector could not send: " + err.Error())
				return
			}
		}
		// let blocks pass until the member has submitted (its slot is at most
		// n steps away) and returned
		deadline := time.Now().Add(30 * time.Second)
		var ret error
		returned := false
		for !returned {
			select {
			case ret = <-done:
				returned = true
			case <-time.After(200 * time.Microsecond):
				if clock.Height() < start+uint64((n+2)*step) {
					clock.Advance(1)
				}
				if time.Now().After(deadline) {
					clock.Set(start+100000, false) // release the member through its timeout
					select {
					case ret = <-done:
					case <-time.After(10 * time.Second):
					}
					// a wall-clock watchdog cannot tell a stuck member from a
					// slow machine: not a verdict
					r.Inconclusive(fmt.Sprintf("watchdog: threshold-1 correct shares were delivered and %d blocks passed but the member did not finish within 30 s (submitted=%d, return after release through the timeout block: %v)", (n+2)*step, len(chain.submitted()), ret))
					return
				}
			}
		}
		subs := chain.submitted()
		if ret != nil {
			r.Violation("e2e:error", "SignAndSubmit failed although threshold-1 correct shares were delivered: "+ret.Error(), desc, nil)
			return
		}
		if len(subs) == 0 {
			r.Violation("e2e:no-entry", "SignAndSubmit returned nil without submitting and nobody else submitted", desc, nil)
			return
		}
		for _, e := range subs {
			if !bytes.Equal(e, w.sigWant) {
				r.Violation("e2e:wrong-entry", "the submitted relay entry is not previousEntry^f(0) (an invalid share was used, or recovery is wrong)", desc, map[string]string{"submitted": verifkit.Hex(e), "want": verifkit.Hex(w.sigWant)})
			}
		}
		if ri < 2 {
			r.Sample(map[string]interface{}{"member": me, "n": n, "threshold": thr, "script": tags, "entry": verifkit.Hex(subs[0])})
		}
	})
	r.Count("invalid_messages_delivered_first", badSent)
	r.Count("valid_shares_delivered", goodSent)
}

// ---------------------------------------------------------------------------
// The member's own goroutines: the shares it needs are already waiting when
// it starts listening, so its message loop completes while its own share
// broadcast (started with `go` before) may not have run yet. Under the race
// detector any unsynchronised use of the same curve point by both is reported.
// ---------------------------------------------------------------------------

type c03PreChannel struct {
	pre []net.Message
}

func (c *c03PreChannel) Name() string { return "c03pre" }
func (c *c03PreChannel) Send(ctx context.Context, m net.TaggedMarshaler, _ ...net.RetransmissionStrategy) error {
	_, err := m.Marshal()
	return err
}
func (c *c03PreChannel) Recv(ctx context.Context, handler func(m net.Message)) {
	for _, m := range c.pre {
		handler(m)
	}
}
func (c *c03PreChannel) SetUnmarshaler(func() net.TaggedUnmarshaler) {}
func (c *c03PreChannel) SetFilter(net.BroadcastChannelFilter) error  { return nil }

func TestVerif_C03_OwnShareBroadcastRace(t *testing.T) {
	r := verifkit.Start(t, "C03", "own_share_broadcast_race")
	defer r.Finish()
	r.SetRule("one real member runs SignAndSubmit on a channel that hands it threshold-1 correct shares at the moment it starts listening (no goroutine or channel of the monitor in between), virtual block counter, stub chain; n 3..7; verdict from the race detector (accesses attributed to entry.go / bls.go / signer.go) and from the submitted entry")
	nRuns := r.N(40, 400)
	for ri := 0; ri < nRuns; ri++ {
		rng := r.SubRand("pre", ri)
		n := 3 + rng.Intn(5)
		thr := n/2 + 1
		w := c03NewWorld(rng, n, thr)
		me := 1 + rng.Intn(n)
		session := hex.EncodeToString(w.prevBytes)
		ch := &c03PreChannel{}
		var helpers []int
		for j := 1; j <= n && len(helpers) < thr-1; j++ {
			if j != me {
				helpers = append(helpers, j)
			}
		}
		for _, j := range helpers {
			ch.pre = append(ch.pre, &c03Msg{payload: NewSignatureShareMessage(group.MemberIndex(j), w.sigShare[j].Marshal(), session), typ: "x", seq: uint64(j)})
		}
		desc := fmt.Sprintf("preloaded member=%d helpers=%v %s", me, helpers, w.desc)
		r.Case(desc, true)
		const start, step = 100, 3
		clock := verifkit.NewClock(start)
		chain := &c03Chain{cfg: &beaconchain.Config{GroupSize: n, HonestThreshold: thr, ResultPublicationBlockStep: step, RelayEntryTimeout: 100000}, clock: clock, handlers: map[int]func(*event.RelayEntrySubmitted){}}
		done := make(chan error, 1)
		go func() {
			var err error
			if r.Guard("pre:", desc, func() {
				err = SignAndSubmit(c03NopLogger{}, clock, ch, chain, w.prevBytes, thr, w.signer(me), start)
			}) {
				err = fmt.Errorf("panicked")
			}
			done <- err
		}()
		deadline := time.Now().Add(30 * time.Second)
		var ret error
		returned := false
		for !returned {
			select {
			case ret = <-done:
				returned = true
			case <-time.After(200 * time.Microsecond):
				if clock.Height() < start+uint64((n+2)*step) {
					clock.Advance(1)
				}
				if time.Now().After(deadline) {
					clock.Set(start+100000, false)
					r.Inconclusive("watchdog: preloaded member did not finish within 30 s")
					return
				}
			}
		}
		if ret != nil {
			r.Violation("pre:error", "SignAndSubmit failed although threshold-1 correct shares were waiting: "+ret.Error(), desc, nil)
			continue
		}
		for _, e := range chain.submitted() {
			if !bytes.Equal(e, w.sigWant) {
				r.Violation("e2e:wrong-entry", "the submitted relay entry is not previousEntry^f(0)", desc, map[string]string{"submitted": verifkit.Hex(e), "want": verifkit.Hex(w.sigWant)})
			}
		}
	}
}
