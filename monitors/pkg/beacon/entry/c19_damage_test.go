//go:build verif

package entry

// C19 — shared machinery (structure-aware protobuf damage generator, generic
// decoder runner, canonical deep rendering). This file is copied VERBATIM
// into every package that has a C19 monitor; only the `package` line differs
// (packages cannot share test code and the kit must stay stdlib-only).
// Master copy: /verif/monitors/pkg/beacon/gjkr/c19_damage_test.go.

import (
	"crypto/elliptic"
	"crypto/sha256"
	"fmt"
	"math/big"
	"math/rand"
	"os"
	"reflect"
	"regexp"
	"sort"
	"strconv"
	"strings"
	"time"
	"unsafe"

	"google.golang.org/protobuf/encoding/protowire"

	"github.com/keep-network/keep-core/internal/verifkit"
)

// c19Codec is what every decoder under test implements.
type c19Codec interface {
	Marshal() ([]byte, error)
	Unmarshal([]byte) error
}

// c19Decoder is one row of a package's decoder table.
type c19Decoder struct {
	// Type is the receiver type of the Unmarshal method, as written in File.
	Type string
	// File is the source file (relative to the package directory) declaring
	// the Unmarshal method; used for the table/source cross-check.
	File string
	// New returns an empty value to decode into.
	New func() c19Codec
	// Gen returns the i-th generated valid value.
	Gen func(rng *rand.Rand, i int) c19Codec
	// IndexPaths are the wire paths that carry member indices. Components
	// are field numbers; suffix '*' = repeated/map field (every occurrence
	// is its own message), suffix '!' = bytes field holding a nested
	// encoding (last occurrence wins), no suffix on an inner component =
	// singular sub-message (occurrences are merged).
	IndexPaths []string
	// Ranges are further integer fields that the decoder narrows (e.g. int32
	// on the wire to int8 in the value); same path syntax as IndexPaths.
	Ranges []c19Range
	// Variants is the number of value kinds Gen cycles through with i
	// (Gen(rng, i) and Gen(rng, i+Variants) are of the same kind); 0 = 1.
	Variants int
	// SkipAccessors lists zero-argument exported methods that must not be
	// called (documented to panic or to have side effects).
	SkipAccessors []string
	// Use optionally exercises more accessors (nested values).
	Use func(v c19Codec)
}

// c19Range bounds an integer field that the decoder converts to a narrower
// type: an accepted input must carry a value within [Min, Max].
type c19Range struct {
	Path     string
	Min, Max int64
	Signed   bool // int32 on the wire (else uint32)
}

// ---------------------------------------------------------------------------
// wire tree

type c19Node struct {
	num   protowire.Number
	typ   protowire.Type
	val   uint64 // varint / fixed value
	raw   []byte // payload of a length-delimited field
	kids  []*c19Node
	isMsg bool // payload parsed completely as a message
	cls   string
	dmg   int
	arg   uint64
}

func c19Parse(b []byte, cls string, depth int) ([]*c19Node, bool) {
	var out []*c19Node
	for len(b) > 0 {
		num, typ, n := protowire.ConsumeTag(b)
		if n < 0 {
			return nil, false
		}
		b = b[n:]
		nd := &c19Node{num: num, typ: typ}
		if cls == "" {
			nd.cls = strconv.Itoa(int(num))
		} else {
			nd.cls = cls + "." + strconv.Itoa(int(num))
		}
		switch typ {
		case protowire.VarintType:
			v, m := protowire.ConsumeVarint(b)
			if m < 0 {
				return nil, false
			}
			nd.val = v
			n = m
		case protowire.Fixed32Type:
			v, m := protowire.ConsumeFixed32(b)
			if m < 0 {
				return nil, false
			}
			nd.val = uint64(v)
			n = m
		case protowire.Fixed64Type:
			v, m := protowire.ConsumeFixed64(b)
			if m < 0 {
				return nil, false
			}
			nd.val = v
			n = m
		case protowire.BytesType:
			v, m := protowire.ConsumeBytes(b)
			if m < 0 {
				return nil, false
			}
			nd.raw = append([]byte(nil), v...)
			if len(v) > 0 && depth < 7 {
				if kids, ok := c19Parse(v, nd.cls, depth+1); ok {
					nd.kids = kids
					nd.isMsg = true
				}
			}
			n = m
		default:
			return nil, false // groups are not used by keep-core
		}
		b = b[n:]
		out = append(out, nd)
	}
	return out, true
}

func c19Flatten(nodes []*c19Node, out []*c19Node) []*c19Node {
	for _, n := range nodes {
		out = append(out, n)
		if n.isMsg {
			out = c19Flatten(n.kids, out)
		}
	}
	return out
}

// damage kinds
const (
	c19None = iota
	c19Drop
	c19Dup
	c19SwapType // arg = new wire type
	c19SetVal   // arg = new varint / fixed value
	c19Empty
	c19TruncHalf
	c19TruncLast
	c19Oversize // arg = excess of the declared length
	c19Zeros
	c19Ones
	c19Nest
	c19Append
	c19Packed // payload replaced by packed extreme varints
)

var c19DamageNames = map[int]string{
	c19Drop: "drop", c19Dup: "dup", c19SwapType: "wiretype", c19SetVal: "set",
	c19Empty: "empty", c19TruncHalf: "trunc-half", c19TruncLast: "trunc-last",
	c19Oversize: "oversize", c19Zeros: "zeros", c19Ones: "ones", c19Nest: "nest",
	c19Append: "append", c19Packed: "packed-extremes",
}

type c19Damage struct {
	kind int
	arg  uint64
}

func (d c19Damage) String() string {
	switch d.kind {
	case c19SwapType, c19SetVal, c19Oversize:
		return fmt.Sprintf("%s(%d)", c19DamageNames[d.kind], d.arg)
	}
	return c19DamageNames[d.kind]
}

// c19DamagesFor enumerates the single damages applicable to a node.
func c19DamagesFor(n *c19Node) []c19Damage {
	ds := []c19Damage{{c19Drop, 0}, {c19Dup, 0}}
	for _, t := range []protowire.Type{protowire.VarintType, protowire.Fixed32Type, protowire.Fixed64Type, protowire.BytesType} {
		if t != n.typ {
			ds = append(ds, c19Damage{c19SwapType, uint64(t)})
		}
	}
	switch n.typ {
	case protowire.VarintType:
		for _, v := range []uint64{0, 1, 255, 256, 1 << 32, 1<<32 + 1, 1 << 63, ^uint64(0)} {
			if v != n.val {
				ds = append(ds, c19Damage{c19SetVal, v})
			}
		}
	case protowire.Fixed32Type, protowire.Fixed64Type:
		ds = append(ds, c19Damage{c19SetVal, 0}, c19Damage{c19SetVal, ^uint64(0)})
	case protowire.BytesType:
		ds = append(ds, c19Damage{c19Oversize, 1}, c19Damage{c19Oversize, 1 << 31}, c19Damage{c19Nest, 0}, c19Damage{c19Append, 0}, c19Damage{c19Packed, 0})
		if len(n.raw) > 0 {
			ds = append(ds, c19Damage{c19Empty, 0}, c19Damage{c19TruncLast, 0}, c19Damage{c19Zeros, 0}, c19Damage{c19Ones, 0})
		}
		if len(n.raw) > 2 {
			ds = append(ds, c19Damage{c19TruncHalf, 0})
		}
	}
	return ds
}

func c19Dirty(n *c19Node) bool {
	if n.dmg != c19None {
		return true
	}
	for _, k := range n.kids {
		if c19Dirty(k) {
			return true
		}
	}
	return false
}

func c19Emit(out []byte, nodes []*c19Node) []byte {
	for _, n := range nodes {
		out = c19EmitNode(out, n)
	}
	return out
}

func c19Payload(n *c19Node) []byte {
	if n.isMsg {
		for _, k := range n.kids {
			if c19Dirty(k) {
				return c19Emit(nil, n.kids)
			}
		}
	}
	return n.raw
}

func c19EmitPlain(out []byte, n *c19Node, payload []byte) []byte {
	out = protowire.AppendTag(out, n.num, n.typ)
	switch n.typ {
	case protowire.VarintType:
		out = protowire.AppendVarint(out, n.val)
	case protowire.Fixed32Type:
		out = protowire.AppendFixed32(out, uint32(n.val))
	case protowire.Fixed64Type:
		out = protowire.AppendFixed64(out, n.val)
	case protowire.BytesType:
		out = protowire.AppendBytes(out, payload)
	}
	return out
}

func c19EmitNode(out []byte, n *c19Node) []byte {
	var p []byte
	if n.typ == protowire.BytesType {
		p = c19Payload(n)
	}
	fill := func(b byte) []byte {
		q := make([]byte, len(p))
		for i := range q {
			q[i] = b
		}
		return q
	}
	switch n.dmg {
	case c19None:
		return c19EmitPlain(out, n, p)
	case c19Drop:
		return out
	case c19Dup:
		out = c19EmitPlain(out, n, p)
		return c19EmitPlain(out, n, p)
	case c19SetVal:
		m := *n
		m.val = n.arg
		return c19EmitPlain(out, &m, p)
	case c19Empty:
		return c19EmitPlain(out, n, nil)
	case c19TruncHalf:
		return c19EmitPlain(out, n, p[:len(p)/2])
	case c19TruncLast:
		if len(p) == 0 {
			return c19EmitPlain(out, n, p)
		}
		return c19EmitPlain(out, n, p[:len(p)-1])
	case c19Oversize:
		out = protowire.AppendTag(out, n.num, n.typ)
		out = protowire.AppendVarint(out, uint64(len(p))+n.arg)
		return append(out, p...)
	case c19Zeros:
		return c19EmitPlain(out, n, fill(0))
	case c19Ones:
		return c19EmitPlain(out, n, fill(0xff))
	case c19Nest:
		inner := c19EmitPlain(nil, n, p)
		return c19EmitPlain(out, n, inner)
	case c19Append:
		return c19EmitPlain(out, n, append(append([]byte(nil), p...), 0))
	case c19Packed:
		var q []byte
		for _, v := range []uint64{^uint64(0), 1 << 63, 0, 256, 1 << 32} {
			q = protowire.AppendVarint(q, v)
		}
		return c19EmitPlain(out, n, q)
	case c19SwapType:
		nt := protowire.Type(n.arg)
		// carry something sensible over to the new wire type
		var num uint64
		var bts []byte
		switch n.typ {
		case protowire.VarintType:
			num, bts = n.val, protowire.AppendVarint(nil, n.val)
		case protowire.Fixed32Type:
			num, bts = n.val, protowire.AppendFixed32(nil, uint32(n.val))
		case protowire.Fixed64Type:
			num, bts = n.val, protowire.AppendFixed64(nil, n.val)
		case protowire.BytesType:
			num, bts = uint64(len(p)), p
		}
		m := c19Node{num: n.num, typ: nt, val: num}
		return c19EmitPlain(out, &m, bts)
	}
	return out
}

func c19Reset(flat []*c19Node) {
	for _, n := range flat {
		n.dmg, n.arg = c19None, 0
	}
}

// ---------------------------------------------------------------------------
// member indices on the wire (exact protobuf semantics for the declared paths)

func c19IndexEval(nodes []*c19Node, comps []string, out *[]uint32) bool {
	comp := comps[0]
	mode := byte(0)
	if l := comp[len(comp)-1]; l == '*' || l == '!' {
		mode = l
		comp = comp[:len(comp)-1]
	}
	numI, _ := strconv.Atoi(comp)
	num := protowire.Number(numI)
	if len(comps) == 1 {
		var v uint32 // proto3 default when absent
		for _, n := range nodes {
			if n.num == num && n.typ == protowire.VarintType {
				v = uint32(n.val) // protobuf-go truncates to the field width; last one wins
			}
		}
		*out = append(*out, v)
		return true
	}
	var occ []*c19Node
	for _, n := range nodes {
		if n.num == num && n.typ == protowire.BytesType {
			if !n.isMsg && len(n.raw) > 0 {
				return false // not parseable by this parser: cannot judge
			}
			occ = append(occ, n)
		}
	}
	switch mode {
	case '*':
		for _, n := range occ {
			if !c19IndexEval(n.kids, comps[1:], out) {
				return false
			}
		}
		return true
	case '!':
		var kids []*c19Node
		if len(occ) > 0 {
			kids = occ[len(occ)-1].kids
		}
		return c19IndexEval(kids, comps[1:], out)
	default:
		var kids []*c19Node
		for _, n := range occ {
			kids = append(kids, n.kids...)
		}
		return c19IndexEval(kids, comps[1:], out)
	}
}

// ---------------------------------------------------------------------------
// canonical deep rendering (equality oracle for round trips)

func c19Open(v reflect.Value) reflect.Value {
	if !v.IsValid() || v.CanInterface() {
		return v
	}
	if v.CanAddr() {
		return reflect.NewAt(v.Type(), unsafe.Pointer(v.UnsafeAddr())).Elem()
	}
	return v
}

type c19XY interface {
	X() *big.Int
	Y() *big.Int
}

type c19RawMarshaler interface{ Marshal() []byte }

// c19Canon renders any value canonically: big integers by value, curve points
// and ephemeral keys by their own serialisation, times as instants, nil and
// empty slices/maps alike, map entries sorted.
func c19Canon(v interface{}) string {
	var sb strings.Builder
	c19CanonValue(&sb, reflect.ValueOf(v), 0)
	return sb.String()
}

func c19CanonValue(sb *strings.Builder, v reflect.Value, depth int) {
	v = c19Open(v)
	if !v.IsValid() {
		sb.WriteString("invalid")
		return
	}
	if depth > 40 {
		sb.WriteString("...")
		return
	}
	if v.CanInterface() {
		isNilPtr := (v.Kind() == reflect.Ptr || v.Kind() == reflect.Interface || v.Kind() == reflect.Map || v.Kind() == reflect.Slice) && v.IsNil()
		if !isNilPtr {
			switch x := v.Interface().(type) {
			case *big.Int:
				sb.WriteString("big:" + x.Text(16))
				return
			case big.Int:
				sb.WriteString("big:" + x.Text(16))
				return
			case time.Time:
				sb.WriteString("time:" + x.UTC().Format(time.RFC3339Nano))
				return
			case elliptic.Curve:
				sb.WriteString("curve:" + x.Params().Name)
				return
			case c19XY:
				if v.Kind() == reflect.Ptr {
					sb.WriteString("pt(" + c19BigStr(x.X()) + "," + c19BigStr(x.Y()) + ")")
					return
				}
			case c19RawMarshaler:
				if v.Kind() == reflect.Ptr {
					sb.WriteString("m:" + verifkit.Hex(x.Marshal()))
					return
				}
			}
		} else if v.Kind() == reflect.Ptr || v.Kind() == reflect.Interface {
			sb.WriteString("nil")
			return
		}
	}
	switch v.Kind() {
	case reflect.Bool:
		fmt.Fprintf(sb, "%v", v.Bool())
	case reflect.Int, reflect.Int8, reflect.Int16, reflect.Int32, reflect.Int64:
		fmt.Fprintf(sb, "%d", v.Int())
	case reflect.Uint, reflect.Uint8, reflect.Uint16, reflect.Uint32, reflect.Uint64, reflect.Uintptr:
		fmt.Fprintf(sb, "%d", v.Uint())
	case reflect.Float32, reflect.Float64:
		fmt.Fprintf(sb, "%v", v.Float())
	case reflect.String:
		fmt.Fprintf(sb, "%q", v.String())
	case reflect.Slice, reflect.Array:
		if v.Type().Elem().Kind() == reflect.Uint8 {
			sb.WriteString("0x")
			for i := 0; i < v.Len(); i++ {
				fmt.Fprintf(sb, "%02x", v.Index(i).Uint())
			}
			return
		}
		sb.WriteString("[")
		for i := 0; i < v.Len(); i++ {
			if i > 0 {
				sb.WriteString(",")
			}
			c19CanonValue(sb, v.Index(i), depth+1)
		}
		sb.WriteString("]")
	case reflect.Map:
		type kv struct{ k, v string }
		var kvs []kv
		it := v.MapRange()
		for it.Next() {
			var kb, vb strings.Builder
			c19CanonValue(&kb, it.Key(), depth+1)
			c19CanonValue(&vb, it.Value(), depth+1)
			kvs = append(kvs, kv{kb.String(), vb.String()})
		}
		sort.Slice(kvs, func(i, j int) bool { return kvs[i].k < kvs[j].k })
		sb.WriteString("{")
		for i, e := range kvs {
			if i > 0 {
				sb.WriteString(",")
			}
			sb.WriteString(e.k + ":" + e.v)
		}
		sb.WriteString("}")
	case reflect.Ptr:
		if v.IsNil() {
			sb.WriteString("nil")
			return
		}
		sb.WriteString("&")
		c19CanonValue(sb, v.Elem(), depth+1)
	case reflect.Interface:
		if v.IsNil() {
			sb.WriteString("nil")
			return
		}
		sb.WriteString("<" + v.Elem().Type().String() + ">")
		c19CanonValue(sb, v.Elem(), depth+1)
	case reflect.Struct:
		sb.WriteString("{")
		for i := 0; i < v.NumField(); i++ {
			if i > 0 {
				sb.WriteString(",")
			}
			sb.WriteString(v.Type().Field(i).Name + "=")
			c19CanonValue(sb, v.Field(i), depth+1)
		}
		sb.WriteString("}")
	default:
		sb.WriteString(v.Kind().String())
	}
}

func c19BigStr(x *big.Int) string {
	if x == nil {
		return "nil"
	}
	return x.Text(16)
}

// ---------------------------------------------------------------------------
// small generators shared by the per-package value generators

func c19Bytes(rng *rand.Rand, min, max int) []byte {
	n := min
	if max > min {
		n += rng.Intn(max - min + 1)
	}
	b := make([]byte, n)
	rng.Read(b)
	return b
}

func c19String(rng *rand.Rand) string {
	switch rng.Intn(6) {
	case 0:
		return ""
	case 1:
		return "session-" + strconv.Itoa(rng.Intn(1000))
	case 2:
		return "żółć-☃-" + strconv.Itoa(rng.Intn(10))
	}
	const al = "abcdefghijklmnopqrstuvwxyzABCDEF0123456789-_/ "
	n := 1 + rng.Intn(40)
	b := make([]byte, n)
	for i := range b {
		b[i] = al[rng.Intn(len(al))]
	}
	return string(b)
}

// c19Index returns a member index; 0, 1 and 255 are over-represented.
func c19Index(rng *rand.Rand) uint8 {
	switch rng.Intn(8) {
	case 0:
		return 0
	case 1:
		return 1
	case 2:
		return 255
	}
	return uint8(rng.Intn(256))
}

// c19Size is a collection size: the first values (used as damage bases) are
// never empty.
func c19Size(rng *rand.Rand, i, max int) int {
	if i < 8 {
		return 1 + i%3
	}
	return rng.Intn(max + 1)
}

func c19BigInt(rng *rand.Rand, maxBytes int) *big.Int {
	if rng.Intn(8) == 0 {
		return new(big.Int)
	}
	return new(big.Int).SetBytes(c19Bytes(rng, 1, maxBytes))
}

func c19RandomInput(rng *rand.Rand) []byte {
	var n int
	switch x := rng.Intn(100); {
	case x < 25:
		n = rng.Intn(9)
	case x < 70:
		n = 8 + rng.Intn(57)
	case x < 95:
		n = 64 + rng.Intn(449)
	default:
		n = 512 + rng.Intn(3585)
	}
	b := make([]byte, n)
	rng.Read(b)
	return b
}

func c19ByteMutate(rng *rand.Rand, base []byte) []byte {
	b := append([]byte(nil), base...)
	for k := 1 + rng.Intn(3); k > 0; k-- {
		if len(b) == 0 {
			b = append(b, byte(rng.Intn(256)))
			continue
		}
		i := rng.Intn(len(b))
		switch rng.Intn(4) {
		case 0:
			b[i] ^= 1 << uint(rng.Intn(8))
		case 1:
			b[i] = byte(rng.Intn(256))
		case 2:
			b = append(b[:i], append([]byte{byte(rng.Intn(256))}, b[i:]...)...)
		case 3:
			b = append(b[:i], b[i+1:]...)
		}
	}
	return b
}

// ---------------------------------------------------------------------------
// armed-case marker. verifkit's Arm re-creates the file on every call, which
// costs milliseconds per case on this file system; the monitor keeps the same
// file (<VERIF_PARTDIR>/<part>.armed, the path the driver reads) open instead.
// r.Disarm() at the end removes it.

type c19Armer struct {
	f *os.File
}

func c19NewArmer(part string) *c19Armer {
	dir := os.Getenv("VERIF_PARTDIR")
	if dir == "" {
		return &c19Armer{}
	}
	f, err := os.OpenFile(dir+"/"+part+".armed", os.O_CREATE|os.O_WRONLY|os.O_TRUNC, 0o644)
	if err != nil {
		return &c19Armer{}
	}
	return &c19Armer{f: f}
}

func (a *c19Armer) arm(desc string) {
	if a.f == nil {
		return
	}
	_ = a.f.Truncate(0)
	_, _ = a.f.WriteAt([]byte(desc), 0)
}

func (a *c19Armer) close() {
	if a.f != nil {
		_ = a.f.Close()
		a.f = nil
	}
}

// c19Normalize makes a base encoding independent of Go's map iteration order
// (proto.Marshal emits map entries in random order): runs of adjacent fields
// with the same number are sorted by their encoding, recursively.
func c19Normalize(nodes []*c19Node) {
	for _, n := range nodes {
		if n.isMsg {
			c19Normalize(n.kids)
			n.raw = c19Emit(nil, n.kids)
		}
	}
	for i := 0; i < len(nodes); {
		j := i
		for j < len(nodes) && nodes[j].num == nodes[i].num && nodes[j].typ == nodes[i].typ {
			j++
		}
		run := nodes[i:j]
		sort.SliceStable(run, func(a, b int) bool {
			return string(c19EmitNode(nil, run[a])) < string(c19EmitNode(nil, run[b]))
		})
		i = j
	}
}

// ---------------------------------------------------------------------------
// runner

type c19Runner struct {
	r      *verifkit.Run
	pkg    string
	dec    *c19Decoder
	prefix string
	sample int
	armer  *c19Armer
	ring   []*c19Kept // the last accepted decoded values, oldest first
}

// c19Kept is an earlier accepted result, remembered together with its
// rendering taken right after its decode.
type c19Kept struct {
	val   c19Codec
	canon string
	desc  string
}

const c19RingSize = 3

// keep remembers an accepted decoded value.
func (c *c19Runner) keep(w c19Codec, canon, desc string) {
	if len(c.ring) >= c19RingSize {
		c.ring = append(c.ring[:0], c.ring[1:]...)
	}
	c.ring = append(c.ring, &c19Kept{w, canon, desc})
}

// checkRing re-renders the remembered earlier results after a later decode
// (accepted or rejected): they must not have changed.
func (c *c19Runner) checkRing(later string) {
	for _, k := range c.ring {
		var now string
		if c.r.Guard(c.prefix, "re-rendering earlier result: "+k.desc, func() { now = c19Canon(k.val) }) {
			continue
		}
		c.r.Count("earlier_results_rechecked", 1)
		if now != k.canon {
			c.r.Violation(c.prefix+"earlier-result-changed-by-later-decode",
				"a value decoded earlier (into its own fresh receiver) renders differently after a later decode of the same decoder: decoded values share mutable state",
				"earlier: "+k.desc+" || later: "+later,
				map[string]string{"earlier_before": c19Clip(k.canon), "earlier_after": c19Clip(now)})
			k.canon = now
		}
	}
}

func c19Short(b []byte) string {
	h := sha256.Sum256(b)
	return fmt.Sprintf("len=%d sha=%x", len(b), h[:6])
}

// c19CrossCheck compares the table with the Unmarshal methods declared in
// the source files (read from the package directory, the test's cwd).
func c19CrossCheck(r *verifkit.Run, decs []c19Decoder) {
	re := regexp.MustCompile(`(?m)^func \(\s*\w*\s*\*?(\w+)\) Unmarshal\(`)
	byFile := map[string]map[string]bool{}
	var files []string
	for _, d := range decs {
		if byFile[d.File] == nil {
			byFile[d.File] = map[string]bool{}
			files = append(files, d.File)
		}
		if byFile[d.File][d.Type] {
			r.Inconclusive("decoder table lists " + d.Type + " twice")
		}
		byFile[d.File][d.Type] = true
	}
	for _, f := range files {
		src, err := os.ReadFile(f)
		if err != nil {
			r.Inconclusive(fmt.Sprintf("cannot read %s for the decoder cross-check: %v", f, err))
			continue
		}
		found := map[string]bool{}
		for _, m := range re.FindAllStringSubmatch(string(src), -1) {
			found[m[1]] = true
		}
		r.Count("decoders_in_source", int64(len(found)))
		for t := range found {
			if !byFile[f][t] {
				r.Inconclusive(fmt.Sprintf("decoder %s.Unmarshal in %s is missing from the C19 table", t, f))
			}
		}
		for t := range byFile[f] {
			if !found[t] {
				r.Inconclusive(fmt.Sprintf("C19 table lists %s but %s declares no such Unmarshal", t, f))
			}
		}
	}
	r.Count("decoders_in_table", int64(len(decs)))
}

// c19Run is the whole per-package monitor.
func c19Run(r *verifkit.Run, pkg string, decs []c19Decoder) {
	r.SetRule("per decoder: generated values round-tripped (counted apart, trivial); uniform random bytes; byte-level mutations of valid encodings; structure-aware damage of valid encodings parsed with protowire (per field path: drop, duplicate, wire-type swap, varint -> 0/1/255/256/2^32/2^32+1/2^63/2^64-1, empty, truncate, oversize length, zero/0xff fill, nest one level deeper, append) — all single damages, sampled pairs, prefix cuts. non-trivial = input is not the encoding of a generated value")
	r.Assume("protowire (google.golang.org/protobuf) parses/re-emits the wire format correctly; the monitor's reading of the .proto field numbers for member-index paths")
	c19CrossCheck(r, decs)
	armer := c19NewArmer(r.Part)
	for i := range decs {
		c := &c19Runner{r: r, pkg: pkg, dec: &decs[i], prefix: "decode:" + pkg + "." + decs[i].Type + ":", armer: armer}
		t0 := time.Now()
		c.run(i)
		r.Count("ms_"+decs[i].Type, time.Since(t0).Milliseconds()) // informational only
	}
	armer.close()
	r.Disarm()
}

func (c *c19Runner) run(di int) {
	r, d := c.r, c.dec
	nRT := r.N(50, 500)
	nBases := r.N(3, 6)
	nRandom := r.N(200, 20000)
	nMut := r.N(150, 5000)
	nPairs := r.N(250, 7000)
	maxSingles := r.N(2500, 1 << 30)

	// ---- (a) round trips
	var bases [][]byte
	rng := r.Rand("values/" + d.Type)
	for i := 0; i < nRT; i++ {
		var v c19Codec
		var enc []byte
		var err error
		desc := fmt.Sprintf("%s roundtrip #%d", d.Type, i)
		c.armer.arm(desc)
		if r.Guard(c.prefix+"gen:", desc, func() { v = d.Gen(rng, i) }) {
			r.Inconclusive("value generator panicked for " + d.Type)
			return
		}
		want := c19Canon(v)
		if r.Guard(c.prefix, desc+" marshal of "+want, func() { enc, err = v.Marshal() }) {
			continue
		}
		if err != nil {
			r.Violation(c.prefix+"roundtrip-marshal-error", "Marshal of a generated valid value failed: "+err.Error(), desc, want)
			continue
		}
		desc += " hex=" + verifkit.Hex(enc)
		w := d.New()
		if r.Guard(c.prefix, desc, func() { err = w.Unmarshal(enc) }) {
			continue
		}
		r.Case(fmt.Sprintf("%s roundtrip #%d %s", d.Type, i, c19Short([]byte(want))), false)
		r.Count("round_trips", 1)
		c.checkRing(desc)
		if err != nil {
			r.Violation(c.prefix+"roundtrip-decode-error", "decode(encode(v)) failed: "+err.Error(), desc, want)
			continue
		}
		if got := c19Canon(w); got != want {
			r.Violation(c.prefix+"roundtrip-mismatch", "decode(encode(v)) != v", desc, map[string]string{"want": c19Clip(want), "got": c19Clip(got)})
			continue
		}
		c.keep(w, want, desc)
		c.use(w, desc)
		if len(bases) < nBases && !(len(enc) > 2048 && len(bases) >= (nBases+2)/3) {
			// damage bases (fewer for multi-kilobyte encodings, whose
			// generated values all share one structure): the encoding with map entries in a fixed order
			if tree, ok := c19Parse(enc, "", 0); ok {
				c19Normalize(tree)
				enc = c19Emit(nil, tree)
			}
			bases = append(bases, enc)
		}
	}
	if len(bases) == 0 {
		r.Inconclusive("no valid base encoding for " + d.Type)
		return
	}

	// ---- targeted interleaving: decode(encode(v1)), decode(encode(v2)) with
	// v1 != v2 of the same kind, then v1's result must still render as v1
	c.interleave(r.N(20, 300))

	// ---- (b) arbitrary bytes
	rb := r.Rand("random/" + d.Type)
	c.probe([]byte{}, "random-bytes", "empty")
	for i := 0; i < nRandom; i++ {
		c.probe(c19RandomInput(rb), "random-bytes", "")
	}
	// ---- byte-level mutations of valid encodings
	rm := r.Rand("mutate/" + d.Type)
	for i := 0; i < nMut; i++ {
		bi := i % len(bases)
		c.probe(c19ByteMutate(rm, bases[bi]), "byte-mutation", fmt.Sprintf("base=%d", bi))
	}

	// ---- (c) structure-aware damage
	rp := r.Rand("damage/" + d.Type)
	for bi, base := range bases {
		tree, ok := c19Parse(base, "", 0)
		if !ok {
			r.Inconclusive(fmt.Sprintf("valid encoding of %s does not parse with protowire", d.Type))
			continue
		}
		flat := c19Flatten(tree, nil)
		// prefix cuts
		cuts := map[int]bool{}
		for _, k := range []int{1, len(base) / 4, len(base) / 2, 3 * len(base) / 4, len(base) - 1} {
			if k > 0 && k < len(base) {
				cuts[k] = true
			}
		}
		off := 0
		for i, n := range tree {
			if i > 12 {
				break
			}
			off += len(c19EmitNode(nil, n))
			if off+1 < len(base) {
				cuts[off+1] = true
			}
		}
		var ks []int
		for k := range cuts {
			ks = append(ks, k)
		}
		sort.Ints(ks)
		for _, k := range ks {
			c.probe(base[:k], "cut", fmt.Sprintf("base=%d cut@%d/%d", bi, k, len(base)))
		}
		if len(flat) == 0 {
			continue // empty encoding: nothing to damage structurally
		}
		// all single damages (sub-sampled only if absurdly many)
		type single struct {
			ni int
			d  c19Damage
		}
		var singles []single
		for ni, n := range flat {
			for _, dm := range c19DamagesFor(n) {
				singles = append(singles, single{ni, dm})
			}
		}
		if len(singles) > maxSingles {
			rp.Shuffle(len(singles), func(i, j int) { singles[i], singles[j] = singles[j], singles[i] })
			singles = singles[:maxSingles]
			r.Count("singles_subsampled", 1)
		}
		for _, s := range singles {
			n := flat[s.ni]
			n.dmg, n.arg = s.d.kind, s.d.arg
			in := c19Emit(nil, tree)
			c19Reset(flat)
			c.probe(in, "single", fmt.Sprintf("base=%d %s@%s#%d", bi, s.d, n.cls, s.ni))
		}
		r.Count("single_damages", int64(len(singles)))
		// sampled pairs
		if len(flat) >= 2 {
			for k := 0; k < nPairs/len(bases)+1; k++ {
				i, j := rp.Intn(len(flat)), rp.Intn(len(flat))
				if i == j {
					continue
				}
				di, dj := c19DamagesFor(flat[i]), c19DamagesFor(flat[j])
				a, b := di[rp.Intn(len(di))], dj[rp.Intn(len(dj))]
				flat[i].dmg, flat[i].arg = a.kind, a.arg
				flat[j].dmg, flat[j].arg = b.kind, b.arg
				in := c19Emit(nil, tree)
				c19Reset(flat)
				c.probe(in, "pair", fmt.Sprintf("base=%d %s@%s#%d+%s@%s#%d", bi, a, flat[i].cls, i, b, flat[j].cls, j))
				r.Count("pair_damages", 1)
			}
		}
	}
}

func c19Clip(s string) string {
	if len(s) > 1500 {
		return s[:1500] + "…"
	}
	return s
}

// use calls the accessor set on a value the decoder accepted.
func (c *c19Runner) use(w c19Codec, desc string) {
	rv := reflect.ValueOf(w)
	rt := rv.Type()
	for i := 0; i < rt.NumMethod(); i++ {
		m := rt.Method(i)
		if m.Type.NumIn() != 1 || m.Name == "Marshal" || m.Name == "Unmarshal" {
			continue
		}
		skip := false
		for _, s := range c.dec.SkipAccessors {
			if s == m.Name {
				skip = true
			}
		}
		if skip {
			continue
		}
		c.r.Guard(c.prefix, desc+" accessor="+m.Name, func() { rv.Method(i).Call(nil) })
	}
	if c.dec.Use != nil {
		c.r.Guard(c.prefix, desc+" accessor=Use", func() { c.dec.Use(w) })
	}
}

// probe feeds one hostile input to the decoder and applies the oracle.
func (c *c19Runner) probe(in []byte, class, spec string) {
	r, d := c.r, c.dec
	short := fmt.Sprintf("%s %s %s %s", d.Type, class, spec, c19Short(in))
	full := short + " hex=" + verifkit.Hex(in)
	c.armer.arm(full)
	w := d.New()
	var err error
	panicked := r.Guard(c.prefix, full, func() { err = w.Unmarshal(in) })
	r.Case(short, true)
	r.Count("inputs_"+class, 1)
	if panicked {
		return
	}
	if c.sample < 2 && class == "single" && (c.sample == 0) == (err != nil) {
		c.sample++
		s := map[string]interface{}{"decoder": c.pkg + "." + d.Type, "input": spec, "hex": c19ClipHex(in), "accepted": err == nil}
		if err != nil {
			s["error"] = c19Clip(err.Error())
		}
		r.Sample(s)
	}
	var canon string
	if err == nil && r.Guard(c.prefix, full+" step=canon", func() { canon = c19Canon(w) }) {
		return
	}
	c.checkRing(full)
	if err != nil {
		r.Count("rejected", 1)
		return
	}
	r.Count("accepted", 1)
	c.keep(w, canon, full)

	// member indices carried by the accepted input
	if len(d.IndexPaths) > 0 {
		if tree, ok := c19Parse(in, "", 0); ok {
			for _, p := range d.IndexPaths {
				var vals []uint32
				if !c19IndexEval(tree, strings.Split(p, "."), &vals) {
					r.Count("index_check_skipped", 1)
					continue
				}
				for _, v := range vals {
					r.Count("index_values_checked", 1)
					if v > 255 {
						r.Violation(c.prefix+"member-index-overflow",
							fmt.Sprintf("decoder accepted an input whose member index at wire path %s is %d (> 255; a uint8 conversion would silently truncate it)", p, v),
							full, map[string]interface{}{"path": p, "wire_value": v, "decoded": c19Clip(c19Canon(w))})
					} else if v == 0 {
						r.Count("index_zero_accepted", 1)
					}
				}
			}
		} else {
			r.Count("index_check_skipped", 1)
		}
	}

	// other narrowed integer fields carried by the accepted input
	if len(d.Ranges) > 0 {
		if tree, ok := c19Parse(in, "", 0); ok {
			for _, rg := range d.Ranges {
				var vals []uint32
				if !c19IndexEval(tree, strings.Split(rg.Path, "."), &vals) {
					r.Count("range_check_skipped", 1)
					continue
				}
				for _, v := range vals {
					x := int64(v)
					if rg.Signed {
						x = int64(int32(v))
					}
					r.Count("range_values_checked", 1)
					if x < rg.Min || x > rg.Max {
						r.Violation(c.prefix+"field-range-overflow",
							fmt.Sprintf("decoder accepted an input whose field at wire path %s is %d, outside [%d, %d] of the narrower type it is converted to", rg.Path, x, rg.Min, rg.Max),
							full, map[string]interface{}{"path": rg.Path, "wire_value": x, "decoded": c19Clip(c19Canon(w))})
					}
				}
			}
		} else {
			r.Count("range_check_skipped", 1)
		}
	}

	// the accepted value must be usable: re-marshal, accessors, and it must
	// itself round-trip (it is a value of the type)
	var out []byte
	var merr error
	if r.Guard(c.prefix, full+" step=re-marshal", func() { out, merr = w.Marshal() }) {
		return
	}
	c.use(w, full)
	if merr != nil {
		r.Count("accepted_but_marshal_error", 1)
		return
	}
	w2 := d.New()
	var err2 error
	if r.Guard(c.prefix, full+" step=re-decode hex2="+verifkit.Hex(out), func() { err2 = w2.Unmarshal(out) }) {
		return
	}
	c.checkRing(full + " step=re-decode")
	if err2 != nil {
		r.Violation(c.prefix+"accepted-value-reencoding-rejected",
			"decoder accepted the input, Marshal of the decoded value succeeded, but decoding that encoding fails: "+err2.Error(),
			full, map[string]string{"decoded": c19Clip(canon), "reencoded": c19ClipHex(out)})
		return
	}
	var canon2 string
	if r.Guard(c.prefix, full+" step=canon2", func() { canon2 = c19Canon(w2) }) {
		return
	}
	if canon2 != canon {
		r.Violation(c.prefix+"accepted-value-does-not-round-trip",
			"decoder accepted the input but decode(encode(v)) != v for the decoded value v",
			full, map[string]string{"decoded": c19Clip(canon), "after_round_trip": c19Clip(canon2)})
	}
}

func c19ClipHex(b []byte) string {
	h := verifkit.Hex(b)
	if len(h) > 400 {
		return h[:400] + "…"
	}
	return h
}

// interleave decodes pairs of different valid values of the same kind into
// two fresh receivers, one after the other, and requires the first result to
// be unaffected by the second decode (and vice versa with a third decode).
func (c *c19Runner) interleave(n int) {
	r, d := c.r, c.dec
	step := d.Variants
	if step < 1 {
		step = 1
	}
	rng := r.Rand("interleave/" + d.Type)
	for k := 0; k < n; k++ {
		i1 := k
		i2 := k + step*(1+rng.Intn(5))
		var v1, v2 c19Codec
		desc := fmt.Sprintf("%s interleave #%d (value indices %d,%d)", d.Type, k, i1, i2)
		c.armer.arm(desc)
		if r.Guard(c.prefix+"gen:", desc, func() { v1, v2 = d.Gen(rng, i1), d.Gen(rng, i2) }) {
			return
		}
		want1, want2 := c19Canon(v1), c19Canon(v2)
		var e1, e2 []byte
		var err1, err2 error
		if r.Guard(c.prefix, desc+" marshal", func() { e1, err1 = v1.Marshal(); e2, err2 = v2.Marshal() }) || err1 != nil || err2 != nil {
			continue
		}
		desc += " hex1=" + verifkit.Hex(e1) + " hex2=" + verifkit.Hex(e2)
		w1, w2, w3 := d.New(), d.New(), d.New()
		var got1, got1b, got2, got2b string
		var err3 error
		if r.Guard(c.prefix, desc, func() {
			err1 = w1.Unmarshal(e1)
			got1 = c19Canon(w1)
			err2 = w2.Unmarshal(e2)
			got2 = c19Canon(w2)
			got1b = c19Canon(w1)
			err3 = w3.Unmarshal(e1)
			got2b = c19Canon(w2)
		}) {
			continue
		}
		r.Case(fmt.Sprintf("%s interleave #%d %s", d.Type, k, c19Short([]byte(want1+want2))), false)
		r.Count("interleavings", 1)
		if want1 != want2 {
			r.Count("interleavings_distinct_values", 1)
		}
		if err1 != nil || err2 != nil || err3 != nil {
			continue // reported by the round-trip phase
		}
		if got1b != got1 || got1b != want1 || got2b != got2 || got2b != want2 {
			r.Violation(c.prefix+"earlier-result-changed-by-later-decode",
				"decode(e1) into a, decode(e2) into b, decode(e1) into c: a or b no longer renders as the value it was decoded from",
				desc, map[string]string{"v1": c19Clip(want1), "a_right_after": c19Clip(got1), "a_after_b": c19Clip(got1b), "v2": c19Clip(want2), "b_right_after": c19Clip(got2), "b_after_c": c19Clip(got2b)})
		}
		c.checkRing(desc)
	}
}

// c19RaceRun is the body of the ...Race tests: four goroutines decode
// different valid values of the same kind at the same time, each into fresh
// receivers, keep their previous result and re-render it after the next
// decode. Monitor state is per goroutine and merged after Wait, so the only
// synchronisation is the start barrier; decoders that share state show up as
// race reports (driver) and/or as changed renderings (here).
func c19RaceRun(r *verifkit.Run, pkg string, decs []c19Decoder) {
	r.SetRule("4 goroutines concurrently decode generated valid encodings of one kind into fresh receivers and re-render their previous result after each decode; trivial inputs (valid encodings), the deciding signals are race reports in the marshaling files and changed renderings")
	const workers = 4
	iters, reps := r.N(30, 300), r.N(3, 10)
	type job struct {
		enc  []byte
		want string
	}
	for di := range decs {
		d := &decs[di]
		prefix := "decode:" + pkg + "." + d.Type + ":"
		step := d.Variants
		if step < 1 {
			step = 1
		}
		rng := r.Rand("race/" + d.Type)
		nrep := reps
		if nrep < step {
			nrep = step // every kind at least once
		}
		for rep := 0; rep < nrep; rep++ {
			variant := rep % step
			jobs := make([][]job, workers)
			ok := true
			for g := 0; g < workers && ok; g++ {
				for k := 0; k < iters; k++ {
					var v c19Codec
					var enc []byte
					var err error
					idx := variant + step*(8+rng.Intn(1000))
					if r.Guard(prefix+"gen:", "race value generation", func() { v = d.Gen(rng, idx); enc, err = v.Marshal() }) || err != nil {
						ok = false
						break
					}
					jobs[g] = append(jobs[g], job{enc, c19Canon(v)})
				}
			}
			if !ok {
				r.Inconclusive("cannot generate values for the concurrent decode of " + d.Type)
				break
			}
			type slot struct {
				bad      []string
				panicked bool
				done     int
			}
			slots := make([]slot, workers)
			start := make(chan struct{})
			doneCh := make(chan int, workers)
			for g := 0; g < workers; g++ {
				go func(g int) {
					defer func() { doneCh <- g }()
					<-start
					var prev c19Codec
					var prevWant string
					for k, jb := range jobs[g] {
						jb := jb
						if r.Guard(prefix, fmt.Sprintf("%s concurrent decode rep=%d g=%d k=%d hex=%s", d.Type, rep, g, k, verifkit.Hex(jb.enc)), func() {
							w := d.New()
							if err := w.Unmarshal(jb.enc); err != nil {
								slots[g].bad = append(slots[g].bad, fmt.Sprintf("g=%d k=%d decode error %v hex=%s", g, k, err, verifkit.Hex(jb.enc)))
								return
							}
							if got := c19Canon(w); got != jb.want {
								slots[g].bad = append(slots[g].bad, fmt.Sprintf("g=%d k=%d fresh result differs from the encoded value hex=%s", g, k, verifkit.Hex(jb.enc)))
							}
							if prev != nil {
								if now := c19Canon(prev); now != prevWant {
									slots[g].bad = append(slots[g].bad, fmt.Sprintf("g=%d k=%d previous result changed after this decode hex=%s", g, k, verifkit.Hex(jb.enc)))
								}
							}
							prev, prevWant = w, jb.want
						}) {
							slots[g].panicked = true
						}
						slots[g].done++
					}
				}(g)
			}
			close(start)
			for g := 0; g < workers; g++ {
				<-doneCh
			}
			for g := range slots {
				r.Count("concurrent_decodes", int64(slots[g].done))
				for _, b := range slots[g].bad {
					r.Violation(prefix+"earlier-result-changed-by-later-decode",
						"concurrent decodes into fresh receivers interfere: "+c19Clip(b), fmt.Sprintf("%s concurrent rep=%d %s", d.Type, rep, b), nil)
				}
			}
			r.Case(fmt.Sprintf("%s concurrent rep=%d variant=%d x%d goroutines x%d decodes", d.Type, rep, variant, workers, iters), false)
		}
	}
}
