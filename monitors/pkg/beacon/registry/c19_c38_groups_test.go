//go:build verif

package registry

import (
	"bytes"
	"crypto/sha256"
	"encoding/hex"
	"fmt"
	"math/big"
	"math/rand"
	"os"
	"runtime"
	"sort"
	"strings"
	"testing"

	bn256 "github.com/ethereum/go-ethereum/crypto/bn256/cloudflare"
	"github.com/keep-network/keep-common/pkg/persistence"
	"google.golang.org/protobuf/proto"

	"github.com/keep-network/keep-core/internal/testutils"
	"github.com/keep-network/keep-core/internal/verifkit"
	"github.com/keep-network/keep-core/pkg/beacon/dkg"
	"github.com/keep-network/keep-core/pkg/beacon/event"
	"github.com/keep-network/keep-core/pkg/beacon/registry/gen/pb"
	"github.com/keep-network/keep-core/pkg/chain"
	"github.com/keep-network/keep-core/pkg/protocol/group"
	"github.com/keep-network/keep-core/pkg/subscription"
)

// ---------------------------------------------------------------------------
// C38 (beacon part) — the group registry survives restarts and crash points.
// Same construction as the tbtc part: real disk persistence in a scratch
// directory, a fault layer that mirrors successful storage calls into a
// reference disk model and can crash the calling goroutine (runtime.Goexit)
// before/after the storage call with a chosen index; restart = new registry +
// LoadExistingGroups over the same directory.
// ---------------------------------------------------------------------------

type c38Disk map[string]map[string][]byte

func (d c38Disk) clone() c38Disk {
	o := c38Disk{}
	for k, v := range d {
		o[k] = map[string][]byte{}
		for n, b := range v {
			o[k][n] = b
		}
	}
	return o
}

func (d c38Disk) equal(o c38Disk) bool {
	if len(d) != len(o) {
		return false
	}
	for k, v := range d {
		ov, ok := o[k]
		if !ok || len(ov) != len(v) {
			return false
		}
		for n, b := range v {
			if !c38SameMembership(ov[n], b) {
				return false
			}
		}
	}
	return true
}

func (d c38Disk) describe() map[string][]string {
	out := map[string][]string{}
	for k, v := range d {
		var names []string
		for n, b := range v {
			names = append(names, fmt.Sprintf("%s#%s", n, c38MembershipDigest(b)))
		}
		sort.Strings(names)
		out[k[:12]] = names
	}
	return out
}

// c38Decode splits marshalled membership bytes into channel name and signer
// message (protobuf map fields are not marshalled in a fixed order, so bytes
// are compared after decoding).
func c38Decode(b []byte) (*pb.Membership, *pb.ThresholdSigner, error) {
	var m pb.Membership
	if err := proto.Unmarshal(b, &m); err != nil {
		return nil, nil, err
	}
	var s pb.ThresholdSigner
	if err := proto.Unmarshal(m.Signer, &s); err != nil {
		return nil, nil, err
	}
	return &m, &s, nil
}

func c38SameMembership(a, b []byte) bool {
	ma, sa, err1 := c38Decode(a)
	mb, sb, err2 := c38Decode(b)
	if err1 != nil || err2 != nil {
		return false
	}
	return ma.Channel == mb.Channel && proto.Equal(sa, sb)
}

func c38MembershipDigest(b []byte) string {
	m, s, err := c38Decode(b)
	if err != nil {
		return "undecodable"
	}
	h := sha256.New()
	fmt.Fprintf(h, "%s|%d|%x|%s|%v|", m.Channel, s.MemberIndex, s.GroupPublicKey, s.GroupPrivateKeyShare, s.GroupOperators)
	ids := make([]int, 0, len(s.GroupPublicKeyShares))
	for id := range s.GroupPublicKeyShares {
		ids = append(ids, int(id))
	}
	sort.Ints(ids)
	for _, id := range ids {
		fmt.Fprintf(h, "%d=%x|", id, s.GroupPublicKeyShares[uint32(id)])
	}
	return hex.EncodeToString(h.Sum(nil)[:4])
}

type c38Fault struct {
	calls      int
	crashAt    int
	crashAfter bool
	crashed    bool
	crashedIn  string
	disk       c38Disk
	trace      []string
}

type c38Store struct {
	inner persistence.ProtectedHandle
	f     *c38Fault
}

func (s *c38Store) point(kind string, real func() error, mirror func()) error {
	idx := s.f.calls
	s.f.calls++
	if idx == s.f.crashAt && !s.f.crashAfter {
		s.f.crashed, s.f.crashedIn = true, "before "+kind
		s.f.trace = append(s.f.trace, fmt.Sprintf("#%d CRASH before %s", idx, kind))
		runtime.Goexit()
	}
	err := real()
	if err == nil {
		mirror()
	}
	s.f.trace = append(s.f.trace, fmt.Sprintf("#%d %s err=%v", idx, kind, err))
	if idx == s.f.crashAt && s.f.crashAfter {
		s.f.crashed, s.f.crashedIn = true, "after "+kind
		s.f.trace = append(s.f.trace, fmt.Sprintf("#%d CRASH after %s", idx, kind))
		runtime.Goexit()
	}
	return err
}

func (s *c38Store) Save(data []byte, directory string, name string) error {
	return s.point("Save("+directory[:8]+name+")",
		func() error { return s.inner.Save(data, directory, name) },
		func() {
			if s.f.disk[directory] == nil {
				s.f.disk[directory] = map[string][]byte{}
			}
			s.f.disk[directory][name] = append([]byte(nil), data...)
		})
}

func (s *c38Store) Archive(directory string) error {
	return s.point("Archive("+directory[:8]+")",
		func() error { return s.inner.Archive(directory) },
		func() { delete(s.f.disk, directory) })
}

func (s *c38Store) Snapshot(data []byte, directory string, name string) error {
	return s.point("Snapshot", func() error { return s.inner.Snapshot(data, directory, name) }, func() {})
}

func (s *c38Store) ReadAll() (<-chan persistence.DataDescriptor, <-chan error) {
	idx := s.f.calls
	s.f.calls++
	if idx == s.f.crashAt && !s.f.crashAfter {
		s.f.crashed, s.f.crashedIn = true, "before ReadAll"
		s.f.trace = append(s.f.trace, fmt.Sprintf("#%d CRASH before ReadAll", idx))
		runtime.Goexit()
	}
	dc, ec := s.inner.ReadAll()
	s.f.trace = append(s.f.trace, fmt.Sprintf("#%d ReadAll", idx))
	if idx == s.f.crashAt && s.f.crashAfter {
		s.f.crashed, s.f.crashedIn = true, "after ReadAll"
		s.f.trace = append(s.f.trace, fmt.Sprintf("#%d CRASH after ReadAll", idx))
		go func() {
			for range dc {
			}
		}()
		go func() {
			for range ec {
			}
		}()
		runtime.Goexit()
	}
	return dc, ec
}

// c38Chain says which groups are stale.
type c38Chain struct {
	stale map[string]bool // hex of the uncompressed group public key
}

func (c *c38Chain) OnGroupRegistered(func(*event.GroupRegistration)) subscription.EventSubscription {
	panic("c38: not used")
}
func (c *c38Chain) IsGroupRegistered([]byte) (bool, error) { panic("c38: not used") }
func (c *c38Chain) IsStaleGroup(pk []byte) (bool, error) {
	return c.stale[hex.EncodeToString(pk)], nil
}

// ---- key material ------------------------------------------------------------

type c38Keys struct {
	groupKeys []*bn256.G2 // groups 0..2 plus one never registered
	dirs      []string    // storage directory of each group (hex of the compressed key)
	signers   map[[3]int]*dkg.ThresholdSigner
	bytes     map[[3]int][]byte
	channels  map[[3]int]string
}

func c38BuildKeys() (*c38Keys, error) {
	k := &c38Keys{signers: map[[3]int]*dkg.ThresholdSigner{}, bytes: map[[3]int][]byte{}, channels: map[[3]int]string{}}
	for g := 0; g < 4; g++ {
		k.groupKeys = append(k.groupKeys, new(bn256.G2).ScalarBaseMult(big.NewInt(int64(7777+31*g))))
	}
	for g := 0; g < 4; g++ {
		probe := dkg.NewThresholdSigner(1, k.groupKeys[g], big.NewInt(1), nil, nil)
		k.dirs = append(k.dirs, hex.EncodeToString(probe.GroupPublicKeyBytesCompressed()))
	}
	for g := 0; g < 3; g++ {
		ops := []chain.Address{}
		for i := 0; i < 3+g; i++ {
			ops = append(ops, chain.Address(fmt.Sprintf("0xg%dop%d", g, i%3)))
		}
		shares := map[group.MemberIndex]*bn256.G2{}
		for i := 1; i <= 2; i++ {
			shares[group.MemberIndex(i)] = new(bn256.G2).ScalarBaseMult(big.NewInt(int64(100*g + i)))
		}
		for m := 1; m <= 3; m++ {
			for v := 0; v < 2; v++ {
				share := new(big.Int).Lsh(big.NewInt(int64(1+1000*g+10*m+v)), uint(20*v+g))
				s := dkg.NewThresholdSigner(group.MemberIndex(m), k.groupKeys[g], share, shares, ops)
				ch := fmt.Sprintf("channel-g%d-v%d", g, v)
				b, err := (&Membership{Signer: s, ChannelName: ch}).Marshal()
				if err != nil {
					return nil, err
				}
				k.signers[[3]int{g, m, v}] = s
				k.bytes[[3]int{g, m, v}] = b
				k.channels[[3]int{g, m, v}] = ch
			}
		}
	}
	return k, nil
}

// ---- operations --------------------------------------------------------------

type c38Op struct {
	Kind    string
	Group   int
	Member  int
	Variant int
	Stale   []int // unregister: which groups the chain reports as stale
	Latest  int   // unregister: the latest group (never checked / archived)
}

func (o c38Op) String() string {
	switch o.Kind {
	case "register":
		return fmt.Sprintf("reg(g%d,m%d,v%d)", o.Group, o.Member, o.Variant)
	case "unregister-stale":
		return fmt.Sprintf("unreg(stale=%v,latest=g%d)", o.Stale, o.Latest)
	}
	return o.Kind
}

func c38GenSequence(rng *rand.Rand) []c38Op {
	n := 2 + rng.Intn(7)
	var ops []c38Op
	var registered [][2]int
	for len(ops) < n {
		switch x := rng.Intn(100); {
		case x < 55:
			o := c38Op{Kind: "register", Group: rng.Intn(3), Member: 1 + rng.Intn(3), Variant: rng.Intn(2)}
			if len(registered) > 0 && rng.Intn(4) == 0 {
				p := registered[rng.Intn(len(registered))]
				o.Group, o.Member = p[0], p[1]
			}
			registered = append(registered, [2]int{o.Group, o.Member})
			ops = append(ops, o)
		case x < 80:
			o := c38Op{Kind: "unregister-stale", Latest: rng.Intn(4)}
			for g := 0; g < 4; g++ {
				if rng.Intn(2) == 0 {
					o.Stale = append(o.Stale, g)
				}
			}
			ops = append(ops, o)
		default:
			ops = append(ops, c38Op{Kind: "restart"})
		}
	}
	return ops
}

func c38Run(r *verifkit.Run, keys *c38Keys, ops []c38Op, crashAt int, crashAfter bool, desc string, dir string) (calls int, crashFired bool) {
	f := &c38Fault{crashAt: crashAt, crashAfter: crashAfter, disk: c38Disk{}}
	want := c38Disk{}
	chainStub := &c38Chain{stale: map[string]bool{}}
	viol := func(fp, what string, extra interface{}) {
		r.Violation("beacon:"+fp, what, desc, map[string]interface{}{
			"storage_trace": f.trace, "disk_model": f.disk.describe(), "promised": want.describe(), "detail": extra})
	}
	boot := func() *Groups {
		var reg *Groups
		var bootErr error
		done := make(chan struct{})
		go func() {
			defer close(done)
			h, err := persistence.NewProtectedDiskHandle(dir)
			if err != nil {
				bootErr = err
				return
			}
			g := NewGroupRegistry(&testutils.MockLogger{}, chainStub, &c38Store{inner: h, f: f})
			if r.Guard("beacon:", desc, func() { g.LoadExistingGroups() }) {
				bootErr = fmt.Errorf("panic while loading")
				return
			}
			reg = g
		}()
		<-done
		if bootErr != nil {
			viol("restart:error", "the registry could not be loaded from the storage directory: "+bootErr.Error(), nil)
		}
		return reg
	}
	check := func(reg *Groups, when string) {
		if !f.disk.equal(want) {
			viol("operation-not-persisted", when+": an operation that returned left the storage without its promised effect (or with a foreign effect)", nil)
			want = f.disk.clone()
		}
		expectGroups := 0
		for g := 0; g < 4; g++ {
			files := f.disk[keys.dirs[g]]
			if len(files) > 0 {
				expectGroups++
			}
			ms := reg.GetGroup(keys.groupKeys[g].Marshal())
			got := map[string][]byte{}
			for _, m := range ms {
				name := "/membership_" + fmt.Sprint(m.Signer.MemberID())
				b, err := m.Marshal()
				if err != nil {
					viol("restart:key-material-differs", when+": a loaded membership cannot be marshalled: "+err.Error(), name)
					continue
				}
				if _, dup := got[name]; dup {
					viol("restart:duplicate-membership", fmt.Sprintf("%s: group g%d holds member %v twice after the restart", when, g, m.Signer.MemberID()), nil)
				}
				got[name] = b
				if !bytes.Equal(m.Signer.GroupPublicKeyBytes(), keys.groupKeys[g].Marshal()) {
					viol("restart:lookup-disagree", fmt.Sprintf("%s: GetGroup(g%d) returned a membership of another group", when, g), nil)
				}
			}
			for name, b := range files {
				gb, ok := got[name]
				if !ok {
					viol("restart:missing-membership", fmt.Sprintf("%s: membership %s of group g%d is persisted and not archived but unknown after the restart", when, name, g), nil)
					continue
				}
				if !c38SameMembership(gb, b) {
					viol("restart:key-material-differs", fmt.Sprintf("%s: membership %s of group g%d differs from what was persisted", when, name, g), nil)
				}
			}
			for name := range got {
				if _, ok := files[name]; !ok {
					fp := "restart:extra-membership"
					if len(files) == 0 {
						fp = "restart:archived-or-unknown-group-known"
					}
					viol(fp, fmt.Sprintf("%s: membership %s of group g%d is known after the restart but is not in the non-archived storage", when, name, g), nil)
				}
			}
		}
		if n := len(reg.myGroups); n != expectGroups {
			viol("restart:group-count", fmt.Sprintf("%s: the registry knows %d groups, the non-archived storage holds %d", when, n, expectGroups), nil)
		}
	}

	reboot := func(when string) *Groups {
		reg := boot()
		if reg == nil && f.crashed && !crashFired {
			crashFired = true
			f.crashAt = -1
			reg = boot()
			when = "after crash " + f.crashedIn + " during " + when
		}
		if reg != nil {
			check(reg, when)
		}
		return reg
	}

	reg := boot()
	if reg == nil && f.crashed && !crashFired {
		crashFired = true
		f.crashAt = -1
		reg = boot()
		if reg != nil {
			check(reg, "after crash "+f.crashedIn+" during boot")
		}
	}
	if reg == nil {
		return f.calls, crashFired
	}
	for i, op := range ops {
		if op.Kind == "restart" {
			reg = reboot(fmt.Sprintf("the restart at step %d", i))
			if reg == nil {
				return f.calls, crashFired
			}
			continue
		}
		var opErr error
		completed := false
		done := make(chan struct{})
		cur := reg
		// groups in memory before the call (for the promise of unregister)
		switch op.Kind {
		case "register":
			s := keys.signers[[3]int{op.Group, op.Member, op.Variant}]
			ch := keys.channels[[3]int{op.Group, op.Member, op.Variant}]
			go func() {
				defer close(done)
				if r.Guard("beacon:", desc, func() { opErr = cur.RegisterGroup(s, ch) }) {
					return
				}
				completed = true
			}()
		case "unregister-stale":
			chainStub.stale = map[string]bool{}
			for _, g := range op.Stale {
				chainStub.stale[hex.EncodeToString(keys.groupKeys[g].Marshal())] = true
			}
			latest := keys.groupKeys[op.Latest].Marshal()
			go func() {
				defer close(done)
				if r.Guard("beacon:", desc, func() { cur.UnregisterStaleGroups(latest) }) {
					return
				}
				completed = true
			}()
		}
		<-done
		if f.crashed && !crashFired {
			crashFired = true
			f.crashAt = -1
			want = f.disk.clone()
			reg = boot()
			if reg == nil {
				return f.calls, crashFired
			}
			check(reg, fmt.Sprintf("after crash %s in step %d %s", f.crashedIn, i, op))
			continue
		}
		if !completed {
			return f.calls, crashFired
		}
		switch op.Kind {
		case "register":
			if opErr != nil {
				viol("register-error", fmt.Sprintf("step %d %s failed: %v", i, op, opErr), nil)
				want = f.disk.clone()
				continue
			}
			dn := keys.dirs[op.Group]
			if want[dn] == nil {
				want[dn] = map[string][]byte{}
			}
			want[dn][fmt.Sprintf("/membership_%d", op.Member)] = keys.bytes[[3]int{op.Group, op.Member, op.Variant}]
		case "unregister-stale":
			// every known group that is stale and not the latest one is archived
			for _, g := range op.Stale {
				if g != op.Latest {
					delete(want, keys.dirs[g])
				}
			}
		}
	}
	reboot("the final restart")
	return f.calls, crashFired
}

func c38Explore(r *verifkit.Run, nSeq int) {
	keys, err := c38BuildKeys()
	if err != nil {
		r.Inconclusive("cannot build key material: " + err.Error())
		return
	}
	base := r.TmpDir("beacon")
	type job struct {
		seq        int
		ops        []c38Op
		crashAt    int
		crashAfter bool
	}
	counts := make([]int, nSeq)
	seqs := make([][]c38Op, nSeq)
	verifkit.Parallel(nSeq, 0, func(i int) {
		seqs[i] = c38GenSequence(r.SubRand("seq", i))
		desc := fmt.Sprintf("seq#%d %v crash=none", i, seqs[i])
		dir := fmt.Sprintf("%s/s%d-none", base, i)
		_ = os.MkdirAll(dir, 0o755)
		counts[i], _ = c38Run(r, keys, seqs[i], -1, false, desc, dir)
		r.Case(desc, false)
		_ = os.RemoveAll(dir)
	})
	var jobs []job
	for i := range seqs {
		for c := 0; c < counts[i]; c++ {
			jobs = append(jobs, job{i, seqs[i], c, false}, job{i, seqs[i], c, true})
		}
	}
	r.Count("sequences", int64(nSeq))
	r.Count("crash_runs", int64(len(jobs)))
	verifkit.Parallel(len(jobs), 0, func(j int) {
		jb := jobs[j]
		pos := "before"
		if jb.crashAfter {
			pos = "after"
		}
		desc := fmt.Sprintf("seq#%d %v crash=%s-call-%d", jb.seq, jb.ops, pos, jb.crashAt)
		dir := fmt.Sprintf("%s/s%d-%s-%d", base, jb.seq, pos, jb.crashAt)
		_ = os.MkdirAll(dir, 0o755)
		_, fired := c38Run(r, keys, jb.ops, jb.crashAt, jb.crashAfter, desc, dir)
		r.Case(desc, fired)
		if fired {
			r.Count("crashes_fired", 1)
		}
		_ = os.RemoveAll(dir)
		if j%997 == 0 {
			r.Sample(map[string]interface{}{"sequence": strings.Fields(fmt.Sprint(jb.ops)), "crash": fmt.Sprintf("%s storage call %d", pos, jb.crashAt)})
		}
	})
}

const c38Rule = "operation sequences of length 2..8 over 3 groups x 3 member indices x 2 key-share variants (RegisterGroup, re-register an index, UnregisterStaleGroups with a PRNG stale set and latest group, restart) on the real disk persistence; each sequence is run once without a crash and then once per (storage call index, before|after) with the node crashed (runtime.Goexit in the storage layer) at that point, restarted (NewGroupRegistry + LoadExistingGroups over the same directory) and the rest of the sequence continued; after every restart the registry must equal the reference disk model (memberships per group equal after decoding, no extras or duplicates, GetGroup agrees) and every completed operation must be on disk. non-trivial = the run had a crash injected at a storage call and was restarted afterwards"

func TestVerif_C38_BeaconGroups(t *testing.T) {
	r := verifkit.Start(t, "C38", "beacon-groups")
	defer r.Finish()
	r.SetRule(c38Rule)
	c38Explore(r, r.N(120, 5000))
}

func TestVerif_C38_BeaconGroupsRace(t *testing.T) {
	r := verifkit.Start(t, "C38", "beacon-groups-race")
	defer r.Finish()
	r.SetRule("side channel: a prefix of the same sequences and crash points under the Go race detector. " + c38Rule)
	c38Explore(r, r.N(12, 400))
}
