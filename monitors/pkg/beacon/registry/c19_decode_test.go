//go:build verif

package registry

import (
	"math/big"
	"math/rand"
	"testing"

	bn256 "github.com/ethereum/go-ethereum/crypto/bn256/cloudflare"

	"github.com/keep-network/keep-core/internal/verifkit"
	"github.com/keep-network/keep-core/pkg/beacon/dkg"
	"github.com/keep-network/keep-core/pkg/chain"
	"github.com/keep-network/keep-core/pkg/protocol/group"
)

func c19G2(rng *rand.Rand) *bn256.G2 {
	return new(bn256.G2).ScalarBaseMult(new(big.Int).SetBytes(c19Bytes(rng, 1, 32)))
}

func TestVerif_C19_Registry(t *testing.T) {
	r := verifkit.Start(t, "C19", "registry")
	defer r.Finish()
	c19Run(r, "registry", []c19Decoder{
		{
			Type: "Membership", File: "marshalling.go",
			New:  func() c19Codec { return &Membership{} },
			Gen: func(rng *rand.Rand, i int) c19Codec {
				shares := map[group.MemberIndex]*bn256.G2{}
				for n := c19Size(rng, i, 3); n > 0; n-- {
					shares[c19Index(rng)] = c19G2(rng)
				}
				var ops []chain.Address
				for n := c19Size(rng, i, 5); n > 0; n-- {
					ops = append(ops, chain.Address(c19String(rng)))
				}
				return &Membership{
					Signer:      dkg.NewThresholdSigner(c19Index(rng), c19G2(rng), c19BigInt(rng, 32), shares, ops),
					ChannelName: c19String(rng),
				}
			},
			// Signer is a bytes field holding an encoded ThresholdSigner
			IndexPaths: []string{"1!.1", "1!.4*.1"},
			Use: func(v c19Codec) {
				m := v.(*Membership)
				_ = m.Signer.MemberID()
				_ = m.Signer.GroupPublicKeyBytes()
				_ = m.Signer.GroupPublicKeyBytesCompressed()
				_ = m.Signer.GroupPublicKeyShares()
				_ = m.Signer.GroupOperators()
			},
		},
	})
}
