//go:build verif

package registry

import (
	"fmt"
	"runtime"
	"sort"
	"strings"
	"testing"
	"time"

	"github.com/keep-network/keep-common/pkg/persistence"
	"github.com/keep-network/keep-core/internal/testutils"
	"github.com/keep-network/keep-core/internal/verifkit"
)

// c38tLoaderStuck reports whether a goroutine of the registry's load pipeline
// is parked on a channel operation (a state that no amount of CPU time ends).
func c38tLoaderStuck() (bool, string) {
	buf := make([]byte, 1<<20)
	n := runtime.Stack(buf, true)
	var hits []string
	for _, g := range strings.Split(string(buf[:n]), "\n\n") {
		head := strings.SplitN(g, "\n", 2)[0]
		if !strings.Contains(head, "chan send") && !strings.Contains(head, "chan receive") && !strings.Contains(head, "semacquire") {
			continue
		}
		if strings.Contains(g, "registry.(*Groups).LoadExistingGroups") || strings.Contains(g, "registry.(*persistentStorage).readAll") {
			hits = append(hits, head)
		}
	}
	sort.Strings(hits)
	return len(hits) > 0, strings.Join(hits, "; ")
}

// TestVerif_C38_BeaconTornRecord: a crash inside the (non-atomic) storage write
// leaves an empty or cut-short membership record next to intact ones. After the
// restart the node must know exactly the intact memberships; the torn record
// must neither be loaded nor stall or crash the load.
func TestVerif_C38_BeaconTornRecord(t *testing.T) { c38TornRecord(t, "C38") }

// The same workload decides C19's storage clause for beacon memberships: an
// undecodable persisted record is reported as an error (skipped), it never
// crashes or stalls the node, and the decodable records next to it load.
func TestVerif_C19_BeaconStoredGarbage(t *testing.T) { c38TornRecord(t, "C19") }

func c38TornRecord(t *testing.T, prop string) {
	r := verifkit.Start(t, prop, "beacon_torn_record")
	defer r.Finish()
	r.SetRule("real protected disk handle; a PRNG set of memberships (3 groups x 3 member indices) is registered, then a torn record (empty / first half / first 3 bytes / all-but-last-byte of a valid membership encoding) is written for a further member index, as a crash inside the storage write leaves it; the registry is restarted (NewGroupRegistry + LoadExistingGroups) on the same directory and must hold exactly the intact memberships. A load that has not returned after 20 s is judged from two goroutine dumps 1 s apart: load-pipeline goroutines parked on channel operations in both = deadlock (violation), anything else = inconclusive. non-trivial = the torn record sits in the directory of a group that also has intact memberships")
	keys, err := c38BuildKeys()
	if err != nil {
		r.Inconclusive("fixtures: " + err.Error())
		return
	}
	n := r.N(60, 1500)
	stuck := 0
	for i := 0; i < n && stuck < 2; i++ {
		rng := r.SubRand("torn", i)
		dir := r.TmpDir(fmt.Sprintf("torn%d", i))
		h, err := persistence.NewProtectedDiskHandle(dir)
		if err != nil {
			r.Inconclusive("disk handle: " + err.Error())
			return
		}
		chainStub := &c38Chain{stale: map[string]bool{}}
		reg := NewGroupRegistry(&testutils.MockLogger{}, chainStub, h)
		intact := map[[2]int]bool{}
		for g := 0; g < 3; g++ {
			for m := 1; m <= 3; m++ {
				if rng.Intn(2) == 0 {
					if err := reg.RegisterGroup(keys.signers[[3]int{g, m, 0}], keys.channels[[3]int{g, m, 0}]); err != nil {
						r.Inconclusive("RegisterGroup: " + err.Error())
						return
					}
					intact[[2]int{g, m}] = true
				}
			}
		}
		tg := rng.Intn(3)
		tm := 0
		for m := 1; m <= 3; m++ {
			if !intact[[2]int{tg, m}] {
				tm = m
			}
		}
		if tm == 0 {
			tm = 4
		}
		full := keys.bytes[[3]int{tg, 1 + (tm-1)%3, 0}]
		kinds := []string{"empty", "half", "three-bytes", "all-but-last-byte"}
		kind := kinds[rng.Intn(len(kinds))]
		var torn []byte
		switch kind {
		case "half":
			torn = full[:len(full)/2]
		case "three-bytes":
			torn = full[:3]
		case "all-but-last-byte":
			torn = full[:len(full)-1]
		}
		if err := h.Save(torn, keys.dirs[tg], fmt.Sprintf("/membership_%v", tm)); err != nil {
			r.Inconclusive("cannot write the torn record: " + err.Error())
			return
		}
		sameGroup := false
		var in []string
		for k := range intact {
			in = append(in, fmt.Sprintf("g%dm%d", k[0], k[1]))
			if k[0] == tg {
				sameGroup = true
			}
		}
		sort.Strings(in)
		desc := fmt.Sprintf("torn-record intact=%v torn=g%dm%d kind=%s (%d of %d bytes)", in, tg, tm, kind, len(torn), len(full))
		r.Case(desc, sameGroup)
		r.Arm(desc)
		h2, err := persistence.NewProtectedDiskHandle(dir)
		if err != nil {
			r.Inconclusive("disk handle on restart: " + err.Error())
			return
		}
		reg2 := NewGroupRegistry(&testutils.MockLogger{}, chainStub, h2)
		returned, panicked := r.Within(20*time.Second, "beacon:torn-record:", desc, func() { reg2.LoadExistingGroups() })
		r.Disarm()
		if panicked {
			continue
		}
		if !returned {
			stuck++
			s1, w1 := c38tLoaderStuck()
			time.Sleep(time.Second)
			s2, w2 := c38tLoaderStuck()
			if s1 && s2 && w1 == w2 {
				r.Violation("beacon:torn-record:load-deadlock", "LoadExistingGroups did not return: the goroutines of the load pipeline are parked on channel operations and stay there ("+w1+")", desc, nil)
			} else {
				r.Inconclusive("LoadExistingGroups did not return within 20 s but no parked load-pipeline goroutine was identified: " + desc)
			}
			continue
		}
		// the torn encoding may legitimately decode only when it is a complete
		// record; none of the four kinds is
		for g := 0; g < 3; g++ {
			got := reg2.myGroups[groupKeyToString(keys.signers[[3]int{g, 1, 0}].GroupPublicKeyBytes())]
			want := 0
			for m := 1; m <= 3; m++ {
				if intact[[2]int{g, m}] {
					want++
				}
			}
			if len(got) != want {
				r.Violation("beacon:torn-record:membership-count", fmt.Sprintf("group %d: %d memberships after restart, %d intact records on disk", g, len(got), want), desc, nil)
				continue
			}
			for _, ms := range got {
				b, err := ms.Marshal()
				ref, ok := keys.bytes[[3]int{g, int(ms.Signer.MemberID()), 0}]
				if err != nil || !ok || !intact[[2]int{g, int(ms.Signer.MemberID())}] || !c38SameMembership(b, ref) {
					r.Violation("beacon:torn-record:key-material", fmt.Sprintf("group %d member %d: loaded membership is not the persisted one", g, ms.Signer.MemberID()), desc, nil)
				}
			}
		}
		if i < 3 {
			r.Sample(map[string]interface{}{"intact": in, "torn": fmt.Sprintf("g%dm%d", tg, tm), "kind": kind, "torn_bytes": len(torn)})
		}
	}
}
