//go:build verif

package gjkr

// C14, part "gjkr": the real GJKR state chain run by the real SyncMachine on
// the virtual block counter, observed through SyncState proxies.

import (
	"context"
	"fmt"
	"math/big"
	"math/rand"
	"runtime"
	"strings"
	"sync"
	"sync/atomic"
	"testing"
	"time"

	"github.com/keep-network/keep-core/internal/testutils"
	"github.com/keep-network/keep-core/internal/verifkit"
	"github.com/keep-network/keep-core/pkg/chain"
	"github.com/keep-network/keep-core/pkg/chain/local_v1"
	"github.com/keep-network/keep-core/pkg/net"
	"github.com/keep-network/keep-core/pkg/operator"
	"github.com/keep-network/keep-core/pkg/protocol/group"
	"github.com/keep-network/keep-core/pkg/protocol/state"
)

// ---------------------------------------------------------------- block counter

const (
	c14ModeRun int32 = iota
	c14ModeWait
	c14ModeSel
)

// c14BC: the kit's clock view with the emission rule of keep-core's real block
// counters (a height waiter emits the requested block number).
type c14BC struct {
	v    *verifkit.View
	mode int32
}

func (b *c14BC) WaitForBlockHeight(h uint64) error {
	atomic.StoreInt32(&b.mode, c14ModeWait)
	err := b.v.WaitForBlockHeight(h)
	atomic.StoreInt32(&b.mode, c14ModeRun)
	return err
}
func (b *c14BC) BlockHeightWaiter(h uint64) (<-chan uint64, error) {
	atomic.StoreInt32(&b.mode, c14ModeSel)
	inner, err := b.v.BlockHeightWaiter(h)
	out := make(chan uint64, 1)
	go func() {
		<-inner
		out <- h
	}()
	return out, err
}
func (b *c14BC) CurrentBlock() (uint64, error)                 { return b.v.CurrentBlock() }
func (b *c14BC) WatchBlocks(ctx context.Context) <-chan uint64 { return b.v.WatchBlocks(ctx) }

var _ chain.BlockCounter = (*c14BC)(nil)

// ---------------------------------------------------------------- network

type c14TID string

func (t c14TID) String() string { return string(t) }

type c14NetMsg struct {
	id     int
	sender c14TID
	pub    []byte
	pl     interface{}
	tp     string
	seq    uint64
}

func (m *c14NetMsg) TransportSenderID() net.TransportIdentifier { return m.sender }
func (m *c14NetMsg) SenderPublicKey() []byte                    { return m.pub }
func (m *c14NetMsg) Payload() interface{}                       { return m.pl }
func (m *c14NetMsg) Type() string                               { return m.tp }
func (m *c14NetMsg) Seqno() uint64                              { return m.seq }

type c14Sent struct {
	ID     int    `json:"id"`
	Sender int    `json:"sender"`
	Type   string `json:"type"`
	K      int    `json:"sent_in_state"`
	H      uint64 `json:"block"`
	Handed []int  `json:"handed"`
}

type c14Bus struct {
	x     *c14Run
	mu    sync.Mutex
	chans []*c14Chan
	sent  []*c14Sent
}

type c14Handler struct {
	ctx context.Context
	fn  func(net.Message)
}

type c14Chan struct {
	b         *c14Bus
	mem       *c14Member
	pub       []byte
	mu        sync.Mutex
	handlers  []*c14Handler
	unm       map[string]func() net.TaggedUnmarshaler
	seq       uint64
	delivered int64
	maxLive   int
}

func (c *c14Chan) Name() string { return "c14" }
func (c *c14Chan) Send(ctx context.Context, m net.TaggedMarshaler, _ ...net.RetransmissionStrategy) error {
	bytes, err := m.Marshal()
	if err != nil {
		return err
	}
	seq := atomic.AddUint64(&c.seq, 1)
	b := c.b
	b.mu.Lock()
	rec := &c14Sent{ID: len(b.sent) + 1, Sender: c.mem.idx, Type: m.Type(), K: int(atomic.LoadInt32(&c.mem.curK)), H: b.x.clk.Height(), Handed: make([]int, len(b.chans))}
	b.sent = append(b.sent, rec)
	targets := append([]*c14Chan(nil), b.chans...)
	b.mu.Unlock()
	for ti, t := range targets {
		t.mu.Lock()
		mk := t.unm[m.Type()]
		hs := append([]*c14Handler(nil), t.handlers...)
		t.mu.Unlock()
		if mk == nil {
			continue
		}
		u := mk()
		if err := u.Unmarshal(bytes); err != nil {
			continue
		}
		msg := &c14NetMsg{rec.ID, c14TID(fmt.Sprint(c.mem.idx + 1)), c.pub, u, m.Type(), seq}
		for _, h := range hs {
			if h.ctx.Err() != nil {
				continue
			}
			atomic.AddInt64(&t.delivered, 1)
			h.fn(msg)
			rec.Handed[ti]++
		}
	}
	return nil
}
func (c *c14Chan) Recv(ctx context.Context, fn func(net.Message)) {
	c.mu.Lock()
	live := c.handlers[:0]
	for _, h := range c.handlers {
		if h.ctx.Err() == nil {
			live = append(live, h)
		}
	}
	c.handlers = append(live, &c14Handler{ctx, fn})
	if len(c.handlers) > c.maxLive {
		c.maxLive = len(c.handlers)
	}
	c.mu.Unlock()
}
func (c *c14Chan) SetUnmarshaler(f func() net.TaggedUnmarshaler) {
	c.mu.Lock()
	c.unm[f().Type()] = f
	c.mu.Unlock()
}
func (c *c14Chan) SetFilter(net.BroadcastChannelFilter) error { return nil }

// ---------------------------------------------------------------- proxies

type c14Ev struct {
	Kind string `json:"e"`
	K    int    `json:"k"`
	T    string `json:"state,omitempty"`
	Msg  int    `json:"m,omitempty"`
	H    uint64 `json:"h"`
}

type c14Member struct {
	idx       int
	x         *c14Run
	ch        *c14Chan
	bc        *c14BC
	curK      int32
	mu        sync.Mutex
	ev        []c14Ev
	durs      [][2]uint64 // (delay, active) read from the states themselves
	types     []string
	processed int64
	started   int32
	done      int32
	end       uint64
	res       *Result
	err       error
	panicked  bool
}

func (m *c14Member) add(kind string, k int, tp string, msg int) {
	h := m.x.clk.Height()
	m.mu.Lock()
	m.ev = append(m.ev, c14Ev{kind, k, tp, msg, h})
	m.mu.Unlock()
}

type c14Proxy struct {
	inner state.SyncState
	m     *c14Member
	k     int
}

func c14TypeName(s state.SyncState) string {
	return strings.TrimPrefix(fmt.Sprintf("%T", s), "*gjkr.")
}

func c14Wrap(m *c14Member, inner state.SyncState, k int) *c14Proxy {
	m.mu.Lock()
	m.durs = append(m.durs, [2]uint64{inner.DelayBlocks(), inner.ActiveBlocks()})
	m.types = append(m.types, c14TypeName(inner))
	m.mu.Unlock()
	return &c14Proxy{inner, m, k}
}

func (p *c14Proxy) DelayBlocks() uint64            { return p.inner.DelayBlocks() }
func (p *c14Proxy) ActiveBlocks() uint64           { return p.inner.ActiveBlocks() }
func (p *c14Proxy) MemberIndex() group.MemberIndex { return p.inner.MemberIndex() }
func (p *c14Proxy) Initiate(ctx context.Context) error {
	atomic.StoreInt32(&p.m.curK, int32(p.k))
	p.m.add("init-begin", p.k, "", 0)
	err := p.inner.Initiate(ctx)
	p.m.add("init-end", p.k, "", 0)
	return err
}
func (p *c14Proxy) Receive(msg net.Message) error {
	id := -1
	if nm, ok := msg.(*c14NetMsg); ok {
		id = nm.id
	}
	err := p.inner.Receive(msg)
	p.m.add("recv", p.k, "", id)
	atomic.AddInt64(&p.m.processed, 1)
	return err
}
func (p *c14Proxy) Next() (state.SyncState, error) {
	p.m.add("next", p.k, "", 0)
	n, err := p.inner.Next()
	if n == nil || err != nil {
		return n, err
	}
	return c14Wrap(p.m, n, p.k+1), nil
}

// ---------------------------------------------------------------- run

type c14Case struct {
	Index  int      `json:"i"`
	N      int      `json:"n"`
	T      int      `json:"dishonest_threshold"`
	Mode   string   `json:"mode"` // step | burst | late
	Start  uint64   `json:"start"`
	H0     uint64   `json:"clock_at_launch"`
	Join   []uint64 `json:"join_at"`
	PBurst int      `json:"p_burst"`
}

type c14Run struct {
	r       *verifkit.Run
	c       *c14Case
	clk     *verifkit.Clock
	bus     *c14Bus
	mv      *group.MembershipValidator
	signing chain.Signing
	members []*c14Member
	bursts  int64
	steps   []string
}

func (x *c14Run) setup() bool {
	c := x.c
	x.bus = &c14Bus{x: x}
	addrs := make([]chain.Address, c.N)
	for i := 0; i < c.N; i++ {
		_, pub, err := operator.GenerateKeyPair(local_v1.DefaultCurve)
		if err != nil {
			x.r.Inconclusive("key generation failed: " + err.Error())
			return false
		}
		a, err := x.signing.PublicKeyToAddress(pub)
		if err != nil {
			x.r.Inconclusive("address derivation failed: " + err.Error())
			return false
		}
		addrs[i] = a
		m := &c14Member{idx: i, x: x}
		m.bc = &c14BC{v: x.clk.View(fmt.Sprintf("member%d", i))}
		m.ch = &c14Chan{b: x.bus, mem: m, pub: operator.MarshalUncompressed(pub), unm: map[string]func() net.TaggedUnmarshaler{}}
		RegisterUnmarshallers(m.ch)
		x.bus.chans = append(x.bus.chans, m.ch)
		x.members = append(x.members, m)
	}
	x.mv = group.NewMembershipValidator(&testutils.MockLogger{}, addrs, x.signing)
	return true
}

func (x *c14Run) liveCount() (live, unstarted int) {
	for _, m := range x.members {
		if atomic.LoadInt32(&m.started) == 0 {
			unstarted++
		} else if atomic.LoadInt32(&m.done) == 0 {
			live++
		}
	}
	return
}

func (x *c14Run) quiescent() bool {
	live, _ := x.liveCount()
	if int64(live) != x.clk.Pending() {
		return false
	}
	for _, m := range x.members {
		if atomic.LoadInt32(&m.started) == 0 || atomic.LoadInt32(&m.done) == 1 {
			continue
		}
		switch atomic.LoadInt32(&m.bc.mode) {
		case c14ModeWait:
		case c14ModeSel:
			if atomic.LoadInt64(&m.ch.delivered) != atomic.LoadInt64(&m.processed) {
				return false
			}
		default:
			return false
		}
	}
	l2, _ := x.liveCount()
	return l2 == live
}

func (x *c14Run) waitQuiescent(deadline time.Time) bool {
	for spins := 0; ; spins++ {
		if x.quiescent() {
			return true
		}
		if spins%64 == 63 {
			if time.Now().After(deadline) {
				return false
			}
			time.Sleep(50 * time.Microsecond)
		} else {
			runtime.Gosched()
		}
	}
}

func (x *c14Run) drive(rng *rand.Rand) bool {
	deadline := time.Now().Add(120 * time.Second)
	for {
		h := x.clk.Height()
		for _, m := range x.members {
			if atomic.LoadInt32(&m.started) == 0 && x.c.Join[m.idx] <= h {
				m := m
				atomic.StoreInt32(&m.started, 1)
				go func() {
					m.panicked = x.r.Guard("gjkr:", verifkit.JSON(x.c), func() {
						lm, err := NewMember(&testutils.MockLogger{}, group.MemberIndex(m.idx+1), x.c.N, x.c.T, x.mv, big.NewInt(int64(1000+x.c.Index)), "c14-session")
						if err != nil {
							m.err = err
							return
						}
						init := &ephemeralKeyPairGenerationState{channel: m.ch, member: lm.InitializeEphemeralKeysGeneration()}
						sm := state.NewSyncMachine(&testutils.MockLogger{}, m.ch, m.bc, c14Wrap(m, init, 0))
						last, end, err := sm.Execute(x.c.Start)
						m.end, m.err = end, err
						if err == nil {
							if p, ok := last.(*c14Proxy); ok {
								if fs, ok := p.inner.(*finalizationState); ok {
									m.res = fs.result()
								}
							}
						}
					})
					atomic.StoreInt32(&m.done, 1)
				}()
				x.steps = append(x.steps, fmt.Sprintf("launch%d@%d", m.idx, h))
			}
		}
		if !x.waitQuiescent(deadline) {
			return false
		}
		live, unstarted := x.liveCount()
		if live == 0 {
			if unstarted == 0 {
				return true
			}
			next := ^uint64(0)
			for _, m := range x.members {
				if atomic.LoadInt32(&m.started) == 0 && x.c.Join[m.idx] < next {
					next = x.c.Join[m.idx]
				}
			}
			x.clk.Set(next, true)
			continue
		}
		if x.c.Mode == "burst" && rng.Intn(100) < x.c.PBurst {
			n := uint64(2 + rng.Intn(3))
			atomic.AddInt64(&x.bursts, 1)
			x.clk.Advance(n)
			x.steps = append(x.steps, fmt.Sprintf("burst%d", n))
		} else {
			x.clk.Advance(1)
		}
	}
}

var c14Chain = []string{
	"ephemeralKeyPairGenerationState", "symmetricKeyGenerationState", "commitmentState",
	"commitmentsVerificationState", "sharesJustificationState", "qualificationState",
	"pointsShareState", "pointsValidationState", "pointsJustificationState",
	"keyRevealState", "reconstructionState", "combinationState", "finalizationState",
}

func (x *c14Run) fp(fp, what string, wit interface{}) {
	x.r.Violation(fp, what, verifkit.JSON(x.c), map[string]interface{}{"detail": wit, "schedule": x.steps})
}

func (x *c14Run) check() {
	c := x.c
	strict := c.Mode == "step" // every member launched before the start block, blocks one at a time at quiescence
	allWaits := x.clk.WaitLog()
	var vectors []string
	for _, m := range x.members {
		if m.panicked {
			continue
		}
		who := fmt.Sprintf("member%d", m.idx)
		var waits []uint64
		for _, w := range allWaits {
			if w.Owner == who {
				waits = append(waits, w.Block)
			}
		}
		if m.err != nil && strict {
			x.fp("gjkr:execute-error", "honest lock-step run failed: "+m.err.Error(), who)
			continue
		}
		// ---- chain and schedule from the durations the states themselves declare
		m.mu.Lock()
		durs := append([][2]uint64(nil), m.durs...)
		types := append([]string(nil), m.types...)
		ev := append([]c14Ev(nil), m.ev...)
		m.mu.Unlock()
		for k, tp := range types {
			if k >= len(c14Chain) || tp != c14Chain[k] {
				x.fp("gjkr:chain", fmt.Sprintf("state %d is %s, expected the GJKR chain %v", k, tp, c14Chain), who)
				break
			}
		}
		if m.err == nil && len(types) != len(c14Chain) {
			x.fp("gjkr:chain-length", fmt.Sprintf("the machine finished after %d states, the chain has %d", len(types), len(c14Chain)), types)
		}
		var e, ini, f []uint64
		cur := c.Start
		var total uint64
		for _, d := range durs {
			e = append(e, cur)
			ini = append(ini, cur+d[0])
			f = append(f, cur+d[0]+d[1])
			cur += d[0] + d[1]
			total += d[0] + d[1]
		}
		if m.err == nil {
			if total != ProtocolBlocks() {
				x.fp("gjkr:protocol-blocks", fmt.Sprintf("the states' delays and active windows sum to %d blocks, ProtocolBlocks() says %d", total, ProtocolBlocks()), durs)
			}
			if m.end != c.Start+ProtocolBlocks() {
				x.fp("gjkr:end-block", fmt.Sprintf("Execute returned end block %d, start %d + ProtocolBlocks() %d = %d", m.end, c.Start, ProtocolBlocks(), c.Start+ProtocolBlocks()), who)
			}
		}
		exp := []uint64{c.Start}
		for k := range durs {
			exp = append(exp, ini[k], f[k])
		}
		// a member that failed stops early: its waits must be a prefix
		okWaits := len(waits) <= len(exp) && (m.err != nil || len(waits) == len(exp))
		for j := 0; j < len(waits) && j < len(exp); j++ {
			if waits[j] != exp[j] {
				okWaits = false
				what := "start block"
				fpn := "gjkr:schedule:start-wait"
				if j > 0 && j%2 == 1 {
					fpn, what = "gjkr:schedule:initiate-block", fmt.Sprintf("initiation block of %s (entered %d + delay %d)", types[(j-1)/2], e[(j-1)/2], durs[(j-1)/2][0])
				} else if j > 0 {
					fpn, what = "gjkr:schedule:end-block", fmt.Sprintf("end block of %s (initiated %d + active %d)", types[(j-1)/2], ini[(j-1)/2], durs[(j-1)/2][1])
				}
				x.fp(fpn, fmt.Sprintf("machine waited for block %d where the %s is %d", waits[j], what, exp[j]), map[string]interface{}{"member": who, "waits": waits, "expected": exp})
				break
			}
		}
		if !okWaits && len(waits) != len(exp) && m.err == nil {
			x.fp("gjkr:schedule:wait-count", fmt.Sprintf("machine registered %d block waits, expected %d", len(waits), len(exp)), map[string]interface{}{"member": who, "waits": waits, "expected": exp})
		}
		if m.err == nil {
			vectors = append(vectors, fmt.Sprint(waits))
		}
		// ---- call order and blocks
		k, stage := 0, 0
		orderOK := true
		for _, v := range ev {
			bad := ""
			switch v.Kind {
			case "init-begin":
				if stage != 0 || v.K != k {
					bad = "Initiate"
					break
				}
				stage = 1
				if k < len(ini) {
					if v.H < ini[k] {
						x.fp("gjkr:early-initiate", fmt.Sprintf("Initiate of %s ran at block %d, before entered+delay = %d", types[k], v.H, ini[k]), who)
					} else if strict && v.H != ini[k] {
						x.fp("gjkr:initiate-block", fmt.Sprintf("Initiate of %s ran at block %d, expected %d in a lock-step run", types[k], v.H, ini[k]), who)
					}
				}
			case "init-end":
				if stage != 1 || v.K != k {
					bad = "Initiate return"
					break
				}
				stage = 2
			case "recv":
				if stage != 2 || v.K != k {
					bad = "Receive"
				}
			case "next":
				if stage != 2 || v.K != k {
					bad = "Next"
					break
				}
				if k < len(f) {
					if v.H < f[k] {
						x.fp("gjkr:early-next", fmt.Sprintf("%s was left at block %d, before its end block %d", types[k], v.H, f[k]), who)
					} else if strict && v.H != f[k] {
						x.fp("gjkr:next-block", fmt.Sprintf("%s was left at block %d, expected %d in a lock-step run", types[k], v.H, f[k]), who)
					}
				}
				k++
				stage = 0
			}
			if bad != "" && orderOK {
				orderOK = false
				x.fp("gjkr:order:"+bad, fmt.Sprintf("%s of state %d called while the machine should be in state %d (stage %d)", bad, v.K, k, stage), map[string]interface{}{"member": who, "events": ev})
			}
		}
		// ---- messages
		got := map[int][]int{}
		for _, v := range ev {
			if v.Kind == "recv" {
				got[v.Msg] = append(got[v.Msg], v.K)
			}
		}
		for _, s := range x.bus.sent {
			h := s.Handed[m.idx]
			g := got[s.ID]
			if h > 1 {
				x.fp("gjkr:msg:two-live-handlers", fmt.Sprintf("%s from member %d was taken by %d live handlers of member %d", s.Type, s.Sender, h, m.idx), s)
			}
			if len(g) > 1 {
				x.fp("gjkr:msg:received-twice", fmt.Sprintf("%s from member %d reached Receive of member %d %d times (states %v)", s.Type, s.Sender, m.idx, len(g), g), s)
				continue
			}
			if h == 0 && len(g) > 0 {
				x.fp("gjkr:msg:phantom", "message reached a state without having been handed to a handler", s)
			}
			if !strict {
				continue
			}
			x.r.Count("messages_checked", 1)
			if h != 1 {
				x.fp("gjkr:msg:no-handler", fmt.Sprintf("%s sent by member %d in state %d at block %d found %d live handlers at member %d in a lock-step run", s.Type, s.Sender, s.K, s.H, h, m.idx), s)
				continue
			}
			if len(g) == 0 {
				x.fp("gjkr:msg:lost", fmt.Sprintf("%s sent by member %d in %s at block %d never reached a state of member %d", s.Type, s.Sender, c14Chain[s.K], s.H, m.idx), s)
			} else if g[0] != s.K {
				x.fp("gjkr:msg:wrong-state", fmt.Sprintf("%s sent by member %d in %s (block %d) was handed to %s of member %d", s.Type, s.Sender, c14Chain[s.K], s.H, c14Chain[g[0]], m.idx), s)
			}
		}
		// ---- outcome of the lock-step run: nobody can look inactive
		if strict && m.err == nil {
			if m.res == nil {
				x.fp("gjkr:no-result", "no result in the final state", who)
			} else if ia, dq := m.res.Group.InactiveMemberIndexes(), m.res.Group.DisqualifiedMemberIndexes(); len(ia)+len(dq) > 0 {
				x.fp("gjkr:member-marked-in-lockstep-run", fmt.Sprintf("member %d marked inactive %v / disqualified %v although every message was sent and handed inside its phase", m.idx, ia, dq), who)
			}
		}
	}
	for j := 1; j < len(vectors); j++ {
		if vectors[j] != vectors[0] {
			x.fp("gjkr:members-differ", "members started for the same block moved through phases at different blocks", vectors)
			break
		}
	}
}

func TestVerif_C14_GJKR(t *testing.T) {
	r := verifkit.Start(t, "C14", "gjkr")
	defer r.Finish()
	r.SetRule("real GJKR state chain (13 states, 5 of them zero-length) under the real SyncMachine, n in {3,5,7}, on the virtual clock: lock-step (one block at a time at quiescence), bursts of 2-4 blocks, start block already passed, members launched late. non-trivial = every run (the chain has zero-length states); bursts and late launches are counted")
	r.Assume("the virtual block counter emits the requested block number from a height waiter, as keep-core's local_v1 and ethereum block counters do")
	n := r.N(96, 1500)
	var wd int64
	signing := local_v1.Connect(7, 4).Signing()
	verifkit.Parallel(n, 0, func(i int) {
		rng := r.SubRand("gjkr", i)
		c := &c14Case{Index: i}
		switch i % 3 {
		case 0:
			c.N, c.T = 3, 1
		case 1:
			c.N, c.T = 5, 2
		default:
			c.N, c.T = 7, 3
		}
		c.H0 = uint64(rng.Intn(30))
		c.Start = c.H0 + 1 + uint64(rng.Intn(4))
		c.Join = make([]uint64, c.N)
		switch (i / 3) % 4 {
		case 0, 1:
			c.Mode = "step"
		case 2:
			c.Mode = "burst"
			c.PBurst = 5 + rng.Intn(30)
			if rng.Intn(2) == 0 { // start block already passed
				c.Start = c.H0 - uint64(rng.Intn(int(c.H0)+1))
			}
		default:
			c.Mode = "late"
			for m := 1; m < c.N; m++ {
				if rng.Intn(2) == 0 {
					c.Join[m] = c.Start + uint64(rng.Intn(4))
				}
			}
		}
		x := &c14Run{r: r, c: c, clk: verifkit.NewClock(c.H0), signing: signing}
		if !x.setup() {
			return
		}
		if !x.drive(rng) {
			if atomic.AddInt64(&wd, 1) <= 3 {
				r.Inconclusive("watchdog: GJKR execution did not reach quiescence within 120 s: " + verifkit.JSON(c))
			}
			return
		}
		r.Case(verifkit.JSON(c), true)
		r.Count("runs_"+c.Mode, 1)
		r.Count("bursts", atomic.LoadInt64(&x.bursts))
		r.Count("messages_sent", int64(len(x.bus.sent)))
		x.check()
		r.SampleAt(i, n, func() interface{} {
			m := x.members[0]
			var inits []string
			for _, v := range m.ev {
				if v.Kind == "init-begin" && v.K < len(m.types) {
					inits = append(inits, fmt.Sprintf("%s@%d", m.types[v.K], v.H))
				}
			}
			return map[string]interface{}{"case": c, "member0_initiations": inits, "end_block": m.end}
		})
	})
}
