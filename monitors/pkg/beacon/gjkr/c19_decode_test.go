//go:build verif

package gjkr

import (
	"math/big"
	"math/rand"
	"testing"

	"github.com/btcsuite/btcd/btcec"
	bn256 "github.com/ethereum/go-ethereum/crypto/bn256/cloudflare"

	"github.com/keep-network/keep-core/internal/verifkit"
	"github.com/keep-network/keep-core/pkg/crypto/ephemeral"
	"github.com/keep-network/keep-core/pkg/protocol/group"
)

func c19KeyPair(rng *rand.Rand) (*ephemeral.PrivateKey, *ephemeral.PublicKey) {
	priv, pub := btcec.PrivKeyFromBytes(btcec.S256(), c19Bytes(rng, 32, 32))
	return (*ephemeral.PrivateKey)(priv), (*ephemeral.PublicKey)(pub)
}

func c19PrivMap(rng *rand.Rand, i int) map[group.MemberIndex]*ephemeral.PrivateKey {
	m := map[group.MemberIndex]*ephemeral.PrivateKey{}
	for n := c19Size(rng, i, 5); n > 0; n-- {
		priv, _ := c19KeyPair(rng)
		m[c19Index(rng)] = priv
	}
	return m
}

func c19Scalar(rng *rand.Rand) *big.Int {
	if rng.Intn(12) == 0 {
		return big.NewInt(int64(rng.Intn(3))) // 0 (identity), 1, 2
	}
	return new(big.Int).SetBytes(c19Bytes(rng, 1, 32))
}

func TestVerif_C19_Gjkr(t *testing.T) {
	r := verifkit.Start(t, "C19", "gjkr")
	defer r.Finish()
	c19Run(r, "gjkr", c19GjkrDecoders())
}

// TestVerif_C19_GjkrRace decodes three message kinds that carry sub-objects
// (keys, curve points, share structs) from four goroutines.
func TestVerif_C19_GjkrRace(t *testing.T) {
	r := verifkit.Start(t, "C19", "gjkr-race")
	defer r.Finish()
	var sel []c19Decoder
	for _, d := range c19GjkrDecoders() {
		switch d.Type {
		case "EphemeralPublicKeyMessage", "PeerSharesMessage", "MemberCommitmentsMessage":
			sel = append(sel, d)
		}
	}
	c19RaceRun(r, "gjkr", sel)
}

func c19GjkrDecoders() []c19Decoder {
	const f = "marshaling.go"
	return []c19Decoder{
		{
			Type: "EphemeralPublicKeyMessage", File: f,
			New: func() c19Codec { return &EphemeralPublicKeyMessage{} },
			Gen: func(rng *rand.Rand, i int) c19Codec {
				m := map[group.MemberIndex]*ephemeral.PublicKey{}
				for n := c19Size(rng, i, 5); n > 0; n-- {
					_, pub := c19KeyPair(rng)
					m[c19Index(rng)] = pub
				}
				return &EphemeralPublicKeyMessage{senderID: c19Index(rng), ephemeralPublicKeys: m, sessionID: c19String(rng)}
			},
			IndexPaths: []string{"1", "2*.1"},
		},
		{
			Type: "MemberCommitmentsMessage", File: f,
			New: func() c19Codec { return &MemberCommitmentsMessage{} },
			Gen: func(rng *rand.Rand, i int) c19Codec {
				var cs []*bn256.G1
				for n := c19Size(rng, i, 4); n > 0; n-- {
					cs = append(cs, new(bn256.G1).ScalarBaseMult(c19Scalar(rng)))
				}
				return &MemberCommitmentsMessage{senderID: c19Index(rng), commitments: cs, sessionID: c19String(rng)}
			},
			IndexPaths: []string{"1"},
		},
		{
			Type: "PeerSharesMessage", File: f,
			New: func() c19Codec { return &PeerSharesMessage{} },
			Gen: func(rng *rand.Rand, i int) c19Codec {
				m := map[group.MemberIndex]*peerShares{}
				for n := c19Size(rng, i, 5); n > 0; n-- {
					m[c19Index(rng)] = &peerShares{encryptedShareS: c19Bytes(rng, 0, 64), encryptedShareT: c19Bytes(rng, 0, 64)}
				}
				return &PeerSharesMessage{senderID: c19Index(rng), shares: m, sessionID: c19String(rng)}
			},
			IndexPaths: []string{"1", "2*.1"},
		},
		{
			Type: "SecretSharesAccusationsMessage", File: f,
			New: func() c19Codec { return &SecretSharesAccusationsMessage{} },
			Gen: func(rng *rand.Rand, i int) c19Codec {
				return &SecretSharesAccusationsMessage{senderID: c19Index(rng), accusedMembersKeys: c19PrivMap(rng, i), sessionID: c19String(rng)}
			},
			IndexPaths: []string{"1", "2*.1"},
		},
		{
			Type: "MemberPublicKeySharePointsMessage", File: f,
			New: func() c19Codec { return &MemberPublicKeySharePointsMessage{} },
			Gen: func(rng *rand.Rand, i int) c19Codec {
				var ps []*bn256.G2
				for n := c19Size(rng, i, 3); n > 0; n-- {
					ps = append(ps, new(bn256.G2).ScalarBaseMult(c19Scalar(rng)))
				}
				return &MemberPublicKeySharePointsMessage{senderID: c19Index(rng), publicKeySharePoints: ps, sessionID: c19String(rng)}
			},
			IndexPaths: []string{"1"},
		},
		{
			Type: "PointsAccusationsMessage", File: f,
			New: func() c19Codec { return &PointsAccusationsMessage{} },
			Gen: func(rng *rand.Rand, i int) c19Codec {
				return &PointsAccusationsMessage{senderID: c19Index(rng), accusedMembersKeys: c19PrivMap(rng, i), sessionID: c19String(rng)}
			},
			IndexPaths: []string{"1", "2*.1"},
		},
		{
			Type: "MisbehavedEphemeralKeysMessage", File: f,
			New: func() c19Codec { return &MisbehavedEphemeralKeysMessage{} },
			Gen: func(rng *rand.Rand, i int) c19Codec {
				return &MisbehavedEphemeralKeysMessage{senderID: c19Index(rng), privateKeys: c19PrivMap(rng, i), sessionID: c19String(rng)}
			},
			IndexPaths: []string{"1", "2*.1"},
		},
	}
}
