//go:build verif

package gjkr

// Shared harness of C01 (agreement) and C02 (share consistency): n real GJKR
// members (real states.go / protocol.go / message_filter.go), each with its own
// operator key, driven phase by phase over a controlled broadcast network:
// per-sender FIFO, arbitrary cross-sender interleaving per receiver, identical
// bytes to every receiver (consistent broadcast). Corrupt members run the real
// code too; their outgoing messages pass through a behaviour script that uses
// the member's real secrets (white-box) to craft faults.

import (
	"context"
	"fmt"
	"math/big"
	"math/rand"
	"os"
	"sort"
	"strings"
	"sync"
	"testing"

	bn256 "github.com/ethereum/go-ethereum/crypto/bn256/cloudflare"
	"github.com/ipfs/go-log/v2"
	"github.com/keep-network/keep-core/internal/testutils"
	"github.com/keep-network/keep-core/internal/verifkit"
	"github.com/keep-network/keep-core/pkg/chain"
	"github.com/keep-network/keep-core/pkg/chain/local_v1"
	"github.com/keep-network/keep-core/pkg/crypto/ephemeral"
	"github.com/keep-network/keep-core/pkg/net"
	"github.com/keep-network/keep-core/pkg/operator"
	"github.com/keep-network/keep-core/pkg/protocol/group"
	"github.com/keep-network/keep-core/pkg/protocol/state"
)

// ---- network ------------------------------------------------------------

type c01Env struct {
	from  int // channel owner (1-based member index of the real sender)
	typ   string
	bytes []byte
}

type c01ID string

func (v c01ID) String() string { return string(v) }

type c01Msg struct {
	sender c01ID
	pub    []byte
	pl     interface{}
	tp     string
	seq    uint64
}

func (m *c01Msg) TransportSenderID() net.TransportIdentifier { return m.sender }
func (m *c01Msg) SenderPublicKey() []byte                    { return m.pub }
func (m *c01Msg) Payload() interface{}                       { return m.pl }
func (m *c01Msg) Type() string                               { return m.tp }
func (m *c01Msg) Seqno() uint64                              { return m.seq }

// c01Chan is one member's handle on the broadcast channel. Send only queues
// (after the member's behaviour script, if any, rewrote the message).
type c01Chan struct {
	owner  int
	pub    []byte
	unm    map[string]func() net.TaggedUnmarshaler
	outbox *[]c01Env
	script func(m net.TaggedMarshaler) []net.TaggedMarshaler
	sent   int
}

func (c *c01Chan) Name() string { return "verif" }
func (c *c01Chan) Send(ctx context.Context, m net.TaggedMarshaler, _ ...net.RetransmissionStrategy) error {
	out := []net.TaggedMarshaler{m}
	if c.script != nil {
		out = c.script(m)
	}
	for _, o := range out {
		b, err := o.Marshal()
		if err != nil {
			continue // an unmarshalable forgery is simply not sent
		}
		*c.outbox = append(*c.outbox, c01Env{c.owner, o.Type(), b})
		c.sent++
	}
	return nil
}
func (c *c01Chan) Recv(ctx context.Context, fn func(net.Message)) {}
func (c *c01Chan) SetUnmarshaler(f func() net.TaggedUnmarshaler) {
	c.unm[f().Type()] = f
}
func (c *c01Chan) SetFilter(net.BroadcastChannelFilter) error { return nil }

// ---- behaviours ---------------------------------------------------------

// c01Behaviour rewrites one outgoing message of a corrupt member.
type c01Behaviour struct {
	Name   string
	Victim int // member index the fault is aimed at (0 = none)
	Aux    []int
}

func (b c01Behaviour) String() string {
	s := b.Name
	if b.Victim != 0 {
		s += fmt.Sprintf("(%d)", b.Victim)
	}
	if len(b.Aux) > 0 {
		s += fmt.Sprintf("%v", b.Aux)
	}
	return s
}

// message type keys of the script
const (
	c01P1  = "p1"  // EphemeralPublicKeyMessage
	c01P3S = "p3s" // PeerSharesMessage
	c01P3C = "p3c" // MemberCommitmentsMessage
	c01P4  = "p4"  // SecretSharesAccusationsMessage
	c01P7  = "p7"  // MemberPublicKeySharePointsMessage
	c01P8  = "p8"  // PointsAccusationsMessage
	c01P10 = "p10" // MisbehavedEphemeralKeysMessage
)

var c01PhaseKeys = []string{c01P1, c01P3S, c01P3C, c01P4, c01P7, c01P8, c01P10}

func c01KeyOf(m net.TaggedMarshaler) string {
	switch m.(type) {
	case *EphemeralPublicKeyMessage:
		return c01P1
	case *PeerSharesMessage:
		return c01P3S
	case *MemberCommitmentsMessage:
		return c01P3C
	case *SecretSharesAccusationsMessage:
		return c01P4
	case *MemberPublicKeySharePointsMessage:
		return c01P7
	case *PointsAccusationsMessage:
		return c01P8
	case *MisbehavedEphemeralKeysMessage:
		return c01P10
	}
	return "?"
}

func c01Clone(m net.TaggedMarshaler) net.TaggedMarshaler {
	b, err := m.Marshal()
	if err != nil {
		return m
	}
	var u net.TaggedUnmarshaler
	switch m.(type) {
	case *EphemeralPublicKeyMessage:
		u = &EphemeralPublicKeyMessage{}
	case *PeerSharesMessage:
		u = &PeerSharesMessage{}
	case *MemberCommitmentsMessage:
		u = &MemberCommitmentsMessage{}
	case *SecretSharesAccusationsMessage:
		u = &SecretSharesAccusationsMessage{}
	case *MemberPublicKeySharePointsMessage:
		u = &MemberPublicKeySharePointsMessage{}
	case *PointsAccusationsMessage:
		u = &PointsAccusationsMessage{}
	case *MisbehavedEphemeralKeysMessage:
		u = &MisbehavedEphemeralKeysMessage{}
	}
	if err := u.Unmarshal(b); err != nil {
		return m
	}
	return u.(net.TaggedMarshaler)
}

func c01SetSender(m net.TaggedMarshaler, id group.MemberIndex) {
	switch x := m.(type) {
	case *EphemeralPublicKeyMessage:
		x.senderID = id
	case *PeerSharesMessage:
		x.senderID = id
	case *MemberCommitmentsMessage:
		x.senderID = id
	case *SecretSharesAccusationsMessage:
		x.senderID = id
	case *MemberPublicKeySharePointsMessage:
		x.senderID = id
	case *PointsAccusationsMessage:
		x.senderID = id
	case *MisbehavedEphemeralKeysMessage:
		x.senderID = id
	}
}

func c01SetSession(m net.TaggedMarshaler, s string) {
	switch x := m.(type) {
	case *EphemeralPublicKeyMessage:
		x.sessionID = s
	case *PeerSharesMessage:
		x.sessionID = s
	case *MemberCommitmentsMessage:
		x.sessionID = s
	case *SecretSharesAccusationsMessage:
		x.sessionID = s
	case *MemberPublicKeySharePointsMessage:
		x.sessionID = s
	case *PointsAccusationsMessage:
		x.sessionID = s
	case *MisbehavedEphemeralKeysMessage:
		x.sessionID = s
	}
}

// c01Core digs the layered member structs out of whatever state the corrupt
// member is in (white-box).
type c01Secrets struct {
	ephemeral map[group.MemberIndex]*ephemeral.KeyPair
	symmetric map[group.MemberIndex]ephemeral.SymmetricKey
	coeffs    []*big.Int
}

func c01SecretsOf(s state.SyncState) c01Secrets {
	var out c01Secrets
	switch x := s.(type) {
	case *ephemeralKeyPairGenerationState:
		out.ephemeral = x.member.ephemeralKeyPairs
	case *commitmentState:
		out.ephemeral = x.member.ephemeralKeyPairs
		out.symmetric = x.member.symmetricKeys
		out.coeffs = x.member.secretCoefficients
	case *commitmentsVerificationState:
		out.ephemeral = x.member.ephemeralKeyPairs
		out.symmetric = x.member.symmetricKeys
		out.coeffs = x.member.secretCoefficients
	case *pointsShareState:
		out.ephemeral = x.member.ephemeralKeyPairs
		out.symmetric = x.member.symmetricKeys
		out.coeffs = x.member.secretCoefficients
	case *pointsValidationState:
		out.ephemeral = x.member.ephemeralKeyPairs
		out.symmetric = x.member.symmetricKeys
		out.coeffs = x.member.secretCoefficients
	case *keyRevealState:
		out.ephemeral = x.member.ephemeralKeyPairs
		out.symmetric = x.member.symmetricKeys
		out.coeffs = x.member.secretCoefficients
	}
	return out
}

func c01RandKey() *ephemeral.PrivateKey {
	kp, err := ephemeral.GenerateKeyPair()
	if err != nil {
		panic(err)
	}
	return kp.PrivateKey
}

// c01Apply executes one behaviour on an outgoing message. It returns the
// messages to broadcast instead and whether anything was altered/suppressed.
func c01Apply(b c01Behaviour, orig net.TaggedMarshaler, self int, n, t int, sec c01Secrets, rng *rand.Rand) ([]net.TaggedMarshaler, bool) {
	m := c01Clone(orig)
	victim := group.MemberIndex(b.Victim)
	switch b.Name {
	case "honest":
		return []net.TaggedMarshaler{orig}, false
	case "silent":
		return nil, true
	case "duplicate":
		return []net.TaggedMarshaler{orig, c01Clone(orig)}, true
	case "spoof-sender": // claims another member's index under its own network key
		c01SetSender(m, victim)
		return []net.TaggedMarshaler{m}, true
	case "spoof-plus-own": // an impersonation followed by the genuine message
		c01SetSender(m, victim)
		return []net.TaggedMarshaler{m, orig}, true
	case "wrong-session":
		c01SetSession(m, "other-session")
		return []net.TaggedMarshaler{m}, true
	case "wrong-session-plus-own":
		c01SetSession(m, "other-session")
		return []net.TaggedMarshaler{m, orig}, true
	}
	switch x := m.(type) {
	case *EphemeralPublicKeyMessage:
		switch b.Name {
		case "p1-missing-entry":
			delete(x.ephemeralPublicKeys, victim)
			return []net.TaggedMarshaler{x}, true
		case "p1-extra-entry":
			kp, _ := ephemeral.GenerateKeyPair()
			x.ephemeralPublicKeys[group.MemberIndex(n+1)] = kp.PublicKey
			x.ephemeralPublicKeys[group.MemberIndex(self)] = kp.PublicKey
			return []net.TaggedMarshaler{x}, true
		case "p1-conflict-bad-first": // first message (which wins) lacks an entry; the genuine one follows
			delete(x.ephemeralPublicKeys, victim)
			return []net.TaggedMarshaler{x, orig}, true
		case "p1-conflict-good-first":
			delete(x.ephemeralPublicKeys, victim)
			return []net.TaggedMarshaler{orig, x}, true
		}
	case *PeerSharesMessage:
		switch b.Name {
		case "p3-drop-shares":
			return nil, true
		case "p3-shares-missing":
			delete(x.shares, victim)
			return []net.TaggedMarshaler{x}, true
		case "p3-shares-garbage": // cannot be decrypted by the victim
			if s, ok := x.shares[victim]; ok {
				g := make([]byte, len(s.encryptedShareS))
				rng.Read(g)
				x.shares[victim] = &peerShares{g, s.encryptedShareT}
				return []net.TaggedMarshaler{x}, true
			}
		case "p3-shares-wrong": // decrypts fine but contradicts the commitments
			if key, ok := sec.symmetric[victim]; ok {
				s, _ := key.Encrypt(big.NewInt(int64(1 + rng.Intn(1000))).Bytes())
				tt, _ := key.Encrypt(big.NewInt(int64(1 + rng.Intn(1000))).Bytes())
				x.shares[victim] = &peerShares{s, tt}
				return []net.TaggedMarshaler{x}, true
			}
		case "p3-shares-empty":
			if s, ok := x.shares[victim]; ok {
				x.shares[victim] = &peerShares{[]byte{}, s.encryptedShareT}
				return []net.TaggedMarshaler{x}, true
			}
		case "p3-shares-extra-entry":
			for _, s := range x.shares {
				x.shares[group.MemberIndex(n+1)] = s
				x.shares[group.MemberIndex(self)] = s
				break
			}
			return []net.TaggedMarshaler{x}, true
		case "p3-conflict-bad-first":
			if key, ok := sec.symmetric[victim]; ok {
				s, _ := key.Encrypt(big.NewInt(7).Bytes())
				tt, _ := key.Encrypt(big.NewInt(9).Bytes())
				x.shares[victim] = &peerShares{s, tt}
				return []net.TaggedMarshaler{x, orig}, true
			}
		}
	case *MemberCommitmentsMessage:
		switch b.Name {
		case "p3-drop-commitments":
			return nil, true
		case "p3-commitments-short":
			x.commitments = x.commitments[:len(x.commitments)-1]
			return []net.TaggedMarshaler{x}, true
		case "p3-commitments-long":
			x.commitments = append(x.commitments, new(bn256.G1).ScalarBaseMult(big.NewInt(5)))
			return []net.TaggedMarshaler{x}, true
		case "p3-commitments-empty":
			x.commitments = nil
			return []net.TaggedMarshaler{x}, true
		case "p3-commitments-random":
			k := rng.Intn(len(x.commitments))
			x.commitments[k] = new(bn256.G1).ScalarBaseMult(big.NewInt(int64(2 + rng.Intn(1000))))
			return []net.TaggedMarshaler{x}, true
		case "p3-commitments-conflict-bad-first", "p3-commitments-conflict-good-first":
			// two conflicting messages, the same two in the same order for
			// everybody: the first one is the one that counts
			bad := c01Clone(orig).(*MemberCommitmentsMessage)
			bad.commitments = append([]*bn256.G1(nil), bad.commitments...)
			k := rng.Intn(len(bad.commitments))
			bad.commitments[k] = new(bn256.G1).ScalarBaseMult(big.NewInt(int64(2 + rng.Intn(1000))))
			if b.Name == "p3-commitments-conflict-bad-first" {
				return []net.TaggedMarshaler{bad, x}, true
			}
			return []net.TaggedMarshaler{x, bad}, true
		}
	case *SecretSharesAccusationsMessage:
		if c01Accuse(b, x.accusedMembersKeys, self, n, sec) {
			return []net.TaggedMarshaler{x}, true
		}
	case *PointsAccusationsMessage:
		if c01Accuse(b, x.accusedMembersKeys, self, n, sec) {
			return []net.TaggedMarshaler{x}, true
		}
	case *MemberPublicKeySharePointsMessage:
		switch b.Name {
		case "p7-points-random":
			for k := range x.publicKeySharePoints {
				x.publicKeySharePoints[k] = new(bn256.G2).ScalarBaseMult(big.NewInt(int64(3 + rng.Intn(1000))))
			}
			return []net.TaggedMarshaler{x}, true
		case "p7-points-short":
			x.publicKeySharePoints = x.publicKeySharePoints[:len(x.publicKeySharePoints)-1]
			return []net.TaggedMarshaler{x}, true
		case "p7-points-long":
			x.publicKeySharePoints = append(x.publicKeySharePoints, new(bn256.G2).ScalarBaseMult(big.NewInt(5)))
			return []net.TaggedMarshaler{x}, true
		case "p7-points-empty":
			x.publicKeySharePoints = nil
			return []net.TaggedMarshaler{x}, true
		case "p7-points-partial":
			// points of f(x) + d*prod_{j in Aux}(x-j): consistent with the
			// shares of the members in Aux only (|Aux| <= t)
			if len(sec.coeffs) == t+1 && len(b.Aux) <= t {
				poly := []*big.Int{big.NewInt(1)}
				for _, j := range b.Aux {
					next := make([]*big.Int, len(poly)+1)
					for i := range next {
						next[i] = big.NewInt(0)
					}
					for i, c := range poly {
						next[i+1].Add(next[i+1], c)
						next[i].Sub(next[i], new(big.Int).Mul(c, big.NewInt(int64(j))))
					}
					poly = next
				}
				d := big.NewInt(int64(1 + rng.Intn(1000)))
				for k := range x.publicKeySharePoints {
					a := new(big.Int).Set(sec.coeffs[k])
					if k < len(poly) {
						a.Add(a, new(big.Int).Mul(d, poly[k]))
					}
					a.Mod(a, bn256.Order)
					x.publicKeySharePoints[k] = new(bn256.G2).ScalarBaseMult(a)
				}
				return []net.TaggedMarshaler{x}, true
			}
		}
	case *MisbehavedEphemeralKeysMessage:
		switch b.Name {
		case "p10-reveal-none":
			if len(x.privateKeys) > 0 {
				x.privateKeys = map[group.MemberIndex]*ephemeral.PrivateKey{}
				return []net.TaggedMarshaler{x}, true
			}
		case "p10-reveal-wrong-key":
			ch := false
			for id := range x.privateKeys {
				x.privateKeys[id] = c01RandKey()
				ch = true
			}
			if ch {
				return []net.TaggedMarshaler{x}, true
			}
		case "p10-reveal-operating": // adds its genuine key for the victim (an operating member, or a member it would not reveal for)
			if kp, ok := sec.ephemeral[victim]; ok {
				x.privateKeys[victim] = kp.PrivateKey
				return []net.TaggedMarshaler{x}, true
			}
		case "p10-reveal-bogus-index":
			x.privateKeys[group.MemberIndex(n+1)] = c01RandKey()
			x.privateKeys[0] = c01RandKey()
			return []net.TaggedMarshaler{x}, true
		case "p10-conflict-bad-first":
			if len(x.privateKeys) > 0 {
				for id := range x.privateKeys {
					x.privateKeys[id] = c01RandKey()
				}
				return []net.TaggedMarshaler{x, orig}, true
			}
		case "p10-conflict-good-first":
			if len(x.privateKeys) > 0 {
				for id := range x.privateKeys {
					x.privateKeys[id] = c01RandKey()
				}
				return []net.TaggedMarshaler{orig, x}, true
			}
		}
	}
	// behaviour not applicable to this message (e.g. nothing to reveal)
	return []net.TaggedMarshaler{orig}, false
}

func c01Accuse(b c01Behaviour, keys map[group.MemberIndex]*ephemeral.PrivateKey, self, n int, sec c01Secrets) bool {
	victim := group.MemberIndex(b.Victim)
	switch b.Name {
	case "acc-false": // reveals its genuine key against a member that did nothing wrong
		if kp, ok := sec.ephemeral[victim]; ok {
			keys[victim] = kp.PrivateKey
			return true
		}
	case "acc-wrong-key":
		keys[victim] = c01RandKey()
		return true
	case "acc-zero-key":
		keys[victim] = ephemeral.UnmarshalPrivateKey([]byte{})
		return true
	case "acc-self":
		keys[group.MemberIndex(self)] = c01RandKey()
		return true
	case "acc-index-zero":
		keys[0] = c01RandKey()
		return true
	case "acc-index-above":
		keys[group.MemberIndex(n+1)] = c01RandKey()
		return true
	case "acc-drop": // withholds the accusations it should make
		if len(keys) > 0 {
			for k := range keys {
				delete(keys, k)
			}
			return true
		}
	}
	return false
}

// behaviour vocabulary per message type; "V" = needs a victim
var c01Vocabulary = map[string][]string{
	c01P1:  {"silent", "duplicate", "spoof-sender:V", "spoof-plus-own:V", "wrong-session", "wrong-session-plus-own", "p1-missing-entry:V", "p1-extra-entry", "p1-conflict-bad-first:V", "p1-conflict-good-first:V"},
	c01P3S: {"silent", "duplicate", "spoof-sender:V", "wrong-session", "p3-shares-missing:V", "p3-shares-garbage:V", "p3-shares-wrong:V", "p3-shares-empty:V", "p3-shares-extra-entry", "p3-conflict-bad-first:V"},
	c01P3C: {"silent", "duplicate", "spoof-sender:V", "wrong-session", "p3-commitments-short", "p3-commitments-long", "p3-commitments-empty", "p3-commitments-random", "p3-commitments-conflict-bad-first", "p3-commitments-conflict-good-first"},
	c01P4:  {"silent", "duplicate", "spoof-sender:V", "spoof-plus-own:V", "wrong-session", "acc-false:V", "acc-wrong-key:V", "acc-zero-key:V", "acc-self", "acc-index-zero", "acc-index-above", "acc-drop"},
	c01P7:  {"silent", "duplicate", "spoof-sender:V", "wrong-session", "p7-points-random", "p7-points-short", "p7-points-long", "p7-points-empty", "p7-points-partial:S"},
	c01P8:  {"silent", "duplicate", "spoof-sender:V", "spoof-plus-own:V", "wrong-session", "acc-false:V", "acc-wrong-key:V", "acc-zero-key:V", "acc-self", "acc-index-zero", "acc-index-above", "acc-drop"},
	c01P10: {"silent", "duplicate", "spoof-sender:V", "wrong-session", "p10-reveal-none", "p10-reveal-wrong-key", "p10-reveal-operating:V", "p10-reveal-bogus-index", "p10-conflict-bad-first", "p10-conflict-good-first"},
}

// c01Script is a corrupt member's plan: message type -> behaviour.
type c01Script map[string]c01Behaviour

func (s c01Script) String() string {
	var parts []string
	for _, k := range c01PhaseKeys {
		if b, ok := s[k]; ok && b.Name != "honest" {
			parts = append(parts, k+"="+b.String())
		}
	}
	return strings.Join(parts, ",")
}

// c01Case is one run's full description (also the replay descriptor).
type c01Case struct {
	N, T     int
	Corrupt  map[int]c01Script
	SchedKey int64 // PRNG seed of the delivery interleavings
}

func (c c01Case) String() string {
	ids := make([]int, 0, len(c.Corrupt))
	for id := range c.Corrupt {
		ids = append(ids, id)
	}
	sort.Ints(ids)
	var parts []string
	for _, id := range ids {
		parts = append(parts, fmt.Sprintf("m%d{%s}", id, c.Corrupt[id]))
	}
	return fmt.Sprintf("n=%d t=%d %s sched=%d", c.N, c.T, strings.Join(parts, " "), c.SchedKey)
}

func c01PickBehaviour(rng *rand.Rand, key string, self, n, t int, others []int) c01Behaviour {
	voc := c01Vocabulary[key]
	name := voc[rng.Intn(len(voc))]
	b := c01Behaviour{}
	if i := strings.Index(name, ":"); i >= 0 {
		kind := name[i+1:]
		name = name[:i]
		switch kind {
		case "V":
			b.Victim = others[rng.Intn(len(others))]
		case "S":
			// a subset of other members of size 1..t that will accept
			perm := rng.Perm(len(others))
			k := 1 + rng.Intn(t)
			for _, p := range perm[:k] {
				b.Aux = append(b.Aux, others[p])
			}
			sort.Ints(b.Aux)
		}
	}
	b.Name = name
	return b
}

// c01RandomCase draws a case: corrupt subset of size 0..t and a script for
// each corrupt member (each message type misbehaves with probability p).
func c01RandomCase(rng *rand.Rand, n, t int) c01Case {
	c := c01Case{N: n, T: t, Corrupt: map[int]c01Script{}, SchedKey: rng.Int63()}
	k := rng.Intn(t + 1)
	if rng.Intn(4) != 0 && k == 0 {
		k = 1 + rng.Intn(t)
	}
	perm := rng.Perm(n)
	for _, p := range perm[:k] {
		id := p + 1
		var others []int
		for j := 1; j <= n; j++ {
			if j != id {
				others = append(others, j)
			}
		}
		// faults are aimed at accomplices as often as at honest members
		if k >= 2 && rng.Intn(2) == 0 {
			for _, q := range perm[:k] {
				if q+1 != id {
					for r := 0; r < n; r++ {
						others = append(others, q+1)
					}
				}
			}
		}
		s := c01Script{}
		p := 0.2 + 0.3*rng.Float64()
		for _, key := range c01PhaseKeys {
			if rng.Float64() < p {
				s[key] = c01PickBehaviour(rng, key, id, n, t, others)
			}
		}
		if len(s) == 0 {
			key := c01PhaseKeys[rng.Intn(len(c01PhaseKeys))]
			s[key] = c01PickBehaviour(rng, key, id, n, t, others)
		}
		c.Corrupt[id] = s
	}
	// collusion template: A cheats accomplice B in phase 3, B does not
	// complain, A later needs reconstruction, B reveals (or not)
	if k >= 2 && rng.Intn(4) == 0 {
		a, b := perm[0]+1, perm[1]+1
		f3 := []string{"p3-shares-wrong", "p3-shares-garbage", "p3-shares-empty", "p3-conflict-bad-first"}[rng.Intn(4)]
		c.Corrupt[a][c01P3S] = c01Behaviour{Name: f3, Victim: b}
		c.Corrupt[b][c01P4] = c01Behaviour{Name: "acc-drop"}
		delete(c.Corrupt[a], c01P1)
		delete(c.Corrupt[b], c01P1)
		delete(c.Corrupt[b], c01P3S)
		delete(c.Corrupt[b], c01P3C)
		delete(c.Corrupt[a], c01P3C)
		delete(c.Corrupt[a], c01P4)
		if rng.Intn(2) == 0 {
			// B reveals its genuine ephemeral key for A although its own code would not
			c.Corrupt[b][c01P10] = c01Behaviour{Name: "p10-reveal-operating", Victim: a}
		}
		switch rng.Intn(4) {
		case 0:
			c.Corrupt[a][c01P7] = c01Behaviour{Name: "silent"}
		case 1:
			c.Corrupt[a][c01P7] = c01Behaviour{Name: "p7-points-random"}
		case 2:
			c.Corrupt[a][c01P7] = c01Behaviour{Name: "p7-points-short"}
		}
	}
	return c
}

// ---- execution ----------------------------------------------------------

type c01MemberRun struct {
	idx     int
	st      state.SyncState
	ch      *c01Chan
	err     error
	errAt   string
	result  *Result
	corrupt bool
}

type c01Outcome struct {
	members     []*c01MemberRun
	altered     int // behaviours that really changed or suppressed a message
	delivered   int
	statesRun   int
	interleave  string // signature of the delivery orders used
	reconstruct bool   // some honest member reconstructed a misbehaved member's key
}

var c01DebugLogger log.StandardLogger
var c01KeysOnce sync.Once
var c01Keys []*operator.PublicKey
var c01Signing chain.Signing

func c01Operators(n int) ([]chain.Address, [][]byte) {
	c01KeysOnce.Do(func() {
		c01Signing = local_v1.Connect(10, 6).Signing()
		for i := 0; i < 16; i++ {
			_, pub, err := operator.GenerateKeyPair(local_v1.DefaultCurve)
			if err != nil {
				panic(err)
			}
			c01Keys = append(c01Keys, pub)
		}
	})
	addrs := make([]chain.Address, n)
	pubs := make([][]byte, n)
	for i := 0; i < n; i++ {
		a, err := c01Signing.PublicKeyToAddress(c01Keys[i])
		if err != nil {
			panic(err)
		}
		addrs[i] = a
		pubs[i] = operator.MarshalUncompressed(c01Keys[i])
	}
	return addrs, pubs
}

// c01Execute runs one case to the end.
func c01Execute(c c01Case) *c01Outcome {
	n, t := c.N, c.T
	addrs, pubs := c01Operators(n)
	var logger log.StandardLogger = &testutils.MockLogger{}
	if c01DebugLogger != nil {
		logger = c01DebugLogger
	}
	mv := group.NewMembershipValidator(logger, addrs, c01Signing)
	seed := big.NewInt(1234567)
	sched := rand.New(rand.NewSource(c.SchedKey))
	faultRng := rand.New(rand.NewSource(c.SchedKey ^ 0x5eed))
	out := &c01Outcome{}
	var outbox []c01Env
	members := make([]*c01MemberRun, n)
	for i := 0; i < n; i++ {
		idx := i + 1
		ch := &c01Chan{owner: idx, pub: pubs[i], unm: map[string]func() net.TaggedUnmarshaler{}, outbox: &outbox}
		RegisterUnmarshallers(ch)
		m, err := NewMember(logger, group.MemberIndex(idx), n, t, mv, seed, "session")
		if err != nil {
			panic(err)
		}
		mr := &c01MemberRun{idx: idx, ch: ch}
		mr.st = &ephemeralKeyPairGenerationState{channel: ch, member: m.InitializeEphemeralKeysGeneration()}
		if script, ok := c.Corrupt[idx]; ok {
			mr.corrupt = true
			mrRef := mr
			ch.script = func(msg net.TaggedMarshaler) []net.TaggedMarshaler {
				b, ok := script[c01KeyOf(msg)]
				if !ok {
					return []net.TaggedMarshaler{msg}
				}
				res, changed := c01Apply(b, msg, mrRef.idx, n, t, c01SecretsOf(mrRef.st), faultRng)
				if changed {
					out.altered++
				}
				return res
			}
		}
		members[i] = mr
	}
	out.members = members
	var sig []string
	ctx := context.Background()
	for step := 0; step < 40; step++ {
		live := 0
		// 1. every live member initiates its current state (sends are queued)
		outbox = outbox[:0]
		order := sched.Perm(n)
		for _, p := range order {
			m := members[p]
			if m.err != nil || m.result != nil {
				continue
			}
			live++
			if err := m.st.Initiate(ctx); err != nil {
				m.err = err
				m.errAt = fmt.Sprintf("Initiate %T", m.st)
			}
			out.statesRun++
		}
		if live == 0 {
			break
		}
		// 2. delivery: per receiver, a random merge of the per-sender FIFO queues
		if len(outbox) > 0 {
			queues := map[int][]c01Env{}
			var senders []int
			for _, e := range outbox {
				if _, ok := queues[e.from]; !ok {
					senders = append(senders, e.from)
				}
				queues[e.from] = append(queues[e.from], e)
			}
			for _, m := range members {
				if m.err != nil || m.result != nil {
					continue
				}
				pos := map[int]int{}
				remaining := len(outbox)
				var ord []string
				for remaining > 0 {
					var cand []int
					for _, s := range senders {
						if pos[s] < len(queues[s]) {
							cand = append(cand, s)
						}
					}
					s := cand[sched.Intn(len(cand))]
					e := queues[s][pos[s]]
					pos[s]++
					remaining--
					ord = append(ord, fmt.Sprint(s))
					mk := m.ch.unm[e.typ]
					if mk == nil {
						continue
					}
					u := mk()
					if err := u.Unmarshal(e.bytes); err != nil {
						continue
					}
					out.delivered++
					_ = m.st.Receive(&c01Msg{c01ID(fmt.Sprint(e.from)), pubs[e.from-1], u, e.typ, uint64(out.delivered)})
				}
				sig = append(sig, strings.Join(ord, ""))
			}
		}
		// 3. everybody moves on
		for _, m := range members {
			if m.err != nil || m.result != nil {
				continue
			}
			if rs, ok := m.st.(*reconstructionState); ok && !m.corrupt {
				if len(rs.member.reconstructedIndividualPrivateKeys) > 0 {
					out.reconstruct = true
				}
			}
			next, err := m.st.Next()
			if err != nil {
				m.err = err
				m.errAt = fmt.Sprintf("Next %T", m.st)
				continue
			}
			if next == nil {
				fs, ok := m.st.(*finalizationState)
				if !ok {
					m.err = fmt.Errorf("ended in %T", m.st)
					continue
				}
				m.result = fs.result()
				continue
			}
			m.st = next
		}
	}
	out.interleave = strings.Join(sig, "|")
	return out
}

func c01Set(xs []group.MemberIndex) string {
	ys := make([]int, len(xs))
	for i, x := range xs {
		ys[i] = int(x)
	}
	sort.Ints(ys)
	return fmt.Sprint(ys)
}

// c01Curated: two- and three-step compositions that run before the random cases.
func c01Curated() []c01Case {
	var cs []c01Case
	add := func(n, t int, corrupt map[int]c01Script) {
		cs = append(cs, c01Case{N: n, T: t, Corrupt: corrupt, SchedKey: int64(1000 + len(cs))})
	}
	B := func(name string, victim int, aux ...int) c01Behaviour { return c01Behaviour{name, victim, aux} }
	for _, nt := range [][2]int{{3, 1}, {5, 2}, {7, 3}} {
		n, t := nt[0], nt[1]
		add(n, t, map[int]c01Script{})
		add(n, t, map[int]c01Script{1: {c01P1: B("silent", 0)}})
		add(n, t, map[int]c01Script{n: {c01P3S: B("p3-shares-wrong", 1)}})
		add(n, t, map[int]c01Script{2: {c01P3S: B("p3-shares-garbage", 1)}})
		add(n, t, map[int]c01Script{2: {c01P4: B("acc-false", 1)}})
		add(n, t, map[int]c01Script{2: {c01P7: B("p7-points-random", 0)}})
		add(n, t, map[int]c01Script{2: {c01P7: B("silent", 0)}})
		add(n, t, map[int]c01Script{2: {c01P7: B("p7-points-partial", 0, 1)}})
		add(n, t, map[int]c01Script{2: {c01P7: B("p7-points-partial", 0, 3)}})
		add(n, t, map[int]c01Script{2: {c01P8: B("acc-false", 3)}})
		add(n, t, map[int]c01Script{n: {c01P3C: B("p3-commitments-conflict-bad-first", 0)}})
		add(n, t, map[int]c01Script{2: {c01P3C: B("p3-commitments-conflict-good-first", 0)}})
		add(n, t, map[int]c01Script{2: {c01P7: B("p7-points-random", 0), c01P10: B("silent", 0)}})
		add(n, t, map[int]c01Script{2: {c01P3S: B("p3-shares-wrong", 1), c01P4: B("acc-false", 3), c01P7: B("p7-points-random", 0)}})
		add(n, t, map[int]c01Script{1: {c01P1: B("spoof-plus-own", 2), c01P4: B("acc-wrong-key", 3), c01P8: B("acc-index-zero", 0)}})
		if t >= 2 {
			add(n, t, map[int]c01Script{1: {c01P7: B("p7-points-random", 0)}, 2: {c01P10: B("p10-reveal-wrong-key", 0)}})
			add(n, t, map[int]c01Script{1: {c01P7: B("silent", 0)}, 2: {c01P10: B("p10-reveal-none", 0)}})
			add(n, t, map[int]c01Script{1: {c01P7: B("silent", 0)}, 2: {c01P10: B("p10-conflict-bad-first", 0)}})
			add(n, t, map[int]c01Script{1: {c01P1: B("silent", 0)}, 2: {c01P4: B("acc-false", 1), c01P8: B("acc-wrong-key", 1)}})
			add(n, t, map[int]c01Script{1: {c01P3S: B("p3-shares-wrong", 3)}, 2: {c01P4: B("acc-false", 3), c01P10: B("p10-reveal-operating", 3)}})
			add(n, t, map[int]c01Script{1: {c01P7: B("p7-points-partial", 0, 3, 4)}, 2: {c01P8: B("acc-drop", 0), c01P10: B("p10-reveal-none", 0)}})
			// collusions: A cheats its accomplice B in phase 3, B keeps quiet,
			// A then drops out so that its key has to be reconstructed
			for _, f3 := range []string{"p3-shares-wrong", "p3-shares-garbage", "p3-shares-empty"} {
				for _, f7 := range []string{"silent", "p7-points-random", "p7-points-short"} {
					add(n, t, map[int]c01Script{1: {c01P3S: B(f3, 2), c01P7: B(f7, 0)}, 2: {c01P4: B("acc-drop", 0)}})
					// ... and B, which never stored A's bad share, still reveals its genuine key for A
					add(n, t, map[int]c01Script{1: {c01P3S: B(f3, 2), c01P7: B(f7, 0)}, 2: {c01P4: B("acc-drop", 0), c01P10: B("p10-reveal-operating", 1)}})
				}
			}
			// collusion: A gets itself disqualified where no reconstruction is
			// due (phase 5: it never enters QUAL; phase 9: its public key share
			// points are already part of the group key) and B reveals its
			// genuine key for A in phase 10
			add(n, t, map[int]c01Script{1: {c01P4: B("acc-false", 3)}, 2: {c01P10: B("p10-reveal-operating", 1)}})
			add(n, t, map[int]c01Script{1: {c01P4: B("acc-index-above", 0)}, 2: {c01P10: B("p10-reveal-operating", 1)}})
			add(n, t, map[int]c01Script{1: {c01P8: B("acc-false", 3)}, 2: {c01P10: B("p10-reveal-operating", 1)}})
			add(n, t, map[int]c01Script{1: {c01P8: B("acc-index-zero", 0)}, 2: {c01P10: B("p10-reveal-operating", 1)}})
			add(n, t, map[int]c01Script{n: {c01P3S: B("p3-shares-wrong", 1), c01P7: B("p7-points-partial", 0, 2, 3)}, 1: {c01P4: B("acc-drop", 0), c01P8: B("acc-drop", 0)}})
			add(n, t, map[int]c01Script{n: {c01P3S: B("p3-shares-wrong", 1), c01P7: B("silent", 0)}, 1: {c01P4: B("acc-drop", 0), c01P10: B("p10-reveal-wrong-key", 0)}})
			add(n, t, map[int]c01Script{2: {c01P3S: B("p3-conflict-bad-first", 1), c01P7: B("silent", 0)}, 1: {c01P4: B("acc-drop", 0)}})
			// collusion in phases 7-9: A's public key share points match the
			// shares of its accomplice B and of one honest member only (the
			// other honest members accuse A); B, whose share matches, accuses
			// A as well. Whether B is a false accuser must not depend on the
			// judge's own phase-8 verdict on A nor on the order in which the
			// accusations are resolved: several delivery schedules each.
			for rep := 0; rep < 6; rep++ {
				add(n, t, map[int]c01Script{1: {c01P7: B("p7-points-partial", 0, 2, 3)}, 2: {c01P8: B("acc-false", 1)}})
				add(n, t, map[int]c01Script{n: {c01P7: B("p7-points-partial", 0, 1, n-1)}, n - 1: {c01P8: B("acc-false", n)}})
			}
		}
	}
	return cs
}

// c01Enumerate: every single (message type, behaviour, victim) fault for one
// corrupt member.
func c01Enumerate(n, t int, corruptID int) []c01Case {
	var cs []c01Case
	var others []int
	for j := 1; j <= n; j++ {
		if j != corruptID {
			others = append(others, j)
		}
	}
	for _, key := range c01PhaseKeys {
		for _, name := range c01Vocabulary[key] {
			kind := ""
			if i := strings.Index(name, ":"); i >= 0 {
				kind, name = name[i+1:], name[:i]
			}
			switch kind {
			case "V":
				for _, v := range others {
					cs = append(cs, c01Case{N: n, T: t, Corrupt: map[int]c01Script{corruptID: {key: {Name: name, Victim: v}}}, SchedKey: int64(len(cs) + 7)})
				}
			case "S":
				for _, v := range others {
					cs = append(cs, c01Case{N: n, T: t, Corrupt: map[int]c01Script{corruptID: {key: {Name: name, Aux: []int{v}}}}, SchedKey: int64(len(cs) + 7)})
				}
			default:
				cs = append(cs, c01Case{N: n, T: t, Corrupt: map[int]c01Script{corruptID: {key: {Name: name}}}, SchedKey: int64(len(cs) + 7)})
			}
		}
	}
	return cs
}

func c01Cases(r *verifkit.Run) []c01Case {
	cases := c01Curated()
	cases = append(cases, c01Enumerate(3, 1, 2)...)
	if !r.Quick() {
		cases = append(cases, c01Enumerate(5, 2, 1)...)
		cases = append(cases, c01Enumerate(5, 2, 5)...)
		cases = append(cases, c01Enumerate(4, 1, 3)...)
	}
	rng := r.Rand("cases")
	configs := [][2]int{{3, 1}, {4, 1}, {5, 2}, {7, 3}}
	nRandom := r.N(1200, 60000)
	for i := 0; i < nRandom; i++ {
		cfg := configs[rng.Intn(len(configs))]
		if cfg[0] == 7 && rng.Intn(3) != 0 {
			cfg = configs[rng.Intn(3)]
		}
		cases = append(cases, c01RandomCase(rng, cfg[0], cfg[1]))
	}
	// replay of one recorded case (bin/vcheck --replay): only that case runs
	if want := r.Replay(); want != "" {
		var only []c01Case
		for _, c := range cases {
			if c.String() == want {
				only = append(only, c)
			}
		}
		if len(only) > 0 {
			return only
		}
	}
	return cases
}

// c01HonestResults returns the finished honest members of an outcome.
func c01HonestResults(o *c01Outcome) (fin []*c01MemberRun, aborted []*c01MemberRun) {
	for _, m := range o.members {
		if m.corrupt {
			continue
		}
		if m.result != nil {
			fin = append(fin, m)
		} else {
			aborted = append(aborted, m)
		}
	}
	return
}

func c01FaultClass(c c01Case) string {
	// class of the case for fingerprints: sorted behaviour names, no victims
	var names []string
	for _, s := range c.Corrupt {
		for k, b := range s {
			names = append(names, k+"="+b.Name)
		}
	}
	sort.Strings(names)
	if len(names) > 3 {
		names = names[:3]
	}
	return strings.Join(names, "+")
}

func TestVerif_C01_Agreement(t *testing.T) {
	r := verifkit.Start(t, "C01", "agreement")
	defer r.Finish()
	r.SetRule("real GJKR members (n,t) in {(3,1),(4,1),(5,2),(7,3)}, corrupt subsets of size 0..t running the real code behind a behaviour script (curated 2-3 step compositions, every single fault enumerated for n=3, PRNG-composed scripts), per-receiver random merge of per-sender FIFO queues; non-trivial = >=1 behaviour really altered or suppressed a sent message and every honest member finished; distinct = hash of (n,t,scripts,schedule seed)")
	r.Assume("synchrony: every message is delivered and processed inside its phase (the SyncMachine itself is C14's subject; here the real states are stepped by the monitor)")
	r.Assume("consistent broadcast: all receivers get identical bytes and the same per-sender order")
	cases := c01Cases(r)
	interleavings := map[[8]byte]struct{}{}
	var mu sync.Mutex
	verifkit.Parallel(len(cases), 0, func(i int) {
		c := cases[i]
		desc := c.String()
		var o *c01Outcome
		if r.Guard("agreement:", desc, func() { o = c01Execute(c) }) {
			return
		}
		fin, aborted := c01HonestResults(o)
		r.Case(desc, o.altered > 0 && len(aborted) == 0 && len(fin) > 0)
		r.Count("messages_delivered", int64(o.delivered))
		r.Count("behaviours_effective", int64(o.altered))
		if len(aborted) > 0 {
			r.Count("honest_aborts", int64(len(aborted)))
		}
		if o.reconstruct {
			r.Count("runs_with_reconstruction", 1)
		}
		mu.Lock()
		interleavings[c01Hash8(o.interleave)] = struct{}{}
		mu.Unlock()
		class := c01FaultClass(c)
		violated := false
		viol := func(fp, what string, wit interface{}) {
			violated = true
			r.Violation(fp, what, desc, wit)
		}
		honest := map[int]bool{}
		for _, m := range o.members {
			if !m.corrupt {
				honest[m.idx] = true
			}
		}
		var ref *c01MemberRun
		for _, m := range fin {
			ia, dq := m.result.Group.InactiveMemberIndexes(), m.result.Group.DisqualifiedMemberIndexes()
			for _, x := range append(append([]group.MemberIndex{}, ia...), dq...) {
				if honest[int(x)] {
					viol("honest-marked-misbehaved", fmt.Sprintf("honest member %d lists honest member %d as inactive/disqualified (IA=%s DQ=%s) [fault class %s]", m.idx, x, c01Set(ia), c01Set(dq), class), nil)
				}
			}
			if ref == nil {
				ref = m
				continue
			}
			kr, _ := ref.result.GroupPublicKeyBytes()
			km, _ := m.result.GroupPublicKeyBytes()
			if string(kr) != string(km) {
				viol("group-key-divergence", fmt.Sprintf("honest members %d and %d finished with different group public keys [fault class %s]", ref.idx, m.idx, class),
					map[string]string{fmt.Sprint(ref.idx): verifkit.Hex(kr), fmt.Sprint(m.idx): verifkit.Hex(km)})
			}
			// What is signed and published is the union IA+DQ ("misbehaved",
			// pkg/beacon/dkg/result/conversion.go); the IA/DQ split of one
			// member is local bookkeeping and is only recorded.
			ur := c01Set(append(append([]group.MemberIndex{}, ref.result.Group.InactiveMemberIndexes()...), ref.result.Group.DisqualifiedMemberIndexes()...))
			um := c01Set(append(append([]group.MemberIndex{}, ia...), dq...))
			if ur != um {
				viol("misbehaved-set-divergence", fmt.Sprintf("honest members %d and %d disagree on the misbehaved set: %s vs %s (IA %s/%s DQ %s/%s) [fault class %s]", ref.idx, m.idx, ur, um,
					c01Set(ref.result.Group.InactiveMemberIndexes()), c01Set(ia), c01Set(ref.result.Group.DisqualifiedMemberIndexes()), c01Set(dq), class), nil)
			} else if c01Set(ref.result.Group.InactiveMemberIndexes()) != c01Set(ia) {
				r.Count("classification_divergence_same_union", 1)
			}
		}
		for _, m := range aborted {
			r.Count("honest_abort:"+m.errAt, 1)
			if os.Getenv("VERIF_DEBUG") != "" {
				r.Count("abort-detail:"+class+":"+m.err.Error(), 1)
			}
		}
		if os.Getenv("VERIF_DEBUG") != "" && violated {
			r.Count("violating-class:"+class, 1)
			if !strings.Contains(desc, "p7-points-partial") {
				t.Logf("VIOLATING CASE: %s", desc)
				for _, m := range o.members {
					if m.result != nil {
						t.Logf("   m%d corrupt=%v IA=%s DQ=%s", m.idx, m.corrupt, c01Set(m.result.Group.InactiveMemberIndexes()), c01Set(m.result.Group.DisqualifiedMemberIndexes()))
					} else {
						t.Logf("   m%d corrupt=%v err=%v at %s", m.idx, m.corrupt, m.err, m.errAt)
					}
				}
			}
		}
		if i%(len(cases)/4+1) == 0 && ref != nil {
			kb, _ := ref.result.GroupPublicKeyBytes()
			r.Sample(map[string]interface{}{"case": desc, "honest_finished": len(fin), "IA": c01Set(ref.result.Group.InactiveMemberIndexes()),
				"DQ": c01Set(ref.result.Group.DisqualifiedMemberIndexes()), "group_key_prefix": verifkit.Hex(kb[:8]), "delivered": o.delivered})
		}
	})
	r.Count("distinct_interleaving_signatures", int64(len(interleavings)))
}

func c01Hash8(s string) [8]byte {
	var o [8]byte
	h := uint64(1469598103934665603)
	for i := 0; i < len(s); i++ {
		h ^= uint64(s[i])
		h *= 1099511628211
	}
	for i := 0; i < 8; i++ {
		o[i] = byte(h >> (8 * i))
	}
	return o
}

// ---- C02 ----------------------------------------------------------------

func c02Lagrange0(ids []int, i int) *big.Int {
	num, den := big.NewInt(1), big.NewInt(1)
	for _, j := range ids {
		if j == i {
			continue
		}
		num.Mul(num, big.NewInt(int64(j)))
		num.Mod(num, bn256.Order)
		den.Mul(den, new(big.Int).Sub(big.NewInt(int64(j)), big.NewInt(int64(i))))
		den.Mod(den, bn256.Order)
	}
	den.ModInverse(den, bn256.Order)
	return num.Mul(num, den).Mod(num, bn256.Order)
}

func c02Subsets(ids []int, k int) [][]int {
	var out [][]int
	var rec func(start int, cur []int)
	rec = func(start int, cur []int) {
		if len(cur) == k {
			out = append(out, append([]int(nil), cur...))
			return
		}
		for i := start; i < len(ids); i++ {
			rec(i+1, append(cur, ids[i]))
		}
	}
	rec(0, nil)
	return out
}

func TestVerif_C02_Shares(t *testing.T) {
	r := verifkit.Start(t, "C02", "shares")
	defer r.Finish()
	r.SetRule("same case space as C01 (curated, enumerated single faults, PRNG-composed scripts); for every run with >=1 finished honest member: x_i*G2 vs the share every other honest member computed for i, and every (t+1)-subset of honest members Lagrange-interpolated at 0 vs the group key; non-trivial = >=1 (t+1)-subset interpolated in a run where a fault was effective; reconstruction runs counted apart")
	r.Assume("same synchrony / consistent-broadcast assumptions as C01")
	cases := c01Cases(r)
	verifkit.Parallel(len(cases), 0, func(i int) {
		c := cases[i]
		desc := c.String()
		var o *c01Outcome
		if r.Guard("shares:", desc, func() { o = c01Execute(c) }) {
			return
		}
		fin, _ := c01HonestResults(o)
		class := c01FaultClass(c)
		if os.Getenv("VERIF_DEBUG") != "" && r.Replay() != "" {
			for _, m := range o.members {
				if m.result != nil {
					kb, _ := m.result.GroupPublicKeyBytes()
					t.Logf("C02DBG m%d corrupt=%v IA=%s DQ=%s key=%s", m.idx, m.corrupt, c01Set(m.result.Group.InactiveMemberIndexes()), c01Set(m.result.Group.DisqualifiedMemberIndexes()), verifkit.Hex(kb[:6]))
				} else {
					t.Logf("C02DBG m%d corrupt=%v err=%v at %s", m.idx, m.corrupt, m.err, m.errAt)
				}
			}
		}
		if len(fin) == 0 {
			r.Case(desc, false)
			return
		}
		// (1) x_i * G2 == share computed for i by every other honest member j
		pub := map[int]*bn256.G2{}
		for _, m := range fin {
			if m.result.GroupPrivateKeyShare == nil {
				r.Violation("nil-private-share", fmt.Sprintf("honest member %d finished without a private key share [fault class %s]", m.idx, class), desc, nil)
				return
			}
			pub[m.idx] = new(bn256.G2).ScalarBaseMult(m.result.GroupPrivateKeyShare)
		}
		var shares map[int]map[group.MemberIndex]*bn256.G2 = map[int]map[group.MemberIndex]*bn256.G2{}
		if r.Guard("shares:", desc, func() {
			for _, m := range fin {
				shares[m.idx] = m.result.GroupPublicKeyShares()
			}
		}) {
			return
		}
		pairs := 0
		for _, j := range fin {
			for _, m := range fin {
				if m.idx == j.idx {
					continue
				}
				sh, ok := shares[j.idx][group.MemberIndex(m.idx)]
				if !ok || sh == nil {
					r.Violation("share-missing", fmt.Sprintf("honest member %d has no public key share for honest member %d [fault class %s]", j.idx, m.idx, class), desc, nil)
					continue
				}
				pairs++
				if sh.String() != pub[m.idx].String() {
					r.Violation("share-mismatch", fmt.Sprintf("x_%d*G2 differs from the public key share member %d computed for it [fault class %s]", m.idx, j.idx, class), desc, nil)
				}
			}
		}
		r.Count("share_pairs_checked", int64(pairs))
		// (2) every (t+1)-subset of honest finishers interpolates to the group key
		var ids []int
		byID := map[int]*c01MemberRun{}
		for _, m := range fin {
			ids = append(ids, m.idx)
			byID[m.idx] = m
		}
		sort.Ints(ids)
		subsets := 0
		if len(ids) >= c.T+1 {
			for _, S := range c02Subsets(ids, c.T+1) {
				sum := big.NewInt(0)
				for _, id := range S {
					l := c02Lagrange0(S, id)
					sum.Add(sum, new(big.Int).Mul(l, byID[id].result.GroupPrivateKeyShare))
					sum.Mod(sum, bn256.Order)
				}
				got := new(bn256.G2).ScalarBaseMult(sum)
				for _, id := range S {
					gk := byID[id].result.GroupPublicKey
					if gk == nil {
						r.Violation("nil-group-key", fmt.Sprintf("honest member %d finished without a group public key [fault class %s]", id, class), desc, nil)
						continue
					}
					if got.String() != gk.String() {
						r.Violation("interpolation-mismatch", fmt.Sprintf("shares of honest members %v interpolate to a key different from member %d's group public key [fault class %s]", S, id, class), desc, nil)
					}
				}
				subsets++
			}
		}
		r.Count("subsets_interpolated", int64(subsets))
		if o.reconstruct {
			r.Count("reconstruction_runs", 1)
		}
		r.Case(desc, subsets > 0 && o.altered > 0)
		if i%(len(cases)/4+1) == 0 {
			r.Sample(map[string]interface{}{"case": desc, "honest": ids, "subsets_interpolated": subsets, "share_pairs": pairs, "reconstruction": o.reconstruct})
		}
	})
}

// TestVerif_C02_SharesRace: a sample of the same executions under the race
// detector. The only goroutine the protocol code itself starts is the public
// key share computation of phase 12, which works on the same curve points as
// the result the member returns.
func TestVerif_C02_SharesRace(t *testing.T) {
	r := verifkit.Start(t, "C02", "shares_race")
	defer r.Finish()
	r.SetRule("every 25th case of the C01/C02 case list (curated ones first), executed under the race detector; after each run the result's group public key bytes, the private share and the public key shares are read as a caller would; verdict from the detector's log (accesses attributed to pkg/beacon/gjkr production files)")
	cases := c01Cases(r)
	n := 0
	for i := 0; i < len(cases); i += 25 {
		c := cases[i]
		desc := c.String()
		var o *c01Outcome
		if r.Guard("shares-race:", desc, func() { o = c01Execute(c) }) {
			continue
		}
		fin, _ := c01HonestResults(o)
		for _, m := range fin {
			r.Guard("shares-race:", desc, func() {
				_, _ = m.result.GroupPublicKeyBytes()
				_ = m.result.GroupPublicKeyShares()
			})
		}
		r.Case(desc, len(fin) > 0)
		n++
	}
	r.Count("runs_under_race_detector", int64(n))
}
