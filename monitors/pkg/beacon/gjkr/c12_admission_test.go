//go:build verif

package gjkr

import (
	"fmt"
	"math/big"
	"testing"

	"github.com/keep-network/keep-core/internal/testutils"
	"github.com/keep-network/keep-core/internal/verifkit"
	"github.com/keep-network/keep-core/pkg/chain"
	"github.com/keep-network/keep-core/pkg/chain/local_v1"
	"github.com/keep-network/keep-core/pkg/net"
	"github.com/keep-network/keep-core/pkg/operator"
	"github.com/keep-network/keep-core/pkg/protocol/group"
)

// ---------------------------------------------------------------------------
// C12 (gjkr part): every state of the beacon DKG that stores messages is fed
// a synthetic net.Message for every (layout, receiver, claimed index, sender
// key, session, sender status) combination; "acted on" = appended to the
// state's phase-message slice. The reference verdict is computed from the
// seat table only (never from MembershipValidator / group.Group).
// ---------------------------------------------------------------------------

type c12Msg struct {
	payload interface{}
	key     []byte
}

func (m *c12Msg) TransportSenderID() net.TransportIdentifier { return nil }
func (m *c12Msg) SenderPublicKey() []byte                    { return m.key }
func (m *c12Msg) Payload() interface{}                       { return m.payload }
func (m *c12Msg) Type() string                               { return "c12" }
func (m *c12Msg) Seqno() uint64                              { return 0 }

type c12Layout struct {
	name  string
	seats []int // seat (position) -> operator number
}

type c12Key struct {
	name string
	op   int // operator number, -1 = not a group operator
	pub  []byte
}

type c12Case struct {
	layout   c12Layout
	receiver int
	claimed  int
	key      c12Key
	session  string // "own", "other", "prefix"
	status   string // "operating", "IA", "DQ", "siblingDQ"
}

func (c c12Case) desc(rp string) string {
	return fmt.Sprintf("rp=%s layout=%s seats=%v receiver=%d claimed=%d key=%s session=%s status=%s",
		rp, c.layout.name, c.layout.seats, c.receiver, c.claimed, c.key.name, c.session, c.status)
}

// c12Expect is the reference admission rule. It returns whether the message
// is fully legitimate and, when not, the first reason it is not.
func c12Expect(c c12Case) (bool, string) {
	n := len(c.layout.seats)
	held := c.claimed >= 1 && c.claimed <= n && c.key.op >= 0 && c.layout.seats[c.claimed-1] == c.key.op
	switch {
	case !held:
		return false, "index-not-held"
	case c.claimed == c.receiver:
		return false, "own-index"
	case c.session != "own":
		return false, "other-session"
	case c.status == "IA" || c.status == "DQ":
		return false, "sender-excluded"
	}
	return true, ""
}

// c12Siblings lists the seats of the key's operator other than the claimed
// index and the receiver.
func c12Siblings(c c12Case) []int {
	var out []int
	for pos, op := range c.layout.seats {
		idx := pos + 1
		if op == c.key.op && idx != c.claimed && idx != c.receiver {
			out = append(out, idx)
		}
	}
	return out
}

func c12Grid(layouts []c12Layout, keysOf func(l c12Layout) []c12Key) []c12Case {
	var out []c12Case
	for _, l := range layouts {
		n := len(l.seats)
		claims := []int{0}
		for i := 1; i <= n+1; i++ {
			claims = append(claims, i)
		}
		claims = append(claims, 255)
		for recv := 1; recv <= n; recv++ {
			for _, cl := range claims {
				for _, k := range keysOf(l) {
					for _, sess := range []string{"own", "other", "prefix"} {
						for _, st := range []string{"operating", "IA", "DQ", "siblingDQ"} {
							c := c12Case{l, recv, cl, k, sess, st}
							inRange := cl >= 1 && cl <= n && cl != recv
							if (st == "IA" || st == "DQ") && !inRange {
								continue
							}
							if st == "siblingDQ" && len(c12Siblings(c)) == 0 {
								continue
							}
							out = append(out, c)
						}
					}
				}
			}
		}
	}
	return out
}

const c12OwnSession = "session-1"

func c12Session(kind string) string {
	switch kind {
	case "own":
		return c12OwnSession
	case "prefix":
		return c12OwnSession + "0"
	}
	return "session-2"
}

// c12ReceivePoint builds a fresh state around the member, delivers one
// message claiming (sender, session) from key and reports whether the state
// stored it.
type c12ReceivePoint struct {
	name string
	// lateExclusion: the probe captures the members operating at phase start
	// (as the state's Initiate does) BEFORE the case's IA/DQ marking is
	// applied; such a sender is documented to be still accepted
	// (shouldAcceptAccusationMessage).
	lateExclusion bool
	probe         func(lm *LocalMember, sender group.MemberIndex, session string, key []byte, mark func()) (acted bool, err error)
}

func c12ReceivePoints() []c12ReceivePoint {
	return []c12ReceivePoint{
		{"ephemeralKeyPairGenerationState/EphemeralPublicKeyMessage", false, func(lm *LocalMember, s group.MemberIndex, sess string, key []byte, mark func()) (bool, error) {
			mark()
			st := &ephemeralKeyPairGenerationState{member: lm.InitializeEphemeralKeysGeneration()}
			p := &EphemeralPublicKeyMessage{senderID: s, sessionID: sess}
			err := st.Receive(&c12Msg{p, key})
			return len(st.phaseMessages) == 1 && st.phaseMessages[0] == p, err
		}},
		{"commitmentState/PeerSharesMessage", false, func(lm *LocalMember, s group.MemberIndex, sess string, key []byte, mark func()) (bool, error) {
			mark()
			st := &commitmentState{member: lm.InitializeEphemeralKeysGeneration().InitializeSymmetricKeyGeneration().InitializeCommitting()}
			p := &PeerSharesMessage{senderID: s, sessionID: sess}
			err := st.Receive(&c12Msg{p, key})
			return len(st.phaseSharesMessages) == 1 && st.phaseSharesMessages[0] == p, err
		}},
		{"commitmentState/MemberCommitmentsMessage", false, func(lm *LocalMember, s group.MemberIndex, sess string, key []byte, mark func()) (bool, error) {
			mark()
			st := &commitmentState{member: lm.InitializeEphemeralKeysGeneration().InitializeSymmetricKeyGeneration().InitializeCommitting()}
			p := &MemberCommitmentsMessage{senderID: s, sessionID: sess}
			err := st.Receive(&c12Msg{p, key})
			return len(st.phaseCommitmentsMessages) == 1 && st.phaseCommitmentsMessages[0] == p, err
		}},
		{"commitmentsVerificationState/SecretSharesAccusationsMessage", false, func(lm *LocalMember, s group.MemberIndex, sess string, key []byte, mark func()) (bool, error) {
			mark()
			st := &commitmentsVerificationState{member: lm.InitializeEphemeralKeysGeneration().InitializeSymmetricKeyGeneration().InitializeCommitting().InitializeCommitmentsVerification()}
			p := &SecretSharesAccusationsMessage{senderID: s, sessionID: sess}
			err := st.Receive(&c12Msg{p, key})
			return len(st.phaseAccusationsMessages) == 1 && st.phaseAccusationsMessages[0] == p, err
		}},
		{"pointsShareState/MemberPublicKeySharePointsMessage", false, func(lm *LocalMember, s group.MemberIndex, sess string, key []byte, mark func()) (bool, error) {
			mark()
			st := &pointsShareState{member: lm.InitializeEphemeralKeysGeneration().InitializeSymmetricKeyGeneration().InitializeCommitting().
				InitializeCommitmentsVerification().InitializeSharesJustification().InitializeQualified().InitializeSharing()}
			p := &MemberPublicKeySharePointsMessage{senderID: s, sessionID: sess}
			err := st.Receive(&c12Msg{p, key})
			return len(st.phaseMessages) == 1 && st.phaseMessages[0] == p, err
		}},
		{"pointsValidationState/PointsAccusationsMessage", false, func(lm *LocalMember, s group.MemberIndex, sess string, key []byte, mark func()) (bool, error) {
			mark()
			st := &pointsValidationState{member: lm.InitializeEphemeralKeysGeneration().InitializeSymmetricKeyGeneration().InitializeCommitting().
				InitializeCommitmentsVerification().InitializeSharesJustification().InitializeQualified().InitializeSharing()}
			p := &PointsAccusationsMessage{senderID: s, sessionID: sess}
			err := st.Receive(&c12Msg{p, key})
			return len(st.phaseMessages) == 1 && st.phaseMessages[0] == p, err
		}},
		{"keyRevealState/MisbehavedEphemeralKeysMessage", false, func(lm *LocalMember, s group.MemberIndex, sess string, key []byte, mark func()) (bool, error) {
			mark()
			st := &keyRevealState{member: lm.InitializeEphemeralKeysGeneration().InitializeSymmetricKeyGeneration().InitializeCommitting().
				InitializeCommitmentsVerification().InitializeSharesJustification().InitializeQualified().InitializeSharing().
				InitializePointsJustification().InitializeRevealing()}
			p := &MisbehavedEphemeralKeysMessage{senderID: s, sessionID: sess}
			err := st.Receive(&c12Msg{p, key})
			return len(st.phaseMessages) == 1 && st.phaseMessages[0] == p, err
		}},
		// the two accusation states judge the sender against the members
		// operating when the phase started (captured by Initiate)
		{"commitmentsVerificationState/SecretSharesAccusationsMessage[phase-start set captured after marking]", false, func(lm *LocalMember, s group.MemberIndex, sess string, key []byte, mark func()) (bool, error) {
			mark()
			st := &commitmentsVerificationState{member: lm.InitializeEphemeralKeysGeneration().InitializeSymmetricKeyGeneration().InitializeCommitting().InitializeCommitmentsVerification()}
			st.operatingAtPhaseStart = lm.group.OperatingMemberIndexes()
			p := &SecretSharesAccusationsMessage{senderID: s, sessionID: sess}
			err := st.Receive(&c12Msg{p, key})
			return len(st.phaseAccusationsMessages) == 1 && st.phaseAccusationsMessages[0] == p, err
		}},
		{"commitmentsVerificationState/SecretSharesAccusationsMessage[sender excluded after phase start]", true, func(lm *LocalMember, s group.MemberIndex, sess string, key []byte, mark func()) (bool, error) {
			st := &commitmentsVerificationState{member: lm.InitializeEphemeralKeysGeneration().InitializeSymmetricKeyGeneration().InitializeCommitting().InitializeCommitmentsVerification()}
			st.operatingAtPhaseStart = lm.group.OperatingMemberIndexes()
			mark()
			p := &SecretSharesAccusationsMessage{senderID: s, sessionID: sess}
			err := st.Receive(&c12Msg{p, key})
			return len(st.phaseAccusationsMessages) == 1 && st.phaseAccusationsMessages[0] == p, err
		}},
		{"pointsValidationState/PointsAccusationsMessage[phase-start set captured after marking]", false, func(lm *LocalMember, s group.MemberIndex, sess string, key []byte, mark func()) (bool, error) {
			mark()
			st := &pointsValidationState{member: lm.InitializeEphemeralKeysGeneration().InitializeSymmetricKeyGeneration().InitializeCommitting().
				InitializeCommitmentsVerification().InitializeSharesJustification().InitializeQualified().InitializeSharing()}
			st.operatingAtPhaseStart = lm.group.OperatingMemberIndexes()
			p := &PointsAccusationsMessage{senderID: s, sessionID: sess}
			err := st.Receive(&c12Msg{p, key})
			return len(st.phaseMessages) == 1 && st.phaseMessages[0] == p, err
		}},
		{"pointsValidationState/PointsAccusationsMessage[sender excluded after phase start]", true, func(lm *LocalMember, s group.MemberIndex, sess string, key []byte, mark func()) (bool, error) {
			st := &pointsValidationState{member: lm.InitializeEphemeralKeysGeneration().InitializeSymmetricKeyGeneration().InitializeCommitting().
				InitializeCommitmentsVerification().InitializeSharesJustification().InitializeQualified().InitializeSharing()}
			st.operatingAtPhaseStart = lm.group.OperatingMemberIndexes()
			mark()
			p := &PointsAccusationsMessage{senderID: s, sessionID: sess}
			err := st.Receive(&c12Msg{p, key})
			return len(st.phaseMessages) == 1 && st.phaseMessages[0] == p, err
		}},
	}
}

func TestVerif_C12_Gjkr(t *testing.T) {
	r := verifkit.Start(t, "C12", "gjkr")
	defer r.Finish()
	r.SetRule("exhaustive grid: seat layouts (5 seats over operators 2/2/1 interleaved, 3 seats one operator; thorough adds 9 seats 4/3/1/1) x receiver seat x claimed index {0,1..n,n+1,255} x sender key {each operator, outsider, truncated operator key, empty} x session {own, other, own+suffix} x claimed member status {operating, IA, DQ, sibling seat DQ}, for each of the 7 message-storing receive points of the GJKR states (the two accusation states additionally with the phase-start operating set captured before / after the exclusion); non-trivial = claimed index not held by the sender key, or foreign session, or non-operating sender")
	r.Assume("local_v1 signing maps a public key to the hex of its bytes; operator keys are freshly generated secp256k1 keys (values do not enter the verdict)")

	signing := local_v1.Connect(5, 3).Signing()
	newKey := func() []byte {
		_, pub, err := operator.GenerateKeyPair(local_v1.DefaultCurve)
		if err != nil {
			t.Fatal(err)
		}
		return operator.MarshalUncompressed(pub)
	}
	opKeys := [][]byte{newKey(), newKey(), newKey(), newKey()}
	outsider := newKey()

	layouts := []c12Layout{
		{"5seats-2/2/1", []int{0, 1, 0, 2, 1}},
		{"3seats-single-operator", []int{0, 0, 0}},
	}
	if !r.Quick() {
		layouts = append(layouts, c12Layout{"9seats-4/3/1/1", []int{0, 1, 0, 2, 1, 0, 3, 1, 0}})
	}
	keysOf := func(l c12Layout) []c12Key {
		seen := map[int]bool{}
		var ks []c12Key
		for _, op := range l.seats {
			if !seen[op] {
				seen[op] = true
				ks = append(ks, c12Key{fmt.Sprintf("op%c", 'A'+op), op, opKeys[op]})
			}
		}
		ks = append(ks,
			c12Key{"outsider", -1, outsider},
			c12Key{"truncated-opA", -1, opKeys[0][:64]},
			c12Key{"empty", -1, nil},
		)
		return ks
	}
	grid := c12Grid(layouts, keysOf)
	rps := c12ReceivePoints()
	r.SetExhaustive(true)

	validators := map[string]*group.MembershipValidator{}
	for _, l := range layouts {
		addrs := make([]chain.Address, len(l.seats))
		for i, op := range l.seats {
			addrs[i] = signing.PublicKeyBytesToAddress(opKeys[op])
		}
		validators[l.name] = group.NewMembershipValidator(&testutils.MockLogger{}, addrs, signing)
	}

	var acted, rejected int64
	sampled := map[string]bool{}
	for _, rp := range rps {
		legitSeen := 0
		for _, c := range grid {
			n := len(c.layout.seats)
			desc := c.desc(rp.name)
			lm, err := NewMember(&testutils.MockLogger{}, group.MemberIndex(c.receiver), n, n-(n/2+1),
				validators[c.layout.name], big.NewInt(100), c12OwnSession)
			if err != nil {
				t.Fatal(err)
			}
			mark := func() {
				switch c.status {
				case "IA":
					lm.group.MarkMemberAsInactive(group.MemberIndex(c.claimed))
				case "DQ":
					lm.group.MarkMemberAsDisqualified(group.MemberIndex(c.claimed))
				case "siblingDQ":
					for _, s := range c12Siblings(c) {
						lm.group.MarkMemberAsDisqualified(group.MemberIndex(s))
					}
				}
			}
			var got bool
			var rerr error
			if r.Guard("gjkr:"+rp.name+":", desc, func() {
				got, rerr = rp.probe(lm, group.MemberIndex(c.claimed), c12Session(c.session), c.key.pub, mark)
			}) {
				continue
			}
			legit, why := c12Expect(c)
			if rp.lateExclusion && why == "sender-excluded" {
				// excluded only after the phase started: documented as accepted
				legit, why = true, ""
			}
			r.Case(desc, !legit || rp.lateExclusion && (c.status == "IA" || c.status == "DQ"))
			if rerr != nil {
				r.Violation("gjkr:"+rp.name+":receive-error", "Receive returned an error: "+rerr.Error(), desc, nil)
			}
			if got {
				acted++
			} else {
				rejected++
			}
			switch {
			case got && !legit:
				r.Violation("gjkr:"+rp.name+":accepted:"+why, "state stored a message that is not legitimate ("+why+")", desc, map[string]interface{}{"legitimate": legit, "acted_on": got, "reason": why})
			case !got && legit:
				r.Violation("gjkr:"+rp.name+":rejected-legitimate", "state ignored a fully legitimate message", desc, map[string]interface{}{"legitimate": legit, "acted_on": got})
			}
			if legit {
				legitSeen++
			}
			tag := rp.name + "|" + why
			if !sampled[tag] && (why == "index-not-held" && c.claimed == 0 || why == "" && c.status == "siblingDQ") {
				sampled[tag] = true
				r.Sample(map[string]interface{}{"case": desc, "legitimate": legit, "acted_on": got})
			}
		}
		if legitSeen == 0 {
			r.Inconclusive("no legitimate case generated for " + rp.name)
		}
	}
	r.Count("receive_points", 7)
	r.Count("receive_point_variants", int64(len(rps)))
	r.Count("grid_cases_per_receive_point", int64(len(grid)))
	r.Count("acted_on", acted)
	r.Count("ignored", rejected)
}
