//go:build verif

package event

import (
	"bytes"
	"encoding/hex"
	"fmt"
	"math/big"
	"math/rand"
	"runtime"
	"strconv"
	"sync"
	"sync/atomic"
	"testing"
	"time"

	"github.com/anishathalye/porcupine"

	"github.com/keep-network/keep-core/internal/verifkit"
)

// ---------------------------------------------------------------------------
// C06 — relay entry requests are processed at most once and in order.
//
// Reference model (the documented rule of NotifyRelayEntryStarted):
//   state = last processed (block, previous entry), initially none
//   no request processed yet                      -> process
//   block <= last processed block                 -> ignore (stale / duplicate)
//   block  > last, previous entry differs         -> process (genuinely new)
//   block  > last, previous entry is the same     -> ask the chain:
//        chain error                              -> error, nothing processed
//        chain's current (previous entry, block) == the request -> process
//        otherwise                                -> ignore (reorg leftover)
// ---------------------------------------------------------------------------

// c06Answer is what the chain stub answers while one operation runs.
type c06Answer struct {
	Kind  string `json:"kind"` // match | prev-differs | block-differs | both-differ | err-prev | err-block
	Prev  string `json:"prev"` // hex of the previous entry the chain reports
	Block uint64 `json:"block"`
}

// c06Op is one notification together with the chain's answer during it.
type c06Op struct {
	Block uint64    `json:"block"`
	Prev  string    `json:"prev"`
	Ans   c06Answer `json:"chain"`
}

type c06Out struct {
	OK  bool `json:"ok"`
	Err bool `json:"err"`
}

type c06State struct {
	Block uint64
	Prev  string
	Some  bool
}

// c06Step is the reference model.
func c06Step(s c06State, op c06Op) (c06Out, c06State) {
	process := c06State{op.Block, op.Prev, true}
	if !s.Some {
		return c06Out{true, false}, process
	}
	if op.Block <= s.Block {
		return c06Out{false, false}, s
	}
	if op.Prev != s.Prev {
		return c06Out{true, false}, process
	}
	switch op.Ans.Kind {
	case "err-prev", "err-block":
		return c06Out{false, true}, s
	}
	if op.Ans.Prev == op.Prev && op.Ans.Block == op.Block {
		return c06Out{true, false}, process
	}
	return c06Out{false, false}, s
}

var c06Blocks = []uint64{1, 2, 3, 5, 8, 1 << 40}
var c06Prevs = []string{"0a", "0a0b", "ff00000000000000000000000000000000000000000000000000000000000001"}

func c06GenAnswer(rng *rand.Rand, block uint64, prev string) c06Answer {
	otherPrev := func() string {
		for {
			p := c06Prevs[rng.Intn(len(c06Prevs))]
			if p != prev {
				return p
			}
		}
	}
	otherBlock := func() uint64 {
		for {
			b := c06Blocks[rng.Intn(len(c06Blocks))]
			if rng.Intn(3) == 0 {
				b = block - 1 + uint64(rng.Intn(3)) // off by one around the request
			}
			if b != block {
				return b
			}
		}
	}
	switch x := rng.Intn(10); {
	case x < 4:
		return c06Answer{"match", prev, block}
	case x < 6:
		return c06Answer{"prev-differs", otherPrev(), block}
	case x < 8:
		return c06Answer{"block-differs", prev, otherBlock()}
	case x < 9:
		return c06Answer{"both-differ", otherPrev(), otherBlock()}
	default:
		if rng.Intn(2) == 0 {
			return c06Answer{"err-prev", prev, block}
		}
		return c06Answer{"err-block", prev, block}
	}
}

func c06GenOp(rng *rand.Rand) c06Op {
	b := c06Blocks[rng.Intn(len(c06Blocks))]
	p := c06Prevs[rng.Intn(len(c06Prevs))]
	return c06Op{b, p, c06GenAnswer(rng, b, p)}
}

// c06SeqChain is the chain stub of the sequential runs: the answer is set
// before each call.
type c06SeqChain struct {
	ans   c06Answer
	calls int
}

func c06AnswerBlock(a c06Answer) (*big.Int, error) {
	if a.Kind == "err-block" {
		return nil, fmt.Errorf("c06: injected start block error")
	}
	return new(big.Int).SetUint64(a.Block), nil
}

func c06AnswerPrev(a c06Answer) ([]byte, error) {
	if a.Kind == "err-prev" {
		return nil, fmt.Errorf("c06: injected previous entry error")
	}
	b, err := hex.DecodeString(a.Prev)
	if err != nil {
		panic(err)
	}
	return b, nil
}

func (c *c06SeqChain) CurrentRequestStartBlock() (*big.Int, error) {
	c.calls++
	return c06AnswerBlock(c.ans)
}
func (c *c06SeqChain) CurrentRequestPreviousEntry() ([]byte, error) {
	c.calls++
	return c06AnswerPrev(c.ans)
}

// c06Classify names the rule a wrong answer breaks (stable fingerprint).
func c06Classify(s c06State, op c06Op, want, got c06Out) string {
	switch {
	case !s.Some:
		return "first-request-not-processed"
	case op.Block <= s.Block && got.OK:
		if op.Block == s.Block && op.Prev == s.Prev {
			return "duplicate-processed-again"
		}
		return "stale-request-processed"
	case op.Block <= s.Block:
		return "stale-request-error"
	case op.Prev != s.Prev:
		return "new-request-not-processed"
	case want.Err != got.Err:
		return "chain-error-handling"
	case got.OK:
		return "unconfirmed-retry-processed"
	default:
		return "confirmed-retry-not-processed"
	}
}

// c06RunSequential feeds one history to a fresh deduplicator and compares
// every answer with the model, plus the derived order / at-most-once checks
// computed from the observed answers alone.
func c06RunSequential(r *verifkit.Run, hist []c06Op, tag string) {
	desc := tag + " " + verifkit.JSON(hist)
	ch := &c06SeqChain{}
	d := NewDeduplicator(ch)
	var st c06State
	nontrivial := false
	var lastProcessed uint64
	haveProcessed := false
	seenTrue := map[string]int{}
	outs := make([]c06Out, 0, len(hist))
	for i, op := range hist {
		ch.ans = op.Ans
		var ok bool
		var err error
		if r.Guard("seq:", desc, func() { ok, err = d.NotifyRelayEntryStarted(op.Block, op.Prev) }) {
			return
		}
		got := c06Out{ok, err != nil}
		outs = append(outs, got)
		want, ns := c06Step(st, op)
		if st.Some && (op.Block <= st.Block || op.Prev == st.Prev) {
			nontrivial = true
		}
		if got != want {
			r.Violation("seq:"+c06Classify(st, op, want, got),
				fmt.Sprintf("step %d: NotifyRelayEntryStarted(%d,%q) with chain %+v returned %+v, the documented rule gives %+v (last processed: %+v)", i, op.Block, op.Prev, op.Ans, got, want, st),
				desc, map[string]interface{}{"step": i, "outputs": outs})
			r.Case(desc, nontrivial)
			return
		}
		if got.OK && got.Err {
			r.Violation("seq:true-with-error", "both true and an error returned", desc, i)
		}
		// derived checks on the observed answers only
		if got.OK {
			if haveProcessed && op.Block <= lastProcessed {
				r.Violation("seq:order", fmt.Sprintf("step %d processed block %d after block %d", i, op.Block, lastProcessed), desc, outs)
			}
			k := strconv.FormatUint(op.Block, 10) + "/" + op.Prev
			if j, dup := seenTrue[k]; dup {
				r.Violation("seq:twice", fmt.Sprintf("request %s processed at steps %d and %d", k, j, i), desc, outs)
			}
			seenTrue[k] = i
			lastProcessed, haveProcessed = op.Block, true
		}
		st = ns
	}
	r.Case(desc, nontrivial)
}

func TestVerif_C06_Sequential(t *testing.T) {
	r := verifkit.Start(t, "C06", "sequential")
	defer r.Finish()
	r.SetRule("histories of (start block, previous entry, chain answer): exhaustive up to length 3 over 3 blocks x 2 previous entries x 4 chain answers, plus PRNG histories of length 1..12 over 6 blocks x 3 previous entries x 6 answer kinds; each fed to a fresh Deduplicator and compared step by step with the reference model. non-trivial = the history contains a request that repeats the last processed previous entry or carries a block <= the last processed block")
	r.Assume("request start blocks are >= 1 (0 is the deduplicator's 'nothing processed yet' sentinel and not a block a relay request can be mined in)")

	// exhaustive small space
	blocks := []uint64{1, 2, 3}
	prevs := c06Prevs[:2]
	var alpha []c06Op
	for _, b := range blocks {
		for _, p := range prevs {
			other := prevs[0]
			if other == p {
				other = prevs[1]
			}
			alpha = append(alpha,
				c06Op{b, p, c06Answer{"match", p, b}},
				c06Op{b, p, c06Answer{"prev-differs", other, b}},
				c06Op{b, p, c06Answer{"block-differs", p, b + 1}},
				c06Op{b, p, c06Answer{"err-prev", p, b}},
			)
		}
	}
	maxLen := 3
	if !r.Quick() {
		maxLen = 4
	}
	var rec func(cur []c06Op)
	n := 0
	rec = func(cur []c06Op) {
		if len(cur) > 0 {
			c06RunSequential(r, cur, "exh")
			n++
		}
		if len(cur) == maxLen {
			return
		}
		for _, op := range alpha {
			rec(append(cur[:len(cur):len(cur)], op))
		}
	}
	rec(nil)
	r.Count("exhaustive_histories", int64(n))

	nRand := r.N(5000, 200000)
	verifkit.Parallel(nRand, 0, func(i int) {
		rng := r.SubRand("seq", i)
		l := 1 + rng.Intn(12)
		h := make([]c06Op, l)
		for k := range h {
			h[k] = c06GenOp(rng)
		}
		c06RunSequential(r, h, "rnd")
		if i < 3 {
			r.Sample(h)
		}
	})
	r.Count("random_histories", int64(nRand))
}

// ---------------------------------------------------------------------------
// concurrent part
// ---------------------------------------------------------------------------

func c06Goid() int64 {
	var buf [64]byte
	n := runtime.Stack(buf[:], false)
	// "goroutine 123 [running]:"
	f := bytes.Fields(buf[:n])
	if len(f) < 2 {
		return -1
	}
	id, _ := strconv.ParseInt(string(f[1]), 10, 64)
	return id
}

// c06ConcChain answers according to the operation the *calling goroutine* is
// executing. The deduplicator calls the chain on the caller's goroutine, so
// the goroutine id identifies the operation; slots are written by their owner
// only and looked up read-only after the start barrier.
type c06ConcChain struct {
	ids  []int64      // goroutine id per client, written before the barrier
	cur  []*c06Answer // current answer per client, written by the client itself
	miss int64
}

func (c *c06ConcChain) answer() c06Answer {
	id := c06Goid()
	for i, g := range c.ids {
		if g == id {
			return *c.cur[i]
		}
	}
	atomic.AddInt64(&c.miss, 1)
	return c06Answer{Kind: "err-prev"}
}
func (c *c06ConcChain) CurrentRequestStartBlock() (*big.Int, error) {
	return c06AnswerBlock(c.answer())
}
func (c *c06ConcChain) CurrentRequestPreviousEntry() ([]byte, error) {
	return c06AnswerPrev(c.answer())
}

// c06Gate is a two-phase start barrier: goroutines park on a channel until
// all of them exist, then align on a short bounded spin (no yielding). A
// goroutine that is not scheduled in time is simply not waited for.
type c06Gate struct {
	ch      chan struct{}
	arrived int32
	k       int32
}

func (g *c06Gate) wait() {
	<-g.ch
	atomic.AddInt32(&g.arrived, 1)
	for spin := 0; atomic.LoadInt32(&g.arrived) < g.k && spin < 1<<16; spin++ {
	}
}

type c06Script struct {
	Prefix  []c06Op   `json:"prefix"`
	Clients [][]c06Op `json:"clients"`
}

func c06GenScript(rng *rand.Rand) c06Script {
	var s c06Script
	for i, n := 0, rng.Intn(3); i < n; i++ {
		s.Prefix = append(s.Prefix, c06GenOp(rng))
	}
	total := 4 + rng.Intn(5) // 4..8 concurrent operations
	clients := 2 + rng.Intn(3)
	if clients > total {
		clients = total
	}
	s.Clients = make([][]c06Op, clients)
	// bias towards contention: few distinct blocks / previous entries
	nb := 2 + rng.Intn(3)
	for i := 0; i < total; i++ {
		op := c06GenOp(rng)
		if rng.Intn(4) != 0 {
			op.Block = c06Blocks[rng.Intn(nb)+1]
			op.Ans = c06GenAnswer(rng, op.Block, op.Prev)
		}
		c := i % clients
		s.Clients[c] = append(s.Clients[c], op)
	}
	return s
}

type c06Obs struct {
	Op        c06Op
	Out       c06Out
	Call, Ret int64
	Client    int
}

// c06RunConcurrent executes a script. With stamps==true every call/return
// gets a stamp from one atomic counter (oracle pass); with stamps==false the
// clients touch only their own slots (race pass).
func c06RunConcurrent(r *verifkit.Run, s c06Script, desc string, stamps bool) (obs []c06Obs, ok bool) {
	ch := &c06ConcChain{ids: make([]int64, len(s.Clients)+1), cur: make([]*c06Answer, len(s.Clients)+1)}
	d := NewDeduplicator(ch)
	var clock int64
	t0 := time.Now()
	stamp := func() int64 {
		if !stamps {
			// race pass: the monotonic clock (no synchronisation); used for
			// the overlap evidence only, never for a verdict
			return int64(time.Since(t0))
		}
		return atomic.AddInt64(&clock, 1)
	}
	// prefix on this goroutine (client slot len(Clients))
	me := len(s.Clients)
	ch.ids[me] = c06Goid()
	for _, op := range s.Prefix {
		op := op
		ch.cur[me] = &op.Ans
		o := c06Obs{Op: op, Client: me}
		o.Call = stamp()
		var res bool
		var err error
		if r.Guard("conc:", desc, func() { res, err = d.NotifyRelayEntryStarted(op.Block, op.Prev) }) {
			return nil, false
		}
		o.Ret = stamp()
		o.Out = c06Out{res, err != nil}
		obs = append(obs, o)
	}
	slots := make([][]c06Obs, len(s.Clients))
	var ready, wg sync.WaitGroup
	var panicked int32
	gate := c06Gate{ch: make(chan struct{}), k: int32(len(s.Clients))}
	for c := range s.Clients {
		ready.Add(1)
		wg.Add(1)
		go func(c int) {
			defer wg.Done()
			ch.ids[c] = c06Goid()
			ready.Done()
			gate.wait()
			for k := range s.Clients[c] {
				op := s.Clients[c][k]
				ch.cur[c] = &op.Ans
				o := c06Obs{Op: op, Client: c}
				o.Call = stamp()
				// yielding between the call stamp and the invocation widens
				// the operation's interval (still a superset of its real
				// execution), so intervals overlap even on a busy machine
				if (c+k)%3 != 2 {
					runtime.Gosched()
				}
				var res bool
				var err error
				if r.Guard("conc:", desc, func() { res, err = d.NotifyRelayEntryStarted(op.Block, op.Prev) }) {
					atomic.StoreInt32(&panicked, 1)
					return
				}
				o.Ret = stamp()
				o.Out = c06Out{res, err != nil}
				slots[c] = append(slots[c], o)
			}
		}(c)
	}
	ready.Wait()
	close(gate.ch)
	wg.Wait()
	if atomic.LoadInt32(&panicked) != 0 {
		return nil, false
	}
	if n := atomic.LoadInt64(&ch.miss); n != 0 {
		r.Inconclusive(fmt.Sprintf("chain stub could not attribute %d call(s) to an operation (the deduplicator called the chain from a goroutine of its own)", n))
		return nil, false
	}
	for _, sl := range slots {
		obs = append(obs, sl...)
	}
	return obs, true
}

// c06DerivedChecks are consequences of linearizability w.r.t. the model that
// need no timestamps: every processed request has its own block, no
// (block, previous entry) is processed twice, and a fresh deduplicator
// processes something.
func c06DerivedChecks(r *verifkit.Run, obs []c06Obs, desc, pfx string) {
	byBlock := map[uint64]int{}
	byReq := map[string]int{}
	trues := 0
	for _, o := range obs {
		if !o.Out.OK {
			continue
		}
		trues++
		byBlock[o.Op.Block]++
		byReq[strconv.FormatUint(o.Op.Block, 10)+"/"+o.Op.Prev]++
	}
	for k, n := range byReq {
		if n > 1 {
			r.Violation(pfx+"twice", fmt.Sprintf("request %s was processed %d times", k, n), desc, obs)
			return
		}
	}
	for b, n := range byBlock {
		if n > 1 {
			r.Violation(pfx+"same-block-twice", fmt.Sprintf("%d requests with start block %d were processed", n, b), desc, obs)
			return
		}
	}
	if trues == 0 && len(obs) > 0 {
		r.Violation(pfx+"nothing-processed", "a fresh deduplicator processed none of the requests", desc, obs)
	}
}

func c06Overlap(obs []c06Obs) bool {
	for a := range obs {
		for b := a + 1; b < len(obs); b++ {
			if obs[a].Client != obs[b].Client && obs[a].Call < obs[b].Ret && obs[b].Call < obs[a].Ret {
				return true
			}
		}
	}
	return false
}

var c06PorcupineModel = porcupine.Model{
	Init: func() interface{} { return c06State{} },
	Step: func(state, input, output interface{}) (bool, interface{}) {
		want, ns := c06Step(state.(c06State), input.(c06Op))
		if want != output.(c06Out) {
			return false, state
		}
		return true, ns
	},
	Equal: func(a, b interface{}) bool { return a.(c06State) == b.(c06State) },
	DescribeOperation: func(in, out interface{}) string {
		return fmt.Sprintf("%+v -> %+v", in, out)
	},
}

func TestVerif_C06_Concurrent(t *testing.T) {
	r := verifkit.Start(t, "C06", "concurrent")
	defer r.Finish()
	r.SetRule("scripts: 0..2 sequential prefix operations, then 4..8 operations spread over 2..4 goroutines released by a barrier on one Deduplicator; each operation carries its own chain answer (served by goroutine identity); call/return stamps from one atomic counter; the history must be linearizable (porcupine) w.r.t. the sequential reference model. non-trivial = at least two calls of different goroutines overlapped in the observed stamps")
	r.Assume("request start blocks are >= 1")
	n := r.N(3000, 50000)
	workers := 2
	var unknown int64
	verifkit.Parallel(n, workers, func(i int) {
		rng := r.SubRand("conc", i)
		s := c06GenScript(rng)
		desc := "conc " + verifkit.JSON(s)
		obs, ok := c06RunConcurrent(r, s, desc, true)
		if !ok {
			return
		}
		overlap := c06Overlap(obs)
		r.Case(desc, overlap)
		if overlap {
			r.Count("histories_with_overlap", 1)
		}
		c06DerivedChecks(r, obs, desc, "conc:")
		ops := make([]porcupine.Operation, len(obs))
		for k, o := range obs {
			ops[k] = porcupine.Operation{ClientId: o.Client, Input: o.Op, Output: o.Out, Call: o.Call, Return: o.Ret}
		}
		switch res := porcupine.CheckOperationsTimeout(c06PorcupineModel, ops, 30*time.Second); res {
		case porcupine.Illegal:
			r.Violation("conc:not-linearizable", "the observed call/return history has no linearization that follows the documented sequential rule", desc, obs)
		case porcupine.Unknown:
			atomic.AddInt64(&unknown, 1)
		}
		if i < 3 {
			r.Sample(map[string]interface{}{"script": s, "observed": obs})
		}
	})
	if unknown > 0 {
		r.Inconclusive(fmt.Sprintf("porcupine timed out on %d histories", unknown))
	}
}

// TestVerif_C06_ConcurrentRace is the race pass: same scripts, no stamps, the
// barrier is the only synchronisation the monitor adds; the stamp-free derived
// checks are evaluated after all goroutines have been joined.
func TestVerif_C06_ConcurrentRace(t *testing.T) {
	r := verifkit.Start(t, "C06", "concurrent-race")
	defer r.Finish()
	r.SetRule("the scripts of the concurrent monitor, each run 3 times under the Go race detector with per-goroutine result slots only; stamp-free consequences of linearizability checked after joining. non-trivial = two calls of different goroutines overlapped according to the monotonic clock (evidence only)")
	r.Assume("request start blocks are >= 1")
	n := r.N(500, 15000)
	reps := r.N(3, 10)
	for i := 0; i < n; i++ {
		rng := r.SubRand("conc", i)
		s := c06GenScript(rng)
		for rep := 0; rep < reps; rep++ {
			desc := fmt.Sprintf("race rep=%d %s", rep, verifkit.JSON(s))
			obs, ok := c06RunConcurrent(r, s, desc, false)
			if !ok {
				continue
			}
			ov := c06Overlap(obs)
			r.Case(desc, ov)
			if ov {
				r.Count("runs_with_overlap", 1)
			}
			c06DerivedChecks(r, obs, desc, "race-pass:")
		}
	}
}
