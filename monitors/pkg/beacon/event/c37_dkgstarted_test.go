//go:build verif

package event

import (
	"fmt"
	"math/big"
	"math/rand"
	"runtime"
	"sync"
	"sync/atomic"
	"testing"
	"time"

	"github.com/keep-network/keep-core/internal/verifkit"
)

// C37 (beacon part) — every distinct DKG-started event is handled exactly
// once even when delivered concurrently, and distinct events are never
// mistaken for one another.

const c37bFn = "beacon.NotifyDKGStarted"

func c37bSeed(rng *rand.Rand) *big.Int {
	switch rng.Intn(6) {
	case 0:
		return big.NewInt(int64(rng.Intn(300)))
	case 1:
		return new(big.Int).Lsh(big.NewInt(1), uint(rng.Intn(256)))
	default:
		b := make([]byte, 1+rng.Intn(32))
		rng.Read(b)
		return new(big.Int).SetBytes(b)
	}
}

// c37bStream lets k goroutines (parallel handlers) deliver the same sequence
// of fresh seeds, in order, starting together. The handler that is first on
// a seed inserts it while the others only look it up, so the followers keep
// catching up with the leader and every seed is delivered by several handlers
// at about the same time, without any timing assumption in the harness.
func c37bStream(d *Deduplicator, seeds []*big.Int, k int, stamps bool) (trues []int, overlap []bool) {
	m := len(seeds)
	res := make([][]bool, k)
	call := make([][]int64, k)
	ret := make([][]int64, k)
	var clock int64
	t0 := time.Now()
	var ready, wg sync.WaitGroup
	start := make(chan struct{})
	for g := 0; g < k; g++ {
		res[g] = make([]bool, m)
		call[g] = make([]int64, m)
		ret[g] = make([]int64, m)
		ready.Add(1)
		wg.Add(1)
		go func(g int) {
			defer wg.Done()
			myRes, myCall, myRet := res[g], call[g], ret[g]
			ready.Done()
			<-start
			for j := 0; j < m; j++ {
				if stamps {
					myCall[j] = atomic.AddInt64(&clock, 1)
				} else {
					// race pass: monotonic clock, no synchronisation, evidence only
					myCall[j] = int64(time.Since(t0))
				}
				if (g+j)%5 == 1 {
					runtime.Gosched() // inside the stamped interval
				}
				myRes[j] = d.NotifyDKGStarted(seeds[j])
				if stamps {
					myRet[j] = atomic.AddInt64(&clock, 1)
				} else {
					myRet[j] = int64(time.Since(t0))
				}
				if (g+j)%7 == 3 {
					runtime.Gosched()
				}
			}
		}(g)
	}
	ready.Wait()
	close(start)
	wg.Wait()
	trues = make([]int, m)
	overlap = make([]bool, m)
	for j := 0; j < m; j++ {
		for g := 0; g < k; g++ {
			if res[g][j] {
				trues[j]++
			}
			for h := g + 1; h < k; h++ {
				if call[g][j] < ret[h][j] && call[h][j] < ret[g][j] {
					overlap[j] = true
				}
			}
		}
	}
	return
}

func c37bConcurrent(r *verifkit.Run, stamps bool, streams, perStream int) {
	ks := []int{16, 4, 2, 16}
	d := NewDeduplicator(nil)
	used := map[string]bool{}
	rng := r.Rand("streams")
	for i := 0; i < streams; i++ {
		seeds := make([]*big.Int, 0, perStream)
		var txt []string
		for len(seeds) < perStream {
			s := c37bSeed(rng)
			if !used[s.Text(16)] {
				used[s.Text(16)] = true
				seeds = append(seeds, s)
				txt = append(txt, s.Text(16))
			}
		}
		k := ks[i%len(ks)]
		sdesc := fmt.Sprintf("%s stream=%d k=%d", c37bFn, i, k)
		var trues []int
		var overlap []bool
		if r.Guard("concurrent:", sdesc+" "+verifkit.JSON(txt), func() { trues, overlap = c37bStream(d, seeds, k, stamps) }) {
			continue
		}
		r.Count("deliveries", int64(k*len(seeds)))
		for j, s := range seeds {
			desc := fmt.Sprintf("%s pos=%d seed=0x%s", sdesc, j, s.Text(16))
			r.Case(desc, overlap[j])
			if overlap[j] {
				r.Count("events_with_overlapping_deliveries", 1)
			}
			switch {
			case trues[j] > 1:
				r.Count("events_double_handled", 1)
				r.Violation("double-handled:"+c37bFn,
					fmt.Sprintf("%d of %d concurrent deliveries of one DKG-started event were told to proceed (expected exactly 1)", trues[j], k),
					desc, map[string]interface{}{"deliveries": k, "handled": trues[j]})
			case trues[j] == 0:
				r.Violation("never-handled:"+c37bFn, "a new DKG-started event was handled by none of its deliveries", desc, nil)
			}
			// a late redelivery of the same event stays a duplicate
			if d.NotifyDKGStarted(new(big.Int).Set(s)) {
				r.Violation("redelivery-handled:"+c37bFn, "a redelivery after the stream was handled again", desc, nil)
			}
		}
	}
}

func TestVerif_C37_BeaconConcurrent(t *testing.T) {
	r := verifkit.Start(t, "C37", "beacon-concurrent")
	defer r.Finish()
	r.SetRule("streams of 2000 fresh PRNG DKG seeds, each stream delivered in order by k in {16,4,2,16} goroutines (parallel handlers) that start together on one Deduplicator; per seed exactly one delivery must return true, a later redelivery false. One case = one seed; non-trivial = two of its deliveries overlapped in the observed call/return stamps")
	c37bConcurrent(r, true, r.N(12, 400), 2000)
}

func TestVerif_C37_BeaconConcurrentRace(t *testing.T) {
	r := verifkit.Start(t, "C37", "beacon-concurrent-race")
	defer r.Finish()
	r.SetRule("the concurrent streams (1000 events each) under the Go race detector, results in per-goroutine slots, start barrier only. non-trivial = two deliveries of the seed overlapped according to the monotonic clock (evidence only)")
	c37bConcurrent(r, false, r.N(3, 100), 1000)
}

func TestVerif_C37_BeaconDistinct(t *testing.T) {
	r := verifkit.Start(t, "C37", "beacon-distinct")
	defer r.Finish()
	r.SetRule("streams of pairwise distinct DKG seeds (small values, powers of two, seeds that differ in one hex digit or by a leading/trailing zero digit, random up to 256 bit) delivered sequentially: each first delivery must be handled, each second delivery ignored. non-trivial = stream contains a pair of seeds whose hex texts differ by one character or by one appended/prepended digit")
	n := r.N(300, 5000)
	verifkit.Parallel(n, 0, func(i int) {
		rng := r.SubRand("distinct", i)
		d := NewDeduplicator(nil)
		var seeds []*big.Int
		seen := map[string]bool{}
		add := func(s *big.Int) {
			if s.Sign() >= 0 && !seen[s.String()] {
				seen[s.String()] = true
				seeds = append(seeds, s)
			}
		}
		near := false
		for len(seeds) < 24 {
			s := c37bSeed(rng)
			add(s)
			if rng.Intn(2) == 0 {
				// neighbours in key space
				add(new(big.Int).Lsh(s, 4)) // hex text with a trailing 0
				add(new(big.Int).Add(new(big.Int).Lsh(s, 4), big.NewInt(1)))
				add(new(big.Int).Xor(s, big.NewInt(1))) // last digit differs
				add(new(big.Int).Rsh(s, 4))             // last digit dropped
				near = true
			}
		}
		rng.Shuffle(len(seeds), func(a, b int) { seeds[a], seeds[b] = seeds[b], seeds[a] })
		var txt []string
		for _, s := range seeds {
			txt = append(txt, s.Text(16))
		}
		desc := fmt.Sprintf("%s distinct-stream %v", c37bFn, txt)
		r.Case(desc, near)
		for j, s := range seeds {
			if !d.NotifyDKGStarted(new(big.Int).Set(s)) {
				r.Violation("distinct-dropped:"+c37bFn, fmt.Sprintf("seed 0x%s (position %d) was treated as a duplicate although it had not been delivered", s.Text(16), j), desc, nil)
			}
		}
		for j, s := range seeds {
			if d.NotifyDKGStarted(new(big.Int).Set(s)) {
				r.Violation("redelivery-handled:"+c37bFn, fmt.Sprintf("second delivery of seed 0x%s (position %d) was handled", s.Text(16), j), desc, nil)
			}
		}
		if i < 2 {
			r.Sample(txt)
		}
	})
}
