//go:build verif

package event

// C37, the "within the caching period" clause across an expiry: a
// deduplicator built with a short caching period sees first deliveries, the
// period elapses, and bursts of redeliveries follow (sequential and
// concurrent). Within the new period exactly one delivery of a burst may be
// handled. The wall clock is only used to DISCARD a burst that did not fit
// well inside one period (machine stall); it never produces a violation.

import (
	"fmt"
	"math/big"
	"sync"
	"sync/atomic"
	"testing"
	"time"

	"github.com/keep-network/keep-common/pkg/cache"
	"github.com/keep-network/keep-core/internal/verifkit"
)

func TestVerif_C37_BeaconExpiry(t *testing.T) {
	r := verifkit.Start(t, "C37", "beacon-expiry")
	defer r.Finish()
	const period = 600 * time.Millisecond
	r.SetRule(fmt.Sprintf("a Deduplicator whose seed cache has a %v caching period: N seeds delivered once (all handled), %v of idleness (every entry outdated), then per seed a burst of 2-6 redeliveries, sequential or from parallel goroutines; a burst that completed within a third of the period must have exactly one handled delivery. Non-trivial: the burst was judged (fitted inside the period).", period, 2*period+100*time.Millisecond))
	r.Assume("a delivery made after the caching period of an earlier handling has elapsed starts a new period (this is what the unchanged code does)")
	n := r.N(300, 3000)
	d := &Deduplicator{dkgSeedCache: cache.NewTimeCache(period)}
	seeds := make([]*big.Int, n)
	for i := range seeds {
		seeds[i] = new(big.Int).Add(new(big.Int).Lsh(big.NewInt(int64(i+1)), 64), big.NewInt(int64(r.Seed())))
		if !d.NotifyDKGStarted(seeds[i]) {
			r.Violation("beacon-expiry:first-delivery-not-handled", "the first delivery of a fresh seed was not handled", fmt.Sprintf("seed#%d", i), nil)
		}
	}
	time.Sleep(2*period + 100*time.Millisecond)
	var judged, discarded int64
	for i, s := range seeds {
		rng := r.SubRand("burst", i)
		k := 2 + rng.Intn(5)
		parallel := rng.Intn(2) == 0
		desc := fmt.Sprintf("seed#%d redeliveries=%d parallel=%v after-expiry", i, k, parallel)
		var handled int64
		t0 := time.Now()
		if parallel {
			var wg sync.WaitGroup
			start := make(chan struct{})
			for g := 0; g < k; g++ {
				wg.Add(1)
				go func() {
					defer wg.Done()
					<-start
					if d.NotifyDKGStarted(s) {
						atomic.AddInt64(&handled, 1)
					}
				}()
			}
			close(start)
			wg.Wait()
		} else {
			for g := 0; g < k; g++ {
				if d.NotifyDKGStarted(s) {
					handled++
				}
			}
		}
		if time.Since(t0) > period/3 || time.Since(t0) < 0 {
			discarded++
			continue
		}
		judged++
		r.Case(desc, true)
		switch {
		case handled > 1:
			r.Violation("beacon-expiry:handled-more-than-once-within-period", fmt.Sprintf("%d of %d redeliveries made within one caching period were handled", handled, k), desc, nil)
		case handled == 0:
			r.Violation("beacon-expiry:none-handled-after-expiry", "no redelivery was handled although the earlier handling's caching period had elapsed", desc, nil)
		}
	}
	r.Count("bursts_judged", judged)
	r.Count("bursts_discarded_too_slow", discarded)
	if judged == 0 {
		r.Inconclusive("no burst fitted inside the caching period")
	}
}
