//go:build verif

package beacon

// C06 at the node level: the relay-entry-requested handler that Initialize
// registers (confirmation on chain -> deduplicator -> GenerateRelayEntry) is
// driven with scripted deliveries; the monitor observes, through a spying
// network provider, every time the node starts signing for a request (each
// request of a scenario belongs to its own group, so the broadcast channel
// the node opens names the request) and judges the order of those starts.

import (
	"context"
	"fmt"
	"math/big"
	"runtime"
	"strconv"
	"strings"
	"sync"
	"sync/atomic"
	"testing"
	"time"

	"github.com/keep-network/keep-common/pkg/persistence"
	"github.com/keep-network/keep-core/internal/verifkit"
	"github.com/keep-network/keep-core/pkg/altbn128"
	"github.com/keep-network/keep-core/pkg/beacon/dkg"
	"github.com/keep-network/keep-core/pkg/beacon/event"
	"github.com/keep-network/keep-core/pkg/beacon/registry"
	"github.com/keep-network/keep-core/pkg/chain"
	"github.com/keep-network/keep-core/pkg/chain/local_v1"
	"github.com/keep-network/keep-core/pkg/generator"
	"github.com/keep-network/keep-core/pkg/net"
	netlocal "github.com/keep-network/keep-core/pkg/net/local"
	"github.com/keep-network/keep-core/pkg/protocol/group"
	"github.com/keep-network/keep-core/pkg/subscription"

	bn256 "github.com/ethereum/go-ethereum/crypto/bn256/cloudflare"
	beaconchain "github.com/keep-network/keep-core/pkg/beacon/chain"
)

var _ = altbn128.G1Point{}

func c06nGoID() int64 {
	var buf [64]byte
	n := runtime.Stack(buf[:], false)
	f := strings.Fields(string(buf[:n]))
	if len(f) < 2 {
		return -1
	}
	id, err := strconv.ParseInt(f[1], 10, 64)
	if err != nil {
		return -1
	}
	return id
}

// one step of the answers the chain gives to the confirmation loop of one
// delivery
type c06nStep struct {
	hold   chan struct{} // when non-nil: signal reached, wait for release, then answer
	reach  chan struct{}
	answer uint64
	fail   bool
}

type c06nChain struct {
	beaconchain.Interface

	mu        sync.Mutex
	handler   func(*event.RelayEntryRequested)
	scripts   map[int64][]c06nStep // by delivering goroutine
	curBlock  uint64               // answer to callers outside a delivery (the deduplicator)
	curPrev   []byte
	armed     atomic.Bool
	chainAsks atomic.Int64
}

func (c *c06nChain) OnRelayEntryRequested(h func(*event.RelayEntryRequested)) subscription.EventSubscription {
	c.mu.Lock()
	c.handler = h
	c.mu.Unlock()
	return subscription.NewEventSubscription(func() {})
}
func (c *c06nChain) OnDKGStarted(func(*event.DKGStarted)) subscription.EventSubscription {
	return subscription.NewEventSubscription(func() {})
}
func (c *c06nChain) OnGroupRegistered(func(*event.GroupRegistration)) subscription.EventSubscription {
	return subscription.NewEventSubscription(func() {})
}
func (c *c06nChain) OperatorToStakingProvider() (chain.Address, bool, error) {
	return chain.Address("0xc06"), true, nil
}
func (c *c06nChain) IsOperatorInPool() (bool, error)   { return false, nil }
func (c *c06nChain) IsOperatorUpToDate() (bool, error) { return true, nil }
func (c *c06nChain) IsEntryInProgress() (bool, error)  { return false, nil }
func (c *c06nChain) IsStaleGroup([]byte) (bool, error) { return false, nil }
func (c *c06nChain) BlockCounter() (chain.BlockCounter, error) {
	if c.armed.Load() {
		return nil, fmt.Errorf("c06: block counter switched off by the monitor")
	}
	return c.Interface.BlockCounter()
}
func (c *c06nChain) CurrentRequestStartBlock() (*big.Int, error) {
	c.chainAsks.Add(1)
	gid := c06nGoID()
	c.mu.Lock()
	steps, ok := c.scripts[gid]
	if !ok {
		b := c.curBlock
		c.mu.Unlock()
		return new(big.Int).SetUint64(b), nil
	}
	if len(steps) == 0 {
		// script exhausted: keep giving the last scripted answer's successor,
		// "a newer request is pending", which ends the confirmation loop
		c.mu.Unlock()
		return new(big.Int).SetUint64(^uint64(0) >> 1), nil
	}
	st := steps[0]
	c.scripts[gid] = steps[1:]
	c.mu.Unlock()
	if st.hold != nil {
		close(st.reach)
		<-st.hold
	}
	if st.fail {
		return nil, fmt.Errorf("c06: scripted chain error")
	}
	return new(big.Int).SetUint64(st.answer), nil
}
func (c *c06nChain) CurrentRequestPreviousEntry() ([]byte, error) {
	c.mu.Lock()
	defer c.mu.Unlock()
	return append([]byte{}, c.curPrev...), nil
}

type c06nStart struct {
	seq  int64
	name string
}

type c06nNet struct {
	net.Provider
	mu     sync.Mutex
	seq    int64
	starts []c06nStart
}

func (p *c06nNet) BroadcastChannelFor(name string) (net.BroadcastChannel, error) {
	p.mu.Lock()
	p.seq++
	p.starts = append(p.starts, c06nStart{p.seq, name})
	p.mu.Unlock()
	return p.Provider.BroadcastChannelFor(name)
}
func (p *c06nNet) count(name string) int {
	p.mu.Lock()
	defer p.mu.Unlock()
	n := 0
	for _, s := range p.starts {
		if s.name == name {
			n++
		}
	}
	return n
}
func (p *c06nNet) snapshot() []c06nStart {
	p.mu.Lock()
	defer p.mu.Unlock()
	return append([]c06nStart{}, p.starts...)
}

type c06nReq struct {
	block uint64
	prev  []byte
	gpk   []byte
	name  string
}

var c06nBase struct {
	once sync.Once
	ch   beaconchain.Interface
}

type c06nNode struct {
	chain  *c06nChain
	net    *c06nNet
	reqs   []c06nReq
	cancel context.CancelFunc
}

func c06nNewNode(r *verifkit.Run, dir string, blocks []uint64, samePrevAsPrevious []bool) (*c06nNode, error) {
	c06nBase.once.Do(func() { c06nBase.ch = local_v1.Connect(5, 3) })
	ch := &c06nChain{Interface: c06nBase.ch, scripts: map[int64][]c06nStep{}}
	handle, err := persistence.NewProtectedDiskHandle(dir)
	if err != nil {
		return nil, err
	}
	// one group per request, stored through the real registry
	reg := registry.NewGroupRegistry(logger, ch, handle)
	n := &c06nNode{chain: ch}
	for i, b := range blocks {
		k := big.NewInt(int64(1000 + 17*i))
		gpk := new(bn256.G2).ScalarBaseMult(k)
		shares := map[group.MemberIndex]*bn256.G2{1: new(bn256.G2).ScalarBaseMult(big.NewInt(5))}
		signer := dkg.NewThresholdSigner(1, gpk, big.NewInt(5), shares, []chain.Address{"0xc06"})
		name := fmt.Sprintf("c06-group-%d", i)
		if err := reg.RegisterGroup(signer, name); err != nil {
			return nil, err
		}
		prev := []byte(fmt.Sprintf("previous-entry-%d-%d", i, b))
		if samePrevAsPrevious[i] && i > 0 {
			prev = n.reqs[i-1].prev
		}
		n.reqs = append(n.reqs, c06nReq{block: b, prev: prev, gpk: signer.GroupPublicKeyBytes(), name: name})
	}
	n.net = &c06nNet{Provider: netlocal.Connect()}
	ctx, cancel := context.WithCancel(context.Background())
	n.cancel = cancel
	if err := Initialize(ctx, ch, n.net, handle, &generator.Scheduler{}); err != nil {
		cancel()
		return nil, err
	}
	ch.armed.Store(true)
	ch.mu.Lock()
	h := ch.handler
	ch.mu.Unlock()
	if h == nil {
		cancel()
		return nil, fmt.Errorf("Initialize registered no relay-entry-requested handler")
	}
	return n, nil
}

// deliver calls the node's handler for request i on a fresh goroutine with
// the given confirmation script and returns a channel closed when the handler
// returned.
func (n *c06nNode) deliver(i int, steps []c06nStep) chan struct{} {
	done := make(chan struct{})
	rq := n.reqs[i]
	go func() {
		defer close(done)
		gid := c06nGoID()
		n.chain.mu.Lock()
		n.chain.scripts[gid] = steps
		h := n.chain.handler
		n.chain.mu.Unlock()
		h(&event.RelayEntryRequested{
			PreviousEntry:  append([]byte{}, rq.prev...),
			GroupPublicKey: append([]byte{}, rq.gpk...),
			BlockNumber:    rq.block,
		})
		n.chain.mu.Lock()
		delete(n.chain.scripts, gid)
		n.chain.mu.Unlock()
	}()
	return done
}

func (n *c06nNode) setCurrent(i int) {
	n.chain.mu.Lock()
	n.chain.curBlock = n.reqs[i].block
	n.chain.curPrev = n.reqs[i].prev
	n.chain.mu.Unlock()
}

// waitStart polls until request i has started at least once (bounded by a
// wall-clock watchdog whose firing is never a verdict).
func (n *c06nNode) waitStart(i int, d time.Duration) bool {
	deadline := time.Now().Add(d)
	for {
		if n.net.count(n.reqs[i].name) > 0 {
			return true
		}
		if time.Now().After(deadline) {
			return false
		}
		time.Sleep(200 * time.Microsecond)
	}
}

func c06nWaitDone(ch chan struct{}, d time.Duration) bool {
	select {
	case <-ch:
		return true
	case <-time.After(d):
		return false
	}
}

func TestVerif_C06_NodeHandler(t *testing.T) {
	r := verifkit.Start(t, "C06", "node")
	defer r.Finish()
	c06NodeHandlerWorkload(t, r, r.N(120, 3000))
}

// TestVerif_C06_NodeHandlerRace: the same deliveries under the race detector (the handler spawns goroutines around the deduplicator and the node)
func TestVerif_C06_NodeHandlerRace(t *testing.T) {
	r := verifkit.Start(t, "C06", "node-race")
	defer r.Finish()
	c06NodeHandlerWorkload(t, r, r.N(40, 600))
}

func c06NodeHandlerWorkload(t *testing.T, r *verifkit.Run, n int) {
	r.SetRule("Initialize's relay-entry-requested handler (chain confirmation -> deduplicator -> GenerateRelayEntry) is driven on a real node " +
		"(real group registry on disk, real deduplicator, local network) with scripted deliveries: in-order requests, concurrent duplicates, " +
		"stale redeliveries with a stale chain answer, and a confirmation held on the chain while a newer request is delivered and processed. " +
		"Each request has its own group, so the broadcast channel the node opens identifies the request whose signing starts. " +
		"Non-trivial: at least one signing start was observed and the scenario contains a duplicate, a stale redelivery or a held confirmation.")
	r.Assume("a request is 'already processed' once the node opened the broadcast channel for it; an older request counts as started after it only when its confirmation was released after that point")

	type res struct {
		desc      string
		nontriv   bool
		viol      [][3]string
		incon     string
		starts    int
		heldCases int
	}
	cases := n
	out := make([]res, cases)
	const wd = 20 * time.Second
	verifkit.Parallel(cases, 16, func(ci int) {
		rng := r.SubRand("node", ci)
		k := 2 + rng.Intn(3)
		blocks := make([]uint64, k)
		b := uint64(1 + rng.Intn(50))
		same := make([]bool, k)
		for i := range blocks {
			b += uint64(1 + rng.Intn(200))
			blocks[i] = b
		}
		kind := []string{"inorder-dups", "stale-redelivery", "held-confirmation", "held-confirmation", "error-retry"}[rng.Intn(5)]
		desc := fmt.Sprintf("kind=%s blocks=%v", kind, blocks)
		rs := &out[ci]
		rs.desc = desc
		n, err := c06nNewNode(r, r.TmpDir(fmt.Sprintf("c06node-%d", ci)), blocks, same)
		if err != nil {
			rs.incon = "node setup failed: " + err.Error()
			return
		}
		defer n.cancel()
		viol := func(fp, what string) { rs.viol = append(rs.viol, [3]string{fp, what, desc}) }
		eq := func(i int) []c06nStep { return []c06nStep{{answer: n.reqs[i].block}} }

		processInOrder := func(i int, dups int) bool {
			n.setCurrent(i)
			var ds []chan struct{}
			for d := 0; d < dups; d++ {
				ds = append(ds, n.deliver(i, eq(i)))
			}
			for _, d := range ds {
				if !c06nWaitDone(d, wd) {
					rs.incon = "handler did not return (watchdog)"
					return false
				}
			}
			if !n.waitStart(i, wd) {
				rs.incon = fmt.Sprintf("no signing start observed for the newest confirmed request %d within the watchdog", i)
				return false
			}
			return true
		}

		switch kind {
		case "inorder-dups":
			for i := 0; i < k; i++ {
				if !processInOrder(i, 1+rng.Intn(4)) {
					return
				}
			}
			// redeliver everything again, oldest first, each confirmed by a stale chain
			for i := 0; i < k-1; i++ {
				if !c06nWaitDone(n.deliver(i, eq(i)), wd) {
					rs.incon = "handler did not return (watchdog)"
					return
				}
			}
			rs.nontriv = true
		case "stale-redelivery":
			// the newest request arrives first; older ones arrive afterwards
			// and a lagging chain node still reports them as current
			if !processInOrder(k-1, 1) {
				return
			}
			for i := 0; i < k-1; i++ {
				if !c06nWaitDone(n.deliver(i, eq(i)), wd) {
					rs.incon = "handler did not return (watchdog)"
					return
				}
			}
			rs.nontriv = true
		case "held-confirmation":
			x := rng.Intn(k - 1)
			y := x + 1 + rng.Intn(k-1-x)
			hold, reach := make(chan struct{}), make(chan struct{})
			dx := n.deliver(x, []c06nStep{{hold: hold, reach: reach, answer: n.reqs[x].block}})
			select {
			case <-reach:
			case <-time.After(wd):
				close(hold)
				rs.incon = "held confirmation never reached the chain"
				return
			}
			ok := processInOrder(y, 1)
			close(hold)
			if !ok {
				return
			}
			if !c06nWaitDone(dx, wd) {
				rs.incon = "handler did not return (watchdog)"
				return
			}
			rs.heldCases++
			rs.nontriv = true
			desc += fmt.Sprintf(" held=%d newer=%d", x, y)
			rs.desc = desc
		case "error-retry":
			// one failed and one lagging answer before the confirmation
			// (two real 1 s sleeps of the production retry loop), then in order
			n.setCurrent(0)
			d0 := n.deliver(0, []c06nStep{{fail: true}, {answer: 0}, {answer: n.reqs[0].block}})
			if !c06nWaitDone(d0, wd) {
				rs.incon = "handler did not return (watchdog)"
				return
			}
			if !n.waitStart(0, wd) {
				rs.incon = "no signing start after a retried confirmation"
				return
			}
			for i := 1; i < k; i++ {
				if !processInOrder(i, 2) {
					return
				}
			}
			rs.nontriv = true
		}
		// let spawned deduplication goroutines of rejected deliveries run
		time.Sleep(30 * time.Millisecond)
		starts := n.net.snapshot()
		rs.starts = len(starts)
		// verdicts over the recorded starts
		perReq := map[string]int{}
		idx := map[string]int{}
		for i, q := range n.reqs {
			idx[q.name] = i
		}
		maxSeen := -1
		for _, s := range starts {
			i, ok := idx[s.name]
			if !ok {
				continue
			}
			perReq[s.name]++
			if perReq[s.name] == 2 {
				viol("node:request-started-twice", fmt.Sprintf("the node started signing twice for the request of block %d (starts in order: %v)", n.reqs[i].block, c06nNames(starts)))
			}
			if i < maxSeen {
				viol("node:older-request-started-after-newer", fmt.Sprintf("signing for the request of block %d started after the node had already started the request of block %d (starts in order: %v)", n.reqs[i].block, n.reqs[maxSeen].block, c06nNames(starts)))
			}
			if i > maxSeen {
				maxSeen = i
			}
		}
	})
	starts, held := 0, 0
	for _, rs := range out {
		if rs.incon != "" {
			r.Inconclusive("node: " + rs.incon + " [" + rs.desc + "]")
			continue
		}
		r.Case(rs.desc, rs.nontriv && rs.starts > 0)
		starts += rs.starts
		held += rs.heldCases
		for _, v := range rs.viol {
			r.Violation(v[0], v[1], v[2], nil)
		}
	}
	r.Count("node_signing_starts_observed", int64(starts))
	r.Count("node_held_confirmation_cases", int64(held))
	if len(out) > 0 {
		r.Sample(map[string]any{"case": out[0].desc, "starts": out[0].starts})
	}
}

func c06nNames(s []c06nStart) []string {
	var o []string
	for _, x := range s {
		o = append(o, x.name)
	}
	return o
}
