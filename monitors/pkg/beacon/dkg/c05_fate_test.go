//go:build verif

package dkg

import (
	"bytes"
	"fmt"
	"math/big"
	"math/rand"
	"reflect"
	"runtime"
	"sort"
	"strings"
	"sync"
	"sync/atomic"
	"testing"
	"time"

	bn256 "github.com/ethereum/go-ethereum/crypto/bn256/cloudflare"
	"github.com/keep-network/keep-core/internal/verifkit"
	beaconchain "github.com/keep-network/keep-core/pkg/beacon/chain"
	dkgResult "github.com/keep-network/keep-core/pkg/beacon/dkg/result"
	"github.com/keep-network/keep-core/pkg/beacon/event"
	"github.com/keep-network/keep-core/pkg/beacon/gjkr"
	"github.com/keep-network/keep-core/pkg/chain"
	"github.com/keep-network/keep-core/pkg/protocol/group"
)

// c05Chain gives decideMemberFate the only thing it asks the chain for.
type c05Chain struct {
	beaconchain.Interface
	cfg *beaconchain.Config
}

func (c *c05Chain) GetConfig() *beaconchain.Config { return c.cfg }

var c05KeysOnce sync.Once
var c05Keys [][]byte
var c05KeyPts []*bn256.G2

func c05KeyPool() {
	c05KeysOnce.Do(func() {
		for k := int64(10); k < 22; k++ {
			p := new(bn256.G2).ScalarBaseMult(big.NewInt(k * 7919))
			c05KeyPts = append(c05KeyPts, p)
			c05Keys = append(c05Keys, p.Marshal())
		}
	})
}

type c05Case struct {
	n, honest   int
	player      int
	step        uint64
	start       uint64
	clockAt     uint64 // height when the call is made
	ownKey      int    // index into the key pool, -1 = nil key
	timing      string // event-first | event-before-timeout | timeout-only | event-after-timeout | at-timeout
	evKeyKind   string
	evKey       []byte
	misbehaved  []uint8
	localIA     []int
	localDQ     []int
	selected    []chain.Address
	selectedLen string
}

func (c *c05Case) desc() string {
	return fmt.Sprintf("fate n=%d honest=%d player=%d step=%d start=%d clockAt=%d ownKey=%d timing=%s evKey=%s:%s misbehaved=%v localIA=%v localDQ=%v selected=%s",
		c.n, c.honest, c.player, c.step, c.start, c.clockAt, c.ownKey, c.timing, c.evKeyKind, verifkit.Hex(c.evKey), c.misbehaved, c.localIA, c.localDQ, c.selectedLen)
}

func c05Gen(rng *rand.Rand, i int) *c05Case {
	c05KeyPool()
	c := &c05Case{}
	c.n = 3 + rng.Intn(62)
	if rng.Intn(4) == 0 {
		c.n = 3 + rng.Intn(6)
	}
	c.honest = c.n/2 + 1
	c.player = 1 + rng.Intn(c.n)
	c.step = uint64(1 + rng.Intn(10))
	c.start = uint64(rng.Intn(5000))
	c.ownKey = rng.Intn(len(c05Keys))
	if rng.Intn(40) == 0 {
		c.ownKey = -1
	}
	c.timing = []string{"event-first", "event-first", "event-before-timeout", "event-before-timeout", "timeout-only", "event-after-timeout", "at-timeout"}[rng.Intn(7)]
	c.clockAt = c.start
	switch rng.Intn(4) {
	case 0:
		c.clockAt = c.start + uint64(rng.Intn(6))
	case 1:
		if c.start > 0 {
			c.clockAt = c.start - uint64(rng.Intn(int(c.start))%50)
		}
	}
	own := []byte(nil)
	if c.ownKey >= 0 {
		own = c05Keys[c.ownKey]
	}
	switch k := rng.Intn(10); {
	case k < 5 || own == nil:
		c.evKeyKind, c.evKey = "equal", append([]byte(nil), own...)
	case k == 5:
		c.evKeyKind = "one-bit-different"
		c.evKey = append([]byte(nil), own...)
		c.evKey[rng.Intn(len(own))] ^= 1 << uint(rng.Intn(8))
	case k == 6:
		c.evKeyKind, c.evKey = "empty", []byte{}
	case k == 7:
		c.evKeyKind = "other-key"
		c.evKey = append([]byte(nil), c05Keys[(c.ownKey+1+rng.Intn(len(c05Keys)-1))%len(c05Keys)]...)
	case k == 8:
		c.evKeyKind = "truncated"
		c.evKey = append([]byte(nil), own[:len(own)-1-rng.Intn(4)]...)
	default:
		c.evKeyKind = "trailing-byte"
		c.evKey = append(append([]byte(nil), own...), byte(rng.Intn(256)))
	}
	if own == nil {
		c.evKeyKind = "any(own key nil)"
		c.evKey = append([]byte(nil), c05Keys[0]...)
	}
	// misbehaved bytes: subset, unsorted, maybe duplicates / outside the group
	nm := 0
	switch rng.Intn(4) {
	case 0:
	case 1:
		nm = 1 + rng.Intn(2)
	default:
		nm = rng.Intn(c.n/2 + 1)
	}
	perm := rng.Perm(c.n)
	for _, p := range perm[:nm] {
		c.misbehaved = append(c.misbehaved, uint8(p+1))
	}
	switch rng.Intn(5) {
	case 0: // force the player in
		c.misbehaved = append(c.misbehaved, uint8(c.player))
	case 1: // force the player out
		var f []uint8
		for _, m := range c.misbehaved {
			if int(m) != c.player {
				f = append(f, m)
			}
		}
		c.misbehaved = f
	}
	if len(c.misbehaved) > 0 && rng.Intn(5) == 0 {
		c.misbehaved = append(c.misbehaved, c.misbehaved[rng.Intn(len(c.misbehaved))])
	}
	if rng.Intn(8) == 0 {
		c.misbehaved = append(c.misbehaved, []uint8{0, uint8(c.n + 1), 255}[rng.Intn(3)])
	}
	rng.Shuffle(len(c.misbehaved), func(a, b int) { c.misbehaved[a], c.misbehaved[b] = c.misbehaved[b], c.misbehaved[a] })
	// what the member itself believed about the group must not matter
	if rng.Intn(2) == 0 {
		p2 := rng.Perm(c.n)
		k := rng.Intn(c.n/2 + 1)
		for _, p := range p2[:k] {
			if rng.Intn(2) == 0 {
				c.localIA = append(c.localIA, p+1)
			} else {
				c.localDQ = append(c.localDQ, p+1)
			}
		}
	}
	sl := c.n
	c.selectedLen = "n"
	switch rng.Intn(12) {
	case 0:
		sl, c.selectedLen = c.n-1, "n-1"
	case 1:
		sl, c.selectedLen = c.n+1, "n+1"
	}
	nOps := 1 + rng.Intn(c.n)
	for k := 0; k < sl; k++ {
		c.selected = append(c.selected, chain.Address(fmt.Sprintf("0xop%02d", rng.Intn(nOps))))
	}
	return c
}

type c05Expect struct {
	timeout   bool
	err       bool
	operating []group.MemberIndex
}

// c05Reference is the property's decision for a consumed event.
func c05Reference(c *c05Case) c05Expect {
	if c.ownKey < 0 {
		return c05Expect{err: true}
	}
	if !bytes.Equal(c05Keys[c.ownKey], c.evKey) {
		return c05Expect{err: true}
	}
	mis := map[int]bool{}
	for _, m := range c.misbehaved {
		mis[int(m)] = true
	}
	if mis[c.player] {
		return c05Expect{err: true}
	}
	var op []group.MemberIndex
	for i := 1; i <= c.n; i++ {
		if !mis[i] {
			op = append(op, group.MemberIndex(i))
		}
	}
	return c05Expect{operating: op}
}

func c05Outcome(op []group.MemberIndex, err error) string {
	if err != nil {
		if strings.Contains(err.Error(), "timed out") {
			return "timeout-error"
		}
		return "error"
	}
	return fmt.Sprintf("stay%v", op)
}

func TestVerif_C05_Fate(t *testing.T) {
	r := verifkit.Start(t, "C05", "fate")
	defer r.Finish()
	r.SetRule("PRNG cases: group size 3..64, player, publication step, start block, own key from a pool (or nil), local IA/DQ marks (must not matter); on-chain event with key equal / one bit different / empty / other / truncated / trailing byte and misbehaved bytes as subset, unsorted, with duplicates, with or without the player, with indexes outside the group; virtual clock orderings: event first, event at timeout-1, no event, event after the timeout, both at the timeout block (either outcome legal); result fed to resolveGroupOperators with selected lists of length n, n-1, n+1. non-trivial = an event was consumed and (key differs, or the player is listed, or another member is listed)")
	r.Assume("timeout block = start + result.PrePublicationBlocks() + groupSize*step as documented; the monitor reads the registered block from the virtual clock's wait log")
	n := r.N(2000, 100000)
	var consumedEvent, consumedTimeout, atEvent, atTimeout, stayed, operatorLists int64
	var samples int32
	verifkit.Parallel(n, 0, func(i int) {
		rng := r.SubRand("fate", i)
		c := c05Gen(rng, i)
		desc := c.desc()
		cfg := &beaconchain.Config{GroupSize: c.n, HonestThreshold: c.honest, ResultPublicationBlockStep: c.step}
		bc := &c05Chain{cfg: cfg}
		g := group.NewGroup(c.n-c.honest, c.n)
		for _, m := range c.localIA {
			g.MarkMemberAsInactive(group.MemberIndex(m))
		}
		for _, m := range c.localDQ {
			g.MarkMemberAsDisqualified(group.MemberIndex(m))
		}
		res := &gjkr.Result{Group: g}
		if c.ownKey >= 0 {
			res.GroupPublicKey = c05KeyPts[c.ownKey]
		}
		clk := verifkit.NewClock(c.clockAt)
		timeoutBlock := c.start + dkgResult.PrePublicationBlocks() + uint64(c.n)*c.step
		evCh := make(chan *event.DKGResultSubmission, 1)
		ev := &event.DKGResultSubmission{MemberIndex: 1, GroupPublicKey: append([]byte(nil), c.evKey...), Misbehaved: append([]uint8(nil), c.misbehaved...), BlockNumber: c.clockAt}

		type out struct {
			op  []group.MemberIndex
			err error
		}
		done := make(chan out, 1)
		call := func() {
			var o out
			if r.Guard("fate:", desc, func() {
				o.op, o.err = decideMemberFate(group.MemberIndex(c.player), res, evCh, c.start, bc, clk)
			}) {
				o.err = fmt.Errorf("panicked")
			}
			done <- o
		}
		waitParked := func() bool {
			dl := time.Now().Add(30 * time.Second)
			for clk.Pending() == 0 && len(clk.WaitLog()) == 0 {
				if time.Now().After(dl) {
					return false
				}
				runtime.Gosched()
			}
			return true
		}
		wait := func() (out, bool) {
			select {
			case o := <-done:
				return o, true
			case <-time.After(30 * time.Second):
				return out{}, false
			}
		}

		timing := c.timing
		if c.clockAt >= timeoutBlock {
			// the member is so late that the timeout block has passed already
			if timing == "event-first" || timing == "event-before-timeout" || timing == "at-timeout" {
				timing = "at-timeout"
			} else {
				timing = "timeout-only"
			}
		}
		var o out
		ok := true
		legal := map[string]bool{}
		exp := c05Reference(c)
		evOutcome := "error"
		if !exp.err {
			evOutcome = fmt.Sprintf("stay%v", exp.operating)
		}
		switch timing {
		case "event-first":
			evCh <- ev
			go call()
			o, ok = wait()
			legal[evOutcome] = true
		case "event-before-timeout":
			go call()
			if !waitParked() {
				r.Inconclusive("watchdog: decideMemberFate did not register a waiter")
				return
			}
			if timeoutBlock > 0 {
				clk.Set(timeoutBlock-1, rng.Intn(2) == 0)
			}
			evCh <- ev
			o, ok = wait()
			legal[evOutcome] = true
		case "timeout-only":
			go call()
			if !waitParked() {
				r.Inconclusive("watchdog: decideMemberFate did not register a waiter")
				return
			}
			clk.Set(timeoutBlock, rng.Intn(2) == 0)
			o, ok = wait()
			legal["timeout-error"] = true
		case "event-after-timeout":
			go call()
			if !waitParked() {
				r.Inconclusive("watchdog: decideMemberFate did not register a waiter")
				return
			}
			clk.Set(timeoutBlock+uint64(rng.Intn(3)), false)
			o, ok = wait()
			if ok {
				evCh <- ev // too late; nobody listens
			}
			legal["timeout-error"] = true
		case "at-timeout":
			go call()
			if !waitParked() {
				r.Inconclusive("watchdog: decideMemberFate did not register a waiter")
				return
			}
			if rng.Intn(2) == 0 {
				go func() { evCh <- ev }()
				clk.Set(timeoutBlock, false)
			} else {
				go clk.Set(timeoutBlock, false)
				evCh <- ev
			}
			o, ok = wait()
			legal[evOutcome] = true
			legal["timeout-error"] = true
		}
		if !ok {
			r.Inconclusive("watchdog: decideMemberFate did not return within 30 s (" + timing + ")")
			return
		}
		got := c05Outcome(o.op, o.err)
		consumed := got != "timeout-error"
		otherListed := false
		for _, m := range c.misbehaved {
			if int(m) != c.player && int(m) >= 1 && int(m) <= c.n {
				otherListed = true
			}
		}
		r.Case(desc, consumed && (exp.err || otherListed))
		if consumed {
			atomic.AddInt64(&consumedEvent, 1)
		} else {
			atomic.AddInt64(&consumedTimeout, 1)
		}
		if timing == "at-timeout" {
			if consumed {
				atomic.AddInt64(&atEvent, 1)
			} else {
				atomic.AddInt64(&atTimeout, 1)
			}
		}
		// the block the member waited for
		wl := clk.WaitLog()
		if len(wl) != 1 || wl[0].Block != timeoutBlock {
			r.Violation("fate:timeout-block", fmt.Sprintf("waited for %v, expected one waiter for block %d", wl, timeoutBlock), desc, nil)
		}
		if !legal[got] {
			var want []string
			for k := range legal {
				want = append(want, k)
			}
			sort.Strings(want)
			fp := "fate:"
			switch {
			case got == "timeout-error":
				fp += "timed-out-although-event-came-first"
			case legal["timeout-error"] && len(legal) == 1:
				fp += "no-timeout-error-without-event"
			case strings.HasPrefix(got, "stay") && exp.err && c.ownKey >= 0 && !bytes.Equal(c05Keys[c.ownKey], c.evKey):
				fp += "stays-with-different-key"
			case strings.HasPrefix(got, "stay") && exp.err:
				fp += "stays-although-misbehaved-or-keyless"
			case got == "error":
				fp += "dropped-although-chain-kept-it"
			default:
				fp += "wrong-operating-members"
			}
			r.Violation(fp, fmt.Sprintf("outcome %s, legal: %v", got, want), desc, nil)
			return
		}
		if o.err != nil {
			return
		}
		atomic.AddInt64(&stayed, 1)
		// as ExecuteDKG does next
		var ops []chain.Address
		var rerr error
		selCopy := append([]chain.Address(nil), c.selected...)
		if r.Guard("operators:", desc, func() {
			ops, rerr = resolveGroupOperators(c.selected, o.op, cfg)
		}) {
			return
		}
		if !reflect.DeepEqual(selCopy, c.selected) {
			r.Violation("operators:input-mutated", "the selected operator list was modified", desc, nil)
		}
		wantErr := len(c.selected) != c.n || len(exp.operating) < c.honest
		if wantErr {
			if rerr == nil {
				r.Violation("operators:no-error", fmt.Sprintf("selected=%d groupSize=%d operating=%d honest=%d but no error", len(c.selected), c.n, len(exp.operating), c.honest), desc, ops)
			}
			return
		}
		if rerr != nil {
			r.Violation("operators:unexpected-error", rerr.Error(), desc, nil)
			return
		}
		atomic.AddInt64(&operatorLists, 1)
		var want []chain.Address
		for _, m := range exp.operating {
			want = append(want, c.selected[int(m)-1])
		}
		if !reflect.DeepEqual(want, ops) {
			r.Violation("operators:wrong-list", "group operators are not the selected operators of the non-misbehaving members in index order", desc, map[string]interface{}{"got": ops, "want": want})
		}
		if consumed && otherListed && atomic.AddInt32(&samples, 1) <= 4 {
			r.Sample(map[string]interface{}{"n": c.n, "player": c.player, "timing": timing, "misbehaved": fmt.Sprint(c.misbehaved), "operating": fmt.Sprint(o.op), "operators": len(ops)})
		}
	})
	r.Count("event_consumed", consumedEvent)
	r.Count("timeout_consumed", consumedTimeout)
	r.Count("at_timeout_block_event_won", atEvent)
	r.Count("at_timeout_block_timeout_won", atTimeout)
	r.Count("stayed_in_group", stayed)
	r.Count("operator_lists_checked", operatorLists)
}

func TestVerif_C05_Operators(t *testing.T) {
	r := verifkit.Start(t, "C05", "operators")
	defer r.Finish()
	r.SetRule("resolveGroupOperators on PRNG inputs: group size 3..64, honest threshold 1..n, selected list of length n (n-1/n+1 in 1 of 6 cases) with repeated operators, operating set = PRNG subset of 1..n in PRNG order (also below the threshold): result must be selected[i-1] for the operating i in ascending order, or an error exactly for wrong lengths. non-trivial = the operating set is a proper subset or not in ascending order")
	n := r.N(3000, 100000)
	var samples int32
	verifkit.Parallel(n, 0, func(i int) {
		rng := r.SubRand("ops", i)
		gs := 3 + rng.Intn(62)
		honest := 1 + rng.Intn(gs)
		sl := gs
		switch rng.Intn(12) {
		case 0:
			sl = gs - 1
		case 1:
			sl = gs + 1
		}
		nOps := 1 + rng.Intn(gs)
		var selected []chain.Address
		for k := 0; k < sl; k++ {
			selected = append(selected, chain.Address(fmt.Sprintf("0xop%02d", rng.Intn(nOps))))
		}
		maxID := gs
		if sl < gs {
			maxID = sl // keep ids inside the list even when the call must fail
		}
		size := rng.Intn(maxID + 1)
		if rng.Intn(3) > 0 && honest <= maxID {
			size = honest + rng.Intn(maxID-honest+1)
		}
		perm := rng.Perm(maxID)
		var operating []group.MemberIndex
		for _, p := range perm[:size] {
			operating = append(operating, group.MemberIndex(p+1))
		}
		switch rng.Intn(3) {
		case 0:
			sort.Slice(operating, func(a, b int) bool { return operating[a] < operating[b] })
		case 1:
			sort.Slice(operating, func(a, b int) bool { return operating[a] > operating[b] })
		}
		ascending := sort.SliceIsSorted(operating, func(a, b int) bool { return operating[a] < operating[b] })
		desc := fmt.Sprintf("operators groupSize=%d honest=%d selected=%v operating=%v", gs, honest, selected, operating)
		ids := append([]group.MemberIndex(nil), operating...)
		sort.Slice(ids, func(a, b int) bool { return ids[a] < ids[b] })
		selCopy := append([]chain.Address(nil), selected...)
		var ops []chain.Address
		var err error
		if r.Guard("operators:", desc, func() {
			ops, err = resolveGroupOperators(selected, operating, &beaconchain.Config{GroupSize: gs, HonestThreshold: honest})
		}) {
			r.Case(desc, size < gs || !ascending)
			return
		}
		r.Case(desc, size < gs || !ascending)
		if !reflect.DeepEqual(selCopy, selected) {
			r.Violation("operators:input-mutated", "the selected operator list was modified", desc, nil)
		}
		wantErr := sl != gs || size < honest
		if wantErr {
			if err == nil {
				r.Violation("operators:no-error", "wrong input lengths accepted", desc, ops)
			}
			return
		}
		if err != nil {
			r.Violation("operators:unexpected-error", err.Error(), desc, nil)
			return
		}
		var want []chain.Address
		for _, m := range ids {
			want = append(want, selected[int(m)-1])
		}
		if len(want) == 0 {
			want = []chain.Address{}
		}
		if len(ops) != len(want) || (len(want) > 0 && !reflect.DeepEqual(want, ops)) {
			r.Violation("operators:wrong-list", "group operators are not the selected operators of the operating members in index order", desc, map[string]interface{}{"got": ops, "want": want})
		}
		if size < gs && !ascending && atomic.AddInt32(&samples, 1) <= 3 {
			r.Sample(map[string]interface{}{"group_size": gs, "honest": honest, "operating": fmt.Sprint(operating), "operators": ops})
		}
	})
}
