//go:build verif

package dkg

// C03 one level up: the beacon's ThresholdSigner. The relay entry code hands
// the received shares to ThresholdSigner.CompleteSignature; whatever that
// method does before or after bls.RecoverSignature is part of "recovery from
// any honest-threshold subset, skipping invalid entries".

import (
	"fmt"
	"math/big"
	"testing"

	bn256 "github.com/ethereum/go-ethereum/crypto/bn256/cloudflare"
	"github.com/keep-network/keep-core/internal/verifkit"
	"github.com/keep-network/keep-core/pkg/bls"
	"github.com/keep-network/keep-core/pkg/protocol/group"
)

func TestVerif_C03_ThresholdSigner(t *testing.T) {
	r := verifkit.Start(t, "C03", "threshold-signer")
	defer r.Finish()
	r.SetRule("ThresholdSigners built from a PRNG polynomial (group 3..12, honest threshold 2..n); a PRNG subset of k >= threshold distinct correct shares, in PRNG order, with 0-6 entries the recovery is documented to skip (nil entry, nil value, negative index) inserted at PRNG positions - in particular before the valid shares; CompleteSignature must succeed, verify under the group key and equal the signature recovered from exactly the first threshold shares alone; with fewer than threshold correct shares it must fail. non-trivial = at least one skippable entry precedes a valid share, or the subset is larger than the threshold")
	n := r.N(400, 8000)
	verifkit.Parallel(n, 0, func(i int) {
		rng := r.SubRand("signer", i)
		size := 3 + rng.Intn(10)
		thr := 2 + rng.Intn(size-1)
		coeffs := make([]*big.Int, thr)
		for k := range coeffs {
			coeffs[k] = new(big.Int).Rand(rng, bn256.Order)
		}
		if coeffs[0].Sign() == 0 {
			coeffs[0].SetInt64(1)
		}
		gpk := new(bn256.G2).ScalarBaseMult(coeffs[0])
		msg := new(bn256.G1).ScalarBaseMult(new(big.Int).Rand(rng, bn256.Order))
		signers := make([]*ThresholdSigner, size)
		for m := 1; m <= size; m++ {
			ks := bls.GetSecretKeyShare(coeffs, m)
			signers[m-1] = NewThresholdSigner(group.MemberIndex(m), gpk, new(big.Int).Mod(ks.V, bn256.Order), nil, nil)
		}
		perm := rng.Perm(size)
		k := thr + rng.Intn(size-thr+1)
		short := rng.Intn(8) == 0 // too few correct shares: must be refused
		if short {
			k = thr - 1
		}
		var valid []*bls.SignatureShare
		for _, p := range perm[:k] {
			s := signers[p]
			valid = append(valid, &bls.SignatureShare{I: int(s.MemberID()), V: s.CalculateSignatureShare(msg)})
		}
		in := append([]*bls.SignatureShare(nil), valid...)
		nSkip := rng.Intn(7)
		skipBeforeValid := false
		kinds := ""
		for j := 0; j < nSkip; j++ {
			var e *bls.SignatureShare
			switch rng.Intn(3) {
			case 0:
				kinds += "n"
			case 1:
				e = &bls.SignatureShare{I: 1 + rng.Intn(size), V: nil}
				kinds += "v"
			default:
				e = &bls.SignatureShare{I: -1 - rng.Intn(size), V: new(bn256.G1).ScalarBaseMult(big.NewInt(int64(2 + rng.Intn(100))))}
				kinds += "i"
			}
			pos := rng.Intn(len(in) + 1)
			if rng.Intn(2) == 0 {
				pos = rng.Intn(thr) % (len(in) + 1) // among the first threshold positions
			}
			if pos < len(in) {
				skipBeforeValid = true
			}
			in = append(in[:pos], append([]*bls.SignatureShare{e}, in[pos:]...)...)
		}
		desc := fmt.Sprintf("n=%d thr=%d valid=%d skipped=%q short=%v case=%d", size, thr, k, kinds, short, i)
		r.Case(desc, skipBeforeValid || k > thr)
		var sig *bn256.G1
		var err error
		if r.Guard("signer:", desc, func() { sig, err = signers[perm[0]].CompleteSignature(in, thr) }) {
			return
		}
		if short {
			if err == nil {
				r.Violation("signer:completed-below-threshold", fmt.Sprintf("CompleteSignature produced a signature from %d correct shares, threshold %d", k, thr), desc, nil)
			}
			return
		}
		if err != nil {
			r.Violation("signer:refused-honest-threshold", fmt.Sprintf("CompleteSignature refused an input holding %d correct distinct shares (threshold %d): %v", k, thr, err), desc, nil)
			return
		}
		if !bls.VerifyG1(gpk, msg, sig) {
			r.Violation("signer:signature-does-not-verify", "the completed signature does not verify under the group public key", desc, nil)
			return
		}
		ref, rerr := bls.RecoverSignature(valid[:thr], thr)
		if rerr == nil && ref.String() != sig.String() {
			r.Violation("signer:signature-differs", "the completed signature differs from the one recovered from the first threshold shares", desc, nil)
		}
	})
}
