//go:build verif

package dkg

import (
	"math/big"
	"math/rand"
	"testing"

	bn256 "github.com/ethereum/go-ethereum/crypto/bn256/cloudflare"

	"github.com/keep-network/keep-core/internal/verifkit"
	"github.com/keep-network/keep-core/pkg/chain"
	"github.com/keep-network/keep-core/pkg/protocol/group"
)

func c19G2(rng *rand.Rand) *bn256.G2 {
	k := new(big.Int).SetBytes(c19Bytes(rng, 1, 32))
	if rng.Intn(12) == 0 {
		k = big.NewInt(int64(1 + rng.Intn(2)))
	}
	return new(bn256.G2).ScalarBaseMult(k)
}

func c19Signer(rng *rand.Rand, i int) *ThresholdSigner {
	shares := map[group.MemberIndex]*bn256.G2{}
	for n := c19Size(rng, i, 3); n > 0; n-- {
		shares[c19Index(rng)] = c19G2(rng)
	}
	var ops []chain.Address
	for n := c19Size(rng, i, 5); n > 0; n-- {
		ops = append(ops, chain.Address(c19String(rng)))
	}
	return &ThresholdSigner{
		memberIndex:          c19Index(rng),
		groupPublicKey:       c19G2(rng),
		groupPrivateKeyShare: c19BigInt(rng, 32),
		groupPublicKeyShares: shares,
		groupOperators:       ops,
	}
}

func TestVerif_C19_BeaconDkg(t *testing.T) {
	r := verifkit.Start(t, "C19", "beacondkg")
	defer r.Finish()
	c19Run(r, "dkg", []c19Decoder{
		{
			Type: "ThresholdSigner", File: "marshalling.go",
			New:  func() c19Codec { return &ThresholdSigner{} },
			Gen:  func(rng *rand.Rand, i int) c19Codec { return c19Signer(rng, i) },
			IndexPaths: []string{"1", "4*.1"},
		},
	})
}
