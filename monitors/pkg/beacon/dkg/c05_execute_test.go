//go:build verif

package dkg

// C05, part "execute_dkg": the real ExecuteDKG (GJKR, result publication,
// fate decision, operator list) of every running member on a virtual clock,
// an in-memory synchronous broadcast channel and a scripted chain. What is
// judged is what ExecuteDKG returns, so the call sites inside ExecuteDKG are
// covered, not only decideMemberFate / resolveGroupOperators themselves.

import (
	"bytes"
	"context"
	"crypto/sha256"
	"fmt"
	"math/big"
	"math/rand"
	"reflect"
	"runtime"
	"sort"
	"sync"
	"sync/atomic"
	"testing"
	"time"

	bn256 "github.com/ethereum/go-ethereum/crypto/bn256/cloudflare"
	"github.com/keep-network/keep-core/internal/testutils"
	"github.com/keep-network/keep-core/internal/verifkit"
	beaconchain "github.com/keep-network/keep-core/pkg/beacon/chain"
	"github.com/keep-network/keep-core/pkg/beacon/event"
	"github.com/keep-network/keep-core/pkg/chain"
	"github.com/keep-network/keep-core/pkg/chain/local_v1"
	"github.com/keep-network/keep-core/pkg/net"
	"github.com/keep-network/keep-core/pkg/operator"
	"github.com/keep-network/keep-core/pkg/protocol/group"
	"github.com/keep-network/keep-core/pkg/subscription"
)

// ---------------------------------------------------------------- block counter

const (
	c05exRun int32 = iota
	c05exWait
	c05exSel
)

// c05exBC is a member's block counter: the kit's clock view, emitting the
// requested block number like keep-core's block counters, and remembering
// what the member is currently waiting for (for quiescence detection only).
type c05exBC struct {
	v      *verifkit.View
	mode   int32
	target uint64
	gen    int64
}

func (b *c05exBC) WaitForBlockHeight(h uint64) error {
	atomic.AddInt64(&b.gen, 1)
	ch, err := b.v.BlockHeightWaiter(h)
	atomic.StoreUint64(&b.target, h)
	atomic.StoreInt32(&b.mode, c05exWait)
	<-ch
	atomic.StoreInt32(&b.mode, c05exRun)
	return err
}

func (b *c05exBC) BlockHeightWaiter(h uint64) (<-chan uint64, error) {
	g := atomic.AddInt64(&b.gen, 1)
	inner, err := b.v.BlockHeightWaiter(h)
	atomic.StoreUint64(&b.target, h)
	atomic.StoreInt32(&b.mode, c05exSel)
	out := make(chan uint64, 1)
	go func() {
		<-inner
		if atomic.LoadInt64(&b.gen) == g {
			atomic.StoreInt32(&b.mode, c05exRun)
		}
		out <- h
	}()
	return out, err
}
func (b *c05exBC) CurrentBlock() (uint64, error)                 { return b.v.CurrentBlock() }
func (b *c05exBC) WatchBlocks(ctx context.Context) <-chan uint64 { return b.v.WatchBlocks(ctx) }

var _ chain.BlockCounter = (*c05exBC)(nil)

// ---------------------------------------------------------------- network

type c05exTID string

func (t c05exTID) String() string { return string(t) }

type c05exMsg struct {
	sender c05exTID
	pub    []byte
	pl     interface{}
	tp     string
	seq    uint64
	seen   int32
	read   *int64 // the receiving member's count of messages its states looked at
}

func (m *c05exMsg) TransportSenderID() net.TransportIdentifier { return m.sender }
func (m *c05exMsg) SenderPublicKey() []byte                    { return m.pub }
func (m *c05exMsg) Payload() interface{} {
	if atomic.CompareAndSwapInt32(&m.seen, 0, 1) {
		atomic.AddInt64(m.read, 1)
	}
	return m.pl
}
func (m *c05exMsg) Type() string  { return m.tp }
func (m *c05exMsg) Seqno() uint64 { return m.seq }

type c05exHandler struct {
	ctx context.Context
	fn  func(net.Message)
}

type c05exChan struct {
	x         *c05exCaseRun
	idx       int
	pub       []byte
	mu        sync.Mutex
	handlers  []*c05exHandler
	unm       map[string]func() net.TaggedUnmarshaler
	seq       uint64
	delivered int64
	read      int64
}

func (c *c05exChan) Name() string { return "c05ex" }
func (c *c05exChan) Send(ctx context.Context, m net.TaggedMarshaler, _ ...net.RetransmissionStrategy) error {
	b, err := m.Marshal()
	if err != nil {
		return err
	}
	seq := atomic.AddUint64(&c.seq, 1)
	atomic.AddInt64(&c.x.sent, 1)
	for _, t := range c.x.chans {
		if t == nil {
			continue
		}
		t.mu.Lock()
		mk := t.unm[m.Type()]
		hs := append([]*c05exHandler(nil), t.handlers...)
		t.mu.Unlock()
		if mk == nil {
			continue
		}
		for _, h := range hs {
			if h.ctx.Err() != nil {
				continue
			}
			u := mk()
			if err := u.Unmarshal(b); err != nil {
				continue
			}
			atomic.AddInt64(&t.delivered, 1)
			h.fn(&c05exMsg{sender: c05exTID(fmt.Sprint(c.idx)), pub: c.pub, pl: u, tp: m.Type(), seq: seq, read: &t.read})
		}
	}
	return nil
}
func (c *c05exChan) Recv(ctx context.Context, fn func(net.Message)) {
	c.mu.Lock()
	live := c.handlers[:0]
	for _, h := range c.handlers {
		if h.ctx.Err() == nil {
			live = append(live, h)
		}
	}
	c.handlers = append(live, &c05exHandler{ctx, fn})
	c.mu.Unlock()
}
func (c *c05exChan) SetUnmarshaler(f func() net.TaggedUnmarshaler) {
	c.mu.Lock()
	c.unm[f().Type()] = f
	c.mu.Unlock()
}
func (c *c05exChan) SetFilter(net.BroadcastChannelFilter) error { return nil }

// ---------------------------------------------------------------- chain

// c05exChain is what ExecuteDKG and the publication phase need from the
// beacon chain, per member; every other method panics through the nil
// embedded interface.
type c05exChain struct {
	beaconchain.Interface
	x       *c05exCaseRun
	m       *c05exMember
	signing chain.Signing
}

func (c *c05exChain) GetConfig() *beaconchain.Config            { return c.x.cfg }
func (c *c05exChain) BlockCounter() (chain.BlockCounter, error) { return c.m.bc, nil }
func (c *c05exChain) Signing() chain.Signing                    { return c.signing }

func (c *c05exChain) CalculateDKGResultHash(res *beaconchain.DKGResult) (beaconchain.DKGResultHash, error) {
	c.m.mu.Lock()
	c.m.local = &beaconchain.DKGResult{
		GroupPublicKey: append([]byte(nil), res.GroupPublicKey...),
		Misbehaved:     append([]byte(nil), res.Misbehaved...),
	}
	c.m.mu.Unlock()
	h := sha256.New()
	h.Write([]byte{byte(len(res.GroupPublicKey))})
	h.Write(res.GroupPublicKey)
	h.Write([]byte{0xff})
	h.Write(res.Misbehaved)
	var out beaconchain.DKGResultHash
	copy(out[:], h.Sum(nil))
	return out, nil
}

func (c *c05exChain) IsGroupRegistered([]byte) (bool, error) {
	c.x.mu.Lock()
	if !c.x.hsubKnown {
		c.x.hsubKnown = true
		c.x.hsub = c.x.clk.Height()
	}
	c.x.mu.Unlock()
	return false, nil
}

func (c *c05exChain) SubmitDKGResult(idx beaconchain.GroupMemberIndex, res *beaconchain.DKGResult, sigs map[beaconchain.GroupMemberIndex][]byte) error {
	c.x.mu.Lock()
	c.x.submissions = append(c.x.submissions, fmt.Sprintf("member%d@%d(%d sigs)", idx, c.x.clk.Height(), len(sigs)))
	c.x.mu.Unlock()
	if int(idx) != c.m.idx {
		return fmt.Errorf("submitter index %d from member %d", idx, c.m.idx)
	}
	if c.x.c.Fail[c.m.idx-1] {
		atomic.StoreInt32(&c.m.rejected, 1)
		return fmt.Errorf("c05ex: result submission rejected by the chain")
	}
	atomic.StoreInt32(&c.m.accepted, 1)
	return nil
}

func (c *c05exChain) OnDKGResultSubmitted(h func(*event.DKGResultSubmission)) subscription.EventSubscription {
	c.x.mu.Lock()
	id := c.x.nextSub
	c.x.nextSub++
	c.x.subs[id] = &c05exSub{id: id, owner: c.m, nth: c.m.nsubs, h: h}
	c.m.nsubs++
	c.x.mu.Unlock()
	return subscription.NewEventSubscription(func() {
		c.x.mu.Lock()
		delete(c.x.subs, id)
		c.x.mu.Unlock()
	})
}

// ---------------------------------------------------------------- run

type c05exCase struct {
	Index    int    `json:"i"`
	N        int    `json:"n"`
	Honest   int    `json:"honest"`
	Step     uint64 `json:"step"`
	Start    uint64 `json:"start"`
	Silent   int    `json:"silent_member"` // 0 = none
	Fail     []bool `json:"own_submission_rejected"`
	Timing   string `json:"event_timing"` // early | at-timeout | late | never
	Offset   uint64 `json:"event_offset_from_submission_start"`
	KeyKind  string `json:"event_key"`
	Mis      []byte `json:"-"`
	MisPrint string `json:"event_misbehaved"`
}

// c05exSub is one OnDKGResultSubmitted subscription. Each member subscribes
// first in ExecuteDKG (nth == 0, the handler blocks until decideMemberFate
// reads the event) and then in the submission phase (nth == 1).
type c05exSub struct {
	id    int
	owner *c05exMember
	nth   int
	h     func(*event.DKGResultSubmission)
}

type c05exMember struct {
	idx      int
	nsubs    int
	bc       *c05exBC
	ch       *c05exChan
	mu       sync.Mutex
	local    *beaconchain.DKGResult
	rejected int32
	accepted int32
	started  int32
	done     int32
	signer   *ThresholdSigner
	err      error
	panicked bool
}

type c05exCaseRun struct {
	r       *verifkit.Run
	c       *c05exCase
	clk     *verifkit.Clock
	cfg     *beaconchain.Config
	chans   []*c05exChan
	members []*c05exMember // index 0 = member 1; nil for the silent member
	addrs   []chain.Address
	sent    int64

	mu          sync.Mutex
	subs        map[int]*c05exSub
	nextSub     int
	hsub        uint64
	hsubKnown   bool
	submissions []string

	emitted   bool
	emittedAt uint64
	evKey     []byte
	stalls    int64
}

func (x *c05exCaseRun) live() (n int) {
	for _, m := range x.members {
		if m != nil && atomic.LoadInt32(&m.started) == 1 && atomic.LoadInt32(&m.done) == 0 {
			n++
		}
	}
	return
}

// quiescent: every live member is parked on a block above the current height
// and has looked at every message handed to it. onlyUnread reports that the
// only obstacle is an unread message.
func (x *c05exCaseRun) quiescent() (ok, onlyUnread bool) {
	h := x.clk.Height()
	onlyUnread = true
	ok = true
	for _, m := range x.members {
		if m == nil || atomic.LoadInt32(&m.started) == 0 || atomic.LoadInt32(&m.done) == 1 {
			continue
		}
		mode := atomic.LoadInt32(&m.bc.mode)
		if mode == c05exRun || atomic.LoadUint64(&m.bc.target) <= h {
			return false, false
		}
		if mode == c05exSel && atomic.LoadInt64(&m.ch.delivered) != atomic.LoadInt64(&m.ch.read) {
			ok = false
		}
	}
	return ok, !ok && onlyUnread
}

func (x *c05exCaseRun) waitQuiescent(deadline time.Time) bool {
	var stuckSince time.Time
	for spins := 0; ; spins++ {
		ok, unread := x.quiescent()
		if ok {
			return true
		}
		if unread {
			// a state that does not look at a message it was handed would
			// stall the harness: after 5 s without progress count the
			// message as consumed (scheduling only, never a verdict; none
			// was seen with the real states, a shorter grace period fires
			// spuriously on a loaded machine and desynchronises members)
			if stuckSince.IsZero() {
				stuckSince = time.Now()
			} else if time.Since(stuckSince) > 5*time.Second {
				for _, m := range x.members {
					if m != nil && atomic.LoadInt32(&m.bc.mode) == c05exSel {
						atomic.StoreInt64(&m.ch.read, atomic.LoadInt64(&m.ch.delivered))
					}
				}
				atomic.AddInt64(&x.stalls, 1)
				stuckSince = time.Time{}
			}
		} else {
			stuckSince = time.Time{}
		}
		if spins%8 == 7 {
			if time.Now().After(deadline) {
				return false
			}
			time.Sleep(20 * time.Microsecond) // do not starve the members on a loaded machine
		} else {
			runtime.Gosched()
		}
	}
}

func (x *c05exCaseRun) eventKey() []byte {
	var own []byte
	for _, m := range x.members {
		if m == nil {
			continue
		}
		m.mu.Lock()
		if m.local != nil && own == nil {
			own = append([]byte(nil), m.local.GroupPublicKey...)
		}
		m.mu.Unlock()
	}
	switch x.c.KeyKind {
	case "equal":
		return own
	case "one-bit-different":
		if len(own) == 0 {
			return []byte{1}
		}
		k := append([]byte(nil), own...)
		k[len(k)/2] ^= 0x10
		return k
	case "other-key":
		return new(bn256.G2).ScalarBaseMult(big.NewInt(int64(424242 + x.c.Index))).Marshal()
	default:
		return []byte{}
	}
}

func (x *c05exCaseRun) newEvent() *event.DKGResultSubmission {
	return &event.DKGResultSubmission{MemberIndex: 1, GroupPublicKey: append([]byte(nil), x.evKey...), Misbehaved: append([]byte(nil), x.c.Mis...), BlockNumber: x.emittedAt}
}

func (x *c05exCaseRun) liveSubs() []*c05exSub {
	x.mu.Lock()
	defer x.mu.Unlock()
	out := make([]*c05exSub, 0, len(x.subs))
	for _, s := range x.subs {
		out = append(out, s)
	}
	sort.Slice(out, func(a, b int) bool { return out[a].id < out[b].id })
	return out
}

// emitAsync hands the event to every subscriber on its own goroutine (used
// where either outcome is legal).
func (x *c05exCaseRun) emitAsync() {
	for _, s := range x.liveSubs() {
		go s.h(x.newEvent())
	}
}

// emitSync is called at a quiescent instant. A handler of keep-core blocks
// until its member reads the event, so the harness hands the event, and
// waits for it to be taken, exactly where a member is known to be reading:
// in decideMemberFate (the member waits for the publication timeout block)
// or in the submission phase's select. Any other handler gets the event on
// its own goroutine. Members that took the event run to completion without
// waiting for a block; the harness waits for that too, so no block passes
// between "the chain emitted the event" and "the waiting members saw it".
func (x *c05exCaseRun) emitSync(timeoutBlock uint64, deadline time.Time) bool {
	subs := x.liveSubs()
	bySub := map[*c05exMember][]*c05exSub{}
	for _, s := range subs {
		bySub[s.owner] = append(bySub[s.owner], s)
	}
	var took []*c05exMember
	for _, m := range x.members {
		if m == nil || len(bySub[m]) == 0 {
			continue
		}
		isLive := atomic.LoadInt32(&m.done) == 0
		var syncSub *c05exSub
		for _, s := range bySub[m] {
			inFate := atomic.LoadUint64(&m.bc.target) == timeoutBlock && atomic.LoadInt32(&m.bc.mode) == c05exSel
			if isLive && s.nth == 0 && inFate {
				syncSub = s
			}
			if isLive && s.nth == 1 && !inFate && syncSub == nil {
				syncSub = s
			}
		}
		for _, s := range bySub[m] {
			if s == syncSub {
				continue
			}
			go s.h(x.newEvent())
		}
		if syncSub != nil {
			ok := make(chan struct{})
			go func() { syncSub.h(x.newEvent()); close(ok) }()
			for waiting := true; waiting; {
				select {
				case <-ok:
					waiting = false
				case <-time.After(time.Millisecond):
					if atomic.LoadInt32(&m.done) == 1 {
						waiting = false // the member left by another way
					} else if time.Now().After(deadline) {
						return false
					}
				}
			}
			took = append(took, m)
		}
	}
	return x.waitDone(took, deadline)
}

// inFate lists the live members whose own submission was rejected: they are
// (or are about to be) waiting in decideMemberFate.
func (x *c05exCaseRun) inFate() (out []*c05exMember) {
	for _, m := range x.members {
		if m != nil && atomic.LoadInt32(&m.rejected) == 1 && atomic.LoadInt32(&m.done) == 0 {
			out = append(out, m)
		}
	}
	return
}

func (x *c05exCaseRun) waitDone(ms []*c05exMember, deadline time.Time) bool {
	for _, m := range ms {
		for atomic.LoadInt32(&m.done) == 0 {
			if time.Now().After(deadline) {
				return false
			}
			runtime.Gosched()
		}
	}
	return true
}

func (x *c05exCaseRun) drive() bool {
	deadline := time.Now().Add(90 * time.Second)
	c := x.c
	for {
		if !x.waitQuiescent(deadline) {
			return false
		}
		if x.live() == 0 {
			return true
		}
		h := x.clk.Height()
		x.mu.Lock()
		known, hsub := x.hsubKnown, x.hsub
		x.mu.Unlock()
		if known && !x.emitted && c.Timing != "never" {
			bev := hsub + c.Offset
			if c.Timing == "at-timeout" && h+1 == bev {
				// the event and the timeout block at the same instant:
				// either outcome is legal
				x.evKey = x.eventKey()
				x.emitted, x.emittedAt = true, bev
				waiting := x.inFate()
				if c.Index%2 == 0 {
					go x.emitAsync()
					x.clk.Advance(1)
				} else {
					x.emitAsync()
					runtime.Gosched()
					x.clk.Advance(1)
				}
				if !x.waitDone(waiting, deadline) {
					return false
				}
				continue
			}
			if c.Timing != "at-timeout" && h >= bev {
				x.evKey = x.eventKey()
				x.emitted, x.emittedAt = true, h
				if !x.emitSync(hsub+uint64(c.N)*c.Step, deadline) {
					return false
				}
				continue
			}
		}
		x.clk.Advance(1)
	}
}

func c05exGen(rng *rand.Rand, i int) *c05exCase {
	c := &c05exCase{Index: i, N: 3 + i%3}
	c.Honest = c.N/2 + 1
	c.Step = uint64(1 + rng.Intn(3))
	c.Start = uint64(5 + rng.Intn(20))
	if rng.Intn(3) > 0 {
		c.Silent = 1 + rng.Intn(c.N)
	}
	c.Fail = make([]bool, c.N)
	anyFail := false
	for k := range c.Fail {
		if k+1 != c.Silent && rng.Intn(10) < 6 {
			c.Fail[k] = true
			anyFail = true
		}
	}
	if !anyFail {
		for k := range c.Fail {
			if k+1 != c.Silent {
				c.Fail[k] = true
				break
			}
		}
	}
	window := uint64(c.N) * c.Step // submission start .. timeout block
	switch t := rng.Intn(10); {
	case t < 5:
		c.Timing = "early"
		c.Offset = uint64(rng.Intn(int(window) - 1)) // 0 .. window-2
		if rng.Intn(2) == 0 && window >= 3 {
			c.Offset = window - 2 - uint64(rng.Intn(2)) // late enough for several members to have failed
		}
	case t < 6:
		c.Timing, c.Offset = "at-timeout", window
	case t < 8:
		c.Timing, c.Offset = "late", window+1+uint64(rng.Intn(3))
	default:
		c.Timing = "never"
	}
	switch k := rng.Intn(20); {
	case k < 13:
		c.KeyKind = "equal"
	case k < 16:
		c.KeyKind = "one-bit-different"
	case k < 18:
		c.KeyKind = "other-key"
	default:
		c.KeyKind = "empty"
	}
	in := map[int]bool{}
	for m := 1; m <= c.N; m++ {
		if rng.Intn(4) == 0 {
			in[m] = true
		}
	}
	if c.Silent != 0 {
		switch rng.Intn(4) {
		case 0, 1:
			in[c.Silent] = true
		case 2:
			delete(in, c.Silent)
		}
	}
	if rng.Intn(4) == 0 {
		for k, f := range c.Fail {
			if f {
				in[k+1] = true
				break
			}
		}
	}
	for m := range in {
		c.Mis = append(c.Mis, byte(m))
	}
	sort.Slice(c.Mis, func(a, b int) bool { return c.Mis[a] < c.Mis[b] })
	if len(c.Mis) > 0 && rng.Intn(10) == 0 {
		c.Mis = append(c.Mis, c.Mis[0])
	}
	if rng.Intn(10) == 0 {
		c.Mis = append(c.Mis, []byte{0, byte(c.N + 1), 255}[rng.Intn(3)])
	}
	rng.Shuffle(len(c.Mis), func(a, b int) { c.Mis[a], c.Mis[b] = c.Mis[b], c.Mis[a] })
	c.MisPrint = fmt.Sprint(c.Mis)
	return c
}

func (x *c05exCaseRun) setup() bool {
	c := x.c
	x.cfg = &beaconchain.Config{GroupSize: c.N, HonestThreshold: c.Honest, ResultPublicationBlockStep: c.Step, RelayEntryTimeout: 1000}
	x.subs = map[int]*c05exSub{}
	x.chans = make([]*c05exChan, c.N)
	x.members = make([]*c05exMember, c.N)
	x.addrs = make([]chain.Address, c.N)
	signers := make([]chain.Signing, c.N)
	for i := 0; i < c.N; i++ {
		priv, _, err := operator.GenerateKeyPair(local_v1.DefaultCurve)
		if err != nil {
			x.r.Inconclusive("key generation failed: " + err.Error())
			return false
		}
		s := local_v1.NewSigner(priv)
		signers[i] = s
		x.addrs[i] = s.Address()
		if i+1 == c.Silent {
			continue
		}
		m := &c05exMember{idx: i + 1}
		m.bc = &c05exBC{v: x.clk.View(fmt.Sprintf("member%d", i+1))}
		m.ch = &c05exChan{x: x, idx: i + 1, pub: s.PublicKey(), unm: map[string]func() net.TaggedUnmarshaler{}}
		x.chans[i] = m.ch
		x.members[i] = m
	}
	mv := group.NewMembershipValidator(&testutils.MockLogger{}, x.addrs, signers[0])
	for i, m := range x.members {
		if m == nil {
			continue
		}
		m := m
		bc := &c05exChain{x: x, m: m, signing: signers[i]}
		atomic.StoreInt32(&m.started, 1)
		go func() {
			m.panicked = x.r.Guard("execute:", verifkit.JSON(c), func() {
				m.signer, m.err = ExecuteDKG(&testutils.MockLogger{}, big.NewInt(int64(7000+c.Index)), group.MemberIndex(m.idx), c.Start, bc, m.ch, mv, append([]chain.Address(nil), x.addrs...))
			})
			atomic.StoreInt32(&m.done, 1)
		}()
	}
	return true
}

func c05exOps(selected []chain.Address, n int, mis []byte) []chain.Address {
	listed := map[int]bool{}
	for _, b := range mis {
		listed[int(b)] = true
	}
	out := []chain.Address{}
	for j := 1; j <= n; j++ {
		if !listed[j] {
			out = append(out, selected[j-1])
		}
	}
	return out
}

func TestVerif_C05_ExecuteDKG(t *testing.T) {
	r := verifkit.Start(t, "C05", "execute_dkg")
	defer r.Finish()
	r.SetRule("n in {3,4,5} members (optionally one silent during the whole protocol, so that the others' local view lists it inactive) each run the real ExecuteDKG on a virtual clock (advanced one block whenever every live member is parked on a future block and has read every message) over a synchronous in-memory channel with one operator key per member; scripted chain: which members' own SubmitDKGResult is rejected, and one DKGResultSubmission event (key equal / one bit different / other / empty; misbehaved bytes = PRNG subset that may include the member, the silent member, others, duplicates, indexes outside the group) emitted 0..n*step-2 blocks after submission start, at the timeout block (either outcome legal), after it, or never. Judged per member on ExecuteDKG's return: a member whose submission was rejected keeps membership iff event before its timeout block, same key, not listed (and enough members left), with GroupOperators() = selected operators of the members not in the event's list; other members: operators of the members not in the result they signed. non-trivial = a rejected member consumed the event and (key differs, or it is listed, or another member is listed)")
	r.Assume("lock-step virtual time; the result hash and operator signatures come from a stub chain with local_v1 signers; a member's own key and misbehaved list are read from the result it asks the chain to hash")
	n := r.N(300, 3000)
	var wd, gjkrFailed, failedPath, keptMembership, listDiffers, atEvent, atTimeout, stalls, msgs int64
	var samples int32
	verifkit.Parallel(n, 0, func(i int) {
		rng := r.SubRand("execute", i)
		c := c05exGen(rng, i)
		x := &c05exCaseRun{r: r, c: c, clk: verifkit.NewClock(c.Start - 1 - uint64(rng.Intn(3)))}
		if !x.setup() {
			return
		}
		if !x.drive() {
			if atomic.AddInt64(&wd, 1) <= 3 {
				r.Inconclusive("watchdog: ExecuteDKG run did not finish within 90 s: " + verifkit.JSON(c))
			}
			return
		}
		atomic.AddInt64(&stalls, atomic.LoadInt64(&x.stalls))
		atomic.AddInt64(&msgs, atomic.LoadInt64(&x.sent))
		x.mu.Lock()
		hsub, known := x.hsub, x.hsubKnown
		subm := append([]string(nil), x.submissions...)
		x.mu.Unlock()
		timeoutBlock := hsub + uint64(c.N)*c.Step
		waits := x.clk.WaitLog()
		for _, m := range x.members {
			if m == nil || m.panicked {
				continue
			}
			desc := fmt.Sprintf("ExecuteDKG member=%d case=%s", m.idx, verifkit.JSON(c))
			wit := map[string]interface{}{"submissions": subm, "submission_start": hsub, "event_emitted_at": x.emittedAt, "event_emitted": x.emitted, "event_key": verifkit.Hex(x.evKey)}
			m.mu.Lock()
			local := m.local
			m.mu.Unlock()
			if local == nil || !known {
				atomic.AddInt64(&gjkrFailed, 1)
				r.Case(desc, false)
				continue
			}
			wit["own_misbehaved"] = fmt.Sprint(local.Misbehaved)
			rejected := atomic.LoadInt32(&m.rejected) == 1
			fateWaiter := false
			for _, w := range waits {
				if w.Owner == fmt.Sprintf("member%d", m.idx) && w.Block == timeoutBlock {
					fateWaiter = true
				}
			}
			stays := m.err == nil && m.signer != nil
			if m.err != nil {
				wit["error"] = m.err.Error()
			}
			var ops []chain.Address
			if stays {
				ops = m.signer.GroupOperators()
				wit["operators"] = ops
			}
			if !rejected && !fateWaiter {
				// publication did not fail for this member
				r.Case(desc, false)
				want := c05exOps(x.addrs, c.N, local.Misbehaved)
				if !stays {
					r.Violation("execute:error-without-failed-publication", "ExecuteDKG failed although the member's publication did not: "+m.err.Error(), desc, wit)
				} else if !reflect.DeepEqual(want, ops) {
					r.Violation("execute:operators-not-from-signed-result", "group operators are not the selected operators of the members outside the misbehaved list of the result the member signed", desc, wit)
				}
				continue
			}
			atomic.AddInt64(&failedPath, 1)
			if rejected && !fateWaiter {
				wit["note"] = fmt.Sprintf("no waiter for the publication timeout block %d was registered", timeoutBlock)
			}
			keyEqual := bytes.Equal(local.GroupPublicKey, x.evKey)
			listed, otherListed := false, false
			for _, b := range c.Mis {
				if int(b) == m.idx {
					listed = true
				} else if int(b) >= 1 && int(b) <= c.N {
					otherListed = true
				}
			}
			want := c05exOps(x.addrs, c.N, c.Mis)
			decision := x.emitted && keyEqual && !listed && len(want) >= c.Honest
			var legal []bool
			switch {
			case !x.emitted:
				legal = []bool{false}
			case c.Timing == "at-timeout":
				legal = []bool{false, decision}
			case x.emittedAt < timeoutBlock:
				legal = []bool{decision}
			default:
				legal = []bool{false}
			}
			consumed := x.emitted && x.emittedAt < timeoutBlock && c.Timing != "at-timeout"
			if c.Timing == "at-timeout" && x.emitted {
				if stays {
					atomic.AddInt64(&atEvent, 1)
				} else {
					atomic.AddInt64(&atTimeout, 1)
				}
			}
			r.Case(desc, consumed && (!keyEqual || listed || otherListed))
			if consumed && fmt.Sprint(c05exOps(x.addrs, c.N, local.Misbehaved)) != fmt.Sprint(want) {
				atomic.AddInt64(&listDiffers, 1)
			}
			okOutcome := false
			for _, l := range legal {
				if l == stays {
					okOutcome = true
				}
			}
			if !okOutcome {
				fp := "execute:dropped-although-chain-kept-it"
				if stays {
					switch {
					case !x.emitted || (c.Timing != "at-timeout" && x.emittedAt >= timeoutBlock):
						fp = "execute:kept-membership-without-timely-event"
					case !keyEqual:
						fp = "execute:kept-membership-with-different-key"
					case listed:
						fp = "execute:kept-membership-although-listed"
					default:
						fp = "execute:kept-membership-in-undersized-group"
					}
				}
				r.Violation(fp, fmt.Sprintf("member %d's own submission was rejected; kept membership = %v, legal = %v (event emitted=%v at block %d, timeout block %d, key equal=%v, listed=%v)", m.idx, stays, legal, x.emitted, x.emittedAt, timeoutBlock, keyEqual, listed), desc, wit)
				continue
			}
			if !stays {
				continue
			}
			atomic.AddInt64(&keptMembership, 1)
			if !reflect.DeepEqual(want, ops) {
				wit["want_operators"] = want
				r.Violation("execute:operators-not-from-chain-result", "a member that stays after its own publication failed must use the selected operators of the members outside the accepted result's misbehaved list, in member order", desc, wit)
			}
			if int(m.signer.MemberID()) != m.idx || !bytes.Equal(m.signer.GroupPublicKeyBytes(), local.GroupPublicKey) {
				r.Violation("execute:signer-identity", "returned signer has another index or group key than the member computed", desc, wit)
			}
			if otherListed && atomic.AddInt32(&samples, 1) <= 4 {
				r.Sample(map[string]interface{}{"case": c, "member": m.idx, "own_misbehaved": fmt.Sprint(local.Misbehaved), "operators": len(ops), "submissions": subm})
			}
		}
	})
	r.Count("members_without_result_or_submission_phase", gjkrFailed)
	r.Count("members_with_failed_publication", failedPath)
	r.Count("failed_members_that_kept_membership", keptMembership)
	r.Count("kept_or_dropped_with_chain_list_different_from_local_view", listDiffers)
	r.Count("at_timeout_block_event_won", atEvent)
	r.Count("at_timeout_block_timeout_won", atTimeout)
	r.Count("unread_message_stalls_skipped", stalls)
	r.Count("messages_sent", msgs)
}
