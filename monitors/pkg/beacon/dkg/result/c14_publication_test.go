//go:build verif

package result

// C14, part "publication": the real DKG result publication chain (signing,
// signature verification, submission) run by the real SyncMachine on the
// virtual block counter, observed through SyncState proxies.

import (
	"context"
	"fmt"
	"math/rand"
	"runtime"
	"strings"
	"sync"
	"sync/atomic"
	"testing"
	"time"

	"github.com/keep-network/keep-core/internal/testutils"
	"github.com/keep-network/keep-core/internal/verifkit"
	beaconchain "github.com/keep-network/keep-core/pkg/beacon/chain"
	"github.com/keep-network/keep-core/pkg/chain"
	"github.com/keep-network/keep-core/pkg/net"
	"github.com/keep-network/keep-core/pkg/protocol/group"
	"github.com/keep-network/keep-core/pkg/protocol/state"
)

// ---------------------------------------------------------------- block counter

const (
	c14ModeRun int32 = iota
	c14ModeWait
	c14ModeSel
)

// c14BC: the kit's clock view with the emission rule of keep-core's real block
// counters (a height waiter emits the requested block number).
type c14BC struct {
	v      *verifkit.View
	mode   int32
	inInit int32 // the state's own Initiate is running: a wait made now does not drain the receive buffer
}

func (b *c14BC) WaitForBlockHeight(h uint64) error {
	atomic.StoreInt32(&b.mode, c14ModeWait)
	err := b.v.WaitForBlockHeight(h)
	atomic.StoreInt32(&b.mode, c14ModeRun)
	return err
}
func (b *c14BC) BlockHeightWaiter(h uint64) (<-chan uint64, error) {
	if atomic.LoadInt32(&b.inInit) == 1 {
		atomic.StoreInt32(&b.mode, c14ModeWait)
	} else {
		atomic.StoreInt32(&b.mode, c14ModeSel)
	}
	inner, err := b.v.BlockHeightWaiter(h)
	out := make(chan uint64, 1)
	go func() {
		<-inner
		out <- h
	}()
	return out, err
}
func (b *c14BC) CurrentBlock() (uint64, error)                 { return b.v.CurrentBlock() }
func (b *c14BC) WatchBlocks(ctx context.Context) <-chan uint64 { return b.v.WatchBlocks(ctx) }

var _ chain.BlockCounter = (*c14BC)(nil)

// ---------------------------------------------------------------- network

type c14TID string

func (t c14TID) String() string { return string(t) }

type c14NetMsg struct {
	id     int
	sender c14TID
	pub    []byte
	pl     interface{}
	tp     string
	seq    uint64
}

func (m *c14NetMsg) TransportSenderID() net.TransportIdentifier { return m.sender }
func (m *c14NetMsg) SenderPublicKey() []byte                    { return m.pub }
func (m *c14NetMsg) Payload() interface{}                       { return m.pl }
func (m *c14NetMsg) Type() string                               { return m.tp }
func (m *c14NetMsg) Seqno() uint64                              { return m.seq }

type c14Sent struct {
	ID     int    `json:"id"`
	Sender int    `json:"sender"`
	Type   string `json:"type"`
	K      int    `json:"sent_in_state"`
	H      uint64 `json:"block"`
	Handed []int  `json:"handed"`
}

type c14Bus struct {
	x     *c14Run
	mu    sync.Mutex
	chans []*c14Chan
	sent  []*c14Sent
}

type c14Handler struct {
	ctx context.Context
	fn  func(net.Message)
}

type c14Chan struct {
	b         *c14Bus
	mem       *c14Member
	pub       []byte
	mu        sync.Mutex
	handlers  []*c14Handler
	unm       map[string]func() net.TaggedUnmarshaler
	seq       uint64
	delivered int64
	maxLive   int
}

func (c *c14Chan) Name() string { return "c14" }
func (c *c14Chan) Send(ctx context.Context, m net.TaggedMarshaler, _ ...net.RetransmissionStrategy) error {
	bytes, err := m.Marshal()
	if err != nil {
		return err
	}
	seq := atomic.AddUint64(&c.seq, 1)
	b := c.b
	b.mu.Lock()
	rec := &c14Sent{ID: len(b.sent) + 1, Sender: c.mem.idx, Type: m.Type(), K: int(atomic.LoadInt32(&c.mem.curK)), H: b.x.clk.Height(), Handed: make([]int, len(b.chans))}
	b.sent = append(b.sent, rec)
	targets := append([]*c14Chan(nil), b.chans...)
	b.mu.Unlock()
	for ti, t := range targets {
		t.mu.Lock()
		mk := t.unm[m.Type()]
		hs := append([]*c14Handler(nil), t.handlers...)
		t.mu.Unlock()
		if mk == nil {
			continue
		}
		u := mk()
		if err := u.Unmarshal(bytes); err != nil {
			continue
		}
		msg := &c14NetMsg{rec.ID, c14TID(fmt.Sprint(c.mem.idx + 1)), c.pub, u, m.Type(), seq}
		for _, h := range hs {
			if h.ctx.Err() != nil {
				continue
			}
			atomic.AddInt64(&t.delivered, 1)
			h.fn(msg)
			rec.Handed[ti]++
		}
	}
	return nil
}
func (c *c14Chan) Recv(ctx context.Context, fn func(net.Message)) {
	c.mu.Lock()
	live := c.handlers[:0]
	for _, h := range c.handlers {
		if h.ctx.Err() == nil {
			live = append(live, h)
		}
	}
	c.handlers = append(live, &c14Handler{ctx, fn})
	if len(c.handlers) > c.maxLive {
		c.maxLive = len(c.handlers)
	}
	c.mu.Unlock()
}
func (c *c14Chan) SetUnmarshaler(f func() net.TaggedUnmarshaler) {
	c.mu.Lock()
	c.unm[f().Type()] = f
	c.mu.Unlock()
}
func (c *c14Chan) SetFilter(net.BroadcastChannelFilter) error { return nil }

// ---------------------------------------------------------------- proxies

type c14Ev struct {
	Kind string `json:"e"`
	K    int    `json:"k"`
	T    string `json:"state,omitempty"`
	Msg  int    `json:"m,omitempty"`
	H    uint64 `json:"h"`
}

type c14Member struct {
	idx       int
	x         *c14Run
	ch        *c14Chan
	bc        *c14BC
	curK      int32
	mu        sync.Mutex
	ev        []c14Ev
	durs      [][2]uint64 // (delay, active) read from the states themselves
	types     []string
	processed int64
	started   int32
	done      int32
	end       uint64
	last      state.SyncState
	err       error
	panicked  bool
}

func (m *c14Member) add(kind string, k int, tp string, msg int) {
	h := m.x.clk.Height()
	m.mu.Lock()
	m.ev = append(m.ev, c14Ev{kind, k, tp, msg, h})
	m.mu.Unlock()
}

type c14Proxy struct {
	inner state.SyncState
	m     *c14Member
	k     int
}

func c14TypeName(s state.SyncState) string {
	return strings.TrimPrefix(fmt.Sprintf("%T", s), "*result.")
}

func c14Wrap(m *c14Member, inner state.SyncState, k int) *c14Proxy {
	m.mu.Lock()
	m.durs = append(m.durs, [2]uint64{inner.DelayBlocks(), inner.ActiveBlocks()})
	m.types = append(m.types, c14TypeName(inner))
	m.mu.Unlock()
	return &c14Proxy{inner, m, k}
}

func (p *c14Proxy) DelayBlocks() uint64            { return p.inner.DelayBlocks() }
func (p *c14Proxy) ActiveBlocks() uint64           { return p.inner.ActiveBlocks() }
func (p *c14Proxy) MemberIndex() group.MemberIndex { return p.inner.MemberIndex() }
func (p *c14Proxy) Initiate(ctx context.Context) error {
	atomic.StoreInt32(&p.m.curK, int32(p.k))
	p.m.add("init-begin", p.k, "", 0)
	atomic.StoreInt32(&p.m.bc.inInit, 1)
	err := p.inner.Initiate(ctx)
	atomic.StoreInt32(&p.m.bc.inInit, 0)
	p.m.add("init-end", p.k, "", 0)
	return err
}
func (p *c14Proxy) Receive(msg net.Message) error {
	id := -1
	if nm, ok := msg.(*c14NetMsg); ok {
		id = nm.id
	}
	err := p.inner.Receive(msg)
	p.m.add("recv", p.k, "", id)
	atomic.AddInt64(&p.m.processed, 1)
	return err
}
func (p *c14Proxy) Next() (state.SyncState, error) {
	p.m.add("next", p.k, "", 0)
	n, err := p.inner.Next()
	if n == nil || err != nil {
		return n, err
	}
	return c14Wrap(p.m, n, p.k+1), nil
}

// ---------------------------------------------------------------- run

type c14Case struct {
	Index  int    `json:"i"`
	N      int    `json:"n"`
	Mode   string `json:"mode"` // step | burst
	Start  uint64 `json:"start"`
	H0     uint64 `json:"clock_at_launch"`
	PBurst int    `json:"p_burst"`
}

type c14Run struct {
	r       *verifkit.Run
	c       *c14Case
	clk     *verifkit.Clock
	bus     *c14Bus
	members []*c14Member
	signers []*SigningMember
	chains  []beaconchain.Interface
	bursts  int64
	steps   []string
}

func (x *c14Run) setup() bool {
	c := x.c
	x.bus = &c14Bus{x: x}
	signers, chains, err := initializeSigningMembers(c.N)
	if err != nil {
		x.r.Inconclusive("member initialisation failed: " + err.Error())
		return false
	}
	x.signers, x.chains = signers, chains
	for i := 0; i < c.N; i++ {
		m := &c14Member{idx: i, x: x}
		m.bc = &c14BC{v: x.clk.View(fmt.Sprintf("member%d", i))}
		m.ch = &c14Chan{b: x.bus, mem: m, pub: chains[i].Signing().PublicKey(), unm: map[string]func() net.TaggedUnmarshaler{}}
		RegisterUnmarshallers(m.ch)
		x.bus.chans = append(x.bus.chans, m.ch)
		x.members = append(x.members, m)
	}
	return true
}

func (x *c14Run) liveCount() (live int) {
	for _, m := range x.members {
		if atomic.LoadInt32(&m.started) == 1 && atomic.LoadInt32(&m.done) == 0 {
			live++
		}
	}
	return
}

func (x *c14Run) quiescent() bool {
	live := x.liveCount()
	if int64(live) != x.clk.Pending() {
		return false
	}
	for _, m := range x.members {
		if atomic.LoadInt32(&m.done) == 1 {
			continue
		}
		switch atomic.LoadInt32(&m.bc.mode) {
		case c14ModeWait:
		case c14ModeSel:
			if atomic.LoadInt64(&m.ch.delivered) != atomic.LoadInt64(&m.processed) {
				return false
			}
		default:
			return false
		}
	}
	return x.liveCount() == live
}

func (x *c14Run) waitQuiescent(deadline time.Time) bool {
	for spins := 0; ; spins++ {
		if x.quiescent() {
			return true
		}
		if spins%64 == 63 {
			if time.Now().After(deadline) {
				return false
			}
			time.Sleep(50 * time.Microsecond)
		} else {
			runtime.Gosched()
		}
	}
}

var c14DKGResult = &beaconchain.DKGResult{GroupPublicKey: []byte("c14 group public key"), Misbehaved: []byte{}}

func (x *c14Run) drive(rng *rand.Rand) bool {
	deadline := time.Now().Add(120 * time.Second)
	for _, m := range x.members {
		m := m
		atomic.StoreInt32(&m.started, 1)
		go func() {
			m.panicked = x.r.Guard("publication:", verifkit.JSON(x.c), func() {
				init := &resultSigningState{
					channel:                 m.ch,
					beaconChain:             x.chains[m.idx],
					blockCounter:            m.bc,
					member:                  x.signers[m.idx],
					result:                  c14DKGResult,
					signatureMessages:       make([]*DKGResultHashSignatureMessage, 0),
					signingStartBlockHeight: x.c.Start,
				}
				sm := state.NewSyncMachine(&testutils.MockLogger{}, m.ch, m.bc, c14Wrap(m, init, 0))
				m.last, m.end, m.err = sm.Execute(x.c.Start)
			})
			atomic.StoreInt32(&m.done, 1)
		}()
	}
	for {
		if !x.waitQuiescent(deadline) {
			return false
		}
		if x.liveCount() == 0 {
			return true
		}
		if x.c.Mode == "burst" && rng.Intn(100) < x.c.PBurst {
			n := uint64(2 + rng.Intn(3))
			atomic.AddInt64(&x.bursts, 1)
			x.clk.Advance(n)
			x.steps = append(x.steps, fmt.Sprintf("burst%d", n))
		} else {
			x.clk.Advance(1)
		}
	}
}

var c14Chain = []string{"resultSigningState", "signaturesVerificationState", "resultSubmissionState"}

func (x *c14Run) fp(fp, what string, wit interface{}) {
	x.r.Violation(fp, what, verifkit.JSON(x.c), map[string]interface{}{"detail": wit, "schedule": x.steps})
}

func (x *c14Run) check() {
	c := x.c
	strict := c.Mode == "step"
	allWaits := x.clk.WaitLog()
	step := x.chains[0].GetConfig().ResultPublicationBlockStep
	for _, m := range x.members {
		if m.panicked {
			continue
		}
		who := fmt.Sprintf("member%d", m.idx)
		var waits []uint64
		for _, w := range allWaits {
			if w.Owner == who {
				waits = append(waits, w.Block)
			}
		}
		if m.err != nil {
			if strict {
				x.fp("publication:execute-error", "honest lock-step run failed: "+m.err.Error(), who)
			}
			continue
		}
		m.mu.Lock()
		durs := append([][2]uint64(nil), m.durs...)
		types := append([]string(nil), m.types...)
		ev := append([]c14Ev(nil), m.ev...)
		m.mu.Unlock()
		if fmt.Sprint(types) != fmt.Sprint(c14Chain) {
			x.fp("publication:chain", fmt.Sprintf("states run: %v, expected %v", types, c14Chain), who)
			continue
		}
		var e, ini, f []uint64
		cur := c.Start
		for _, d := range durs {
			e = append(e, cur)
			ini = append(ini, cur+d[0])
			f = append(f, cur+d[0]+d[1])
			cur += d[0] + d[1]
		}
		if cur-c.Start != PrePublicationBlocks() {
			x.fp("publication:pre-publication-blocks", fmt.Sprintf("the states' delays and active windows sum to %d blocks, PrePublicationBlocks() says %d", cur-c.Start, PrePublicationBlocks()), durs)
		}
		if m.end != c.Start+PrePublicationBlocks() {
			x.fp("publication:end-block", fmt.Sprintf("Execute returned end block %d, start %d + PrePublicationBlocks() %d", m.end, c.Start, PrePublicationBlocks()), who)
		}
		// white-box: the submission state's own idea of when submission starts is the block the machine entered it
		if p, ok := m.last.(*c14Proxy); ok {
			if rs, ok := p.inner.(*resultSubmissionState); ok {
				if rs.submissionStartBlockHeight != e[2] {
					x.fp("publication:submission-start", fmt.Sprintf("the submission state counts eligibility from block %d but the machine entered it at block %d", rs.submissionStartBlockHeight, e[2]), who)
				}
				if strict && len(rs.signatures) != c.N {
					x.fp("publication:signatures-missing", fmt.Sprintf("member %d collected %d of %d signatures although every message was sent and handed inside the signing window", m.idx, len(rs.signatures), c.N), who)
				}
			} else {
				x.fp("publication:final-state", fmt.Sprintf("final state is %T", p.inner), who)
			}
		}
		// machine waits: start, (initiate, end) per state; the submission state's Initiate adds its eligibility waiter
		exp := []uint64{c.Start, ini[0], f[0], ini[1], f[1], ini[2], e[2] + uint64(m.idx)*step, f[2]}
		if fmt.Sprint(waits) != fmt.Sprint(exp) {
			x.fp("publication:schedule", fmt.Sprintf("member %d waited for blocks %v, expected %v (start; entered+delay, +active per state; eligibility block inside the submission state)", m.idx, waits, exp), who)
		}
		k, stage := 0, 0
		orderOK := true
		for _, v := range ev {
			bad := ""
			switch v.Kind {
			case "init-begin":
				if stage != 0 || v.K != k {
					bad = "Initiate"
					break
				}
				stage = 1
				if v.H < ini[k] {
					x.fp("publication:early-initiate", fmt.Sprintf("Initiate of %s ran at block %d, before entered+delay = %d", types[k], v.H, ini[k]), who)
				} else if strict && v.H != ini[k] {
					x.fp("publication:initiate-block", fmt.Sprintf("Initiate of %s ran at block %d, expected %d in a lock-step run", types[k], v.H, ini[k]), who)
				}
			case "init-end":
				if stage != 1 || v.K != k {
					bad = "Initiate return"
					break
				}
				stage = 2
			case "recv":
				if stage != 2 || v.K != k {
					bad = "Receive"
				}
			case "next":
				if stage != 2 || v.K != k {
					bad = "Next"
					break
				}
				if v.H < f[k] {
					x.fp("publication:early-next", fmt.Sprintf("%s was left at block %d, before its end block %d", types[k], v.H, f[k]), who)
				}
				k++
				stage = 0
			}
			if bad != "" && orderOK {
				orderOK = false
				x.fp("publication:order:"+bad, fmt.Sprintf("%s of state %d called while the machine should be in state %d (stage %d)", bad, v.K, k, stage), map[string]interface{}{"member": who, "events": ev})
			}
		}
		got := map[int][]int{}
		for _, v := range ev {
			if v.Kind == "recv" {
				got[v.Msg] = append(got[v.Msg], v.K)
			}
		}
		for _, s := range x.bus.sent {
			h := s.Handed[m.idx]
			g := got[s.ID]
			if h > 1 || len(g) > 1 {
				x.fp("publication:msg:received-twice", fmt.Sprintf("%s from member %d: %d live handlers, reached Receive of member %d %d times", s.Type, s.Sender, h, m.idx, len(g)), s)
				continue
			}
			if !strict {
				continue
			}
			x.r.Count("messages_checked", 1)
			if h != 1 || len(g) != 1 {
				x.fp("publication:msg:lost", fmt.Sprintf("%s sent by member %d at block %d: %d live handlers at member %d, reached %d states", s.Type, s.Sender, s.H, h, m.idx, len(g)), s)
			} else if g[0] != s.K {
				x.fp("publication:msg:wrong-state", fmt.Sprintf("%s sent by member %d in %s (block %d) was handed to %s of member %d", s.Type, s.Sender, c14Chain[s.K], s.H, c14Chain[g[0]], m.idx), s)
			}
		}
	}
}

func TestVerif_C14_Publication(t *testing.T) {
	r := verifkit.Start(t, "C14", "publication")
	defer r.Finish()
	r.SetRule("real DKG result publication chain (signing (1,5), verification (0,0), submission (0,0) whose Initiate waits for the member's eligibility block) under the real SyncMachine, n in {3,4,5}, each member on its own local chain, on the virtual clock: lock-step or bursts of 2-4 blocks, start ahead of or behind the clock. non-trivial = every run (two zero-length states, Initiate of the last state spans (index-1)*step blocks)")
	r.Assume("the virtual block counter emits the requested block number from a height waiter, as keep-core's local_v1 and ethereum block counters do")
	n := r.N(60, 1200)
	var wd int64
	verifkit.Parallel(n, 0, func(i int) {
		rng := r.SubRand("publication", i)
		c := &c14Case{Index: i, N: 3 + i%3}
		c.H0 = uint64(rng.Intn(30))
		c.Start = c.H0 + 1 + uint64(rng.Intn(4))
		c.Mode = "step"
		if i%3 == 2 {
			c.Mode = "burst"
			c.PBurst = 5 + rng.Intn(40)
			if rng.Intn(2) == 0 {
				c.Start = c.H0 - uint64(rng.Intn(int(c.H0)+1))
			}
		}
		x := &c14Run{r: r, c: c, clk: verifkit.NewClock(c.H0)}
		if !x.setup() {
			return
		}
		if !x.drive(rng) {
			if atomic.AddInt64(&wd, 1) <= 3 {
				r.Inconclusive("watchdog: publication run did not reach quiescence within 120 s: " + verifkit.JSON(c))
			}
			return
		}
		r.Case(verifkit.JSON(c), true)
		r.Count("runs_"+c.Mode, 1)
		r.Count("bursts", atomic.LoadInt64(&x.bursts))
		r.Count("messages_sent", int64(len(x.bus.sent)))
		x.check()
		r.SampleAt(i, n, func() interface{} {
			var waits []uint64
			for _, w := range x.clk.WaitLog() {
				if w.Owner == fmt.Sprintf("member%d", c.N-1) {
					waits = append(waits, w.Block)
				}
			}
			return map[string]interface{}{"case": c, "last_member_block_waits": waits, "end_block": x.members[c.N-1].end}
		})
	})
}
