//go:build verif

package result

import (
	"fmt"
	"testing"

	"github.com/keep-network/keep-core/internal/testutils"
	"github.com/keep-network/keep-core/internal/verifkit"
	"github.com/keep-network/keep-core/pkg/chain"
	"github.com/keep-network/keep-core/pkg/chain/local_v1"
	"github.com/keep-network/keep-core/pkg/net"
	"github.com/keep-network/keep-core/pkg/operator"
	"github.com/keep-network/keep-core/pkg/protocol/group"
)

// ---------------------------------------------------------------------------
// C12 (beacon result signing part): resultSigningState is fed a synthetic
// net.Message for every (layout, receiver, claimed index, sender key, key
// named in the payload, session, sender status) combination; "acted on" =
// appended to signatureMessages. The reference verdict is computed from the
// seat table only (never from MembershipValidator / group.Group).
// ---------------------------------------------------------------------------

type c12Msg struct {
	payload interface{}
	key     []byte
}

func (m *c12Msg) TransportSenderID() net.TransportIdentifier { return nil }
func (m *c12Msg) SenderPublicKey() []byte                    { return m.key }
func (m *c12Msg) Payload() interface{}                       { return m.payload }
func (m *c12Msg) Type() string                               { return "c12" }
func (m *c12Msg) Seqno() uint64                              { return 0 }

type c12Layout struct {
	name  string
	seats []int // seat (position) -> operator number
}

type c12Key struct {
	name string
	op   int // operator number, -1 = not a group operator
	pub  []byte
}

type c12Case struct {
	layout   c12Layout
	receiver int
	claimed  int
	key      c12Key
	session  string // "own", "other", "prefix"
	status   string // "operating", "IA", "DQ", "siblingDQ"
	bind     string // key named inside the payload: "network-key", "other-operator-key", "outsider-key", "empty"
}

func (c c12Case) desc(rp string) string {
	return fmt.Sprintf("rp=%s layout=%s seats=%v receiver=%d claimed=%d key=%s payloadkey=%s session=%s status=%s",
		rp, c.layout.name, c.layout.seats, c.receiver, c.claimed, c.key.name, c.bind, c.session, c.status)
}

// c12Expect is the reference admission rule. It returns whether the message
// is fully legitimate and, when not, the first reason it is not.
func c12Expect(c c12Case) (bool, string) {
	n := len(c.layout.seats)
	held := c.claimed >= 1 && c.claimed <= n && c.key.op >= 0 && c.layout.seats[c.claimed-1] == c.key.op
	switch {
	case !held:
		return false, "index-not-held"
	case c.claimed == c.receiver:
		return false, "own-index"
	case c.bind != "network-key":
		return false, "payload-key-differs-from-network-key"
	case c.session != "own":
		return false, "other-session"
	case c.status == "IA" || c.status == "DQ":
		return false, "sender-excluded"
	}
	return true, ""
}

// c12Siblings lists the seats of the key's operator other than the claimed
// index and the receiver.
func c12Siblings(c c12Case) []int {
	var out []int
	for pos, op := range c.layout.seats {
		idx := pos + 1
		if op == c.key.op && idx != c.claimed && idx != c.receiver {
			out = append(out, idx)
		}
	}
	return out
}

func c12Grid(layouts []c12Layout, keysOf func(l c12Layout) []c12Key) []c12Case {
	var out []c12Case
	for _, l := range layouts {
		n := len(l.seats)
		claims := []int{0}
		for i := 1; i <= n+1; i++ {
			claims = append(claims, i)
		}
		claims = append(claims, 255)
		for recv := 1; recv <= n; recv++ {
			for _, cl := range claims {
				for _, k := range keysOf(l) {
					for _, sess := range []string{"own", "other", "prefix"} {
						for _, st := range []string{"operating", "IA", "DQ", "siblingDQ"} {
							for _, b := range []string{"network-key", "other-operator-key", "outsider-key", "empty"} {
								c := c12Case{l, recv, cl, k, sess, st, b}
								inRange := cl >= 1 && cl <= n && cl != recv
								if (st == "IA" || st == "DQ") && !inRange {
									continue
								}
								if st == "siblingDQ" && len(c12Siblings(c)) == 0 {
									continue
								}
								if b == "empty" && len(k.pub) == 0 {
									// payload key == network key == empty: same as "network-key"
									continue
								}
								out = append(out, c)
							}
						}
					}
				}
			}
		}
	}
	return out
}

const c12OwnSession = "session-1"

func c12Session(kind string) string {
	switch kind {
	case "own":
		return c12OwnSession
	case "prefix":
		return c12OwnSession + "0"
	}
	return "session-2"
}

func TestVerif_C12_BeaconResult(t *testing.T) {
	r := verifkit.Start(t, "C12", "beacon-result")
	defer r.Finish()
	r.SetRule("exhaustive grid: seat layouts (5 seats over operators 2/2/1 interleaved, 3 seats one operator; thorough adds 9 seats 4/3/1/1) x receiver seat x claimed index {0,1..n,n+1,255} x sender key {each operator, outsider, truncated operator key, empty} x key named in the payload {network key, another operator's key, outsider key, empty} x session {own, other, own+suffix} x claimed member status {operating, IA, DQ, sibling seat DQ} delivered to resultSigningState.Receive; non-trivial = claimed index not held by the sender key, payload key differing from the network key, foreign session, or non-operating sender")
	r.Assume("local_v1 signing maps a public key to the hex of its bytes; operator keys are freshly generated secp256k1 keys (values do not enter the verdict)")

	signing := local_v1.Connect(5, 3).Signing()
	newKey := func() []byte {
		_, pub, err := operator.GenerateKeyPair(local_v1.DefaultCurve)
		if err != nil {
			t.Fatal(err)
		}
		return operator.MarshalUncompressed(pub)
	}
	opKeys := [][]byte{newKey(), newKey(), newKey(), newKey(), newKey()}
	outsider := newKey()
	outsider2 := newKey()

	layouts := []c12Layout{
		{"5seats-2/2/1", []int{0, 1, 0, 2, 1}},
		{"3seats-single-operator", []int{0, 0, 0}},
	}
	if !r.Quick() {
		layouts = append(layouts, c12Layout{"9seats-4/3/1/1", []int{0, 1, 0, 2, 1, 0, 3, 1, 0}})
	}
	keysOf := func(l c12Layout) []c12Key {
		seen := map[int]bool{}
		var ks []c12Key
		for _, op := range l.seats {
			if !seen[op] {
				seen[op] = true
				ks = append(ks, c12Key{fmt.Sprintf("op%c", 'A'+op), op, opKeys[op]})
			}
		}
		ks = append(ks,
			c12Key{"outsider", -1, outsider},
			c12Key{"truncated-opA", -1, opKeys[0][:64]},
			c12Key{"empty", -1, nil},
		)
		return ks
	}
	grid := c12Grid(layouts, keysOf)
	r.SetExhaustive(true)

	validators := map[string]*group.MembershipValidator{}
	for _, l := range layouts {
		addrs := make([]chain.Address, len(l.seats))
		for i, op := range l.seats {
			addrs[i] = signing.PublicKeyBytesToAddress(opKeys[op])
		}
		validators[l.name] = group.NewMembershipValidator(&testutils.MockLogger{}, addrs, signing)
	}
	// the key written into the payload
	payloadKey := func(c c12Case) []byte {
		switch c.bind {
		case "network-key":
			return append([]byte(nil), c.key.pub...)
		case "other-operator-key":
			// the key of the operator that really holds the claimed seat when
			// the sender does not, otherwise a different operator's key
			n := len(c.layout.seats)
			if c.claimed >= 1 && c.claimed <= n && c.layout.seats[c.claimed-1] != c.key.op {
				return opKeys[c.layout.seats[c.claimed-1]]
			}
			return opKeys[4]
		case "outsider-key":
			return outsider2
		}
		return nil
	}

	const rp = "resultSigningState/DKGResultHashSignatureMessage"
	var acted, rejected int64
	legitSeen := 0
	sampled := map[string]bool{}
	for _, c := range grid {
		n := len(c.layout.seats)
		desc := c.desc(rp)
		dkgGroup := group.NewGroup(n-(n/2+1), n)
		switch c.status {
		case "IA":
			dkgGroup.MarkMemberAsInactive(group.MemberIndex(c.claimed))
		case "DQ":
			dkgGroup.MarkMemberAsDisqualified(group.MemberIndex(c.claimed))
		case "siblingDQ":
			for _, s := range c12Siblings(c) {
				dkgGroup.MarkMemberAsDisqualified(group.MemberIndex(s))
			}
		}
		member := NewSigningMember(&testutils.MockLogger{}, group.MemberIndex(c.receiver), dkgGroup, validators[c.layout.name], c12OwnSession)
		st := &resultSigningState{member: member}
		p := &DKGResultHashSignatureMessage{
			senderIndex: group.MemberIndex(c.claimed),
			resultHash:  [32]byte{1},
			signature:   []byte{1, 2, 3},
			publicKey:   payloadKey(c),
			sessionID:   c12Session(c.session),
		}
		var rerr error
		if r.Guard("beacon-result:"+rp+":", desc, func() { rerr = st.Receive(&c12Msg{p, c.key.pub}) }) {
			continue
		}
		got := len(st.signatureMessages) == 1 && st.signatureMessages[0] == p
		if !got && len(st.signatureMessages) != 0 {
			r.Violation("beacon-result:"+rp+":stored-something-else", "state stored a different message", desc, nil)
		}
		legit, why := c12Expect(c)
		r.Case(desc, !legit)
		if rerr != nil {
			r.Violation("beacon-result:"+rp+":receive-error", "Receive returned an error: "+rerr.Error(), desc, nil)
		}
		if got {
			acted++
		} else {
			rejected++
		}
		switch {
		case got && !legit:
			r.Violation("beacon-result:"+rp+":accepted:"+why, "state stored a message that is not legitimate ("+why+")", desc, map[string]interface{}{"legitimate": legit, "acted_on": got, "reason": why})
		case !got && legit:
			r.Violation("beacon-result:"+rp+":rejected-legitimate", "state ignored a fully legitimate message", desc, map[string]interface{}{"legitimate": legit, "acted_on": got})
		}
		if legit {
			legitSeen++
		}
		if !sampled[why] && (why == "" || why == "payload-key-differs-from-network-key" || why == "index-not-held" && c.claimed == 0) {
			sampled[why] = true
			r.Sample(map[string]interface{}{"case": desc, "legitimate": legit, "acted_on": got})
		}
	}
	if legitSeen == 0 {
		r.Inconclusive("no legitimate case generated")
	}
	r.Count("receive_points", 1)
	r.Count("grid_cases_per_receive_point", int64(len(grid)))
	r.Count("acted_on", acted)
	r.Count("ignored", rejected)
}
