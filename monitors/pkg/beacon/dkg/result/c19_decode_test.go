//go:build verif

package result

import (
	"math/rand"
	"testing"

	"github.com/keep-network/keep-core/internal/verifkit"
)

func TestVerif_C19_Result(t *testing.T) {
	r := verifkit.Start(t, "C19", "result")
	defer r.Finish()
	c19Run(r, "result", []c19Decoder{
		{
			Type: "DKGResultHashSignatureMessage", File: "marshalling.go",
			New: func() c19Codec { return &DKGResultHashSignatureMessage{} },
			Gen: func(rng *rand.Rand, i int) c19Codec {
				m := &DKGResultHashSignatureMessage{
					senderIndex: c19Index(rng),
					signature:   c19Bytes(rng, 0, 72),
					publicKey:   c19Bytes(rng, 0, 65),
					sessionID:   c19String(rng),
				}
				copy(m.resultHash[:], c19Bytes(rng, 32, 32))
				return m
			},
			IndexPaths: []string{"1"},
		},
	})
}
