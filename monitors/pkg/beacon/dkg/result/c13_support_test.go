//go:build verif

package result

import (
	"bytes"
	"context"
	"fmt"
	"math/rand"
	"sort"
	"sync/atomic"
	"testing"

	"github.com/keep-network/keep-core/internal/testutils"
	"github.com/keep-network/keep-core/internal/verifkit"
	beaconchain "github.com/keep-network/keep-core/pkg/beacon/chain"
	"github.com/keep-network/keep-core/pkg/beacon/event"
	"github.com/keep-network/keep-core/pkg/chain"
	"github.com/keep-network/keep-core/pkg/chain/local_v1"
	"github.com/keep-network/keep-core/pkg/net"
	"github.com/keep-network/keep-core/pkg/operator"
	"github.com/keep-network/keep-core/pkg/protocol/group"
	"github.com/keep-network/keep-core/pkg/subscription"
)

// ---------------------------------------------------------------------------
// C13 (beacon part): generated histories of result-signature messages are
// delivered to the real resultSigningState, then the real verification and
// submission states are run against a recording chain stub. The signature map
// handed to the chain and the fact of submission are compared with a
// reference computed from how the history was constructed.
// ---------------------------------------------------------------------------

type c13Msg struct {
	payload interface{}
	key     []byte
}

func (m *c13Msg) TransportSenderID() net.TransportIdentifier { return nil }
func (m *c13Msg) SenderPublicKey() []byte                    { return m.key }
func (m *c13Msg) Payload() interface{}                       { return m.payload }
func (m *c13Msg) Type() string                               { return "c13" }
func (m *c13Msg) Seqno() uint64                              { return 0 }

type c13Key struct {
	pub    []byte
	signer chain.Signing
	// sigs[hash kind 0=own 1=other][variant]
	sigs [2][2][]byte
}

// c13Chain is the recording beacon chain stub.
type c13Chain struct {
	beaconchain.Interface
	cfg       *beaconchain.Config
	signing   chain.Signing
	hash      beaconchain.DKGResultHash
	submitted []map[group.MemberIndex][]byte
	submitter []group.MemberIndex
}

func (c *c13Chain) GetConfig() *beaconchain.Config { return c.cfg }
func (c *c13Chain) Signing() chain.Signing          { return c.signing }
func (c *c13Chain) CalculateDKGResultHash(*beaconchain.DKGResult) (beaconchain.DKGResultHash, error) {
	return c.hash, nil
}
func (c *c13Chain) OnDKGResultSubmitted(func(*event.DKGResultSubmission)) subscription.EventSubscription {
	return subscription.NewEventSubscription(func() {})
}
func (c *c13Chain) IsGroupRegistered([]byte) (bool, error) { return false, nil }
func (c *c13Chain) SubmitDKGResult(idx beaconchain.GroupMemberIndex, _ *beaconchain.DKGResult, sigs map[beaconchain.GroupMemberIndex][]byte) error {
	cp := map[group.MemberIndex][]byte{}
	for k, v := range sigs {
		cp[k] = append([]byte(nil), v...)
	}
	c.submitted = append(c.submitted, cp)
	c.submitter = append(c.submitter, idx)
	return nil
}

type c13World struct {
	N         int
	Seats     []int // seat -> operator key id
	Receiver  int
	Excluded  map[int]string // member -> "IA" | "DQ"
	Threshold int
}

// c13Spec describes one message of a history by construction.
type c13Spec struct {
	Kind    string
	Claimed int
	Net     int    // key id of the network-level sender
	Pay     int    // key id named in the payload, -1 = garbage bytes
	Hash    int    // 0 own, 1 other
	SigBy   int    // key id that produced the signature
	SigVar  int    // which of the two stored signatures
	Corrupt string // "", "flip", "truncate", "empty"
	Session string // "own", "other"
}

func (w c13World) held(key, claimed int) bool {
	return claimed >= 1 && claimed <= w.N && w.Seats[claimed-1] == key
}

func (w c13World) admissionReason(s c13Spec) string {
	switch {
	case !w.held(s.Net, s.Claimed):
		return "non-member-or-foreign-index"
	case s.Claimed == w.Receiver:
		return "own-index"
	case w.Excluded[s.Claimed] != "":
		return "excluded-member"
	case s.Pay != s.Net:
		return "foreign-key"
	case s.Session != "own":
		return "other-session"
	}
	return ""
}

func (s c13Spec) validSig() bool { return s.Corrupt == "" && s.SigBy == s.Pay && s.Pay >= 0 }

// c13Reference computes the expected supporter set (member -> index of the
// history message whose signature counts) under the beacon rule: exactly one
// admitted message per member, matching hash, valid signature. reason[m]
// explains why a member with traffic is not a supporter.
func c13Reference(w c13World, hist []c13Spec) (set map[int]int, reason map[int]string) {
	set, reason = map[int]int{}, map[int]string{}
	admitted := map[int][]int{}
	for i, s := range hist {
		if why := w.admissionReason(s); why != "" {
			if _, ok := reason[s.Claimed]; !ok {
				reason[s.Claimed] = why
			}
			continue
		}
		admitted[s.Claimed] = append(admitted[s.Claimed], i)
	}
	for m, idx := range admitted {
		switch {
		case len(idx) > 1:
			reason[m] = "duplicate"
		case hist[idx[0]].Hash != 0:
			reason[m] = "conflicting-hash"
		case !hist[idx[0]].validSig():
			reason[m] = "invalid-signature"
		default:
			set[m] = idx[0]
			delete(reason, m)
		}
	}
	return
}

func c13GenWorld(rng *rand.Rand, n, nOps int) c13World {
	w := c13World{N: n, Excluded: map[int]string{}}
	w.Seats = make([]int, n)
	ops := 2 + rng.Intn(nOps-1) // 2..nOps operators
	if ops > n {
		ops = n
	}
	for i := range w.Seats {
		w.Seats[i] = rng.Intn(ops)
	}
	w.Receiver = 1 + rng.Intn(n)
	h := n/2 + 1
	w.Threshold = h + (n-h)/2
	maxEx := n - w.Threshold
	if maxEx > 2 {
		maxEx = 2
	}
	for k := rng.Intn(maxEx + 1); k > 0; k-- {
		m := 1 + rng.Intn(n)
		if m != w.Receiver {
			w.Excluded[m] = []string{"IA", "DQ"}[rng.Intn(2)]
		}
	}
	return w
}

func c13GenHistory(rng *rand.Rand, w c13World, outsiderA, outsiderB int) []c13Spec {
	var others, operating []int
	for m := 1; m <= w.N; m++ {
		if m == w.Receiver {
			continue
		}
		others = append(others, m)
		if w.Excluded[m] == "" {
			operating = append(operating, m)
		}
	}
	holder := func(m int) int { return w.Seats[m-1] }
	valid := func(m int) c13Spec {
		return c13Spec{Kind: "valid", Claimed: m, Net: holder(m), Pay: holder(m), SigBy: holder(m), Session: "own"}
	}
	target := []int{w.Threshold - 3, w.Threshold - 2, w.Threshold - 1, w.Threshold, rng.Intn(w.N)}[rng.Intn(5)]
	if target < 0 {
		target = 0
	}
	if target > len(operating) {
		target = len(operating)
	}
	rng.Shuffle(len(operating), func(i, j int) { operating[i], operating[j] = operating[j], operating[i] })
	v := append([]int(nil), operating[:target]...)
	var hist []c13Spec
	for _, m := range v {
		hist = append(hist, valid(m))
	}
	noise := 0
	if room := 2*w.N - len(hist); room > 0 {
		noise = rng.Intn(room + 1)
		if rng.Intn(3) == 0 {
			noise = rng.Intn(3)
		}
	}
	anyOther := func() int { return others[rng.Intn(len(others))] }
	for ; noise > 0; noise-- {
		m := anyOther()
		s := valid(m)
		switch k := rng.Intn(14); k {
		case 0:
			if len(v) == 0 {
				continue
			}
			s = valid(v[rng.Intn(len(v))])
			s.Kind = "duplicate-same"
		case 1:
			if len(v) == 0 {
				continue
			}
			s = valid(v[rng.Intn(len(v))])
			s.Kind, s.SigVar = "duplicate-second-signature", 1
		case 2:
			s.Kind, s.Hash = "conflicting-hash", 1
		case 3:
			s.Kind, s.Corrupt = "bad-signature-flipped", "flip"
		case 4:
			s.Kind, s.Corrupt = "bad-signature-truncated", []string{"truncate", "empty"}[rng.Intn(2)]
		case 5:
			s.Kind, s.SigBy = "signature-by-other-key", outsiderA
		case 6:
			s.Kind, s.Pay, s.SigBy = "foreign-key-in-payload", outsiderA, outsiderA
		case 7:
			imp := []int{outsiderA, outsiderB, w.Seats[rng.Intn(w.N)]}[rng.Intn(3)]
			s.Kind, s.Net, s.Pay, s.SigBy = "spoofed-index", imp, imp, imp
		case 8:
			s.Kind, s.Net = "replayed-by-outsider", outsiderB
		case 9:
			// another operator relays m's signed payload under its own seat
			relay := anyOther()
			s.Kind, s.Claimed, s.Net = "relayed-under-own-seat", relay, holder(relay)
		case 10:
			s = valid(w.Receiver)
			s.Kind = "own-index"
		case 11:
			s.Kind, s.Session = "other-session", "other"
		case 12:
			s.Kind, s.Claimed = "index-out-of-range", []int{0, w.N + 1, 255}[rng.Intn(3)]
		case 13:
			s.Kind, s.Pay = "garbage-payload-key", -1
		}
		hist = append(hist, s)
	}
	rng.Shuffle(len(hist), func(i, j int) { hist[i], hist[j] = hist[j], hist[i] })
	return hist
}

func c13Corrupt(sig []byte, how string) []byte {
	out := append([]byte(nil), sig...)
	switch how {
	case "flip":
		out[len(out)-1] ^= 0x01
	case "truncate":
		out = out[:len(out)-1]
	case "empty":
		out = nil
	}
	return out
}

func TestVerif_C13_BeaconResult(t *testing.T) {
	r := verifkit.Start(t, "C13", "beacon-result")
	defer r.Finish()
	r.SetRule("PRNG histories of <= 2n signature messages for n in {3,5,10}: a random set of valid supporters sized around the submission threshold plus noise drawn from {same duplicate, second valid signature, conflicting hash, flipped/truncated/empty signature, signature by another key, foreign key in payload, spoofed index, replay by outsider, relay under own seat, own index, other session, index out of range, garbage payload key}, random seat layout with multi-seat operators, random receiver, 0-2 excluded members, random order; delivered to resultSigningState.Receive, then signaturesVerificationState and resultSubmissionState run against a recording chain. non-trivial = history with >= 1 duplicate, conflicting hash, bad signature or foreign key")
	r.Assume("signature validity is known by construction (which key signed which hash, whether bytes were corrupted); one sanity pass checks this against local_v1 VerifyWithPublicKey")

	const nOps = 6
	keys := make([]*c13Key, nOps+2)
	var ownHash, otherHash beaconchain.DKGResultHash
	copy(ownHash[:], bytes.Repeat([]byte{0xA1}, 32))
	copy(otherHash[:], bytes.Repeat([]byte{0xB2}, 32))
	hashes := [2]beaconchain.DKGResultHash{ownHash, otherHash}
	for i := range keys {
		priv, pub, err := operator.GenerateKeyPair(local_v1.DefaultCurve)
		if err != nil {
			t.Fatal(err)
		}
		k := &c13Key{pub: operator.MarshalUncompressed(pub), signer: local_v1.NewSigner(priv)}
		if !bytes.Equal(k.pub, k.signer.PublicKey()) {
			r.Inconclusive("operator key marshalling differs from the signer's public key")
			return
		}
		for h := 0; h < 2; h++ {
			for v := 0; v < 2; v++ {
				if k.sigs[h][v], err = k.signer.Sign(hashes[h][:]); err != nil {
					t.Fatal(err)
				}
			}
		}
		keys[i] = k
	}
	outsiderA, outsiderB := nOps, nOps+1
	// sanity of the construction-truth
	for _, c := range []struct {
		sig   []byte
		h     int
		key   int
		valid bool
	}{
		{keys[0].sigs[0][0], 0, 0, true}, {keys[0].sigs[0][1], 0, 0, true}, {keys[0].sigs[1][0], 0, 0, false},
		{keys[0].sigs[0][0], 0, 1, false}, {c13Corrupt(keys[0].sigs[0][0], "flip"), 0, 0, false},
	} {
		ok, err := keys[0].signer.VerifyWithPublicKey(hashes[c.h][:], c.sig, keys[c.key].pub)
		if (err == nil && ok) != c.valid {
			r.Inconclusive("construction-truth of signature validity disagrees with VerifyWithPublicKey")
			return
		}
	}
	garbage := []byte{4, 1, 2, 3}
	pubOf := func(id int) []byte {
		if id < 0 {
			return garbage
		}
		return keys[id].pub
	}

	total := r.N(3000, 100000)
	var nSubmitted, nBelow, nAtThreshold, nJustBelow, msgs int64
	sizes := []int{3, 5, 10}
	verifkit.Parallel(total, 0, func(i int) {
		rng := r.SubRand("history", i)
		w := c13GenWorld(rng, sizes[i%3], nOps)
		hist := c13GenHistory(rng, w, outsiderA, outsiderB)
		desc := fmt.Sprintf("beacon n=%d seats=%v receiver=%d excluded=%v threshold=%d history=%s",
			w.N, w.Seats, w.Receiver, w.Excluded, w.Threshold, verifkit.JSON(hist))
		nontrivial := false
		perMember := map[int]int{}
		for _, s := range hist {
			if s.Hash != 0 || !s.validSig() || s.Pay != s.Net {
				nontrivial = true
			}
			if w.admissionReason(s) == "" {
				if perMember[s.Claimed]++; perMember[s.Claimed] > 1 {
					nontrivial = true
				}
			}
		}

		h := w.N/2 + 1
		g := group.NewGroup(w.N-h, w.N)
		for m, st := range w.Excluded {
			if st == "IA" {
				g.MarkMemberAsInactive(group.MemberIndex(m))
			} else {
				g.MarkMemberAsDisqualified(group.MemberIndex(m))
			}
		}
		addrs := make([]chain.Address, w.N)
		recvKey := keys[w.Seats[w.Receiver-1]]
		for s, op := range w.Seats {
			addrs[s] = recvKey.signer.PublicKeyBytesToAddress(keys[op].pub)
		}
		validator := group.NewMembershipValidator(&testutils.MockLogger{}, addrs, recvKey.signer)
		stub := &c13Chain{
			cfg:     &beaconchain.Config{GroupSize: w.N, HonestThreshold: h, ResultPublicationBlockStep: 3},
			signing: recvKey.signer,
			hash:    ownHash,
		}
		clock := verifkit.NewClock(10000)
		member := NewSigningMember(&testutils.MockLogger{}, group.MemberIndex(w.Receiver), g, validator, "session-own")
		dkgResult := &beaconchain.DKGResult{GroupPublicKey: []byte{1, 2, 3}}
		signing := &resultSigningState{beaconChain: stub, blockCounter: clock, member: member, result: dkgResult}

		var submitErr error
		var got map[group.MemberIndex][]byte
		sigBytes := make([][]byte, len(hist))
		if r.Guard("beacon:", desc, func() {
			// the member's own signature (what Initiate does, minus the channel)
			if _, err := member.SignDKGResult(dkgResult, stub); err != nil {
				panic(err)
			}
			for i, s := range hist {
				sig := c13Corrupt(keys[s.SigBy].sigs[s.Hash][s.SigVar], s.Corrupt)
				sigBytes[i] = sig
				session := "session-own"
				if s.Session != "own" {
					session = "session-other"
				}
				p := &DKGResultHashSignatureMessage{
					senderIndex: group.MemberIndex(s.Claimed),
					resultHash:  hashes[s.Hash],
					signature:   sig,
					publicKey:   pubOf(s.Pay),
					sessionID:   session,
				}
				if err := signing.Receive(&c13Msg{p, pubOf(s.Net)}); err != nil {
					panic(err)
				}
			}
			next, err := signing.Next()
			if err != nil {
				panic(err)
			}
			verification := next.(*signaturesVerificationState)
			if err := verification.Initiate(context.Background()); err != nil {
				panic(err)
			}
			got = map[group.MemberIndex][]byte{}
			for k, v := range verification.validSignatures {
				got[k] = v
			}
			next, err = verification.Next()
			if err != nil {
				panic(err)
			}
			submitErr = next.(*resultSubmissionState).Initiate(context.Background())
		}) {
			return
		}
		r.Case(desc, nontrivial)
		atomic.AddInt64(&msgs, int64(len(hist)))

		ref, reason := c13Reference(w, hist)
		// ---- content of the supporter map
		var gotKeys []int
		for k := range got {
			gotKeys = append(gotKeys, int(k))
		}
		sort.Ints(gotKeys)
		wit := map[string]interface{}{"supporters": gotKeys, "reference_size": len(ref) + 1, "threshold": w.Threshold}
		for _, k := range gotKeys {
			sig := got[group.MemberIndex(k)]
			if k == w.Receiver {
				if !bytes.Equal(sig, member.selfDKGResultSignature) || len(sig) == 0 {
					r.Violation("beacon:self-signature-missing-or-replaced", "entry of the member itself is not its own signature", desc, wit)
				}
				continue
			}
			idx, ok := ref[k]
			if !ok {
				why := reason[k]
				if why == "" {
					why = "no-message-from-member"
				}
				r.Violation("beacon:unsupported-signer-counted:"+why, fmt.Sprintf("member %d is in the supporter map although the reference excludes it (%s)", k, why), desc, wit)
				continue
			}
			if !bytes.Equal(sig, sigBytes[idx]) {
				r.Violation("beacon:wrong-signature-value", fmt.Sprintf("signature stored for member %d is not the one it sent", k), desc, wit)
			}
		}
		if _, ok := got[group.MemberIndex(w.Receiver)]; !ok {
			r.Violation("beacon:self-signature-missing-or-replaced", "own signature absent from the supporter map", desc, wit)
		}
		for m := range ref {
			if _, ok := got[group.MemberIndex(m)]; !ok {
				r.Violation("beacon:valid-supporter-dropped", fmt.Sprintf("member %d sent exactly one valid matching signature but is not counted", m), desc, wit)
			}
		}
		// ---- submission gate, judged on the map the code itself built
		submitted := len(stub.submitted) > 0
		switch {
		case submitted && len(got) < w.Threshold:
			r.Violation("beacon:submitted-below-threshold", fmt.Sprintf("submitted with %d signatures, threshold %d", len(got), w.Threshold), desc, wit)
		case !submitted && len(got) >= w.Threshold:
			r.Violation("beacon:not-submitted-at-threshold", fmt.Sprintf("%d signatures >= threshold %d but nothing submitted (err=%v)", len(got), w.Threshold, submitErr), desc, wit)
		case !submitted && submitErr == nil:
			r.Violation("beacon:silent-non-submission", "below the threshold but SubmitDKGResult reported success", desc, wit)
		}
		if len(stub.submitted) > 1 {
			r.Violation("beacon:submitted-twice", "more than one submission", desc, wit)
		}
		if submitted {
			sub := stub.submitted[0]
			same := len(sub) == len(got) && int(stub.submitter[0]) == w.Receiver
			for k, v := range got {
				if !bytes.Equal(sub[k], v) {
					same = false
				}
			}
			if !same {
				r.Violation("beacon:submitted-map-differs", "the map handed to the chain is not the verified supporter map", desc, wit)
			}
			atomic.AddInt64(&nSubmitted, 1)
			if len(got) == w.Threshold {
				atomic.AddInt64(&nAtThreshold, 1)
			}
		} else {
			atomic.AddInt64(&nBelow, 1)
			if len(got) == w.Threshold-1 {
				atomic.AddInt64(&nJustBelow, 1)
			}
		}
		if i < 4 {
			r.Sample(map[string]interface{}{"n": w.N, "seats": w.Seats, "receiver": w.Receiver, "excluded": fmt.Sprint(w.Excluded), "threshold": w.Threshold,
				"history": hist, "supporters": gotKeys, "submitted": submitted})
		}
	})
	r.Count("messages_delivered", msgs)
	r.Count("histories_submitted", nSubmitted)
	r.Count("histories_not_submitted", nBelow)
	r.Count("submitted_exactly_at_threshold", nAtThreshold)
	r.Count("not_submitted_one_below_threshold", nJustBelow)
}
