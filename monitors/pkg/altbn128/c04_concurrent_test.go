//go:build verif

package altbn128

// C04 under concurrency: hashing to the curve and (de)compression are pure
// functions of their input. Several goroutines call them at once on
// different inputs; every result must equal the result of the same call made
// alone beforehand, and the race detector must see no unsynchronised access
// in altbn128.go.

import (
	"bytes"
	"fmt"
	"math/big"
	"sync"
	"testing"

	bn256 "github.com/ethereum/go-ethereum/crypto/bn256/cloudflare"
	"github.com/keep-network/keep-core/internal/verifkit"
)

type c04cJob struct {
	msg  []byte
	hash []byte // G1HashToPoint(msg) marshalled, computed alone
	g1c  []byte // compressed k*G1
	g1   []byte
	g2c  []byte
	g2   []byte
}

func c04cJobs(r *verifkit.Run, n int) []*c04cJob {
	rng := r.Rand("concurrent")
	jobs := make([]*c04cJob, n)
	for i := range jobs {
		j := &c04cJob{msg: make([]byte, []int{0, 1, 31, 32, 33, 64, 200, 4096, 16384}[rng.Intn(9)])}
		rng.Read(j.msg)
		j.hash = G1HashToPoint(j.msg).Marshal()
		k := new(big.Int).SetInt64(int64(i + 2))
		p1 := new(bn256.G1).ScalarBaseMult(k)
		p2 := new(bn256.G2).ScalarBaseMult(k)
		j.g1, j.g2 = p1.Marshal(), p2.Marshal()
		j.g1c, j.g2c = G1Point{p1}.Compress(), G2Point{p2}.Compress()
		jobs[i] = j
	}
	return jobs
}

func c04cRun(r *verifkit.Run, jobs []*c04cJob, workers int, judge bool) (bad int64) {
	var wg sync.WaitGroup
	var mu sync.Mutex
	start := make(chan struct{})
	for w := 0; w < workers; w++ {
		wg.Add(1)
		go func(w int) {
			defer wg.Done()
			<-start
			for i := w; i < len(jobs); i += workers {
				j := jobs[i]
				desc := fmt.Sprintf("concurrent job %d (message of %d bytes)", i, len(j.msg))
				var h, d1, d2 []byte
				var e1, e2 error
				if r.Guard("concurrent:", desc, func() {
					h = G1HashToPoint(j.msg).Marshal()
					var q1 *bn256.G1
					var q2 *bn256.G2
					q1, e1 = DecompressToG1(j.g1c)
					q2, e2 = DecompressToG2(j.g2c)
					if e1 == nil {
						d1 = q1.Marshal()
					}
					if e2 == nil {
						d2 = q2.Marshal()
					}
				}) {
					continue
				}
				if !judge {
					continue
				}
				if !bytes.Equal(h, j.hash) {
					mu.Lock()
					bad++
					mu.Unlock()
					r.Violation("concurrent:hash-differs-from-the-same-call-made-alone", "G1HashToPoint returned a different point when other calls were running", desc, nil)
				}
				if e1 != nil || e2 != nil || !bytes.Equal(d1, j.g1) || !bytes.Equal(d2, j.g2) {
					r.Violation("concurrent:decompress-differs-from-the-same-call-made-alone", "decompression returned a different result when other calls were running", desc, nil)
				}
			}
		}(w)
	}
	close(start)
	wg.Wait()
	return
}

func TestVerif_C04_Concurrent(t *testing.T) {
	r := verifkit.Start(t, "C04", "concurrent")
	defer r.Finish()
	r.SetRule("PRNG messages of 0..16384 bytes and points k*G1, k*G2; every hash / decompression is first computed alone, then all of them are recomputed by 8 goroutines at once (3 passes); results must be identical. Non-trivial: always.")
	jobs := c04cJobs(r, r.N(400, 6000))
	for pass := 0; pass < 3; pass++ {
		c04cRun(r, jobs, 8, true)
	}
	for i := range jobs {
		r.Case(fmt.Sprintf("job %d len %d", i, len(jobs[i].msg)), true)
	}
}

func TestVerif_C04_ConcurrentRace(t *testing.T) {
	r := verifkit.Start(t, "C04", "concurrent_race")
	defer r.Finish()
	r.SetRule("the same concurrent calls under the race detector (verdict from the detector's log: accesses attributed to altbn128.go)")
	jobs := c04cJobs(r, r.N(120, 1500))
	c04cRun(r, jobs, 8, false)
	for i := range jobs {
		r.Case(fmt.Sprintf("job %d len %d", i, len(jobs[i].msg)), true)
	}
}
