//go:build verif

package altbn128

import (
	"bytes"
	"crypto/sha256"
	"fmt"
	"math/big"
	"math/rand"
	"regexp"
	"runtime"
	"strings"
	"sync"
	"sync/atomic"
	"testing"
	"time"

	bn256 "github.com/ethereum/go-ethereum/crypto/bn256/cloudflare"
	"github.com/keep-network/keep-core/internal/verifkit"
)

// ---------------------------------------------------------------------------
// Independent reference arithmetic (math/big only; none of the production
// helpers of altbn128.go are used by the oracle).
//
// BN254: E(Fp): y^2 = x^3 + 3;  twist E'(Fp2): y^2 = x^3 + 3/(9+i), i^2 = -1.
// An Fp2 element is {re, im}. bn256.G2.Marshal lays a point out as
// x.im | x.re | y.im | y.re (32 bytes each); the compressed G2 form is
// x.im | x.re with the parity of y.im in the top bit of byte 0.
// ---------------------------------------------------------------------------

var c04P = new(big.Int).Set(bn256.P)
var c04Q = new(big.Int).Set(bn256.Order)

type c04Fp2 struct{ re, im *big.Int }

func c04Mod(x *big.Int) *big.Int { return new(big.Int).Mod(x, c04P) }

func c04Fp2Mul(a, b c04Fp2) c04Fp2 {
	ac := new(big.Int).Mul(a.re, b.re)
	bd := new(big.Int).Mul(a.im, b.im)
	ad := new(big.Int).Mul(a.re, b.im)
	bc := new(big.Int).Mul(a.im, b.re)
	return c04Fp2{c04Mod(ac.Sub(ac, bd)), c04Mod(ad.Add(ad, bc))}
}

func c04Fp2Add(a, b c04Fp2) c04Fp2 {
	return c04Fp2{c04Mod(new(big.Int).Add(a.re, b.re)), c04Mod(new(big.Int).Add(a.im, b.im))}
}

func c04Fp2Eq(a, b c04Fp2) bool { return a.re.Cmp(b.re) == 0 && a.im.Cmp(b.im) == 0 }

// c04TwistB = 3/(9+i) = (27 - 3i)/82.
func c04TwistB() c04Fp2 {
	inv82 := new(big.Int).ModInverse(big.NewInt(82), c04P)
	re := c04Mod(new(big.Int).Mul(big.NewInt(27), inv82))
	im := c04Mod(new(big.Int).Mul(big.NewInt(-3), inv82))
	return c04Fp2{re, im}
}

// c04TwistRHS returns x^3 + b' in Fp2 (coordinates taken mod p).
func c04TwistRHS(x c04Fp2) c04Fp2 {
	x = c04Fp2{c04Mod(x.re), c04Mod(x.im)}
	return c04Fp2Add(c04Fp2Mul(c04Fp2Mul(x, x), x), c04TwistB())
}

// c04Fp2IsSquare: a != 0 is a square in Fp2 iff its norm re^2+im^2 is a
// square in Fp (p = 3 mod 4). Zero counts as a square.
func c04Fp2IsSquare(a c04Fp2) bool {
	n := c04Mod(new(big.Int).Add(new(big.Int).Mul(a.re, a.re), new(big.Int).Mul(a.im, a.im)))
	if n.Sign() == 0 {
		return true
	}
	return big.Jacobi(n, c04P) == 1
}

// c04G1RHS returns x^3+3 mod p.
func c04G1RHS(x *big.Int) *big.Int {
	x = c04Mod(x)
	r := new(big.Int).Mul(x, x)
	r.Mul(r, x)
	r.Add(r, big.NewInt(3))
	return c04Mod(r)
}

func c04IsResidue(a *big.Int) bool { return a.Sign() == 0 || big.Jacobi(a, c04P) == 1 }

// c04G1OnCurve checks a 64-byte marshalled G1 point against y^2 = x^3+3.
func c04G1OnCurve(m []byte) (bool, string) {
	if len(m) != 64 {
		return false, fmt.Sprintf("marshals to %d bytes", len(m))
	}
	x := new(big.Int).SetBytes(m[:32])
	y := new(big.Int).SetBytes(m[32:])
	if x.Cmp(c04P) >= 0 || y.Cmp(c04P) >= 0 {
		return false, "coordinate >= p"
	}
	if x.Sign() == 0 && y.Sign() == 0 {
		return false, "identity encoding (0,0)"
	}
	if c04Mod(new(big.Int).Mul(y, y)).Cmp(c04G1RHS(x)) != 0 {
		return false, "y^2 != x^3+3"
	}
	return true, ""
}

// c04G2OnTwist checks a 128-byte marshalled G2 point against the twist equation.
func c04G2OnTwist(m []byte) (bool, string) {
	if len(m) != 128 {
		return false, fmt.Sprintf("marshals to %d bytes", len(m))
	}
	x := c04Fp2{new(big.Int).SetBytes(m[32:64]), new(big.Int).SetBytes(m[0:32])}
	y := c04Fp2{new(big.Int).SetBytes(m[96:128]), new(big.Int).SetBytes(m[64:96])}
	for _, c := range []*big.Int{x.re, x.im, y.re, y.im} {
		if c.Cmp(c04P) >= 0 {
			return false, "coordinate >= p"
		}
	}
	if !c04Fp2Eq(c04Fp2Mul(y, y), c04TwistRHS(x)) {
		return false, "y^2 != x^3+b'"
	}
	return true, ""
}

// c04ExpectCompressG1/G2: the compression as the property's format defines
// it (x with the parity of y / y.im in the top bit), computed by the monitor.
func c04ExpectCompressG1(m []byte) []byte {
	out := append([]byte(nil), m[:32]...)
	out[0] |= (m[63] & 1) << 7
	return out
}

func c04ExpectCompressG2(m []byte) []byte {
	out := append([]byte(nil), m[:64]...)
	out[0] |= (m[95] & 1) << 7
	return out
}

func c04Pad32(x *big.Int) []byte {
	b := x.Bytes()
	if len(b) > 32 {
		b = b[len(b)-32:]
	}
	out := make([]byte, 32)
	copy(out[32-len(b):], b)
	return out
}

// ---------------------------------------------------------------------------
// hang detection: a call that has not returned is looked up in the goroutine
// dump twice, one second apart.
// ---------------------------------------------------------------------------

var c04GidRe = regexp.MustCompile(`^goroutine (\d+) \[`)

func c04Gid() string {
	buf := make([]byte, 64)
	buf = buf[:runtime.Stack(buf, false)]
	if m := c04GidRe.FindSubmatch(buf); m != nil {
		return string(m[1])
	}
	return ""
}

// c04FrameOf returns the altbn128 production frames of goroutine gid,
// innermost first (e.g. "mod<(*gfP2).multiply<sqrtGfP2<DecompressToG2").
func c04FrameOf(gid string) string {
	buf := make([]byte, 1<<20)
	buf = buf[:runtime.Stack(buf, true)]
	for _, block := range strings.Split(string(buf), "\n\n") {
		if !strings.HasPrefix(block, "goroutine "+gid+" [") {
			continue
		}
		var frames []string
		lines := strings.Split(block, "\n")
		for i := 1; i+1 < len(lines); i++ {
			fn := strings.TrimSpace(lines[i])
			loc := strings.TrimSpace(lines[i+1])
			if strings.Contains(fn, "/altbn128.") && !strings.Contains(fn, ".go:") && !strings.Contains(loc, "_test.go") && !strings.Contains(loc, "zz_verif") {
				if j := strings.LastIndex(fn, "("); j > 0 {
					fn = fn[:j]
				}
				fn = fn[strings.LastIndex(fn, "/")+1:]
				frames = append(frames, strings.TrimPrefix(fn, "altbn128."))
			}
		}
		if len(frames) == 0 {
			return "outside-altbn128"
		}
		return strings.Join(frames, "<")
	}
	return "gone"
}

type c04CallResult struct {
	returned bool
	panicked bool
	frame1   string
	frame2   string
	dur      time.Duration
}

func (c c04CallResult) witness() map[string]string {
	return map[string]string{"frames_at_20s": c.frame1, "frames_at_21s": c.frame2}
}

const c04HangAfter = 20 * time.Second

// c04Call runs fn under Guard on its own goroutine; when it has not returned
// after c04HangAfter the goroutine's position is sampled twice.
func c04Call(r *verifkit.Run, fpPrefix, desc string, fn func()) c04CallResult {
	type done struct {
		p bool
		d time.Duration
	}
	ch := make(chan done, 1)
	gidCh := make(chan string, 1)
	go func() {
		gidCh <- c04Gid()
		t0 := time.Now()
		p := r.Guard(fpPrefix, desc, fn)
		ch <- done{p, time.Since(t0)}
	}()
	gid := <-gidCh
	select {
	case d := <-ch:
		return c04CallResult{returned: true, panicked: d.p, dur: d.d}
	case <-time.After(c04HangAfter):
	}
	res := c04CallResult{frame1: c04FrameOf(gid)}
	select {
	case d := <-ch:
		return c04CallResult{returned: true, panicked: d.p, dur: d.d}
	case <-time.After(time.Second):
	}
	res.frame2 = c04FrameOf(gid)
	return res
}

// ---------------------------------------------------------------------------
// Round trip over generated points
// ---------------------------------------------------------------------------

func c04Scalars(r *verifkit.Run, n int) []*big.Int {
	rng := r.Rand("scalars")
	ks := []*big.Int{
		big.NewInt(1), big.NewInt(2), big.NewInt(3),
		new(big.Int).Sub(c04Q, big.NewInt(1)), new(big.Int).Sub(c04Q, big.NewInt(2)),
		new(big.Int).Add(c04Q, big.NewInt(1)), new(big.Int).Add(c04Q, big.NewInt(5)),
	}
	for k := int64(4); k <= 40; k++ {
		ks = append(ks, big.NewInt(k))
	}
	for len(ks) < n {
		b := make([]byte, 32)
		rng.Read(b)
		k := new(big.Int).SetBytes(b)
		if new(big.Int).Mod(k, c04Q).Sign() == 0 {
			continue
		}
		ks = append(ks, k)
	}
	return ks
}

func TestVerif_C04_RoundTrip(t *testing.T) {
	r := verifkit.Start(t, "C04", "roundtrip")
	defer r.Finish()
	r.SetRule("points k*G1 and k*G2 for k in {1,2,3,q-1,q-2,q+1,q+5,4..40} and PRNG 256-bit scalars (not reduced); plus G1 points produced by G1HashToPoint; compress, compare with the monitor's own encoding, decompress, compare marshalled bytes. non-trivial = scalar not in {1,2} (hash points always)")
	r.Assume("bn256 (go-ethereum cloudflare) ScalarBaseMult/Marshal/Unmarshal are the trusted group implementation")
	ks := c04Scalars(r, r.N(300, 5000))
	var par [2][2]int64 // [group][parity]
	verifkit.Parallel(len(ks), 0, func(i int) {
		k := ks[i]
		nontriv := !(k.Cmp(big.NewInt(1)) == 0 || k.Cmp(big.NewInt(2)) == 0)
		// ---- G1
		{
			desc := "rt-g1 k=0x" + k.Text(16)
			p := new(bn256.G1).ScalarBaseMult(k)
			pm := p.Marshal()
			if ok, why := c04G1OnCurve(pm); !ok {
				r.Inconclusive("oracle self-check: k*G1 not on curve for the monitor's arithmetic: " + why)
				return
			}
			var comp []byte
			var back *bn256.G1
			var err error
			res := c04Call(r, "roundtripG1:", desc, func() {
				comp = G1Point{p}.Compress()
				back, err = DecompressToG1(comp)
			})
			r.Case(desc, nontriv)
			if !res.returned {
				r.Violation("roundtripG1:hang", "compress/decompress of a generated point did not return within 20 s", desc, res.witness())
			} else if !res.panicked {
				atomic.AddInt64(&par[0][pm[63]&1], 1)
				if !bytes.Equal(comp, c04ExpectCompressG1(pm)) {
					r.Violation("compressG1:encoding", "compressed form is not x with the parity of y in the top bit", desc, map[string]string{"got": verifkit.Hex(comp), "want": verifkit.Hex(c04ExpectCompressG1(pm))})
				}
				if err != nil || back == nil {
					r.Violation("roundtripG1:error", fmt.Sprintf("decompress(compress(P)) failed: %v", err), desc, verifkit.Hex(comp))
				} else if !bytes.Equal(back.Marshal(), pm) {
					r.Violation("roundtripG1:mismatch", "decompress(compress(P)) != P", desc, map[string]string{"P": verifkit.Hex(pm), "back": verifkit.Hex(back.Marshal()), "compressed": verifkit.Hex(comp)})
				}
			}
		}
		// ---- G2
		{
			desc := "rt-g2 k=0x" + k.Text(16)
			p := new(bn256.G2).ScalarBaseMult(k)
			pm := p.Marshal()
			if ok, why := c04G2OnTwist(pm); !ok {
				r.Inconclusive("oracle self-check: k*G2 not on the twist for the monitor's arithmetic: " + why)
				return
			}
			var comp []byte
			var back *bn256.G2
			var err error
			res := c04Call(r, "roundtripG2:", desc, func() {
				comp = G2Point{p}.Compress()
				back, err = DecompressToG2(comp)
			})
			r.Case(desc, nontriv)
			if !res.returned {
				r.Violation("roundtripG2:hang", "compress/decompress of a generated point did not return within 20 s", desc, res.witness())
			} else if !res.panicked {
				atomic.AddInt64(&par[1][pm[95]&1], 1)
				if !bytes.Equal(comp, c04ExpectCompressG2(pm)) {
					r.Violation("compressG2:encoding", "compressed form is not x with the parity of y.im in the top bit", desc, map[string]string{"got": verifkit.Hex(comp), "want": verifkit.Hex(c04ExpectCompressG2(pm))})
				}
				if err != nil || back == nil {
					r.Violation("roundtripG2:error", fmt.Sprintf("decompress(compress(P)) failed: %v", err), desc, verifkit.Hex(comp))
				} else if !bytes.Equal(back.Marshal(), pm) {
					r.Violation("roundtripG2:mismatch", "decompress(compress(P)) != P", desc, map[string]string{"P": verifkit.Hex(pm), "back": verifkit.Hex(back.Marshal()), "compressed": verifkit.Hex(comp)})
				}
			}
		}
		if i == 0 || i == 3 || i == 60 {
			r.Sample(map[string]string{"k": "0x" + k.Text(16), "g1_compressed": verifkit.Hex(c04ExpectCompressG1(new(bn256.G1).ScalarBaseMult(k).Marshal()))})
		}
	})
	// Decompression must be a function of its input alone: points that share
	// an x coordinate (P and -P) are decompressed one after the other, in both
	// orders and repeatedly, on one goroutine (a history-dependent decoder is
	// not exercised by independent round trips running side by side).
	{
		seq := r.N(60, 600)
		rng := r.Rand("negation-pairs")
		var pairs int64
		for i := 0; i < seq; i++ {
			var k *big.Int
			if i < 20 {
				k = big.NewInt(int64(i + 1))
			} else {
				b := make([]byte, 32)
				rng.Read(b)
				k = new(big.Int).SetBytes(b)
				if new(big.Int).Mod(k, c04Q).Sign() == 0 {
					continue
				}
			}
			nk := new(big.Int).Sub(c04Q, new(big.Int).Mod(k, c04Q))
			order := []*big.Int{k, nk, k, nk}
			if i%2 == 1 {
				order = []*big.Int{nk, k, nk, k}
			}
			desc := fmt.Sprintf("negation-pair k=0x%s order=%d", k.Text(16), i%2)
			r.Case(desc, true)
			pairs++
			for step, kk := range order {
				g1 := new(bn256.G1).ScalarBaseMult(kk)
				g2 := new(bn256.G2).ScalarBaseMult(kk)
				var b1 *bn256.G1
				var b2 *bn256.G2
				var e1, e2 error
				res := c04Call(r, "roundtripPair:", desc, func() {
					b1, e1 = DecompressToG1(G1Point{g1}.Compress())
					b2, e2 = DecompressToG2(G2Point{g2}.Compress())
				})
				if !res.returned || res.panicked {
					break
				}
				if e1 != nil || b1 == nil || !bytes.Equal(b1.Marshal(), g1.Marshal()) {
					r.Violation("roundtripG1:depends-on-history", fmt.Sprintf("decompress(compress(P)) != P at step %d of decompressing P and -P alternately (error: %v)", step, e1), desc, nil)
					break
				}
				if e2 != nil || b2 == nil || !bytes.Equal(b2.Marshal(), g2.Marshal()) {
					r.Violation("roundtripG2:depends-on-history", fmt.Sprintf("decompress(compress(P)) != P at step %d of decompressing P and -P alternately (error: %v)", step, e2), desc, nil)
					break
				}
			}
		}
		r.Count("negation_pairs_decompressed_alternately", pairs)
	}
	// G1 points that are not of a known k*G form: outputs of the hash
	nh := r.N(100, 1000)
	verifkit.Parallel(nh, 0, func(i int) {
		rng := r.SubRand("hashpoints", i)
		m := make([]byte, rng.Intn(64))
		rng.Read(m)
		desc := "rt-g1 hash-of=" + verifkit.Hex(m)
		var p, back *bn256.G1
		var comp []byte
		var err error
		res := c04Call(r, "roundtripG1:", desc, func() {
			p = G1HashToPoint(m)
			comp = G1Point{p}.Compress()
			back, err = DecompressToG1(comp)
		})
		r.Case(desc, true)
		if !res.returned {
			r.Violation("roundtripG1:hang", "hash/compress/decompress did not return within 20 s", desc, res.witness())
		} else if !res.panicked {
			pm := p.Marshal()
			if ok, _ := c04G1OnCurve(pm); !ok {
				return // reported by the hash monitor
			}
			atomic.AddInt64(&par[0][pm[63]&1], 1)
			if err != nil || back == nil {
				r.Violation("roundtripG1:error", fmt.Sprintf("decompress(compress(P)) failed: %v", err), desc, verifkit.Hex(comp))
			} else if !bytes.Equal(back.Marshal(), pm) {
				r.Violation("roundtripG1:mismatch", "decompress(compress(P)) != P", desc, map[string]string{"P": verifkit.Hex(pm), "back": verifkit.Hex(back.Marshal())})
			}
		}
	})
	r.Count("g1_y_even", par[0][0])
	r.Count("g1_y_odd", par[0][1])
	r.Count("g2_yim_even", par[1][0])
	r.Count("g2_yim_odd", par[1][1])
	if par[0][0] == 0 || par[0][1] == 0 || par[1][0] == 0 || par[1][1] == 0 {
		r.Inconclusive("one of the parity values was never observed")
	}
}

// ---------------------------------------------------------------------------
// The identity point, reported separately for G1 and G2
// ---------------------------------------------------------------------------

func TestVerif_C04_Identity(t *testing.T) {
	r := verifkit.Start(t, "C04", "identity_point")
	defer r.Finish()
	r.SetRule("the identity of G1 and of G2 obtained as 0*G, q*G, 2q*G, P+(-P) and the zero value: compress then decompress must give the identity back. non-trivial = always (scalar = 0 mod q)")
	type mk struct {
		name string
		g1   func() *bn256.G1
		g2   func() *bn256.G2
	}
	twoQ := new(big.Int).Lsh(c04Q, 1)
	mks := []mk{
		{"0*G", func() *bn256.G1 { return new(bn256.G1).ScalarBaseMult(big.NewInt(0)) }, func() *bn256.G2 { return new(bn256.G2).ScalarBaseMult(big.NewInt(0)) }},
		{"q*G", func() *bn256.G1 { return new(bn256.G1).ScalarBaseMult(c04Q) }, func() *bn256.G2 { return new(bn256.G2).ScalarBaseMult(c04Q) }},
		{"2q*G", func() *bn256.G1 { return new(bn256.G1).ScalarBaseMult(twoQ) }, func() *bn256.G2 { return new(bn256.G2).ScalarBaseMult(twoQ) }},
		{"P+(-P)", func() *bn256.G1 {
			p := new(bn256.G1).ScalarBaseMult(big.NewInt(7))
			return new(bn256.G1).Add(p, new(bn256.G1).Neg(p))
		}, func() *bn256.G2 {
			p := new(bn256.G2).ScalarBaseMult(big.NewInt(7))
			return new(bn256.G2).Add(p, new(bn256.G2).Neg(p))
		}},
		{"zero-value", func() *bn256.G1 { return new(bn256.G1) }, func() *bn256.G2 { return new(bn256.G2) }},
	}
	for _, m := range mks {
		// ---- G1
		{
			desc := "identity-g1 as " + m.name
			p := m.g1()
			pm := p.Marshal()
			var comp []byte
			var back *bn256.G1
			var err error
			stage := "compress"
			res := c04Call(r, "compressG1:identity:", desc, func() {
				comp = G1Point{p}.Compress()
			})
			r.Case(desc, true)
			if res.returned && !res.panicked {
				stage = "decompress"
				res = c04Call(r, "decompressG1:identity:", desc, func() { back, err = DecompressToG1(comp) })
			}
			switch {
			case !res.returned:
				r.Violation(stage+"G1:identity:hang", stage+" of the G1 identity did not return within 20 s", desc, res.witness())
			case res.panicked:
			case err != nil || back == nil:
				r.Violation("roundtripG1:identity:error", fmt.Sprintf("decompress(compress(identity)) failed: %v", err), desc, verifkit.Hex(comp))
			case !bytes.Equal(back.Marshal(), pm):
				r.Violation("roundtripG1:identity:mismatch", "decompress(compress(identity)) is not the identity", desc, map[string]string{"compressed": verifkit.Hex(comp), "back": verifkit.Hex(back.Marshal())})
			}
			r.Sample(map[string]interface{}{"case": desc, "marshalled": verifkit.Hex(pm), "compressed": verifkit.Hex(comp), "panicked": res.panicked})
		}
		// ---- G2
		{
			desc := "identity-g2 as " + m.name
			p := m.g2()
			pm := p.Marshal()
			var comp []byte
			var back *bn256.G2
			var err error
			stage := "compress"
			res := c04Call(r, "compressG2:identity:", desc, func() {
				comp = G2Point{p}.Compress()
			})
			r.Case(desc, true)
			if res.returned && !res.panicked {
				stage = "decompress"
				res = c04Call(r, "decompressG2:identity:", desc, func() { back, err = DecompressToG2(comp) })
			}
			switch {
			case !res.returned:
				r.Violation(stage+"G2:identity:hang", stage+" of the G2 identity did not return within 20 s", desc, res.witness())
			case res.panicked:
			case err != nil || back == nil:
				r.Violation("roundtripG2:identity:error", fmt.Sprintf("decompress(compress(identity)) failed: %v", err), desc, verifkit.Hex(comp))
			case !bytes.Equal(back.Marshal(), pm):
				r.Violation("roundtripG2:identity:mismatch", "decompress(compress(identity)) is not the identity", desc, map[string]string{"compressed": verifkit.Hex(comp), "back": verifkit.Hex(back.Marshal())})
			}
		}
	}
}

// ---------------------------------------------------------------------------
// Hash to point
// ---------------------------------------------------------------------------

func TestVerif_C04_HashToPoint(t *testing.T) {
	r := verifkit.Start(t, "C04", "hash_to_point")
	defer r.Finish()
	r.SetRule("byte strings of every length 0..200 (PRNG content, plus all-zero and all-0xff of the same lengths in rotation): G1HashToPoint called twice, results equal, not the identity, y^2 = x^3+3 by the monitor's arithmetic, Unmarshal(Marshal) accepted. non-trivial = the first candidate x = sha256(m) mod p is not on the curve (try-and-increment observed)")
	n := r.N(300, 5000)
	var incs int64
	verifkit.Parallel(n, 0, func(i int) {
		rng := r.SubRand("hash", i)
		l := i % 201
		m := make([]byte, l)
		switch {
		case i >= 201 && i%7 == 0:
			// all zero
		case i >= 201 && i%7 == 1:
			for j := range m {
				m[j] = 0xff
			}
		default:
			rng.Read(m)
		}
		desc := "hash m=" + verifkit.Hex(m)
		var a, b *bn256.G1
		res := c04Call(r, "hash:", desc, func() {
			a = G1HashToPoint(append([]byte(nil), m...))
			b = G1HashToPoint(append([]byte(nil), m...))
		})
		h := sha256.Sum256(m)
		x0 := c04Mod(new(big.Int).SetBytes(h[:]))
		firstOnCurve := c04IsResidue(c04G1RHS(x0))
		r.Case(desc, !firstOnCurve)
		if !res.returned {
			r.Violation("hash:hang", "G1HashToPoint did not return within 20 s", desc, res.witness())
			return
		}
		if res.panicked {
			return
		}
		if a == nil || b == nil {
			r.Violation("hash:nil", "G1HashToPoint returned nil", desc, nil)
			return
		}
		am, bm := a.Marshal(), b.Marshal()
		if !bytes.Equal(am, bm) {
			r.Violation("hash:nondeterministic", "two calls on the same input differ", desc, []string{verifkit.Hex(am), verifkit.Hex(bm)})
		}
		if ok, why := c04G1OnCurve(am); !ok {
			r.Violation("hash:not-on-curve", "result is not a point of y^2=x^3+3: "+why, desc, verifkit.Hex(am))
			return
		}
		if _, err := new(bn256.G1).Unmarshal(am); err != nil {
			r.Violation("hash:unmarshal", "bn256 rejects the marshalled result: "+err.Error(), desc, verifkit.Hex(am))
		}
		if !firstOnCurve {
			atomic.AddInt64(&incs, 1)
		}
		if i == 0 || i == 1 || i == 77 {
			r.Sample(map[string]string{"m": verifkit.Hex(m), "point": verifkit.Hex(am), "first_candidate_on_curve": fmt.Sprint(firstOnCurve)})
		}
	})
	r.Count("inputs_needing_increment", incs)
}

// ---------------------------------------------------------------------------
// Decompression of arbitrary well-sized byte strings
// ---------------------------------------------------------------------------

type c04Class struct {
	name   string
	g2     bool
	n      int
	shards int
	gen    func(rng *rand.Rand, i int) []byte
	// mustDecode: the class consists of valid encodings (an error is a violation)
	mustDecode bool
	hung       int32
}

func c04RandBelowP(rng *rand.Rand) *big.Int {
	for {
		b := make([]byte, 32)
		rng.Read(b)
		b[0] &= 0x3f
		x := new(big.Int).SetBytes(b)
		if x.Cmp(c04P) < 0 {
			return x
		}
	}
}

func c04RandAtLeastP(rng *rand.Rand) *big.Int {
	// in [p, 2^255)
	span := new(big.Int).Sub(new(big.Int).Lsh(big.NewInt(1), 255), c04P)
	b := make([]byte, 40)
	rng.Read(b)
	x := new(big.Int).Mod(new(big.Int).SetBytes(b), span)
	if rng.Intn(8) == 0 {
		x = big.NewInt(int64(rng.Intn(3)))
	}
	return x.Add(x, c04P)
}

func c04Top(rng *rand.Rand, b []byte) []byte {
	if rng.Intn(2) == 1 {
		b[0] |= 0x80
	}
	return b
}

func c04G2Bytes(x c04Fp2) []byte { return append(c04Pad32(x.im), c04Pad32(x.re)...) }

func c04Classes(r *verifkit.Run) []*c04Class {
	q := r.Quick()
	n := func(a, b int) int {
		if q {
			return a
		}
		return b
	}
	fixedG1 := [][]byte{}
	for _, x := range []*big.Int{big.NewInt(0), big.NewInt(1), big.NewInt(2), new(big.Int).Sub(c04P, big.NewInt(1)), new(big.Int).Set(c04P), new(big.Int).Add(c04P, big.NewInt(1)),
		new(big.Int).Sub(new(big.Int).Lsh(big.NewInt(1), 255), big.NewInt(1))} {
		b := c04Pad32(x)
		fixedG1 = append(fixedG1, b)
		b2 := append([]byte(nil), b...)
		b2[0] |= 0x80
		fixedG1 = append(fixedG1, b2)
	}
	fixedG2 := [][]byte{}
	small := []*big.Int{big.NewInt(0), big.NewInt(1), big.NewInt(2), new(big.Int).Sub(c04P, big.NewInt(1))}
	for _, re := range small {
		for _, im := range small {
			b := c04G2Bytes(c04Fp2{re, im})
			fixedG2 = append(fixedG2, b)
			b2 := append([]byte(nil), b...)
			b2[0] |= 0x80
			fixedG2 = append(fixedG2, b2)
		}
	}
	return []*c04Class{
		{name: "g1-uniform", n: n(400, 40000), shards: n(1, 4), gen: func(rng *rand.Rand, i int) []byte {
			b := make([]byte, 32)
			rng.Read(b)
			return b
		}},
		{name: "g1-x-below-p-on-curve", n: n(150, 15000), shards: n(1, 2), mustDecode: true, gen: func(rng *rand.Rand, i int) []byte {
			for {
				x := c04RandBelowP(rng)
				if rhs := c04G1RHS(x); rhs.Sign() != 0 && big.Jacobi(rhs, c04P) == 1 {
					return c04Top(rng, c04Pad32(x))
				}
			}
		}},
		{name: "g1-x-below-p-off-curve", n: n(150, 15000), shards: n(1, 2), gen: func(rng *rand.Rand, i int) []byte {
			for {
				x := c04RandBelowP(rng)
				if big.Jacobi(c04G1RHS(x), c04P) == -1 {
					return c04Top(rng, c04Pad32(x))
				}
			}
		}},
		{name: "g1-x-at-least-p", n: n(100, 10000), shards: 1, gen: func(rng *rand.Rand, i int) []byte {
			return c04Top(rng, c04Pad32(c04RandAtLeastP(rng)))
		}},
		{name: "g1-wrong-parity", n: n(100, 10000), shards: 1, mustDecode: true, gen: func(rng *rand.Rand, i int) []byte {
			k := new(big.Int).Add(big.NewInt(1), new(big.Int).Rand(rng, new(big.Int).Sub(c04Q, big.NewInt(1))))
			c := c04ExpectCompressG1(new(bn256.G1).ScalarBaseMult(k).Marshal())
			c[0] ^= 0x80
			return c
		}},
		{name: "g1-fixed", n: len(fixedG1), shards: 1, gen: func(rng *rand.Rand, i int) []byte { return fixedG1[i] }},

		{name: "g2-uniform", g2: true, n: n(400, 40000), shards: n(2, 4), gen: func(rng *rand.Rand, i int) []byte {
			b := make([]byte, 64)
			rng.Read(b)
			return b
		}},
		{name: "g2-x-below-p-uniform", g2: true, n: n(200, 20000), shards: n(1, 4), gen: func(rng *rand.Rand, i int) []byte {
			return c04Top(rng, c04G2Bytes(c04Fp2{c04RandBelowP(rng), c04RandBelowP(rng)}))
		}},
		{name: "g2-rhs-non-square", g2: true, n: n(150, 15000), shards: n(1, 4), gen: func(rng *rand.Rand, i int) []byte {
			for {
				x := c04Fp2{c04RandBelowP(rng), c04RandBelowP(rng)}
				if !c04Fp2IsSquare(c04TwistRHS(x)) {
					return c04Top(rng, c04G2Bytes(x))
				}
			}
		}},
		{name: "g2-on-twist", g2: true, n: n(200, 20000), shards: n(1, 4), gen: func(rng *rand.Rand, i int) []byte {
			for {
				x := c04Fp2{c04RandBelowP(rng), c04RandBelowP(rng)}
				if c04Fp2IsSquare(c04TwistRHS(x)) {
					return c04Top(rng, c04G2Bytes(x))
				}
			}
		}},
		{name: "g2-rhs-in-base-field", g2: true, n: n(80, 4000), shards: 1, gen: func(rng *rand.Rand, i int) []byte {
			// x = u + v*i with Im(x^3) = 3u^2 v - v^3 = -Im(b'), so that
			// x^3 + b' lies in Fp: u^2 = (v^3 - Im b')/(3v).
			b := c04TwistB()
			for {
				v := c04RandBelowP(rng)
				if rng.Intn(4) == 0 {
					v = big.NewInt(int64(1 + rng.Intn(50)))
				}
				if v.Sign() == 0 {
					continue
				}
				num := new(big.Int).Exp(v, big.NewInt(3), c04P)
				num.Sub(num, b.im)
				den := new(big.Int).ModInverse(c04Mod(new(big.Int).Mul(big.NewInt(3), v)), c04P)
				w := c04Mod(num.Mul(num, den))
				if big.Jacobi(w, c04P) != 1 {
					continue
				}
				u := new(big.Int).ModSqrt(w, c04P)
				if rng.Intn(2) == 1 {
					u = c04Mod(new(big.Int).Neg(u))
				}
				x := c04Fp2{u, v}
				if c04TwistRHS(x).im.Sign() != 0 {
					continue // cannot happen; keeps the class honest
				}
				return c04Top(rng, c04G2Bytes(x))
			}
		}},
		{name: "g2-x-at-least-p", g2: true, n: n(100, 10000), shards: 1, gen: func(rng *rand.Rand, i int) []byte {
			re, im := c04RandBelowP(rng), c04RandBelowP(rng)
			switch rng.Intn(3) {
			case 0:
				re = c04RandAtLeastP(rng)
			case 1:
				im = c04RandAtLeastP(rng)
			default:
				re, im = c04RandAtLeastP(rng), c04RandAtLeastP(rng)
			}
			if re.BitLen() > 256 {
				re = c04RandBelowP(rng)
			}
			return c04Top(rng, c04G2Bytes(c04Fp2{re, im}))
		}},
		{name: "g2-wrong-parity", g2: true, n: n(100, 10000), shards: 1, mustDecode: true, gen: func(rng *rand.Rand, i int) []byte {
			k := new(big.Int).Add(big.NewInt(1), new(big.Int).Rand(rng, new(big.Int).Sub(c04Q, big.NewInt(1))))
			c := c04ExpectCompressG2(new(bn256.G2).ScalarBaseMult(k).Marshal())
			c[0] ^= 0x80
			return c
		}},
		{name: "g2-fixed", g2: true, n: len(fixedG2), shards: 1, gen: func(rng *rand.Rand, i int) []byte { return fixedG2[i] }},
	}
}

// c04Expect classifies a decompression input with the monitor's arithmetic:
// "off-curve" (no point has this x), "on-curve" (x < p and the right-hand side
// is a square: for G1 every such string encodes a group element; for G2 it
// encodes a twist point that may lie outside the order-q subgroup),
// "non-canonical" (a coordinate >= p).
func c04Expect(g2 bool, in []byte) string {
	if !g2 {
		b := append([]byte(nil), in...)
		b[0] &= 0x7f
		x := new(big.Int).SetBytes(b)
		if x.Cmp(c04P) >= 0 {
			if c04IsResidue(c04G1RHS(x)) {
				return "non-canonical(x mod p on curve)"
			}
			return "non-canonical(x mod p off curve)"
		}
		if c04IsResidue(c04G1RHS(x)) {
			return "on-curve"
		}
		return "off-curve"
	}
	b := append([]byte(nil), in[:32]...)
	b[0] &= 0x7f
	x := c04Fp2{new(big.Int).SetBytes(in[32:64]), new(big.Int).SetBytes(b)}
	if x.re.Cmp(c04P) >= 0 || x.im.Cmp(c04P) >= 0 {
		if c04Fp2IsSquare(c04TwistRHS(x)) {
			return "non-canonical(x mod p on curve)"
		}
		return "non-canonical(x mod p off curve)"
	}
	if c04Fp2IsSquare(c04TwistRHS(x)) {
		return "on-curve"
	}
	return "off-curve"
}

func TestVerif_C04_DecompressTotal(t *testing.T) {
	r := verifkit.Start(t, "C04", "decompress_total")
	defer r.Finish()
	r.SetRule("32-byte (G1) and 64-byte (G2) strings by class: uniform; x<p on the curve / off the curve (chosen with the monitor's own Legendre/norm test); x>=p; encodings of generated points with the parity bit flipped; fixed small values incl. all-zero; G2 x with x^3+b' in the base field. Each call must return within 20 s (a non-returning call is sampled twice in the goroutine dump; inputs with the same kind of x-coordinate are then no longer fed) with (valid point, nil) or an error; a returned point must re-compress to the input. non-trivial = the input is not the compression of a generated point (all classes here)")
	r.Assume("bn256.Unmarshal decides group membership of a returned point; the monitor's big.Int arithmetic decides whether an x-coordinate is on the curve")
	classes := c04Classes(r)
	var maxDurNs int64
	var mu sync.Mutex
	outcomes := map[string]int64{}
	type job struct {
		c     *c04Class
		shard int
	}
	var jobs []job
	for _, c := range classes {
		for s := 0; s < c.shards; s++ {
			jobs = append(jobs, job{c, s})
		}
	}
	var sampled int32
	type kind struct {
		hung int32
		gate chan struct{}
	}
	kinds := map[string]*kind{}
	kindOf := func(name string) *kind {
		mu.Lock()
		defer mu.Unlock()
		k := kinds[name]
		if k == nil {
			k = &kind{gate: make(chan struct{}, 2)}
			kinds[name] = k
		}
		return k
	}
	verifkit.Parallel(len(jobs), len(jobs), func(ji int) {
		c, shard := jobs[ji].c, jobs[ji].shard
		grp := "G1"
		if c.g2 {
			grp = "G2"
		}
		for i := shard; i < c.n; i += c.shards {
			in := c.gen(r.SubRand("dec/"+c.name, i), i)
			desc := fmt.Sprintf("decompress%s class=%s in=%s", grp, c.name, verifkit.Hex(in))
			exp := c04Expect(c.g2, in)
			// A hang leaves a spinning goroutine behind. To bound their
			// number, 64-byte inputs of one kind (the monitor's
			// classification of x) go through a 2-slot gate, and a kind in
			// which a call hung is no longer fed. This only schedules and
			// skips calls; it is not part of any verdict.
			hk := kindOf(grp + "/" + exp)
			skip := func() {
				mu.Lock()
				outcomes[c.name+":skipped-after-hang"]++
				mu.Unlock()
			}
			if atomic.LoadInt32(&hk.hung) > 0 {
				skip()
				continue
			}
			if c.g2 {
				hk.gate <- struct{}{}
				if atomic.LoadInt32(&hk.hung) > 0 {
					<-hk.gate
					skip()
					continue
				}
			}
			var m []byte
			var isNil bool
			var err error
			var recomp []byte
			res := c04Call(r, "decompress"+grp+":", desc, func() {
				arg := append([]byte(nil), in...)
				if c.g2 {
					var p *bn256.G2
					p, err = DecompressToG2(arg)
					if err == nil {
						if isNil = p == nil; !isNil {
							m = p.Marshal()
							recomp = G2Point{p}.Compress()
						}
					}
				} else {
					var p *bn256.G1
					p, err = DecompressToG1(arg)
					if err == nil {
						if isNil = p == nil; !isNil {
							m = p.Marshal()
							recomp = G1Point{p}.Compress()
						}
					}
				}
			})
			if !res.returned {
				atomic.AddInt32(&c.hung, 1)
				atomic.AddInt32(&hk.hung, 1)
			}
			if c.g2 {
				<-hk.gate
			}
			r.Case(desc, true)
			out := ""
			switch {
			case !res.returned:
				out = "hang"
				r.Violation("decompress"+grp+":hang",
					fmt.Sprintf("call has not returned after %v (returning calls take milliseconds); goroutine sampled in %s and, 1 s later, in %s; monitor's classification of the x-coordinate: %s", c04HangAfter, res.frame1, res.frame2, exp),
					desc, map[string]string{"class": c.name, "frame_at_20s": res.frame1, "frame_at_21s": res.frame2, "x_classification": exp})
			case res.panicked:
				out = "panic"
			case err != nil:
				out = "error"
				if c.mustDecode {
					r.Violation("decompress"+grp+":valid-encoding-rejected", "a valid encoding (x of a group element, either parity) was rejected: "+err.Error(), desc, nil)
				}
			case isNil:
				out = "nil-nil"
				r.Violation("decompress"+grp+":nil-without-error", "returned (nil, nil)", desc, nil)
			default:
				out = "point"
				var uerr error
				var onCurve bool
				var why string
				if c.g2 {
					_, uerr = new(bn256.G2).Unmarshal(m)
					onCurve, why = c04G2OnTwist(m)
				} else {
					_, uerr = new(bn256.G1).Unmarshal(m)
					onCurve, why = c04G1OnCurve(m)
				}
				if identity := bytes.Equal(m, make([]byte, len(m))); identity {
					// the identity is a group element; it is a legal answer
					// only for the string it compresses to
					if uerr != nil || !bytes.Equal(recomp, in) {
						r.Violation("decompress"+grp+":identity-for-other-input", fmt.Sprintf("the identity was returned for an input that is not its compression (unmarshal: %v)", uerr), desc, verifkit.Hex(recomp))
					}
					out = "identity"
					break
				}
				if uerr != nil || !onCurve {
					r.Violation("decompress"+grp+":invalid-point", fmt.Sprintf("returned point is not valid (unmarshal: %v; curve equation: %s)", uerr, why), desc, verifkit.Hex(m))
				} else if !bytes.Equal(recomp, in) {
					r.Violation("decompress"+grp+":not-inverse", "returned point does not compress back to the input (x or parity bit not respected)", desc, map[string]string{"point": verifkit.Hex(m), "recompressed": verifkit.Hex(recomp)})
				}
				if exp != "on-curve" {
					r.Violation("decompress"+grp+":accepted-"+strings.SplitN(exp, "(", 2)[0], "a point was returned for an input the monitor classifies as "+exp, desc, verifkit.Hex(m))
				}
			}
			if res.returned {
				for {
					old := atomic.LoadInt64(&maxDurNs)
					if int64(res.dur) <= old || atomic.CompareAndSwapInt64(&maxDurNs, old, int64(res.dur)) {
						break
					}
				}
			}
			mu.Lock()
			outcomes[grp+":"+out]++
			outcomes[grp+":x-"+strings.NewReplacer(" ", "-", "(", ":", ")", "").Replace(exp)]++
			mu.Unlock()
			if i == 0 && atomic.AddInt32(&sampled, 1) <= 4 {
				r.Sample(map[string]string{"class": c.name, "input": verifkit.Hex(in), "x_classification": exp, "outcome": out})
			}
		}
	})
	for k, v := range outcomes {
		r.Count(k, v)
	}
	r.Count("max_returning_call_us", atomic.LoadInt64(&maxDurNs)/1000)
	// The guard matters only when a hang was actually reported in this run: a
	// slow machine cannot turn returning calls into a wrong verdict.
	if outcomes["G1:hang"]+outcomes["G2:hang"] > 0 && time.Duration(atomic.LoadInt64(&maxDurNs)) > c04HangAfter/10 {
		r.Inconclusive(fmt.Sprintf("slowest returning call took %v: the machine is too slow for the 20 s rule to separate a hang from a slow call", time.Duration(maxDurNs)))
	}
}

// TestVerif_C04_HashDeepIncrement searches, with the monitor's own field
// arithmetic, for messages whose first candidates x = sha256(m) mod p + k are
// all off the curve for many consecutive k, and runs G1HashToPoint on the
// deepest ones found: try-and-increment has no a-priori bound, so a point on
// the curve must come back however long the search is.
func TestVerif_C04_HashDeepIncrement(t *testing.T) {
	r := verifkit.Start(t, "C04", "hash_deep_increment")
	defer r.Finish()
	r.SetRule("messages 'verif-<seed>-<i>' scanned with the monitor's own residue test for the number of increments try-and-increment needs; G1HashToPoint is called on every message needing >= 10 increments (about 1 in 1000) and must return a deterministic point on the curve. non-trivial = the call needed >= 10 increments; evidence reports the deepest search seen")
	scan := r.N(400000, 6000000)
	type hard struct {
		m    []byte
		incs int
	}
	var mu sync.Mutex
	var hards []hard
	var maxIncs int64
	chunk := 2000
	verifkit.Parallel(scan/chunk, 0, func(ci int) {
		var local []hard
		for i := ci * chunk; i < (ci+1)*chunk; i++ {
			m := []byte(fmt.Sprintf("verif-%d-%d", r.Seed(), i))
			h := sha256.Sum256(m)
			x := c04Mod(new(big.Int).SetBytes(h[:]))
			k := 0
			for ; k < 64; k++ {
				if c04IsResidue(c04G1RHS(x)) {
					break
				}
				x = c04Mod(new(big.Int).Add(x, big.NewInt(1)))
			}
			if k >= 10 {
				local = append(local, hard{m, k})
			}
		}
		mu.Lock()
		hards = append(hards, local...)
		mu.Unlock()
	})
	r.Count("messages_scanned", int64(scan))
	verifkit.Parallel(len(hards), 0, func(i int) {
		hd := hards[i]
		desc := fmt.Sprintf("hash-deep m=%q increments=%d", hd.m, hd.incs)
		var a, b *bn256.G1
		res := c04Call(r, "hash:", desc, func() {
			a = G1HashToPoint(append([]byte(nil), hd.m...))
			b = G1HashToPoint(append([]byte(nil), hd.m...))
		})
		r.Case(desc, true)
		for {
			cur := atomic.LoadInt64(&maxIncs)
			if int64(hd.incs) <= cur || atomic.CompareAndSwapInt64(&maxIncs, cur, int64(hd.incs)) {
				break
			}
		}
		if !res.returned {
			r.Violation("hash:hang", "G1HashToPoint did not return within 20 s", desc, res.witness())
			return
		}
		if res.panicked {
			return
		}
		if a == nil || b == nil {
			r.Violation("hash:nil", "G1HashToPoint returned nil", desc, nil)
			return
		}
		var am, bm []byte
		if r.Guard("hash:", desc, func() { am, bm = a.Marshal(), b.Marshal() }) {
			return
		}
		if !bytes.Equal(am, bm) {
			r.Violation("hash:nondeterministic", "two calls on the same input differ", desc, nil)
		}
		if ok, why := c04G1OnCurve(am); !ok {
			r.Violation("hash:not-on-curve", "result is not a point of y^2=x^3+3: "+why, desc, verifkit.Hex(am))
			return
		}
		// the point must also be usable: a scalar multiplication must not crash
		r.Guard("hash:use:", desc, func() { _ = new(bn256.G1).ScalarMult(a, big.NewInt(7)) })
		if i < 3 {
			r.Sample(map[string]interface{}{"m": string(hd.m), "increments_needed": hd.incs, "point": verifkit.Hex(am)})
		}
	})
	r.Count("deepest_increment_search", atomic.LoadInt64(&maxIncs))
	r.Count("hard_messages", int64(len(hards)))
}
