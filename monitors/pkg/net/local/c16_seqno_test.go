//go:build verif

package local

import (
	"context"
	"encoding/binary"
	"fmt"
	"reflect"
	"runtime"
	"sort"
	"sync"
	"sync/atomic"
	"testing"
	"time"
	"unsafe"

	"github.com/keep-network/keep-core/internal/verifkit"
	"github.com/keep-network/keep-core/pkg/net"
	"github.com/keep-network/keep-core/pkg/net/retransmission"
	"github.com/keep-network/keep-core/pkg/operator"
)

// C16, "each message sent on a channel gets a fresh sequence number", as a
// dedicated stress on the local channel (see the libp2p twin for the
// rationale).
//
// Part 1: 16 goroutines released from a spin barrier call
// localChannel.nextSeqno() back to back; all values pairwise distinct.
// Part 2: the same through the public Send; every broadcast is captured at a
// raw tap queue placed white-box into messageHandlers (deliver() fills it
// synchronously, its capacity exceeds the number of Sends): every Send
// broadcast once, under its own sequence number, and a receiver behind
// WithRetransmissionSupport that is handed the captured messages (every 5th
// twice) sees every message exactly once.

const c16sqGoroutines = 16
const c16sqType = "c16sq/msg"

type c16sqMsg struct{ ID uint64 }

func (m *c16sqMsg) Type() string { return c16sqType }
func (m *c16sqMsg) Marshal() ([]byte, error) {
	b := make([]byte, 8)
	binary.LittleEndian.PutUint64(b, m.ID)
	return b, nil
}
func (m *c16sqMsg) Unmarshal(b []byte) error {
	if len(b) != 8 {
		return fmt.Errorf("c16sq: bad length")
	}
	m.ID = binary.LittleEndian.Uint64(b)
	return nil
}

func c16sqRelease(n int, fn func(g int)) {
	var start int32
	var ready int64
	var wg sync.WaitGroup
	for g := 0; g < n; g++ {
		wg.Add(1)
		go func(g int) {
			defer wg.Done()
			atomic.AddInt64(&ready, 1)
			for atomic.LoadInt32(&start) == 0 {
				runtime.Gosched()
			}
			fn(g)
		}(g)
	}
	for atomic.LoadInt64(&ready) < int64(n) {
		runtime.Gosched()
	}
	atomic.StoreInt32(&start, 1)
	wg.Wait()
}

type c16sqVal struct {
	v uint64
	g int32
}

func c16sqDuplicates(vals []c16sqVal) (dups []map[string]interface{}, n int) {
	sort.Slice(vals, func(i, j int) bool { return vals[i].v < vals[j].v })
	for i := 1; i < len(vals); i++ {
		if vals[i].v == vals[i-1].v {
			n++
			if len(dups) < 5 {
				dups = append(dups, map[string]interface{}{"seqno": vals[i].v, "goroutines": []int32{vals[i-1].g, vals[i].g}})
			}
		}
	}
	return
}

func c16sqTickerRegistrations(tk *retransmission.Ticker) uint64 {
	v := reflect.ValueOf(tk).Elem()
	mu := (*sync.Mutex)(unsafe.Pointer(v.FieldByName("handlersMutex").UnsafeAddr()))
	mu.Lock()
	defer mu.Unlock()
	// the registry's own registration counter if it has one; otherwise the
	// size of the registry (a lower bound once ticks removed ended handlers:
	// the callers only wait a bounded time for it)
	if f := v.FieldByName("nextHandlerId"); f.IsValid() {
		return f.Uint()
	}
	return uint64(v.FieldByName("handlers").Len())
}

func c16sqCloseTicker(tk *retransmission.Ticker, ticks chan uint64, sends int) {
	deadline := time.Now().Add(10 * time.Second)
	for c16sqTickerRegistrations(tk) < uint64(sends) {
		if time.Now().After(deadline) {
			return // leave it open: one parked goroutine
		}
		time.Sleep(100 * time.Microsecond)
	}
	close(ticks)
}

var c16sqNameSeq int64

func TestVerif_C16_SeqnoStressLocal(t *testing.T) {
	r := verifkit.Start(t, "C16", "seqno-stress-local")
	defer r.Finish()
	r.SetRule("part 1: rounds of 16 goroutines released from a spin barrier, each calling localChannel.nextSeqno() ~10 000 times (PRNG 8 000-12 000) on one channel; all values of all rounds pairwise distinct. part 2: rounds of 16 goroutines x 1 000 Send calls on a fresh channel whose broadcasts are captured at a raw tap queue; every Send broadcast once, all sequence numbers distinct; the captured messages (every 5th twice) handed to a receiver behind WithRetransmissionSupport: every message exactly once. non-trivial = a round in which >= 2 goroutines were inside the call at the same time (atomic in-flight counter in the monitor around every 8th nextSeqno call / every Send call)")
	rng := r.Rand("stress")

	// ------------------------------------------------------------ part 1
	ch := &localChannel{}
	var all []c16sqVal
	rounds := r.N(10, 60)
	var dupTotal int64
	var maxOverlap int32
	for k := 0; k < rounds; k++ {
		calls := 8000 + rng.Intn(4001)
		if !r.Quick() {
			calls *= 2
		}
		desc := fmt.Sprintf("local nextSeqno round %d: %d goroutines x %d calls", k, c16sqGoroutines, calls)
		slots := make([][]uint64, c16sqGoroutines)
		maxIn := make([]int32, c16sqGoroutines)
		var inFlight int32
		r.Guard("local:seqno:", desc, func() {
			c16sqRelease(c16sqGoroutines, func(g int) {
				s := make([]uint64, calls)
				var m int32
				for i := 0; i < calls; i++ {
					if i&7 == 0 {
						cur := atomic.AddInt32(&inFlight, 1)
						if cur > m {
							m = cur
						}
						s[i] = ch.nextSeqno()
						atomic.AddInt32(&inFlight, -1)
					} else {
						s[i] = ch.nextSeqno()
					}
				}
				slots[g], maxIn[g] = s, m
			})
		})
		var round []c16sqVal
		var overlap int32
		for g, s := range slots {
			for _, v := range s {
				round = append(round, c16sqVal{v, int32(g)})
			}
			if maxIn[g] > overlap {
				overlap = maxIn[g]
			}
		}
		if overlap > maxOverlap {
			maxOverlap = overlap
		}
		r.Case(desc, overlap >= 2)
		r.Count("nextSeqno_calls", int64(len(round)))
		all = append(all, round...)
		if dups, n := c16sqDuplicates(round); n > 0 {
			dupTotal += int64(n)
			r.Violation("local:seqno-reused:stress", fmt.Sprintf("nextSeqno returned %d value(s) more than once within one round of concurrent calls", n), desc, dups)
		}
	}
	if dups, n := c16sqDuplicates(all); int64(n) > dupTotal {
		r.Violation("local:seqno-reused:stress", fmt.Sprintf("nextSeqno returned %d value(s) more than once on one channel (across rounds)", n), "local nextSeqno: all rounds", dups)
		dupTotal = int64(n)
	}
	r.Count("duplicate_seqnos_nextSeqno", dupTotal)
	r.Count("max_goroutines_inside_nextSeqno", int64(maxOverlap))
	all = nil

	// ------------------------------------------------------------ part 2
	_, opk, err := operator.GenerateKeyPair(DefaultCurve)
	if err != nil {
		r.Inconclusive("key generation failed: " + err.Error())
		return
	}
	sendRounds := r.N(3, 12)
	perG := r.N(1000, 2500)
	var dupSend int64
	for k := 0; k < sendRounds; k++ {
		desc := fmt.Sprintf("local Send round %d: %d goroutines x %d Sends", k, c16sqGoroutines, perG)
		total := c16sqGoroutines * perG
		ticks := make(chan uint64)
		name := fmt.Sprintf("c16sq-%d", atomic.AddInt64(&c16sqNameSeq, 1))
		id := randomLocalIdentifier()
		tap := make(chan net.Message, total+64)
		sender := &localChannel{
			name:                 name,
			identifier:           &id,
			operatorPublicKey:    opk,
			messageHandlers:      []*messageHandler{{ctx: context.Background(), channel: tap}},
			unmarshalersByType:   make(map[string]func() net.TaggedUnmarshaler),
			retransmissionTicker: retransmission.NewTicker(ticks),
		}
		sender.SetUnmarshaler(func() net.TaggedUnmarshaler { return &c16sqMsg{} })
		broadcastChannelsMutex.Lock()
		if broadcastChannels == nil {
			broadcastChannels = make(map[string][]*localChannel)
		}
		broadcastChannels[name] = []*localChannel{sender}
		broadcastChannelsMutex.Unlock()

		ctx, cancel := context.WithCancel(context.Background())
		var inFlight int32
		maxIn := make([]int32, c16sqGoroutines)
		var sendErrs int64
		r.Guard("local:seqno:", desc, func() {
			c16sqRelease(c16sqGoroutines, func(g int) {
				var m int32
				for i := 0; i < perG; i++ {
					cur := atomic.AddInt32(&inFlight, 1)
					if cur > m {
						m = cur
					}
					if e := sender.Send(ctx, &c16sqMsg{ID: uint64(g)<<32 | uint64(i)}); e != nil {
						atomic.AddInt64(&sendErrs, 1)
					}
					atomic.AddInt32(&inFlight, -1)
				}
				maxIn[g] = m
			})
		})
		cancel()
		broadcastChannelsMutex.Lock()
		delete(broadcastChannels, name)
		broadcastChannelsMutex.Unlock()
		c16sqCloseTicker(sender.retransmissionTicker, ticks, total)
		var overlap int32
		for _, m := range maxIn {
			if m > overlap {
				overlap = m
			}
		}
		r.Case(desc, overlap >= 2)
		r.Count("sends", int64(total))
		if sendErrs > 0 {
			r.Violation("local:send-error:stress", fmt.Sprintf("%d Send calls returned an error", sendErrs), desc, nil)
		}

		// ---- what was broadcast
		var captured []net.Message
	drain:
		for {
			select {
			case m := <-tap:
				captured = append(captured, m)
			default:
				break drain
			}
		}
		var vals []c16sqVal
		perID := map[uint64]int{}
		for _, m := range captured {
			p, ok := m.Payload().(*c16sqMsg)
			if !ok {
				r.Violation("local:unreadable-broadcast:stress", "a broadcast message carries a foreign payload", desc, nil)
				continue
			}
			perID[p.ID]++
			vals = append(vals, c16sqVal{m.Seqno(), int32(p.ID >> 32)})
		}
		if len(perID) != total || len(captured) != total {
			r.Violation("local:broadcast-count:stress", fmt.Sprintf("%d Sends produced %d broadcasts of %d distinct messages", total, len(captured), len(perID)), desc, nil)
		}
		if dups, n := c16sqDuplicates(vals); n > 0 {
			dupSend += int64(n)
			r.Violation("local:seqno-reused:stress", fmt.Sprintf("%d sequence number(s) were given to more than one Send", n), desc, dups)
		}

		// ---- receiver behind the duplicate filter
		seen := map[uint64]int{}
		filtered := retransmission.WithRetransmissionSupport(func(m net.Message) {
			if p, ok := m.Payload().(*c16sqMsg); ok {
				seen[p.ID]++
			}
		})
		arrived := 0
		for i, m := range captured {
			filtered(m)
			arrived++
			if i%5 == 0 {
				filtered(m)
				arrived++
			}
		}
		notOnce := 0
		var examples []map[string]interface{}
		for id := range perID {
			if seen[id] != 1 {
				notOnce++
				if len(examples) < 5 {
					examples = append(examples, map[string]interface{}{"goroutine": id >> 32, "index": id & 0xffffffff, "seen": seen[id]})
				}
			}
		}
		if notOnce > 0 {
			r.Violation("local:not-exactly-once:stress", fmt.Sprintf("%d of %d messages were not seen exactly once by a receiver behind WithRetransmissionSupport (%d arrivals)", notOnce, total, arrived), desc, examples)
		}
		r.Count("messages_not_seen_exactly_once", int64(notOnce))
		if k == 0 {
			r.Sample(map[string]interface{}{"round": desc, "broadcasts": len(captured), "arrivals_incl_duplicates": arrived, "max_goroutines_inside_Send": overlap})
		}
	}
	r.Count("duplicate_seqnos_Send", dupSend)
}
