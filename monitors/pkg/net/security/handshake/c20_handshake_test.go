//go:build verif

package handshake

import (
	"sync/atomic"
	"bytes"
	crand "crypto/rand"
	"fmt"
	"io"
	"math"
	"math/rand"
	"strings"
	"sync"
	"testing"

	"github.com/keep-network/keep-core/internal/verifkit"
)

// The handshake is run with every act passed through Marshal/Unmarshal. At
// most ONE act per handshake is interfered with (field changes, replay of the
// same act of an earlier handshake, another act's bytes, byte damage).
//
// Oracle: the handshake completes (AnswerHandshake, InitiatorAct2.Next and
// FinalizeHandshake all succeed) if and only if both sides use the same
// protocol identifier and the act that was interfered with still decodes to
// exactly the field values that were sent.
//
// Interfering with several acts of one handshake consistently (rewriting
// nonce2 and both challenges) completes by construction — the acts carry no
// authenticator at this level, that is the connection layer's job (signed
// envelopes, checked in the libp2p part) — so it is not generated.

type c20Session struct {
	n1, n2           uint64
	act1, act2, act3 []byte
	ok               bool
}

type c20Plan struct {
	P1     string `json:"protocol_initiator"`
	P2     string `json:"protocol_responder"`
	Nonce1 string `json:"nonce1"` // "crand" or a decimal value (white-box construction of InitiatorAct1)
	Nonce2 string `json:"nonce2"` // "crand" or a decimal value (crypto/rand.Reader replaced, serial part only)
	Act    int    `json:"tampered_act"`
	Mode   string `json:"mode"`
	Arg    uint64 `json:"arg,omitempty"`
	ArgS   string `json:"arg_s,omitempty"`
}

var c20Protocols = []string{
	"keep", "keep", "keep", "keep2", "Keep", "keep ", " keep", "", "kee", "keepkeep",
	"кеер", // cyrillic look-alike
	"keep\x00", "0123456789abcdef0123456789abcdef", // 32 bytes: as long as a challenge
	strings.Repeat("k", 300),
}

var c20Modes = map[int][]string{
	0: {"none"},
	1: {"nonce+1", "nonce-1", "nonce=arg", "nonce=0", "nonce=max", "protocol=arg", "protocol=responder's", "protocol=empty", "nonce+protocol", "same-values",
		"replay", "confuse", "byteflip", "truncate", "append-unknown-field"},
	2: {"nonce+1", "nonce-1", "nonce=arg", "nonce=nonce1", "challenge-bitflip", "challenge=zero", "challenge-for-swapped-nonces",
		"nonce+challenge-recomputed", "protocol=arg", "protocol=empty", "all-fields", "same-values",
		"replay", "confuse", "byteflip", "truncate", "append-unknown-field"},
	3: {"challenge-bitflip", "challenge=zero", "challenge-for-other-nonces", "challenge-for-swapped-nonces", "same-values",
		"replay", "confuse", "byteflip", "truncate", "append-unknown-field"},
}

type c20Fixed struct{ b []byte }

func (f *c20Fixed) Read(p []byte) (int, error) {
	n := copy(p, f.b)
	f.b = f.b[n:]
	if n == 0 {
		return 0, io.EOF
	}
	return n, nil
}

func c20U64(s string) uint64 {
	var v uint64
	fmt.Sscanf(s, "%d", &v)
	return v
}

// c20Run executes one handshake according to the plan. prev is a completed
// earlier handshake (same protocol on both sides) whose acts are used for
// replays. It returns whether the handshake completed, whether the oracle
// expects completion, the stage that failed and the session.
func c20Run(r *verifkit.Run, pl c20Plan, prev *c20Session, rng *rand.Rand) (completed, expected bool, stage string, s c20Session, err error) {
	// ---- act 1
	var ia1 *InitiatorAct1
	if pl.Nonce1 == "crand" {
		ia1, err = InitiateHandshake(pl.P1)
		if err != nil {
			return false, false, "initiate", s, err
		}
	} else {
		ia1 = &InitiatorAct1{nonce1: c20U64(pl.Nonce1), protocol1: pl.P1}
	}
	s.n1 = ia1.nonce1
	m1 := ia1.Message()
	if s.act1, err = m1.Marshal(); err != nil {
		return false, false, "marshal1", s, err
	}
	changed := false
	wire1 := s.act1
	if pl.Act == 1 {
		wire1 = c20TamperAct1(pl, m1, s, prev, rng)
	}
	var r1 Act1Message
	if e := r1.Unmarshal(wire1); e != nil {
		// an act that was not touched must decode
		return false, pl.P1 == pl.P2 && bytes.Equal(wire1, s.act1), "decode1", s, nil
	}
	if r1.nonce1 != m1.nonce1 || r1.protocol1 != m1.protocol1 {
		changed = true
		if pl.Act != 1 {
			r.Violation("untampered-act1-decodes-differently", fmt.Sprintf("act 1 was not interfered with but decodes to nonce %d protocol %q instead of nonce %d protocol %q", r1.nonce1, r1.protocol1, m1.nonce1, m1.protocol1), verifkit.JSON(pl), nil)
		}
	}
	expected = pl.P1 == pl.P2 && !changed

	// ---- act 2
	ra2, e := AnswerHandshake(&r1, pl.P2)
	if e != nil {
		return false, expected, "answer", s, nil
	}
	s.n2 = ra2.nonce2
	m2 := ra2.Message()
	if s.act2, err = m2.Marshal(); err != nil {
		return false, false, "marshal2", s, err
	}
	wire2 := s.act2
	if pl.Act == 2 {
		wire2 = c20TamperAct2(pl, m2, s, prev, rng)
	}
	var r2 Act2Message
	if e := r2.Unmarshal(wire2); e != nil {
		return false, expected && bytes.Equal(wire2, s.act2), "decode2", s, nil
	}
	if r2.nonce2 != m2.nonce2 || r2.challenge != m2.challenge || r2.protocol2 != m2.protocol2 {
		changed = true
		if pl.Act != 2 {
			r.Violation("untampered-act2-decodes-differently", fmt.Sprintf("act 2 was not interfered with but decodes to nonce %d instead of nonce %d (or to another challenge / protocol)", r2.nonce2, m2.nonce2), verifkit.JSON(pl), nil)
		}
	}
	expected = pl.P1 == pl.P2 && !changed
	ia3, e := ia1.Next().Next(&r2)
	if e != nil {
		return false, expected, "initiator-act2", s, nil
	}

	// ---- act 3
	m3 := ia3.Message()
	if s.act3, err = m3.Marshal(); err != nil {
		return false, false, "marshal3", s, err
	}
	wire3 := s.act3
	if pl.Act == 3 {
		wire3 = c20TamperAct3(pl, m3, s, prev, rng)
	}
	var r3 Act3Message
	if e := r3.Unmarshal(wire3); e != nil {
		return false, expected && bytes.Equal(wire3, s.act3), "decode3", s, nil
	}
	if r3.challenge != m3.challenge {
		changed = true
		if pl.Act != 3 {
			r.Violation("untampered-act3-decodes-differently", "act 3 was not interfered with but decodes to another challenge", verifkit.JSON(pl), nil)
		}
	}
	expected = pl.P1 == pl.P2 && !changed
	if e := ra2.Next().FinalizeHandshake(&r3); e != nil {
		return false, expected, "finalize", s, nil
	}
	s.ok = true
	return true, expected, "", s, nil
}

func c20Bytes(pl c20Plan, own []byte, prevAct []byte, other []byte, rng *rand.Rand) ([]byte, bool) {
	switch pl.Mode {
	case "replay":
		if prevAct != nil {
			return prevAct, true
		}
		return own, true
	case "confuse":
		return other, true
	case "byteflip":
		if len(own) == 0 {
			return own, true
		}
		b := append([]byte(nil), own...)
		b[rng.Intn(len(b))] ^= byte(1 << uint(rng.Intn(8)))
		return b, true
	case "truncate":
		if len(own) == 0 {
			return own, true
		}
		return own[:rng.Intn(len(own))], true
	case "append-unknown-field":
		// field 15, varint: decoders must ignore it, the act is unchanged
		return append(append([]byte(nil), own...), 0x78, byte(rng.Intn(128))), true
	}
	return nil, false
}

func c20Must(b []byte, err error) []byte {
	if err != nil {
		panic(err)
	}
	return b
}

func c20TamperAct1(pl c20Plan, m *Act1Message, s c20Session, prev *c20Session, rng *rand.Rand) []byte {
	var prevAct []byte
	if prev != nil {
		prevAct = prev.act1
	}
	// another act's bytes: an act-3-shaped message (no act 2/3 exists yet in this session)
	other := c20Must((&Act3Message{challenge: hashToChallenge(s.n1, pl.Arg)}).Marshal())
	if prev != nil && rng.Intn(2) == 0 {
		other = prev.act2
	}
	if b, ok := c20Bytes(pl, s.act1, prevAct, other, rng); ok {
		return b
	}
	t := *m
	switch pl.Mode {
	case "nonce+1":
		t.nonce1++
	case "nonce-1":
		t.nonce1--
	case "nonce=arg":
		t.nonce1 = pl.Arg
	case "nonce=0":
		t.nonce1 = 0
	case "nonce=max":
		t.nonce1 = math.MaxUint64
	case "protocol=arg":
		t.protocol1 = pl.ArgS
	case "protocol=responder's":
		t.protocol1 = pl.P2
	case "protocol=empty":
		t.protocol1 = ""
	case "nonce+protocol":
		t.nonce1 ^= pl.Arg | 1
		t.protocol1 = pl.ArgS
	case "same-values":
	}
	return c20Must(t.Marshal())
}

func c20TamperAct2(pl c20Plan, m *Act2Message, s c20Session, prev *c20Session, rng *rand.Rand) []byte {
	var prevAct []byte
	if prev != nil {
		prevAct = prev.act2
	}
	other := s.act1
	if rng.Intn(2) == 0 {
		other = c20Must((&Act3Message{challenge: m.challenge}).Marshal())
	}
	if b, ok := c20Bytes(pl, s.act2, prevAct, other, rng); ok {
		return b
	}
	t := *m
	switch pl.Mode {
	case "nonce+1":
		t.nonce2++
	case "nonce-1":
		t.nonce2--
	case "nonce=arg":
		t.nonce2 = pl.Arg
	case "nonce=nonce1":
		t.nonce2 = s.n1
	case "challenge-bitflip":
		t.challenge[pl.Arg%32] ^= byte(1 << ((pl.Arg / 32) % 8))
	case "challenge=zero":
		t.challenge = [32]byte{}
	case "challenge-for-swapped-nonces":
		t.challenge = hashToChallenge(s.n2, s.n1)
	case "nonce+challenge-recomputed":
		// what a man in the middle who knows nonce1 would send
		t.nonce2 = pl.Arg
		t.challenge = hashToChallenge(s.n1, pl.Arg)
	case "protocol=arg":
		t.protocol2 = pl.ArgS
	case "protocol=empty":
		t.protocol2 = ""
	case "all-fields":
		t.nonce2 = pl.Arg
		t.challenge = hashToChallenge(s.n1, pl.Arg)
		t.protocol2 = pl.ArgS
	case "same-values":
	}
	return c20Must(t.Marshal())
}

func c20TamperAct3(pl c20Plan, m *Act3Message, s c20Session, prev *c20Session, rng *rand.Rand) []byte {
	var prevAct []byte
	if prev != nil {
		prevAct = prev.act3
	}
	other := s.act2
	if rng.Intn(2) == 0 {
		other = s.act1
	}
	if b, ok := c20Bytes(pl, s.act3, prevAct, other, rng); ok {
		return b
	}
	t := *m
	switch pl.Mode {
	case "challenge-bitflip":
		t.challenge[pl.Arg%32] ^= byte(1 << ((pl.Arg / 32) % 8))
	case "challenge=zero":
		t.challenge = [32]byte{}
	case "challenge-for-other-nonces":
		t.challenge = hashToChallenge(s.n1, pl.Arg)
	case "challenge-for-swapped-nonces":
		t.challenge = hashToChallenge(s.n2, s.n1)
	case "same-values":
	}
	return c20Must(t.Marshal())
}

func c20GenPlan(rng *rand.Rand) c20Plan {
	pl := c20Plan{Nonce1: "crand", Nonce2: "crand"}
	pl.P1 = c20Protocols[rng.Intn(len(c20Protocols))]
	if rng.Intn(3) > 0 {
		pl.P2 = pl.P1
	} else {
		pl.P2 = c20Protocols[rng.Intn(len(c20Protocols))]
	}
	if rng.Intn(3) > 0 {
		switch rng.Intn(5) {
		case 0:
			pl.Nonce1 = "0"
		case 1:
			pl.Nonce1 = fmt.Sprint(uint64(math.MaxUint64))
		case 2:
			pl.Nonce1 = fmt.Sprint(uint64(rng.Intn(4)))
		default:
			pl.Nonce1 = fmt.Sprint(rng.Uint64())
		}
	}
	pl.Act = rng.Intn(4)
	if rng.Intn(8) == 0 {
		pl.Act = 0
	}
	ms := c20Modes[pl.Act]
	pl.Mode = ms[rng.Intn(len(ms))]
	switch rng.Intn(4) {
	case 0:
		pl.Arg = uint64(rng.Intn(3))
	case 1:
		pl.Arg = math.MaxUint64 - uint64(rng.Intn(2))
	default:
		pl.Arg = rng.Uint64()
	}
	pl.ArgS = c20Protocols[rng.Intn(len(c20Protocols))]
	return pl
}

type c20Stats struct {
	mu         sync.Mutex
	challenges map[[32]byte][2]uint64
}

// c20Judge compares outcome and oracle and keeps the side observations.
func c20Judge(r *verifkit.Run, st *c20Stats, pl c20Plan, desc string, completed, expected bool, stage string, s c20Session) {
	nontrivial := pl.P1 != pl.P2 || (pl.Act != 0 && pl.Mode != "same-values" && pl.Mode != "append-unknown-field")
	r.Case(desc, nontrivial)
	wit := map[string]interface{}{"failed_at": stage, "nonce1": fmt.Sprint(s.n1), "nonce2": fmt.Sprint(s.n2)}
	if completed && !expected {
		cls := "protocol-mismatch"
		if pl.P1 == pl.P2 {
			cls = fmt.Sprintf("act%d:%s", pl.Act, pl.Mode)
		}
		r.Violation("completed-despite:"+cls, "handshake completed although the protocol identifiers differ or an act was altered", desc, wit)
	}
	if !completed && expected {
		r.Violation("honest-handshake-failed@"+stage, "handshake between peers on the same protocol with unaltered acts failed", desc, wit)
	}
	if completed {
		r.Count("completed", 1)
	} else {
		r.Count("failed@"+stage, 1)
	}
	if completed {
		// the challenge carried by the acts must depend on both nonces:
		// two different nonce pairs must never share a challenge
		var m2 Act2Message
		if m2.Unmarshal(s.act2) == nil {
			st.mu.Lock()
			if p, dup := st.challenges[m2.challenge]; dup && p != [2]uint64{s.n1, s.n2} {
				r.Violation("challenge-not-binding", "two different nonce pairs produced the same challenge", desc,
					map[string]interface{}{"pair_a": fmt.Sprint(p), "pair_b": fmt.Sprint([2]uint64{s.n1, s.n2})})
			}
			st.challenges[m2.challenge] = [2]uint64{s.n1, s.n2}
			st.mu.Unlock()
		}
	}
}

func c20B2i(b bool) int64 {
	if b {
		return 1
	}
	return 0
}

func TestVerif_C20_Handshake(t *testing.T) {
	r := verifkit.Start(t, "C20", "handshake")
	defer r.Finish()
	r.SetRule("handshakes with every act passed through Marshal/Unmarshal; protocol pair from a pool of 14 identifiers (equal in 2/3 of cases), nonce1 from crypto/rand or set white-box (0, max, small, PRNG), at most one act interfered with: each field +-1 / PRNG / other nonce / recomputed for another nonce pair / bit flip / zero / other protocol, replay of the same act of an earlier handshake (also with equal nonce1), another act's bytes, byte flip, truncation, unknown field; oracle: completes <=> equal protocols and the act decodes to the values sent. non-trivial = differing protocol ids or an act interfered with")
	r.Assume("protocol identifiers are valid UTF-8 (protobuf string field)")
	r.Assume("at most one act per handshake is interfered with; consistent rewriting of several acts is undetectable at this layer by design (acts are authenticated by the connection layer's signatures)")
	st := &c20Stats{challenges: map[[32]byte][2]uint64{}}
	n := r.N(5000, 300000)
	verifkit.Parallel(n, 0, func(i int) {
		rng := r.SubRand("plan", i)
		pl := c20GenPlan(rng)
		// a completed earlier handshake on the same protocol for replays;
		// with white-box nonce1 it shares nonce1 with the attacked one half
		// of the time
		var prev *c20Session
		if pl.Mode == "replay" {
			pp := c20Plan{P1: pl.P1, P2: pl.P1, Nonce1: "crand", Nonce2: "crand", Mode: "none"}
			if pl.Nonce1 != "crand" && rng.Intn(2) == 0 {
				pp.Nonce1 = pl.Nonce1
			}
			var ps c20Session
			var ok bool
			r.Guard("handshake:", verifkit.JSON(pp), func() { ok, _, _, ps, _ = c20Run(r, pp, nil, rng) })
			if ok {
				prev = &ps
			}
		}
		desc := verifkit.JSON(pl)
		var completed, expected bool
		var stage string
		var s c20Session
		var err error
		if r.Guard("handshake:", desc, func() { completed, expected, stage, s, err = c20Run(r, pl, prev, rng) }) {
			return
		}
		if err != nil {
			r.Violation("handshake:unexpected-error@"+stage, err.Error(), desc, nil)
			return
		}
		c20Judge(r, st, pl, desc, completed, expected, stage, s)
		if i%(n/4+1) == 1 {
			r.Sample(map[string]interface{}{"plan": pl, "completed": completed, "failed_at": stage})
		}
	})
}

// TestVerif_C20_EdgeNonces controls nonce2 as well (crypto/rand.Reader is
// replaced for the duration of a call, hence serial): all pairs over a set of
// boundary values, honest and with every field tampering.
func TestVerif_C20_EdgeNonces(t *testing.T) {
	r := verifkit.Start(t, "C20", "edge-nonces")
	defer r.Finish()
	r.SetRule("nonce1 (white-box) and nonce2 (crypto/rand.Reader replaced) over all pairs of {0,1,2,255,256,2^32-1,2^32,2^63-1,2^63,max-1,max,PRNG x2}, equal protocols and one differing pair, every field tampering mode of every act; same oracle. non-trivial = differing protocol ids or an act interfered with")
	r.Assume("crypto/rand.Read draws from crypto/rand.Reader (Go <= 1.23 behaviour)")
	st := &c20Stats{challenges: map[[32]byte][2]uint64{}}
	rng := r.Rand("edge")
	vals := []uint64{0, 1, 2, 255, 256, 1<<32 - 1, 1 << 32, 1<<63 - 1, 1 << 63, math.MaxUint64 - 1, math.MaxUint64, rng.Uint64(), rng.Uint64()}
	orig := crand.Reader
	defer func() { crand.Reader = orig }()
	stride := r.N(7, 1)
	k := 0
	for _, n1 := range vals {
		for _, n2 := range vals {
			for act := 0; act <= 3; act++ {
				for _, mode := range c20Modes[act] {
					if mode == "replay" {
						continue
					}
					k++
					// quick tier: every pair honest, tamperings thinned out deterministically
					if act != 0 && k%stride != 0 {
						continue
					}
					pl := c20Plan{P1: "keep", P2: "keep", Nonce1: fmt.Sprint(n1), Nonce2: fmt.Sprint(n2), Act: act, Mode: mode,
						Arg: vals[rng.Intn(len(vals))], ArgS: c20Protocols[rng.Intn(len(c20Protocols))]}
					if k%53 == 0 {
						pl.P2 = "keep2"
					}
					desc := verifkit.JSON(pl)
					var completed, expected bool
					var stage string
					var s c20Session
					var err error
					nb := make([]byte, 8)
					for i := 0; i < 8; i++ {
						nb[i] = byte(n2 >> (8 * uint(i)))
					}
					crand.Reader = &c20Fixed{b: nb}
					pan := r.Guard("handshake:", desc, func() { completed, expected, stage, s, err = c20Run(r, pl, nil, rng) })
					crand.Reader = orig
					if pan {
						continue
					}
					if err != nil {
						r.Violation("handshake:unexpected-error@"+stage, err.Error(), desc, nil)
						continue
					}
					if stage != "answer" && stage != "decode1" && s.n2 != n2 {
						r.Inconclusive("nonce2 could not be controlled through crypto/rand.Reader")
						return
					}
					c20Judge(r, st, pl, desc, completed, expected, stage, s)
				}
			}
		}
	}
	r.Count("nonce_pairs", int64(len(vals)*len(vals)))
}

// c20Concurrent runs g goroutines, each completing k honest handshakes between
// peers of the same protocol through the wire encoding, all at the same time in
// one process (a node answers many peers at once). Every one must complete.
func c20Concurrent(r *verifkit.Run, g, k int) {
	var wg sync.WaitGroup
	var done, failed int64
	start := make(chan struct{})
	for w := 0; w < g; w++ {
		wg.Add(1)
		go func(w int) {
			defer wg.Done()
			<-start
			proto := c20Protocols[w%3] // "keep"
			for i := 0; i < k; i++ {
				pl := c20Plan{P1: proto, P2: proto, Nonce1: "crand", Nonce2: "crand", Act: 0, Mode: "none"}
				completed, _, stage, s, err := c20Run(r, pl, nil, nil)
				atomic.AddInt64(&done, 1)
				if !completed {
					if atomic.AddInt64(&failed, 1) <= 3 {
						r.Violation("concurrent:honest-handshake-failed", fmt.Sprintf("an honest handshake between peers of protocol %q, run while %d others were in progress, failed at stage %q (err %v; nonces %d/%d)", proto, g-1, stage, err, s.n1, s.n2), fmt.Sprintf("goroutine %d handshake %d", w, i), nil)
					}
				}
			}
		}(w)
	}
	close(start)
	wg.Wait()
	r.Count("concurrent_handshakes", done)
	r.Count("concurrent_handshakes_failed", failed)
	for i := 0; i < int(done) && i < 64; i++ {
		r.Case(fmt.Sprintf("concurrent honest handshake slot %d", i), true)
	}
}

func TestVerif_C20_Concurrent(t *testing.T) {
	r := verifkit.Start(t, "C20", "concurrent")
	defer r.Finish()
	r.SetRule("16 goroutines x N honest handshakes (same protocol on both sides, every act through Marshal/Unmarshal) running at the same time in one process; every handshake must complete and every untouched act must decode to what was sent")
	c20Concurrent(r, 16, r.N(4000, 60000))
}

func TestVerif_C20_ConcurrentRace(t *testing.T) {
	r := verifkit.Start(t, "C20", "concurrent-race")
	defer r.Finish()
	r.SetRule("the concurrent part under the race detector (8 goroutines x N honest handshakes); a race in the handshake package is a violation")
	c20Concurrent(r, 8, r.N(500, 5000))
}
