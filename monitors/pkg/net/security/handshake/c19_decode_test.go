//go:build verif

package handshake

import (
	"math/rand"
	"testing"

	"github.com/keep-network/keep-core/internal/verifkit"
)

func c19Nonce(rng *rand.Rand) uint64 {
	switch rng.Intn(6) {
	case 0:
		return 0
	case 1:
		return ^uint64(0)
	}
	return rng.Uint64()
}

func TestVerif_C19_Handshake(t *testing.T) {
	r := verifkit.Start(t, "C19", "handshake")
	defer r.Finish()
	const f = "marshaling.go"
	c19Run(r, "handshake", []c19Decoder{
		{
			Type: "Act1Message", File: f,
			New: func() c19Codec { return &Act1Message{} },
			Gen: func(rng *rand.Rand, i int) c19Codec {
				return &Act1Message{nonce1: c19Nonce(rng), protocol1: c19String(rng)}
			},
		},
		{
			Type: "Act2Message", File: f,
			New: func() c19Codec { return &Act2Message{} },
			Gen: func(rng *rand.Rand, i int) c19Codec {
				m := &Act2Message{nonce2: c19Nonce(rng), protocol2: c19String(rng)}
				copy(m.challenge[:], c19Bytes(rng, 32, 32))
				return m
			},
		},
		{
			Type: "Act3Message", File: f,
			New: func() c19Codec { return &Act3Message{} },
			Gen: func(rng *rand.Rand, i int) c19Codec {
				m := &Act3Message{}
				copy(m.challenge[:], c19Bytes(rng, 32, 32))
				return m
			},
		},
	})
}
