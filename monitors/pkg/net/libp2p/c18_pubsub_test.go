//go:build verif

package libp2p

import (
	"bytes"
	"context"
	crand "crypto/rand"
	"fmt"
	"math/big"
	"reflect"
	"testing"
	"unsafe"

	pubsub "github.com/libp2p/go-libp2p-pubsub"
	pubsubpb "github.com/libp2p/go-libp2p-pubsub/pb"
	libp2pcrypto "github.com/libp2p/go-libp2p/core/crypto"
	cryptopb "github.com/libp2p/go-libp2p/core/crypto/pb"
	"github.com/libp2p/go-libp2p/core/peer"
	"google.golang.org/protobuf/proto"

	"github.com/keep-network/keep-core/internal/verifkit"
	"github.com/keep-network/keep-core/pkg/net"
	"github.com/keep-network/keep-core/pkg/net/gen/pb"
)

// C18 one level up: pubsub messages into the real processPubsubMessage.
//
// A pubsub message names two peers: its signed author (pb.Message.From, what
// GetFrom() returns; pubsub has verified the signature against it) and the
// neighbour it was received from (ReceivedFrom). They are equal only for a
// message received directly from its author. The "authenticated peer that
// published it" of the property is the author.
//
// Oracle (the monitor's own decoding of Data and of the inner identity):
// delivered <=> Data is a decodable envelope, its type is registered, the
// unmarshaler accepts the payload, the inner sender bytes hold a secp256k1 key
// and the peer id of that key equals the AUTHOR — whoever forwarded the
// message. A delivered message carries the author as transport sender and the
// author's key, uncompressed, as sender public key.

const c18psType = "c18ps/message"

type c18psPayload struct{ data []byte }

func (p *c18psPayload) Type() string { return c18psType }
func (p *c18psPayload) Unmarshal(b []byte) error {
	if !c18psPayloadOK(b) {
		return fmt.Errorf("c18ps: payload rejected")
	}
	p.data = append([]byte(nil), b...)
	return nil
}

func c18psPayloadOK(b []byte) bool { return len(b) >= 2 && b[0] == 0xC5 && len(b)%2 == 0 }

type c18psKey struct {
	kind         string
	pub          libp2pcrypto.PubKey
	id           peer.ID
	ident        []byte
	uncompressed []byte
}

func c18psUncompress(comp []byte) []byte {
	if len(comp) != 33 || (comp[0] != 2 && comp[0] != 3) {
		return nil
	}
	p, _ := new(big.Int).SetString("fffffffffffffffffffffffffffffffffffffffffffffffffffffffefffffc2f", 16)
	x := new(big.Int).SetBytes(comp[1:])
	y2 := new(big.Int).Exp(x, big.NewInt(3), p)
	y2.Add(y2, big.NewInt(7)).Mod(y2, p)
	y := new(big.Int).ModSqrt(y2, p)
	if y == nil {
		return nil
	}
	if y.Bit(0) != uint(comp[0]&1) {
		y.Sub(p, y)
	}
	out := make([]byte, 65)
	out[0] = 4
	x.FillBytes(out[1:33])
	y.FillBytes(out[33:])
	return out
}

func c18psNewKey(kind string) *c18psKey {
	var pub libp2pcrypto.PubKey
	var err error
	switch kind {
	case "secp256k1":
		_, pub, err = libp2pcrypto.GenerateSecp256k1Key(crand.Reader)
	case "ed25519":
		_, pub, err = libp2pcrypto.GenerateEd25519Key(crand.Reader)
	}
	if err != nil {
		panic(err)
	}
	id, err := peer.IDFromPublicKey(pub)
	if err != nil {
		panic(err)
	}
	kb, err := libp2pcrypto.MarshalPublicKey(pub)
	if err != nil {
		panic(err)
	}
	ident, err := proto.Marshal(&pb.Identity{PubKey: kb})
	if err != nil {
		panic(err)
	}
	k := &c18psKey{kind: kind, pub: pub, id: id, ident: ident}
	if kind == "secp256k1" {
		raw, _ := pub.Raw()
		k.uncompressed = c18psUncompress(raw)
	}
	return k
}

// c18psDecodeIdentity: the monitor's own reading of the inner sender bytes.
func c18psDecodeIdentity(sender []byte) (peer.ID, []byte, bool) {
	var ident pb.Identity
	if proto.Unmarshal(sender, &ident) != nil {
		return "", nil, false
	}
	var pk cryptopb.PublicKey
	if proto.Unmarshal(ident.PubKey, &pk) != nil || pk.GetType() != cryptopb.KeyType_Secp256k1 {
		return "", nil, false
	}
	pub, err := libp2pcrypto.UnmarshalSecp256k1PublicKey(pk.GetData())
	if err != nil {
		return "", nil, false
	}
	id, err := peer.IDFromPublicKey(pub)
	if err != nil {
		return "", nil, false
	}
	raw, err := pub.Raw()
	if err != nil {
		return "", nil, false
	}
	return id, c18psUncompress(raw), true
}

type c18psCase struct {
	Class    string `json:"class"`
	Author   string `json:"author"`
	Inner    string `json:"inner_identity"`
	Relay    string `json:"received_from"`
	Type     string `json:"type"`
	Payload  string `json:"payload"`
	Seq      uint64 `json:"seqno"`
	FromHex  string `json:"from_hex"`
	RelayHex string `json:"received_from_hex"`
	DataHex  string `json:"data_hex"`
}

func TestVerif_C18_PubsubRelay(t *testing.T) {
	r := verifkit.Start(t, "C18", "pubsub-relay")
	defer r.Finish()
	r.SetRule("pubsub.Message values into processPubsubMessage: author (pb From) = honest peer A / attacker M / ed25519 peer / malformed bytes (empty, nil, garbage, truncated, bit-flipped); inner identity = the author's / the victim A's under author M (forgery) / another peer's / malformed; ReceivedFrom = the author (direct) / relays B, C / the victim A itself / the attacker / the local node / empty / garbage; on top: unknown type, rejected payload, undecodable or nil Data. Oracle: delivered <=> decodable envelope, registered type, accepted payload, secp256k1 inner key whose peer id == author, irrespective of ReceivedFrom; delivered message carries author id and author key. non-trivial = anything but a well-formed message received directly from its author")
	r.Assume("the author of a pubsub message is pb.Message.From (StrictSign: pubsub verified the signature against it); libp2p key unmarshalling and peer-id derivation are trusted")

	var honest []*c18psKey
	for i := 0; i < 6; i++ {
		honest = append(honest, c18psNewKey("secp256k1"))
	}
	relays := []*c18psKey{c18psNewKey("secp256k1"), c18psNewKey("secp256k1")}
	attackers := []*c18psKey{c18psNewKey("secp256k1"), c18psNewKey("secp256k1")}
	edPeer := c18psNewKey("ed25519")
	local := c18psNewKey("secp256k1")
	for _, k := range append(append(append([]*c18psKey{local}, honest...), relays...), attackers...) {
		if k.uncompressed == nil {
			r.Inconclusive("monitor could not decompress a generated secp256k1 key")
			return
		}
	}

	n := r.N(4000, 120000)
	streams := 16
	per := (n + streams - 1) / streams
	topic := "c18ps"
	verifkit.Parallel(streams, 0, func(si int) {
		rng := r.SubRand("pubsub", si)
		raw := make(chan net.Message, 16)
		ch := c18psInitUnmarshalers(&channel{
			name:            topic,
			clientIdentity:  &identity{id: local.id, pubKey: local.pub},
			messageHandlers: []*messageHandler{{ctx: context.Background(), channel: raw}},
		})
		ch.SetUnmarshaler(func() net.TaggedUnmarshaler { return &c18psPayload{} })
		var seq uint64
		type kept struct {
			m       net.Message
			payload []byte
			author  string
			desc    string
		}
		var keptMsgs []kept
		defer func() {
			for _, km := range keptMsgs {
				p, ok := km.m.Payload().(*c18psPayload)
				if !ok || !bytes.Equal(p.data, km.payload) || km.m.TransportSenderID() == nil || km.m.TransportSenderID().String() != km.author {
					r.Violation("pubsub:delivered-content-changed-later", "payload or author of a message already delivered changed after later pubsub messages (delivered and dropped ones) were processed", km.desc, nil)
					break
				}
			}
			r.Count("delivered_messages_rechecked_at_end", int64(len(keptMsgs)))
		}()
		for k := 0; k < per; k++ {
			seq++
			a := honest[rng.Intn(len(honest))]
			m := attackers[rng.Intn(len(attackers))]
			c := c18psCase{Seq: seq, Type: "registered", Payload: "accepted"}
			typ := []byte(c18psType)
			payload := make([]byte, 2*(1+rng.Intn(6)))
			rng.Read(payload)
			payload[0] = 0xC5
			var from []byte
			var inner []byte
			var relay peer.ID

			pickRelay := func(author *c18psKey, exclude string) {
				for {
					switch rng.Intn(7) {
					case 0:
						c.Relay, relay = "relay-B", relays[0].id
					case 1:
						c.Relay, relay = "relay-C", relays[1].id
					case 2:
						c.Relay, relay = "attacker", m.id
					case 3:
						c.Relay, relay = "local-node", local.id
					case 4:
						c.Relay, relay = "empty", peer.ID("")
					case 5:
						g := make([]byte, 1+rng.Intn(40))
						rng.Read(g)
						c.Relay, relay = "garbage", peer.ID(g)
					case 6:
						c.Relay, relay = "another-honest-peer", honest[rng.Intn(len(honest))].id
					}
					if c.Relay != exclude && (author == nil || relay != author.id) {
						return
					}
				}
			}

			switch cls := rng.Intn(10); cls {
			case 0: // genuine, direct
				c.Class, c.Author, c.Inner, c.Relay = "genuine-direct", "A", "A", "author"
				from, inner, relay = []byte(a.id), a.ident, a.id
			case 1, 2: // genuine, relayed
				c.Class, c.Author, c.Inner = "genuine-relayed", "A", "A"
				from, inner = []byte(a.id), a.ident
				pickRelay(a, "")
			case 3: // forgery relayed by the victim's own node
				c.Class, c.Author, c.Inner, c.Relay = "forgery-relayed-by-victim", "M", "A", "victim-A"
				from, inner, relay = []byte(m.id), a.ident, a.id
			case 4: // forgery, direct from the attacker
				c.Class, c.Author, c.Inner, c.Relay = "forgery-direct", "M", "A", "author"
				from, inner, relay = []byte(m.id), a.ident, m.id
			case 5: // forgery, relayed by somebody else
				c.Class, c.Author, c.Inner = "forgery-relayed", "M", "A"
				from, inner = []byte(m.id), a.ident
				pickRelay(m, "attacker")
			case 6: // malformed author
				c.Class, c.Inner = "malformed-author", "A"
				inner = a.ident
				switch rng.Intn(6) {
				case 0:
					c.Author, from = "empty", []byte{}
				case 1:
					c.Author, from = "nil", nil
				case 2:
					g := make([]byte, 1+rng.Intn(45))
					rng.Read(g)
					c.Author, from = "garbage", g
				case 3:
					b := []byte(a.id)
					c.Author, from = "A-truncated", b[:rng.Intn(len(b))]
				case 4:
					b := append([]byte(nil), []byte(a.id)...)
					b[rng.Intn(len(b))] ^= byte(1 << uint(rng.Intn(8)))
					c.Author, from = "A-bitflip", b
				case 5:
					c.Author, from = "A-with-trailing-byte", append(append([]byte(nil), []byte(a.id)...), byte(rng.Intn(256)))
				}
				// received from the victim itself half of the time: the inner identity matches the neighbour
				if rng.Intn(2) == 0 {
					c.Relay, relay = "victim-A", a.id
				} else {
					pickRelay(nil, "")
				}
			case 7: // non-operator author whose inner identity matches it
				c.Class, c.Author, c.Inner = "ed25519-author", "ed25519-peer", "ed25519-peer"
				from, inner = []byte(edPeer.id), edPeer.ident
				if rng.Intn(2) == 0 {
					c.Relay, relay = "author", edPeer.id
				} else {
					c.Relay, relay = "victim-A", a.id
				}
			case 8: // genuine author, damaged inner identity, any relay
				c.Class, c.Author = "damaged-inner-identity", "A"
				from = []byte(a.id)
				switch rng.Intn(5) {
				case 0:
					c.Inner, inner = "empty", []byte{}
				case 1:
					c.Inner, inner = "truncated", a.ident[:rng.Intn(len(a.ident))]
				case 2:
					b := append([]byte(nil), a.ident...)
					b[rng.Intn(len(b))] ^= byte(1 << uint(rng.Intn(8)))
					c.Inner, inner = "bitflip", b
				case 3:
					// inner identity of the relay: matches ReceivedFrom, not the author
					c.Inner, inner = "relay-B", relays[0].ident
				case 4:
					c.Inner, inner = "another-honest-peer", honest[rng.Intn(len(honest))].ident
				}
				if c.Inner == "relay-B" {
					c.Relay, relay = "relay-B", relays[0].id
				} else if rng.Intn(2) == 0 {
					c.Relay, relay = "author", a.id
				} else {
					pickRelay(a, "")
				}
			case 9: // genuine author and identity, damaged envelope, direct or relayed
				c.Class, c.Author, c.Inner = "damaged-envelope", "A", "A"
				from, inner = []byte(a.id), a.ident
				if rng.Intn(2) == 0 {
					c.Relay, relay = "author", a.id
				} else {
					pickRelay(a, "")
				}
				switch rng.Intn(5) {
				case 0:
					c.Type, typ = "unknown", []byte("c18ps/unknown")
				case 1:
					c.Type, typ = "empty", nil
				case 2:
					c.Payload, payload = "rejected", append([]byte{0xC4}, payload[1:]...)
				case 3:
					c.Payload, payload = "nil", nil
				case 4:
					c.Payload = "undecodable-data" // handled below
				}
			}

			data, err := proto.Marshal(&pb.BroadcastNetworkMessage{Sender: inner, Payload: payload, Type: typ, SequenceNumber: seq})
			if err != nil {
				r.Inconclusive("monitor could not marshal an envelope: " + err.Error())
				return
			}
			if c.Payload == "undecodable-data" {
				switch rng.Intn(3) {
				case 0:
					data = data[:1+rng.Intn(len(data)-1)]
				case 1:
					data = nil
				case 2:
					g := make([]byte, 1+rng.Intn(30))
					rng.Read(g)
					data = g
				}
			}
			c.FromHex, c.RelayHex, c.DataHex = verifkit.Hex(from), verifkit.Hex([]byte(relay)), verifkit.Hex(data)
			desc := verifkit.JSON(c)

			// ---- oracle: the monitor's own decoding
			author := peer.ID(from)
			var env pb.BroadcastNetworkMessage
			envOK := proto.Unmarshal(data, &env) == nil
			innerID, innerKey, innerOK := c18psDecodeIdentity(env.Sender)
			want := envOK && string(env.Type) == c18psType && c18psPayloadOK(env.Payload) && innerOK && innerID == author
			if (c.Class == "genuine-direct" || c.Class == "genuine-relayed") && !want {
				r.Inconclusive("monitor's own decoding rejects a message that is genuine by construction: " + desc)
				continue
			}

			msg := &pubsub.Message{
				Message:      &pubsubpb.Message{From: from, Data: data, Seqno: []byte{byte(seq >> 8), byte(seq)}, Topic: &topic},
				ReceivedFrom: relay,
			}
			var perr error
			if r.Guard("pubsub:", desc, func() { perr = ch.processPubsubMessage(msg) }) {
				continue
			}
			var got []net.Message
			for {
				select {
				case x := <-raw:
					got = append(got, x)
					continue
				default:
				}
				break
			}
			r.Case(desc, c.Class != "genuine-direct")
			r.Count("class:"+c.Class, 1)
			wit := map[string]interface{}{"author": author.String(), "received_from": relay.String(), "inner_identity": innerID.String(), "error": fmt.Sprint(perr)}
			switch {
			case len(got) > 1:
				r.Violation("pubsub:delivered-more-than-once", fmt.Sprintf("one pubsub message produced %d deliveries", len(got)), desc, wit)
			case len(got) == 1 && !want:
				cls := "not-deliverable"
				switch {
				case envOK && innerOK && innerID != author && innerID == relay:
					cls = "inner-identity-of-the-forwarding-neighbour"
				case envOK && innerOK && innerID != author:
					cls = "foreign-identity"
				case envOK && !innerOK:
					cls = "undecodable-identity"
				}
				wit["delivered_sender"] = got[0].TransportSenderID().String()
				r.Violation("pubsub:delivered:"+cls, "pubsub message delivered although its inner sender identity is not its authenticated author (or it is otherwise not deliverable)", desc, wit)
			case len(got) == 0 && want:
				cls := "direct"
				if relay != author {
					cls = "relayed"
				}
				r.Violation("pubsub:dropped-genuine:"+cls, "a genuine message (inner identity == authenticated author) was not delivered", desc, wit)
			}
			if len(got) == 0 && perr == nil {
				r.Violation("pubsub:silent-drop", "pubsub message neither delivered nor rejected with an error", desc, wit)
			}
			if want {
				r.Count("genuine", 1)
				if len(got) == 1 {
					r.Count("genuine_delivered", 1)
				}
				if relay != author {
					r.Count("genuine_relayed", 1)
				}
			}
			if len(got) >= 1 {
				x := got[0]
				var problems []string
				if x.TransportSenderID() == nil || x.TransportSenderID().String() != author.String() {
					problems = append(problems, "transport sender is not the author")
				}
				if innerOK && !bytes.Equal(x.SenderPublicKey(), innerKey) {
					problems = append(problems, "sender public key is not the author's uncompressed key")
				}
				if x.Seqno() != env.SequenceNumber || x.Type() != string(env.Type) {
					problems = append(problems, "type or sequence number differ from the envelope's")
				}
				if p, ok := x.Payload().(*c18psPayload); !ok || !bytes.Equal(p.data, env.Payload) {
					problems = append(problems, "payload differs from the envelope's")
				}
				for _, p := range problems {
					r.Violation("pubsub:wrong-content", p, desc, wit)
				}
				if len(problems) == 0 && len(keptMsgs) < 64 {
					keptMsgs = append(keptMsgs, kept{x, append([]byte(nil), env.Payload...), author.String(), desc})
				}
			}
			if si == 0 && (k == 2 || k == 11 || k == 29) {
				c2 := c
				c2.DataHex = ""
				r.Sample(map[string]interface{}{"case": c2, "delivered": len(got), "error": fmt.Sprint(perr)})
			}
		}
	})
}

// c18psInitUnmarshalers gives the channel an empty unmarshaler registry
// whatever the registry's concrete map type is (so the monitor keeps
// compiling when that representation changes).
func c18psInitUnmarshalers(c *channel) *channel {
	f := reflect.ValueOf(c).Elem().FieldByName("unmarshalersByType")
	if !f.IsValid() || f.Kind() != reflect.Map {
		panic("verif: channel has no unmarshalersByType map")
	}
	reflect.NewAt(f.Type(), unsafe.Pointer(f.UnsafeAddr())).Elem().Set(reflect.MakeMap(f.Type()))
	return c
}
