//go:build verif

package libp2p

import (
	"bytes"
	"context"
	crand "crypto/rand"
	"fmt"
	"math/big"
	"reflect"
	"testing"
	"unsafe"

	libp2pcrypto "github.com/libp2p/go-libp2p/core/crypto"
	cryptopb "github.com/libp2p/go-libp2p/core/crypto/pb"
	"github.com/libp2p/go-libp2p/core/peer"
	"google.golang.org/protobuf/proto"

	"github.com/keep-network/keep-core/internal/verifkit"
	"github.com/keep-network/keep-core/pkg/net"
	"github.com/keep-network/keep-core/pkg/net/gen/pb"
)

// C18: envelopes are fed to the real channel.processContainerMessage together
// with the authenticated publisher (`from`). Delivery is observed at a raw
// messageHandler queue placed white-box into channel.messageHandlers (that is
// where deliver() puts messages), drained after every call, so the observation
// is synchronous and exact per envelope.
//
// Oracle (computed by the monitor's own decoding, not by identity.go /
// channel.go): an envelope is delivered <=> its type is registered, the
// registered unmarshaler accepts the payload, the inner sender bytes decode to
// a secp256k1 public key, and the peer id of that key equals `from`. A
// delivered message must carry `from` as transport sender, the uncompressed
// form of that key as sender public key, and the envelope's type, payload and
// sequence number.

const c18Type = "c18/message"
const c18OtherType = "c18/other"

// c18Payload accepts payloads that start with 0xC1 and have an even length.
type c18Payload struct{ data []byte }

func (p *c18Payload) Type() string { return c18Type }
func (p *c18Payload) Unmarshal(b []byte) error {
	if len(b) < 2 || b[0] != 0xC1 || len(b)%2 != 0 {
		return fmt.Errorf("c18: payload rejected")
	}
	p.data = append([]byte(nil), b...)
	return nil
}

type c18Other struct{ c18Payload }

func (p *c18Other) Type() string { return c18OtherType }

func c18PayloadOK(b []byte) bool { return len(b) >= 2 && b[0] == 0xC1 && len(b)%2 == 0 }

type c18Key struct {
	kind  string
	priv  libp2pcrypto.PrivKey
	pub   libp2pcrypto.PubKey
	id    peer.ID
	ident []byte // well-formed inner identity bytes (pb.Identity{PubKey: libp2p-marshalled key})
	// secp256k1 only: uncompressed 65-byte operator key
	uncompressed []byte
}

func c18MakeIdent(pub libp2pcrypto.PubKey) []byte {
	kb, err := libp2pcrypto.MarshalPublicKey(pub)
	if err != nil {
		panic(err)
	}
	b, err := proto.Marshal(&pb.Identity{PubKey: kb})
	if err != nil {
		panic(err)
	}
	return b
}

func c18NewKey(kind string) *c18Key {
	var priv libp2pcrypto.PrivKey
	var pub libp2pcrypto.PubKey
	var err error
	switch kind {
	case "secp256k1":
		priv, pub, err = libp2pcrypto.GenerateSecp256k1Key(crand.Reader)
	case "ed25519":
		priv, pub, err = libp2pcrypto.GenerateEd25519Key(crand.Reader)
	case "ecdsa":
		priv, pub, err = libp2pcrypto.GenerateECDSAKeyPair(crand.Reader)
	case "rsa":
		priv, pub, err = libp2pcrypto.GenerateRSAKeyPair(2048, crand.Reader)
	}
	if err != nil {
		panic(err)
	}
	id, err := peer.IDFromPublicKey(pub)
	if err != nil {
		panic(err)
	}
	k := &c18Key{kind: kind, priv: priv, pub: pub, id: id, ident: c18MakeIdent(pub)}
	if kind == "secp256k1" {
		raw, _ := pub.Raw() // 33-byte compressed
		k.uncompressed = c18Uncompress(raw)
	}
	return k
}

// c18Uncompress turns a 33-byte compressed secp256k1 point into the 65-byte
// uncompressed form with plain big.Int arithmetic (independent of the
// conversions in key.go and of btcec).
func c18Uncompress(comp []byte) []byte {
	if len(comp) != 33 || (comp[0] != 2 && comp[0] != 3) {
		return nil
	}
	// y^2 = x^3 + 7 over the secp256k1 prime field
	p, _ := new(big.Int).SetString("fffffffffffffffffffffffffffffffffffffffffffffffffffffffefffffc2f", 16)
	x := new(big.Int).SetBytes(comp[1:])
	y2 := new(big.Int).Exp(x, big.NewInt(3), p)
	y2.Add(y2, big.NewInt(7)).Mod(y2, p)
	y := new(big.Int).ModSqrt(y2, p)
	if y == nil {
		return nil
	}
	if y.Bit(0) != uint(comp[0]&1) {
		y.Sub(p, y)
	}
	out := make([]byte, 65)
	out[0] = 4
	x.FillBytes(out[1:33])
	y.FillBytes(out[33:])
	return out
}

// c18Decode is the monitor's own reading of the inner sender bytes: ok only
// when they hold a secp256k1 key; returns its peer id and uncompressed form.
func c18Decode(sender []byte) (id peer.ID, uncompressed []byte, ok bool) {
	var ident pb.Identity
	if err := proto.Unmarshal(sender, &ident); err != nil {
		return "", nil, false
	}
	var pk cryptopb.PublicKey
	if err := proto.Unmarshal(ident.PubKey, &pk); err != nil {
		return "", nil, false
	}
	if pk.GetType() != cryptopb.KeyType_Secp256k1 {
		return "", nil, false
	}
	pub, err := libp2pcrypto.UnmarshalSecp256k1PublicKey(pk.GetData())
	if err != nil {
		return "", nil, false
	}
	id, err = peer.IDFromPublicKey(pub)
	if err != nil {
		return "", nil, false
	}
	raw, err := pub.Raw()
	if err != nil {
		return "", nil, false
	}
	return id, c18Uncompress(raw), true
}

type c18Env struct {
	FromKind   string `json:"from"`
	SenderKind string `json:"sender"`
	TypeKind   string `json:"type"`
	PayKind    string `json:"payload"`
	Seq        uint64 `json:"seqno"`
	SenderHex  string `json:"sender_hex,omitempty"`
	PayHex     string `json:"payload_hex,omitempty"`
	FromHex    string `json:"from_hex,omitempty"`
}

func TestVerif_C18_Attribution(t *testing.T) {
	r := verifkit.Start(t, "C18", "attribution")
	defer r.Finish()
	r.SetRule("stream of envelopes into processContainerMessage(from, envelope) of a channel with one registered type: from = publisher's secp256k1 peer id / another peer's / an ed25519, ECDSA or RSA peer's / empty / garbage; inner sender = publisher's identity / another secp256k1 peer's / non-secp key (matching `from` or not) / empty / truncated / bit-flipped / random / wrong key-type tag / a bare key without the Identity wrapper / nil; type registered, unknown, empty, or another registered type; payload accepted or rejected by the unmarshaler or nil; good and bad interleaved (about 1 in 4 good). Oracle by the monitor's own decoding of the sender bytes: delivered <=> registered type and accepted payload and secp256k1 inner key whose peer id == from; delivered message carries from, the key's uncompressed form, type, payload, seqno. non-trivial = envelope that is not a well-formed matching one")
	r.Assume("libp2p's key unmarshalling and peer-id derivation are trusted (used by the oracle as well)")

	// identities
	var secp []*c18Key
	for i := 0; i < 8; i++ {
		secp = append(secp, c18NewKey("secp256k1"))
	}
	for _, k := range secp {
		if k.uncompressed == nil {
			r.Inconclusive("monitor could not decompress a generated secp256k1 key")
			return
		}
	}
	others := []*c18Key{c18NewKey("ed25519"), c18NewKey("ed25519"), c18NewKey("ecdsa"), c18NewKey("rsa")}

	newChannel := func() (*channel, chan net.Message) {
		ch := c18atInitUnmarshalers(&channel{
			name:            "c18",
			clientIdentity:  &identity{id: secp[7].id, pubKey: secp[7].pub, privKey: secp[7].priv},
			messageHandlers: make([]*messageHandler, 0),
		})
		ch.SetUnmarshaler(func() net.TaggedUnmarshaler { return &c18Payload{} })
		ch.SetUnmarshaler(func() net.TaggedUnmarshaler { return &c18Other{} })
		raw := make(chan net.Message, 16)
		ch.messageHandlersMutex.Lock()
		ch.messageHandlers = append(ch.messageHandlers, &messageHandler{ctx: context.Background(), channel: raw})
		ch.messageHandlersMutex.Unlock()
		return ch, raw
	}

	n := r.N(3000, 100000)
	streams := 16
	per := (n + streams - 1) / streams
	verifkit.Parallel(streams, 0, func(si int) {
		rng := r.SubRand("stream", si)
		ch, raw := newChannel()
		var seq uint64
		goodSent, goodDelivered := 0, 0
		// every delivered message is kept together with what it carried at
		// delivery: what the application reads later must still be that
		type kept struct {
			m       net.Message
			payload []byte
			key     []byte
			from    string
			desc    string
		}
		var keptMsgs []kept
		recheck := func(when string) {
			for _, km := range keptMsgs {
				var data []byte
				switch p := km.m.Payload().(type) {
				case *c18Payload:
					data = p.data
				case *c18Other:
					data = p.data
				}
				if !bytes.Equal(data, km.payload) {
					r.Violation("attribution:delivered-content-changed-later", "the payload of a message already delivered and attributed to its author changed "+when+" (it now reads "+verifkit.Hex(data)+")", km.desc, nil)
					return
				}
				if km.m.TransportSenderID() == nil || km.m.TransportSenderID().String() != km.from || !bytes.Equal(km.m.SenderPublicKey(), km.key) {
					r.Violation("attribution:delivered-author-changed-later", "the author of a message already delivered changed "+when, km.desc, nil)
					return
				}
			}
		}
		for k := 0; k < per; k++ {
			seq++
			pubk := secp[rng.Intn(6)]
			e := c18Env{Seq: seq}
			var from peer.ID
			var sender, typ, payload []byte
			good := rng.Intn(4) == 0

			// ---- from
			e.FromKind = "publisher"
			from = pubk.id
			// ---- sender
			e.SenderKind = "publisher"
			sender = pubk.ident
			// ---- type / payload
			e.TypeKind, typ = "registered", []byte(c18Type)
			e.PayKind = "accepted"
			payload = make([]byte, 2*(1+rng.Intn(8)))
			rng.Read(payload)
			payload[0] = 0xC1

			if !good {
				// damage 1-2 dimensions
				dims := 1 + rng.Intn(2)
				for d := 0; d < dims; d++ {
					switch rng.Intn(4) {
					case 0: // from
						switch rng.Intn(6) {
						case 0:
							o := secp[rng.Intn(len(secp))]
							e.FromKind, from = "other-secp256k1-peer", o.id
						case 1:
							o := others[rng.Intn(len(others))]
							e.FromKind, from = "peer-with-"+o.kind+"-key", o.id
						case 2:
							e.FromKind, from = "empty", peer.ID("")
						case 3:
							g := make([]byte, 1+rng.Intn(40))
							rng.Read(g)
							e.FromKind, from = "garbage", peer.ID(g)
						case 4:
							b := []byte(pubk.id)
							b = append([]byte(nil), b...)
							b[rng.Intn(len(b))] ^= byte(1 << uint(rng.Intn(8)))
							e.FromKind, from = "publisher-bitflip", peer.ID(b)
						case 5:
							e.FromKind, from = "local-node", ch.clientIdentity.id
						}
					case 1: // sender
						switch rng.Intn(13) {
						case 0:
							o := secp[rng.Intn(len(secp))]
							e.SenderKind, sender = "other-secp256k1-peer", o.ident
						case 1:
							o := others[rng.Intn(len(others))]
							e.SenderKind, sender = o.kind+"-identity", o.ident
							if rng.Intn(2) == 0 {
								// matching outer id: inner and outer agree but the key is not an operator key
								e.FromKind, from = "peer-with-"+o.kind+"-key", o.id
							}
						case 2:
							e.SenderKind, sender = "empty", []byte{}
						case 3:
							e.SenderKind, sender = "nil", nil
						case 4:
							e.SenderKind, sender = "truncated", pubk.ident[:rng.Intn(len(pubk.ident))]
						case 5:
							b := append([]byte(nil), pubk.ident...)
							b[rng.Intn(len(b))] ^= byte(1 << uint(rng.Intn(8)))
							e.SenderKind, sender = "bitflip", b
						case 6:
							b := make([]byte, rng.Intn(80))
							rng.Read(b)
							e.SenderKind, sender = "random", b
						case 7:
							// secp256k1 key bytes tagged as another key type
							raw, _ := pubk.pub.Raw()
							kt := []cryptopb.KeyType{cryptopb.KeyType_Ed25519, cryptopb.KeyType_ECDSA, cryptopb.KeyType_RSA, cryptopb.KeyType(9)}[rng.Intn(4)]
							kb, _ := proto.Marshal(&cryptopb.PublicKey{Type: kt.Enum(), Data: raw})
							b, _ := proto.Marshal(&pb.Identity{PubKey: kb})
							e.SenderKind, sender = "secp-bytes-tagged-"+kt.String(), b
						case 8:
							// the libp2p key without the Identity wrapper
							kb, _ := libp2pcrypto.MarshalPublicKey(pubk.pub)
							e.SenderKind, sender = "bare-key", kb
						case 9:
							// the raw peer id bytes
							e.SenderKind, sender = "peer-id-bytes", []byte(pubk.id)
						case 10:
							// Identity wrapper around an empty / short key
							kb, _ := proto.Marshal(&cryptopb.PublicKey{Type: cryptopb.KeyType_Secp256k1.Enum(), Data: make([]byte, rng.Intn(33))})
							b, _ := proto.Marshal(&pb.Identity{PubKey: kb})
							e.SenderKind, sender = "short-secp-key", b
						case 12:
							// the publisher's key in its 65-byte encoding: the same key, hence the same peer id
							kb, _ := proto.Marshal(&cryptopb.PublicKey{Type: cryptopb.KeyType_Secp256k1.Enum(), Data: pubk.uncompressed})
							b, _ := proto.Marshal(&pb.Identity{PubKey: kb})
							e.SenderKind, sender = "publisher-key-uncompressed-encoding", b
						case 11:
							// well-formed identity followed by an unknown field: still the publisher's key
							e.SenderKind, sender = "publisher+unknown-field", append(append([]byte(nil), pubk.ident...), 0x78, 0x01)
						}
					case 2: // type
						switch rng.Intn(5) {
						case 0:
							e.TypeKind, typ = "unknown", []byte("c18/unknown")
						case 1:
							e.TypeKind, typ = "empty", []byte{}
						case 2:
							e.TypeKind, typ = "nil", nil
						case 3:
							e.TypeKind, typ = "prefix", []byte(c18Type[:len(c18Type)-1])
						case 4:
							e.TypeKind, typ = "other-registered", []byte(c18OtherType)
						}
					case 3: // payload
						switch rng.Intn(4) {
						case 0:
							e.PayKind, payload = "nil", nil
						case 1:
							b := make([]byte, 2*(1+rng.Intn(8)))
							rng.Read(b)
							b[0] = 0xC0
							e.PayKind, payload = "wrong-tag", b
						case 2:
							e.PayKind, payload = "odd-length", append(append([]byte(nil), payload...), 0x00)
						case 3:
							b := make([]byte, rng.Intn(20))
							rng.Read(b)
							e.PayKind, payload = "random", b
						}
					}
				}
			}
			e.SenderHex, e.PayHex, e.FromHex = verifkit.Hex(sender), verifkit.Hex(payload), verifkit.Hex([]byte(from))
			desc := verifkit.JSON(e)

			// ---- oracle
			innerID, innerKey, innerOK := c18Decode(sender)
			typeOK := string(typ) == c18Type || string(typ) == c18OtherType
			want := typeOK && c18PayloadOK(payload) && innerOK && innerID == from
			wellFormedMatching := e.FromKind == "publisher" && e.SenderKind == "publisher" && e.TypeKind == "registered" && e.PayKind == "accepted"
			if good && !want {
				r.Inconclusive("monitor's own decoding rejects an envelope that is good by construction: " + desc)
				continue
			}

			envelope := &pb.BroadcastNetworkMessage{Sender: sender, Payload: payload, Type: typ, SequenceNumber: seq}
			var err error
			if r.Guard("attribution:", desc, func() { err = ch.processContainerMessage(from, envelope) }) {
				// a panic must not stop later envelopes either: continue the stream
				continue
			}
			var got []net.Message
			for {
				select {
				case m := <-raw:
					got = append(got, m)
					continue
				default:
				}
				break
			}
			r.Case(desc, !wellFormedMatching)
			if want {
				goodSent++
			}
			switch {
			case len(got) > 1:
				r.Violation("attribution:delivered-more-than-once", fmt.Sprintf("one envelope produced %d deliveries", len(got)), desc, nil)
			case len(got) == 1 && !want:
				why := "inner sender does not decode to a secp256k1 key"
				cls := "undecodable-identity"
				switch {
				case !typeOK:
					why, cls = "type is not registered", "unregistered-type"
				case !c18PayloadOK(payload):
					why, cls = "payload is rejected by the unmarshaler", "rejected-payload"
				case innerOK && innerID != from:
					why, cls = "inner sender identity is not the authenticated publisher", "foreign-identity"
				}
				r.Violation("attribution:delivered:"+cls, "envelope delivered although "+why, desc,
					map[string]interface{}{"from": from.String(), "inner_id": innerID.String(), "delivered_sender": got[0].TransportSenderID().String()})
			case len(got) == 0 && want:
				r.Violation("attribution:dropped-valid", fmt.Sprintf("well-formed matching envelope was not delivered (error: %v)", err), desc, nil)
			}
			if len(got) == 0 && err == nil {
				r.Violation("attribution:silent-drop", "envelope neither delivered nor rejected with an error", desc, nil)
			}
			if len(got) >= 1 && err != nil {
				r.Violation("attribution:delivered-and-error", "envelope delivered and an error returned: "+err.Error(), desc, nil)
			}
			if len(got) >= 1 {
				m := got[0]
				if want {
					goodDelivered++
				}
				var problems []string
				if m.TransportSenderID() == nil || m.TransportSenderID().String() != from.String() {
					problems = append(problems, "transport sender is not the publisher")
				}
				if innerOK && !bytes.Equal(m.SenderPublicKey(), innerKey) {
					problems = append(problems, "sender public key is not the uncompressed key of the publisher")
				}
				if m.Type() != string(typ) {
					problems = append(problems, "type differs from the envelope's")
				}
				if m.Seqno() != seq {
					problems = append(problems, "sequence number differs from the envelope's")
				}
				if p, ok := m.Payload().(interface{ Type() string }); !ok || p.Type() != string(typ) {
					problems = append(problems, "payload object is not of the envelope's type")
				}
				var data []byte
				switch p := m.Payload().(type) {
				case *c18Payload:
					data = p.data
				case *c18Other:
					data = p.data
				}
				if !bytes.Equal(data, payload) {
					problems = append(problems, "payload content differs from the envelope's")
				}
				for _, p := range problems {
					r.Violation("attribution:wrong-content", p, desc, map[string]interface{}{
						"from": from.String(), "delivered_sender": fmt.Sprint(m.TransportSenderID()), "delivered_key": verifkit.Hex(m.SenderPublicKey()), "expected_key": verifkit.Hex(innerKey)})
				}
				if len(problems) == 0 && len(keptMsgs) < 64 {
					keptMsgs = append(keptMsgs, kept{m, append([]byte(nil), payload...), append([]byte(nil), m.SenderPublicKey()...), from.String(), desc})
				}
			}
			if si == 0 && (k == 3 || k == 17 || k == 40) {
				r.Sample(map[string]interface{}{"envelope": e, "delivered": len(got), "error": fmt.Sprint(err)})
			}
		}
		recheck("after later envelopes (delivered and dropped ones) were processed")
		r.Count("delivered_messages_rechecked_at_end", int64(len(keptMsgs)))
		r.Count("valid_envelopes", int64(goodSent))
		r.Count("valid_envelopes_delivered", int64(goodDelivered))
	})
}

// c18atInitUnmarshalers gives the channel an empty unmarshaler registry
// whatever the registry's concrete map type is (so the monitor keeps
// compiling when that representation changes).
func c18atInitUnmarshalers(c *channel) *channel {
	f := reflect.ValueOf(c).Elem().FieldByName("unmarshalersByType")
	if !f.IsValid() || f.Kind() != reflect.Map {
		panic("verif: channel has no unmarshalersByType map")
	}
	reflect.NewAt(f.Type(), unsafe.Pointer(f.UnsafeAddr())).Elem().Set(reflect.MakeMap(f.Type()))
	return c
}
