//go:build verif

package libp2p

import (
	"context"
	"encoding/binary"
	"fmt"
	"reflect"
	"runtime"
	"sort"
	"sync"
	"sync/atomic"
	"testing"
	"time"
	"unsafe"

	pubsub "github.com/libp2p/go-libp2p-pubsub"
	"google.golang.org/protobuf/proto"

	"github.com/keep-network/keep-core/internal/verifkit"
	"github.com/keep-network/keep-core/pkg/net"
	"github.com/keep-network/keep-core/pkg/net/gen/pb"
	"github.com/keep-network/keep-core/pkg/net/retransmission"
	"github.com/keep-network/keep-core/pkg/operator"
)

// C16, "each message sent on a channel gets a fresh sequence number", as a
// dedicated stress: a sequence-number routine whose steps are individually
// atomic but which is not atomic as a whole produces no race report and
// repeats a number only once in thousands of concurrent calls.
//
// Part 1: 16 goroutines released from a spin barrier call channel.nextSeqno()
// (white-box) back to back; all values returned on one channel must be
// pairwise distinct (per-goroutine slices, merged after Wait).
// Part 2: the same through the public Send with a publisher that only records
// the protobuf: every Send must have been published under its own sequence
// number, and a receiver behind WithRetransmissionSupport (fed through the
// real processContainerMessage afterwards, some messages twice) must see every
// message exactly once.

const c16sqGoroutines = 16
const c16sqType = "c16sq/msg"

type c16sqMsg struct{ ID uint64 }

func (m *c16sqMsg) Type() string { return c16sqType }
func (m *c16sqMsg) Marshal() ([]byte, error) {
	b := make([]byte, 8)
	binary.LittleEndian.PutUint64(b, m.ID)
	return b, nil
}
func (m *c16sqMsg) Unmarshal(b []byte) error {
	if len(b) != 8 {
		return fmt.Errorf("c16sq: bad length")
	}
	m.ID = binary.LittleEndian.Uint64(b)
	return nil
}

// c16sqRelease runs fn(g) on n goroutines that leave a spin barrier together.
func c16sqRelease(n int, fn func(g int)) {
	var start int32
	var ready int64
	var wg sync.WaitGroup
	for g := 0; g < n; g++ {
		wg.Add(1)
		go func(g int) {
			defer wg.Done()
			atomic.AddInt64(&ready, 1)
			for atomic.LoadInt32(&start) == 0 {
				runtime.Gosched()
			}
			fn(g)
		}(g)
	}
	for atomic.LoadInt64(&ready) < int64(n) {
		runtime.Gosched()
	}
	atomic.StoreInt32(&start, 1)
	wg.Wait()
}

type c16sqVal struct {
	v uint64
	g int32
}

// c16sqDuplicates returns the values that occur more than once.
func c16sqDuplicates(vals []c16sqVal) (dups []map[string]interface{}, n int) {
	sort.Slice(vals, func(i, j int) bool { return vals[i].v < vals[j].v })
	for i := 1; i < len(vals); i++ {
		if vals[i].v == vals[i-1].v {
			n++
			if len(dups) < 5 {
				dups = append(dups, map[string]interface{}{"seqno": vals[i].v, "goroutines": []int32{vals[i-1].g, vals[i].g}})
			}
		}
	}
	return
}

func c16sqTickerRegistrations(tk *retransmission.Ticker) uint64 {
	v := reflect.ValueOf(tk).Elem()
	mu := (*sync.Mutex)(unsafe.Pointer(v.FieldByName("handlersMutex").UnsafeAddr()))
	mu.Lock()
	defer mu.Unlock()
	// the registry's own registration counter if it has one; otherwise the
	// size of the registry (a lower bound once ticks removed ended handlers:
	// the callers only wait a bounded time for it)
	if f := v.FieldByName("nextHandlerId"); f.IsValid() {
		return f.Uint()
	}
	return uint64(v.FieldByName("handlers").Len())
}

// c16sqCloseTicker closes the tick channel once every Send has registered
// (the Ticker clears its handler map without its mutex after the close).
func c16sqCloseTicker(tk *retransmission.Ticker, ticks chan uint64, sends int) {
	deadline := time.Now().Add(10 * time.Second)
	for c16sqTickerRegistrations(tk) < uint64(sends) {
		if time.Now().After(deadline) {
			return // leave it open: one parked goroutine
		}
		time.Sleep(100 * time.Microsecond)
	}
	close(ticks)
}

// c16sqPub records what Send publishes (Publish is called under the channel's
// publisherMutex, one call at a time).
type c16sqPub struct {
	mu   sync.Mutex
	data [][]byte
}

func (p *c16sqPub) Publish(_ context.Context, data []byte, _ ...pubsub.PubOpt) error {
	p.mu.Lock()
	p.data = append(p.data, data)
	p.mu.Unlock()
	return nil
}

func TestVerif_C16_SeqnoStressLibp2p(t *testing.T) {
	r := verifkit.Start(t, "C16", "seqno-stress-libp2p")
	defer r.Finish()
	r.SetRule("part 1: rounds of 16 goroutines released from a spin barrier, each calling channel.nextSeqno() ~10 000 times (PRNG 8 000-12 000) on one channel; all values of all rounds pairwise distinct. part 2: rounds of 16 goroutines x 1 000 Send calls on a fresh channel with a recording publisher; every Send published once, all sequence numbers distinct; the recorded protobufs (every 5th twice) fed through processContainerMessage to a receiver behind WithRetransmissionSupport: every message exactly once. non-trivial = a round in which >= 2 goroutines were inside the call at the same time (atomic in-flight counter in the monitor around every 8th nextSeqno call / every Send call)")
	rng := r.Rand("stress")

	// ------------------------------------------------------------ part 1
	ch := c16sqInitUnmarshalers(&channel{})
	var all []c16sqVal
	rounds := r.N(10, 60)
	var dupTotal int64
	var maxOverlap int32
	for k := 0; k < rounds; k++ {
		calls := 8000 + rng.Intn(4001)
		if !r.Quick() {
			calls *= 2
		}
		desc := fmt.Sprintf("libp2p nextSeqno round %d: %d goroutines x %d calls", k, c16sqGoroutines, calls)
		slots := make([][]uint64, c16sqGoroutines)
		maxIn := make([]int32, c16sqGoroutines)
		var inFlight int32
		r.Guard("libp2p:seqno:", desc, func() {
			c16sqRelease(c16sqGoroutines, func(g int) {
				s := make([]uint64, calls)
				var m int32
				for i := 0; i < calls; i++ {
					if i&7 == 0 {
						cur := atomic.AddInt32(&inFlight, 1)
						if cur > m {
							m = cur
						}
						s[i] = ch.nextSeqno()
						atomic.AddInt32(&inFlight, -1)
					} else {
						s[i] = ch.nextSeqno()
					}
				}
				slots[g], maxIn[g] = s, m
			})
		})
		var round []c16sqVal
		var overlap int32
		for g, s := range slots {
			for _, v := range s {
				round = append(round, c16sqVal{v, int32(g)})
			}
			if maxIn[g] > overlap {
				overlap = maxIn[g]
			}
		}
		r.Case(desc, overlap >= 2)
		r.Count("nextSeqno_calls", int64(len(round)))
		if overlap > maxOverlap {
			maxOverlap = overlap
		}
		all = append(all, round...)
		if dups, n := c16sqDuplicates(round); n > 0 {
			dupTotal += int64(n)
			r.Violation("libp2p:seqno-reused:stress", fmt.Sprintf("nextSeqno returned %d value(s) more than once within one round of concurrent calls", n), desc, dups)
		}
	}
	if dups, n := c16sqDuplicates(all); int64(n) > dupTotal {
		r.Violation("libp2p:seqno-reused:stress", fmt.Sprintf("nextSeqno returned %d value(s) more than once on one channel (across rounds)", n), "libp2p nextSeqno: all rounds", dups)
		dupTotal = int64(n)
	}
	r.Count("duplicate_seqnos_nextSeqno", dupTotal)
	r.Count("max_goroutines_inside_nextSeqno", int64(maxOverlap))
	all = nil

	// ------------------------------------------------------------ part 2
	opk, _, err := operator.GenerateKeyPair(DefaultCurve)
	if err != nil {
		r.Inconclusive("key generation failed: " + err.Error())
		return
	}
	npk, _, err := operatorPrivateKeyToNetworkKeyPair(opk)
	if err != nil {
		r.Inconclusive("key conversion failed: " + err.Error())
		return
	}
	ident, err := createIdentity(npk)
	if err != nil {
		r.Inconclusive("identity creation failed: " + err.Error())
		return
	}
	sendRounds := r.N(3, 12)
	perG := r.N(1000, 2500)
	var dupSend int64
	for k := 0; k < sendRounds; k++ {
		desc := fmt.Sprintf("libp2p Send round %d: %d goroutines x %d Sends", k, c16sqGoroutines, perG)
		total := c16sqGoroutines * perG
		ticks := make(chan uint64)
		pub := &c16sqPub{}
		sender := c16sqInitUnmarshalers(&channel{
			name:                 "c16sq",
			clientIdentity:       ident,
			publisher:            pub,
			messageHandlers:      make([]*messageHandler, 0),
			retransmissionTicker: retransmission.NewTicker(ticks),
		})
		sender.SetUnmarshaler(func() net.TaggedUnmarshaler { return &c16sqMsg{} })
		ctx, cancel := context.WithCancel(context.Background())
		var inFlight int32
		maxIn := make([]int32, c16sqGoroutines)
		var sendErrs int64
		r.Guard("libp2p:seqno:", desc, func() {
			c16sqRelease(c16sqGoroutines, func(g int) {
				var m int32
				for i := 0; i < perG; i++ {
					cur := atomic.AddInt32(&inFlight, 1)
					if cur > m {
						m = cur
					}
					if e := sender.Send(ctx, &c16sqMsg{ID: uint64(g)<<32 | uint64(i)}); e != nil {
						atomic.AddInt64(&sendErrs, 1)
					}
					atomic.AddInt32(&inFlight, -1)
				}
				maxIn[g] = m
			})
		})
		cancel()
		c16sqCloseTicker(sender.retransmissionTicker, ticks, total)
		var overlap int32
		for _, m := range maxIn {
			if m > overlap {
				overlap = m
			}
		}
		r.Case(desc, overlap >= 2)
		r.Count("sends", int64(total))
		if sendErrs > 0 {
			r.Violation("libp2p:send-error:stress", fmt.Sprintf("%d Send calls returned an error", sendErrs), desc, nil)
		}

		// ---- what was published
		pub.mu.Lock()
		published := pub.data
		pub.mu.Unlock()
		var vals []c16sqVal
		perID := map[uint64]int{}
		var msgs []*pb.BroadcastNetworkMessage
		for _, d := range published {
			m := &pb.BroadcastNetworkMessage{}
			if proto.Unmarshal(d, m) != nil || len(m.Payload) != 8 {
				r.Violation("libp2p:unreadable-publication:stress", "a published message could not be decoded", desc, nil)
				continue
			}
			id := binary.LittleEndian.Uint64(m.Payload)
			perID[id]++
			vals = append(vals, c16sqVal{m.SequenceNumber, int32(id >> 32)})
			msgs = append(msgs, m)
		}
		if len(perID) != total || len(published) != total {
			r.Violation("libp2p:publication-count:stress", fmt.Sprintf("%d Sends produced %d publications of %d distinct messages", total, len(published), len(perID)), desc, nil)
		}
		if dups, n := c16sqDuplicates(vals); n > 0 {
			dupSend += int64(n)
			r.Violation("libp2p:seqno-reused:stress", fmt.Sprintf("%d sequence number(s) were given to more than one Send", n), desc, dups)
		}

		// ---- receiver behind the duplicate filter, fed by the real processContainerMessage
		raw := make(chan net.Message, 2*total+16)
		rx := c16sqInitUnmarshalers(&channel{
			name:            "c16sq",
			clientIdentity:  ident,
			messageHandlers: []*messageHandler{{ctx: context.Background(), channel: raw}},
		})
		rx.SetUnmarshaler(func() net.TaggedUnmarshaler { return &c16sqMsg{} })
		var procErrs int64
		verifkit.Parallel(len(msgs), 8, func(i int) {
			n := 1
			if i%5 == 0 {
				n = 2
			}
			for c := 0; c < n; c++ {
				cp := proto.Clone(msgs[i]).(*pb.BroadcastNetworkMessage)
				if e := rx.processContainerMessage(ident.id, cp); e != nil {
					atomic.AddInt64(&procErrs, 1)
				}
			}
		})
		if procErrs > 0 {
			r.Violation("libp2p:own-message-rejected:stress", fmt.Sprintf("%d published messages were rejected by processContainerMessage", procErrs), desc, nil)
		}
		seen := map[uint64]int{}
		filtered := retransmission.WithRetransmissionSupport(func(m net.Message) {
			if p, ok := m.Payload().(*c16sqMsg); ok {
				seen[p.ID]++
			}
		})
		arrived := 0
	drain:
		for {
			select {
			case m := <-raw:
				arrived++
				filtered(m)
			default:
				break drain
			}
		}
		notOnce := 0
		var examples []map[string]interface{}
		for id := range perID {
			if seen[id] != 1 {
				notOnce++
				if len(examples) < 5 {
					examples = append(examples, map[string]interface{}{"goroutine": id >> 32, "index": id & 0xffffffff, "seen": seen[id]})
				}
			}
		}
		if notOnce > 0 {
			r.Violation("libp2p:not-exactly-once:stress", fmt.Sprintf("%d of %d messages were not seen exactly once by a receiver behind WithRetransmissionSupport (%d arrivals)", notOnce, total, arrived), desc, examples)
		}
		r.Count("messages_not_seen_exactly_once", int64(notOnce))
		if k == 0 {
			r.Sample(map[string]interface{}{"round": desc, "publications": len(published), "arrivals_incl_duplicates": arrived, "max_goroutines_inside_Send": overlap})
		}
	}
	r.Count("duplicate_seqnos_Send", dupSend)
}

// c16sqInitUnmarshalers gives the channel an empty unmarshaler registry
// whatever the registry's concrete map type is (so the monitor keeps
// compiling when that representation changes).
func c16sqInitUnmarshalers(c *channel) *channel {
	f := reflect.ValueOf(c).Elem().FieldByName("unmarshalersByType")
	if !f.IsValid() || f.Kind() != reflect.Map {
		panic("verif: channel has no unmarshalersByType map")
	}
	reflect.NewAt(f.Type(), unsafe.Pointer(f.UnsafeAddr())).Elem().Set(reflect.MakeMap(f.Type()))
	return c
}
