//go:build verif

package libp2p

import (
	"context"
	"encoding/binary"
	"fmt"
	"math/rand"
	"reflect"
	"runtime"
	"sync"
	"sync/atomic"
	"testing"
	"time"
	"unsafe"

	pubsub "github.com/libp2p/go-libp2p-pubsub"
	"github.com/libp2p/go-libp2p/core/peer"
	"google.golang.org/protobuf/proto"

	"github.com/keep-network/keep-core/internal/verifkit"
	"github.com/keep-network/keep-core/pkg/net"
	"github.com/keep-network/keep-core/pkg/net/gen/pb"
	"github.com/keep-network/keep-core/pkg/net/retransmission"
	"github.com/keep-network/keep-core/pkg/operator"
)

// C16 on the real libp2p channel struct (Send / Recv / deliver /
// removeHandler / processContainerMessage, with the real retransmission
// package driven by hand-fed tickers). The pubsub topic is replaced by a fake
// publisher that records every published protobuf (this is where the sequence
// number assigned by Send is observed) and hands it, 1-3 times and partly from
// fresh goroutines (like the message workers do), to processContainerMessage
// of every channel of the scenario, the publishing one included.
//
// Oracle
//  1. no handler sees the same (sender, seqno) twice, nor the same Send twice;
//  2. every broadcast of one Send carries one (sender, seqno); different Sends
//     of one channel carry different seqnos (observed at the fake publisher);
//  3. no message whose Send began after a handler's cancel() returned is ever
//     delivered to that handler. Messages that the cancelling goroutine sends
//     right after cancel() returned are tagged in the script (decided without
//     any stamp); the oracle pass additionally stamps every Send call and
//     every cancel return with one atomic counter;
//  4. (not part of the verdict) cancelled handlers leave messageHandlers;
//     if they do not within the watchdog the run is inconclusive.

const c16Type = "c16/msg"

type c16Msg struct{ ID uint64 }

func (m *c16Msg) Type() string { return c16Type }
func (m *c16Msg) Marshal() ([]byte, error) {
	b := make([]byte, 8)
	binary.LittleEndian.PutUint64(b, m.ID)
	return b, nil
}
func (m *c16Msg) Unmarshal(b []byte) error {
	if len(b) != 8 {
		return fmt.Errorf("c16: bad length")
	}
	m.ID = binary.LittleEndian.Uint64(b)
	return nil
}

type c16Action struct {
	Op  string `json:"op"` // send, cancel, recv, tick, yield, stopsend
	Msg int    `json:"msg,omitempty"`
	H   int    `json:"h,omitempty"`
	Ch  int    `json:"ch,omitempty"`
}

type c16HandlerSpec struct {
	Ch           int  `json:"ch"`
	Pre          bool `json:"pre"`          // registered before the traffic starts
	PreCancelled bool `json:"precancelled"` // registered with an already cancelled context
}

type c16MsgSpec struct {
	Sender       int    `json:"sender"`
	PostCancelOf int    `json:"post_cancel_of"` // handler index or -1
	Strategy     string `json:"strategy"`
}

type c16Script struct {
	Channels   int              `json:"channels"`
	Handlers   []c16HandlerSpec `json:"handlers"`
	SenderCh   []int            `json:"sender_channel"`
	Senders    [][]c16Action    `json:"senders"`
	Msgs       []c16MsgSpec     `json:"msgs"`
	FinalTicks int              `json:"final_ticks"`
}

func c16GenScript(rng *rand.Rand) c16Script {
	sc := c16Script{Channels: 1 + rng.Intn(3), FinalTicks: 1 + rng.Intn(3)}
	nH := 1 + rng.Intn(5)
	nS := 2 + rng.Intn(5)
	sc.Senders = make([][]c16Action, nS)
	for s := 0; s < nS; s++ {
		sc.SenderCh = append(sc.SenderCh, rng.Intn(sc.Channels))
	}
	newMsg := func(s, post int) int {
		st := "standard"
		if rng.Intn(4) == 0 {
			st = "backoff"
		}
		sc.Msgs = append(sc.Msgs, c16MsgSpec{Sender: s, PostCancelOf: post, Strategy: st})
		return len(sc.Msgs) - 1
	}
	// base traffic
	for s := 0; s < nS; s++ {
		n := 2 + rng.Intn(5)
		for i := 0; i < n; i++ {
			sc.Senders[s] = append(sc.Senders[s], c16Action{Op: "send", Msg: newMsg(s, -1)})
			switch rng.Intn(6) {
			case 0:
				sc.Senders[s] = append(sc.Senders[s], c16Action{Op: "yield"})
			case 1:
				sc.Senders[s] = append(sc.Senders[s], c16Action{Op: "tick", Ch: rng.Intn(sc.Channels)})
			case 2:
				// stop retransmitting one of this sender's earlier messages
				var mine []int
				for _, a := range sc.Senders[s] {
					if a.Op == "send" {
						mine = append(mine, a.Msg)
					}
				}
				sc.Senders[s] = append(sc.Senders[s], c16Action{Op: "stopsend", Msg: mine[rng.Intn(len(mine))]})
			}
		}
	}
	insert := func(s, pos int, acts ...c16Action) {
		l := sc.Senders[s]
		out := append([]c16Action(nil), l[:pos]...)
		out = append(out, acts...)
		out = append(out, l[pos:]...)
		sc.Senders[s] = out
	}
	// handlers: registration and cancellation placed into sender scripts
	for h := 0; h < nH; h++ {
		spec := c16HandlerSpec{Ch: rng.Intn(sc.Channels), Pre: rng.Intn(10) < 7}
		if rng.Intn(10) == 0 {
			spec.PreCancelled = true
		}
		sc.Handlers = append(sc.Handlers, spec)
		s := rng.Intn(nS)
		regPos := 0
		if !spec.Pre {
			regPos = rng.Intn(len(sc.Senders[s]) + 1)
			insert(s, regPos, c16Action{Op: "recv", H: h})
			regPos++
		}
		if spec.PreCancelled {
			// everything this goroutine sends after the registration is "after cancel"
			k := 1 + rng.Intn(3)
			var acts []c16Action
			for i := 0; i < k; i++ {
				acts = append(acts, c16Action{Op: "send", Msg: newMsg(s, h)})
			}
			insert(s, regPos, acts...)
			continue
		}
		if rng.Intn(10) < 7 {
			pos := regPos + rng.Intn(len(sc.Senders[s])-regPos+1)
			acts := []c16Action{{Op: "cancel", H: h}}
			k := 1 + rng.Intn(3)
			for i := 0; i < k; i++ {
				acts = append(acts, c16Action{Op: "send", Msg: newMsg(s, h)})
			}
			insert(s, pos, acts...)
		}
	}
	return sc
}

type c16Rec struct {
	sender string
	seqno  uint64
	id     uint64
}

type c16Handler struct {
	ctx    context.Context
	cancel context.CancelFunc
	mu     sync.Mutex // the handler's receive goroutine and the final reader only
	recs   []c16Rec
	// written by the goroutine that cancels, read after the run
	cancelled   bool
	cancelStamp int64
	registered  bool
}

type c16PubRec struct {
	seqno uint64
	id    uint64
}

// c16Pub is the fake topic of one channel.
type c16Pub struct {
	w   *c16World
	idx int
	mu  sync.Mutex // publishes of one channel (already serialised by publisherMutex) and the final reader
	log []c16PubRec
}

func (p *c16Pub) Publish(_ context.Context, data []byte, _ ...pubsub.PubOpt) error {
	var m pb.BroadcastNetworkMessage
	if err := proto.Unmarshal(data, &m); err != nil {
		return err
	}
	id := ^uint64(0)
	if len(m.Payload) == 8 {
		id = binary.LittleEndian.Uint64(m.Payload)
	}
	p.mu.Lock()
	p.log = append(p.log, c16PubRec{m.SequenceNumber, id})
	p.mu.Unlock()
	from := p.w.ids[p.idx]
	copies := 1 + int((m.SequenceNumber+uint64(p.idx))%3)
	for _, target := range p.w.channels {
		for c := 0; c < copies; c++ {
			deliver := func(target *channel) {
				var cp pb.BroadcastNetworkMessage
				if proto.Unmarshal(data, &cp) == nil {
					_ = target.processContainerMessage(from, &cp)
				}
			}
			if c > 0 && m.SequenceNumber%2 == 1 {
				// not tracked: a delivery that is still on its way when the
				// scenario is evaluated is simply not looked at
				go deliver(target)
			} else {
				deliver(target)
			}
		}
	}
	return nil
}

type c16World struct {
	channels []*channel
	pubs     []*c16Pub
	ids      []peer.ID
	ticks    []chan uint64
}

func c16NewWorld(n int, idents []*identity) *c16World {
	w := &c16World{}
	for i := 0; i < n; i++ {
		ticks := make(chan uint64)
		p := &c16Pub{w: w, idx: i}
		ch := c16chInitUnmarshalers(&channel{
			name:                 "c16",
			clientIdentity:       idents[i],
			publisher:            p,
			messageHandlers:      make([]*messageHandler, 0),
			retransmissionTicker: retransmission.NewTicker(ticks),
		})
		ch.SetUnmarshaler(func() net.TaggedUnmarshaler { return &c16Msg{} })
		w.channels = append(w.channels, ch)
		w.pubs = append(w.pubs, p)
		w.ids = append(w.ids, idents[i].id)
		w.ticks = append(w.ticks, ticks)
	}
	return w
}

// close stops the tickers. sends[i] is the number of Send calls made on
// channel i: each one registers with the ticker from its own goroutine, and
// the ticker clears its handler map without its mutex once the tick channel
// is closed, so the channel is closed only after every registration is in
// (otherwise left open: one parked goroutine).
func (w *c16World) close(sends []int) {
	for i, t := range w.ticks {
		tk := w.channels[i].retransmissionTicker
		deadline := time.Now().Add(5 * time.Second)
		for {
			n := c16TickerRegistrations(tk)
			if n >= uint64(sends[i]) {
				close(t)
				break
			}
			if time.Now().After(deadline) {
				break
			}
			time.Sleep(50 * time.Microsecond)
		}
	}
}

func (w *c16World) handlerCount() int {
	n := 0
	for _, ch := range w.channels {
		ch.messageHandlersMutex.Lock()
		n += len(ch.messageHandlers)
		ch.messageHandlersMutex.Unlock()
	}
	return n
}

func (w *c16World) queued() int {
	n := 0
	for _, ch := range w.channels {
		ch.messageHandlersMutex.Lock()
		for _, h := range ch.messageHandlers {
			n += len(h.channel)
		}
		ch.messageHandlersMutex.Unlock()
	}
	return n
}

func (w *c16World) published() int {
	n := 0
	for _, p := range w.pubs {
		p.mu.Lock()
		n += len(p.log)
		p.mu.Unlock()
	}
	return n
}

// c16TickerRegistrations reads the Ticker's registration counter under the
// Ticker's own mutex (the fields are unexported in package retransmission).
func c16TickerRegistrations(tk *retransmission.Ticker) uint64 {
	v := reflect.ValueOf(tk).Elem()
	mu := (*sync.Mutex)(unsafe.Pointer(v.FieldByName("handlersMutex").UnsafeAddr()))
	mu.Lock()
	defer mu.Unlock()
	// the registry's own registration counter if it has one; otherwise the
	// size of the registry (a lower bound once ticks removed ended handlers:
	// the callers only wait a bounded time for it)
	if f := v.FieldByName("nextHandlerId"); f.IsValid() {
		return f.Uint()
	}
	return uint64(v.FieldByName("handlers").Len())
}

type c16Outcome struct {
	retransOfDelivered int
	postCancelSends    int
	deliveries         int
	broadcasts         int
	aborted            bool
}

func c16Strategy(s string) net.RetransmissionStrategy {
	if s == "backoff" {
		return net.BackoffRetransmissionStrategy
	}
	return net.StandardRetransmissionStrategy
}

// c16RunScript runs one scenario. stamps enables the atomic stamping of Send
// calls and cancel returns (oracle pass only; never under -race).
func c16RunScript(r *verifkit.Run, sc c16Script, desc string, idents []*identity, stamps bool) (out c16Outcome) {
	w := c16NewWorld(sc.Channels, idents)
	sends := make([]int, sc.Channels)
	for _, m := range sc.Msgs {
		sends[sc.SenderCh[m.Sender]]++
	}
	defer w.close(sends)
	const watchdog = 30 * time.Second

	handlers := make([]*c16Handler, len(sc.Handlers))
	for i := range handlers {
		ctx, cancel := c16HandlerCtx(i)
		handlers[i] = &c16Handler{ctx: ctx, cancel: cancel}
	}
	register := func(h int) {
		hd := handlers[h]
		if sc.Handlers[h].PreCancelled {
			hd.cancel()
			hd.cancelled = true
		}
		hd.registered = true
		w.channels[sc.Handlers[h].Ch].Recv(hd.ctx, func(m net.Message) {
			rec := c16Rec{sender: m.TransportSenderID().String(), seqno: m.Seqno()}
			if p, ok := m.Payload().(*c16Msg); ok {
				rec.id = p.ID
			} else {
				rec.id = ^uint64(0)
			}
			hd.mu.Lock()
			hd.recs = append(hd.recs, rec)
			hd.mu.Unlock()
		})
	}
	for h, spec := range sc.Handlers {
		if spec.Pre {
			register(h)
		}
	}

	var clock int64
	callStamp := make([]int64, len(sc.Msgs)) // slot per message, written by its sender only
	sendCtx := make([]context.CancelFunc, len(sc.Msgs))
	var sendErrs int64
	var tickTimeouts int64

	var start int32
	var ready int64
	var wg sync.WaitGroup
	for s := range sc.Senders {
		wg.Add(1)
		go func(s int) {
			defer wg.Done()
			ch := w.channels[sc.SenderCh[s]]
			atomic.AddInt64(&ready, 1)
			for atomic.LoadInt32(&start) == 0 {
				runtime.Gosched()
			}
			for _, a := range sc.Senders[s] {
				switch a.Op {
				case "send":
					ctx, cancel := context.WithCancel(context.Background())
					sendCtx[a.Msg] = cancel
					if stamps {
						callStamp[a.Msg] = atomic.AddInt64(&clock, 1)
					}
					var err error
					r.Guard("libp2p:", desc, func() {
						err = ch.Send(ctx, &c16Msg{ID: uint64(a.Msg)}, c16Strategy(sc.Msgs[a.Msg].Strategy))
					})
					if err != nil {
						atomic.AddInt64(&sendErrs, 1)
					}
				case "stopsend":
					if c := sendCtx[a.Msg]; c != nil {
						c()
					}
				case "cancel":
					hd := handlers[a.H]
					hd.cancel()
					// cancel() has returned: everything this goroutine sends
					// from here on began after the cancellation
					if stamps {
						hd.cancelStamp = atomic.AddInt64(&clock, 1)
					}
					hd.cancelled = true
				case "recv":
					register(a.H)
				case "tick":
					select {
					case w.ticks[a.Ch] <- uint64(a.Msg):
					case <-time.After(watchdog):
						atomic.AddInt64(&tickTimeouts, 1)
					}
				case "yield":
					runtime.Gosched()
				}
			}
		}(s)
	}
	for atomic.LoadInt64(&ready) < int64(len(sc.Senders)) {
		runtime.Gosched()
	}
	atomic.StoreInt32(&start, 1)
	done := make(chan struct{})
	go func() { wg.Wait(); close(done) }()
	select {
	case <-done:
	case <-time.After(2 * watchdog):
		r.Inconclusive("sender goroutines did not finish within the watchdog: " + desc)
		out.aborted = true
		return
	}
	if tickTimeouts > 0 {
		r.Inconclusive("a retransmission ticker did not accept a tick within the watchdog: " + desc)
		out.aborted = true
		return
	}
	if sendErrs > 0 {
		r.Violation("libp2p:send-error", "Send returned an error for a well-formed message", desc, nil)
	}

	// retransmit whatever is still live, after all original sends were delivered
	settle := func() {
		last, lastTap := -1, -1
		stable := 0
		deadline := time.Now().Add(500 * time.Millisecond)
		for stable < 10 && time.Now().Before(deadline) {
			q, tp := w.queued(), w.published()
			if q == 0 && q == last && tp == lastTap {
				stable++
			} else {
				stable = 0
			}
			last, lastTap = q, tp
			runtime.Gosched()
			time.Sleep(50 * time.Microsecond)
		}
	}
	settle()
	for i := 0; i < sc.FinalTicks; i++ {
		for c := range w.ticks {
			select {
			case w.ticks[c] <- uint64(1000 + i):
			case <-time.After(watchdog):
				r.Inconclusive("a retransmission ticker did not accept a tick within the watchdog: " + desc)
				out.aborted = true
				return
			}
		}
		settle()
	}
	for _, c := range sendCtx {
		if c != nil {
			c()
		}
	}
	// handler removal (not part of the verdict)
	expectHandlers := 0
	for _, hd := range handlers {
		if hd.registered && !hd.cancelled {
			expectHandlers++
		}
	}
	deadline := time.Now().Add(watchdog)
	for w.handlerCount() != expectHandlers {
		if time.Now().After(deadline) {
			r.Inconclusive(fmt.Sprintf("cancelled handlers still registered after the watchdog (%d registered, %d expected): %s", w.handlerCount(), expectHandlers, desc))
			break
		}
		time.Sleep(100 * time.Microsecond)
	}
	for _, hd := range handlers {
		hd.cancel()
	}

	// ---- publisher logs: what was published
	type pair struct {
		sender string
		seqno  uint64
	}
	idPairs := map[uint64]map[pair]int{}
	pairIDs := map[pair]map[uint64]bool{}
	pairCount := map[pair]int{}
	for i, p := range w.pubs {
		p.mu.Lock()
		log := append([]c16PubRec(nil), p.log...)
		p.mu.Unlock()
		for _, rec := range log {
			out.broadcasts++
			pr := pair{w.ids[i].String(), rec.seqno}
			if idPairs[rec.id] == nil {
				idPairs[rec.id] = map[pair]int{}
			}
			idPairs[rec.id][pr]++
			if pairIDs[pr] == nil {
				pairIDs[pr] = map[uint64]bool{}
			}
			pairIDs[pr][rec.id] = true
			pairCount[pr]++
		}
	}
	for id, ps := range idPairs {
		if len(ps) > 1 {
			r.Violation("libp2p:send-broadcast-under-several-seqnos", fmt.Sprintf("message %d was broadcast under %d different (sender, seqno)", id, len(ps)), desc, fmt.Sprint(ps))
		}
		if id < uint64(len(sc.Msgs)) {
			want := w.ids[sc.SenderCh[sc.Msgs[id].Sender]].String()
			for p := range ps {
				if p.sender != want {
					r.Violation("libp2p:wrong-sender", "message broadcast under another channel's transport id", desc, fmt.Sprint(p, want))
				}
			}
		}
	}
	for p, ids := range pairIDs {
		if len(ids) > 1 {
			r.Violation("libp2p:seqno-reused", fmt.Sprintf("%d different messages were broadcast as (%s, %d)", len(ids), p.sender, p.seqno), desc, fmt.Sprint(ids))
		}
	}

	// ---- handlers
	for h, hd := range handlers {
		hd.mu.Lock()
		recs := append([]c16Rec(nil), hd.recs...)
		hd.mu.Unlock()
		out.deliveries += len(recs)
		if sc.Handlers[h].Pre && sc.Handlers[h].PreCancelled && len(recs) > 0 {
			// cancelled before any sender goroutine existed: every Send began after the cancellation
			r.Violation("libp2p:delivered-after-cancel", "a handler registered with a context cancelled before the traffic started received a message", desc,
				map[string]interface{}{"handler": h, "deliveries": len(recs)})
		}
		seenPair := map[pair]bool{}
		seenID := map[uint64]bool{}
		for _, rc := range recs {
			p := pair{rc.sender, rc.seqno}
			wit := map[string]interface{}{"handler": h, "sender": rc.sender, "seqno": rc.seqno, "message": rc.id}
			if seenPair[p] {
				r.Violation("libp2p:duplicate-delivery", "a handler saw the same (sender, seqno) twice", desc, wit)
			}
			seenPair[p] = true
			if seenID[rc.id] {
				r.Violation("libp2p:send-delivered-twice", "a handler saw the same Send twice", desc, wit)
			}
			seenID[rc.id] = true
			if pairCount[p] > 1 {
				out.retransOfDelivered++
			}
			if rc.id >= uint64(len(sc.Msgs)) {
				r.Violation("libp2p:unknown-message", "a handler saw a message that was never sent", desc, wit)
				continue
			}
			if sc.Msgs[rc.id].PostCancelOf == h {
				r.Violation("libp2p:delivered-after-cancel", "a message whose Send began after cancel() had returned was delivered to the cancelled handler", desc, wit)
			} else if stamps && hd.cancelled && !sc.Handlers[h].PreCancelled && hd.cancelStamp != 0 && callStamp[rc.id] > hd.cancelStamp {
				wit["send_call_stamp"], wit["cancel_return_stamp"] = callStamp[rc.id], hd.cancelStamp
				r.Violation("libp2p:delivered-after-cancel", "a message whose Send began after cancel() had returned was delivered to the cancelled handler", desc, wit)
			}
		}
	}
	for _, m := range sc.Msgs {
		if m.PostCancelOf >= 0 {
			out.postCancelSends++
		}
	}
	return
}

func c16ChannelWorkload(r *verifkit.Run, repeats int, stamps bool) {
	r.SetRule("scenario = 1-3 libp2p channel structs joined by a fake topic (records each published protobuf, delivers it 1-3 times, partly from fresh goroutines, to every channel's processContainerMessage) with hand-fed retransmission tickers, 2-6 sender goroutines (2-6 Sends each, standard or backoff strategy, some send contexts cancelled early), 1-5 handlers registered before or during the traffic (some with an already cancelled context), cancelled by a sender goroutine at a PRNG position which then immediately sends 1-3 more messages, ticks injected by the senders and after the traffic; oracle: per handler each (sender, seqno) and each Send at most once, one seqno per Send and per-channel seqnos distinct (fake publisher), nothing sent after cancel() returned reaches that handler. non-trivial = a retransmission of an already delivered message was observed, or a handler was cancelled while traffic continued")
	n := r.N(150, 15000)
	if !stamps {
		// the race build spends most of its time in secp256k1 arithmetic
		// (identity decoding on every delivery): fewer scenarios
		n = r.N(60, 1500)
	}
	var keys []*identity
	for i := 0; i < 3; i++ {
		opk, _, err := operator.GenerateKeyPair(DefaultCurve)
		if err != nil {
			r.Inconclusive("key generation failed: " + err.Error())
			return
		}
		npk, _, err := operatorPrivateKeyToNetworkKeyPair(opk)
		if err != nil {
			r.Inconclusive("key conversion failed: " + err.Error())
			return
		}
		ident, err := createIdentity(npk)
		if err != nil {
			r.Inconclusive("identity creation failed: " + err.Error())
			return
		}
		keys = append(keys, ident)
	}
	var retrans, post, deliveries, broadcasts int64
	verifkit.Parallel(n, 8, func(i int) {
		sc := c16GenScript(r.SubRand("channel", i))
		desc := verifkit.JSON(sc)
		for rep := 0; rep < repeats; rep++ {
			var o c16Outcome
			if r.Guard("libp2p:", desc, func() { o = c16RunScript(r, sc, desc, keys, stamps) }) || o.aborted {
				continue
			}
			r.Case(desc, o.retransOfDelivered > 0 || o.postCancelSends > 0)
			atomic.AddInt64(&retrans, int64(o.retransOfDelivered))
			atomic.AddInt64(&post, int64(o.postCancelSends))
			atomic.AddInt64(&deliveries, int64(o.deliveries))
			atomic.AddInt64(&broadcasts, int64(o.broadcasts))
			if rep == 0 && i%(n/3+1) == 0 {
				r.Sample(map[string]interface{}{"channels": sc.Channels, "handlers": sc.Handlers, "senders": len(sc.Senders), "messages": len(sc.Msgs),
					"broadcasts_seen": o.broadcasts, "deliveries": o.deliveries, "deliveries_of_retransmitted_messages": o.retransOfDelivered, "sends_after_a_cancel": o.postCancelSends})
			}
		}
	})
	r.Count("deliveries", deliveries)
	r.Count("publishes_seen", broadcasts)
	r.Count("deliveries_of_retransmitted_messages", retrans)
	r.Count("sends_after_a_cancel", post)
}

func TestVerif_C16_Channel(t *testing.T) {
	r := verifkit.Start(t, "C16", "libp2p-channel")
	defer r.Finish()
	c16ChannelWorkload(r, 1, true)
}

func TestVerif_C16_ChannelRace(t *testing.T) {
	r := verifkit.Start(t, "C16", "libp2p-channel-race")
	defer r.Finish()
	r.Assume("race pass: no stamps; handler callbacks append to their own slice under their own mutex (receive goroutine and final reader only); Send calls and cancel results go to per-message / per-handler slots read after the goroutines ended")
	c16ChannelWorkload(r, r.N(1, 2), false)
}

// c16chInitUnmarshalers gives the channel an empty unmarshaler registry
// whatever the registry's concrete map type is (so the monitor keeps
// compiling when that representation changes).
func c16chInitUnmarshalers(c *channel) *channel {
	f := reflect.ValueOf(c).Elem().FieldByName("unmarshalersByType")
	if !f.IsValid() || f.Kind() != reflect.Map {
		panic("verif: channel has no unmarshalersByType map")
	}
	reflect.NewAt(f.Type(), unsafe.Pointer(f.UnsafeAddr())).Elem().Set(reflect.MakeMap(f.Type()))
	return c
}

// c16dlCtx is a context that ends the way a deadline context does (Done
// closed, Err() == context.DeadlineExceeded) but at a point the script
// chooses instead of a wall-clock instant.
type c16dlCtx struct {
	done chan struct{}
	once sync.Once
	mu   sync.Mutex
	err  error
}

func c16NewDlCtx() *c16dlCtx { return &c16dlCtx{done: make(chan struct{})} }

func (c *c16dlCtx) Deadline() (time.Time, bool)   { return time.Time{}, false }
func (c *c16dlCtx) Done() <-chan struct{}         { return c.done }
func (c *c16dlCtx) Value(interface{}) interface{} { return nil }
func (c *c16dlCtx) Err() error {
	c.mu.Lock()
	defer c.mu.Unlock()
	return c.err
}
func (c *c16dlCtx) end() {
	c.once.Do(func() {
		c.mu.Lock()
		c.err = context.DeadlineExceeded
		c.mu.Unlock()
		close(c.done)
	})
}

// c16HandlerCtx gives every second handler a context that ends by "deadline"
// rather than by cancel(): a receiver must see nothing after its context is
// done, whatever the reason.
func c16HandlerCtx(i int) (context.Context, context.CancelFunc) {
	if i%2 == 1 {
		c := c16NewDlCtx()
		return c, c.end
	}
	return context.WithCancel(context.Background())
}
