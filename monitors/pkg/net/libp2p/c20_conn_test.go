//go:build verif

package libp2p

import (
	"fmt"
	"math/rand"
	"net"
	"testing"
	"time"

	libp2pnetwork "github.com/libp2p/go-libp2p/core/network"

	"github.com/keep-network/keep-core/internal/verifkit"
	"github.com/keep-network/keep-core/pkg/net/gen/pb"
	"github.com/keep-network/keep-core/pkg/operator"
)

// Connection-level part of C20: newAuthenticatedOutboundConnection and
// newAuthenticatedInboundConnection over net.Pipe, optionally with a relay in
// the middle that interferes with exactly one handshake envelope.
//
// Oracle: honest peers with equal protocol ids: both sides succeed. Differing
// protocol ids: both sides fail. One envelope interfered with: the side that
// receives it fails (the initiator cannot notice an altered act 3: it is done
// once it has sent it; an act 1 that was merely re-signed by a third party is
// only noticed by the responder, at act 3).

type c20AllowAll struct{}

func (c20AllowAll) Validate(*operator.PublicKey) error { return nil }

type c20ConnPlan struct {
	P1    string `json:"protocol_initiator"`
	P2    string `json:"protocol_responder"`
	Relay bool   `json:"relay"`
	Act   int    `json:"tampered_act"`
	Mode  string `json:"mode"`
	Arg   uint64 `json:"arg,omitempty"`
}

var c20ConnModes = []string{
	"inner-altered-signature-kept", "inner-altered-resigned-by-third-party", "resigned-by-third-party", "signature-bitflip",
	"signature-empty", "signature-of-other-act", "peerid-third-party", "peerid-empty", "peerid-garbage", "message-empty",
	"replay-from-earlier-connection", "untouched",
}

var c20ConnProtocols = []string{"keep", "keep", "keep2", "", "Keep", "keep/1.0.0"}

func c20Framed(c net.Conn) *authenticatedConnection {
	ac := &authenticatedConnection{Conn: c}
	ac.initializePipe()
	return ac
}

type c20Recorded struct{ act1, act2, act3 *pb.HandshakeEnvelope }

// c20AlterInner changes one field of the act carried by the envelope.
func c20AlterInner(act int, msg []byte, arg uint64) []byte {
	// The acts' fields are unexported in package handshake; alter the wire
	// form instead: flip one bit inside the first length-delimited field's
	// content (nonce for acts 1 and 2, challenge for act 3), which keeps
	// the encoding well formed.
	out := append([]byte(nil), msg...)
	if len(out) < 3 {
		return append(out, 0x01)
	}
	n := int(out[1]) // length of field 1 (< 128 for all acts)
	if n <= 0 || 2+n > len(out) {
		out[len(out)-1] ^= 1
		return out
	}
	out[2+int(arg%uint64(n))] ^= byte(1 << ((arg / 64) % 8))
	return out
}

func c20RunConn(t *testing.T, r *verifkit.Run, pl c20ConnPlan, desc string, rng *rand.Rand, initiator, responder, third *testConnectionConfig, earlier *c20Recorded, record *c20Recorded) (outErr, inErr error, hung bool, touched bool) {
	iConn, rConn := net.Pipe()
	var conns []net.Conn
	conns = append(conns, iConn, rConn)
	initiatorEnd, responderEnd := iConn, rConn
	if pl.Relay {
		// initiator <-> (a | relay | b) <-> responder
		a, b := rConn, net.Conn(nil)
		var c net.Conn
		c, b = net.Pipe()
		conns = append(conns, c, b)
		responderEnd = b
		left, right := c20Framed(a), c20Framed(c)
		touchedCh := make(chan bool, 4)
		pump := func(src, dst *authenticatedConnection, toResponder bool) {
			for idx := 1; ; idx++ {
				env := &pb.HandshakeEnvelope{}
				if err := src.pipe.receive(env); err != nil {
					_ = src.Close()
					_ = dst.Close()
					return
				}
				act := 2
				if toResponder {
					act = 2*idx - 1 // frames 1, 2 towards the responder are acts 1, 3
				}
				if record != nil {
					cp := &pb.HandshakeEnvelope{Message: env.Message, Signature: env.Signature, PeerID: env.PeerID}
					switch act {
					case 1:
						record.act1 = cp
					case 2:
						record.act2 = cp
					case 3:
						record.act3 = cp
					}
				}
				if act == pl.Act {
					before := fmt.Sprintf("%x|%x|%x", env.Message, env.Signature, env.PeerID)
					signer := initiator
					if act == 2 {
						signer = responder
					}
					switch pl.Mode {
					case "inner-altered-signature-kept":
						env.Message = c20AlterInner(act, env.Message, pl.Arg)
					case "inner-altered-resigned-by-third-party":
						env.Message = c20AlterInner(act, env.Message, pl.Arg)
						env.Signature, _ = third.networkPrivateKey.Sign(env.Message)
						env.PeerID = []byte(third.peerID)
					case "resigned-by-third-party":
						env.Signature, _ = third.networkPrivateKey.Sign(env.Message)
						env.PeerID = []byte(third.peerID)
					case "signature-bitflip":
						if len(env.Signature) > 0 {
							s := append([]byte(nil), env.Signature...)
							s[int(pl.Arg%uint64(len(s)))] ^= byte(1 << ((pl.Arg / 256) % 8))
							env.Signature = s
						}
					case "signature-empty":
						env.Signature = nil
					case "signature-of-other-act":
						// a genuine signature of the same peer over different content
						env.Signature, _ = signer.networkPrivateKey.Sign(append([]byte("x"), env.Message...))
					case "peerid-third-party":
						env.PeerID = []byte(third.peerID)
					case "peerid-empty":
						env.PeerID = nil
					case "peerid-garbage":
						g := make([]byte, 1+int(pl.Arg%40))
						rand.New(rand.NewSource(int64(pl.Arg))).Read(g)
						env.PeerID = g
					case "message-empty":
						env.Message = nil
					case "replay-from-earlier-connection":
						if earlier != nil {
							var e *pb.HandshakeEnvelope
							switch act {
							case 1:
								e = earlier.act1
							case 2:
								e = earlier.act2
							case 3:
								e = earlier.act3
							}
							if e != nil {
								env = &pb.HandshakeEnvelope{Message: e.Message, Signature: e.Signature, PeerID: e.PeerID}
							}
						}
					case "untouched":
					}
					touchedCh <- before != fmt.Sprintf("%x|%x|%x", env.Message, env.Signature, env.PeerID)
				}
				if err := dst.pipe.send(env); err != nil {
					_ = src.Close()
					_ = dst.Close()
					return
				}
			}
		}
		go pump(left, right, true)
		go pump(right, left, false)
		defer func() {
			select {
			case touched = <-touchedCh:
			default:
			}
		}()
	}
	defer func() {
		for _, c := range conns {
			_ = c.Close()
		}
	}()

	type res struct{ err error }
	outCh := make(chan res, 1)
	inCh := make(chan res, 1)
	go func() {
		var err error
		r.Guard("conn:", desc, func() {
			_, err = newAuthenticatedOutboundConnection(initiatorEnd, libp2pnetwork.ConnectionState{}, initiator.peerID,
				initiator.networkPrivateKey, responder.peerID, c20AllowAll{}, pl.P1)
		})
		outCh <- res{err}
	}()
	go func() {
		var err error
		r.Guard("conn:", desc, func() {
			_, err = newAuthenticatedInboundConnection(responderEnd, libp2pnetwork.ConnectionState{}, responder.peerID,
				responder.networkPrivateKey, c20AllowAll{}, pl.P2)
		})
		inCh <- res{err}
	}()
	deadline := time.After(30 * time.Second)
	for got := 0; got < 2; got++ {
		select {
		case x := <-outCh:
			outErr = x.err
		case x := <-inCh:
			inErr = x.err
		case <-deadline:
			return nil, nil, true, false
		}
	}
	return outErr, inErr, false, false
}

func TestVerif_C20_Connection(t *testing.T) {
	r := verifkit.Start(t, "C20", "connection")
	defer r.Finish()
	r.SetRule("authenticated connection pairs over net.Pipe with fresh secp256k1 identities; protocol ids from a pool (equal in 2/3 of cases); optionally a relay that interferes with exactly one signed envelope (inner act altered with/without re-signing by a third party, signature damaged/empty/over other content, peer id replaced/empty/garbage, empty message, replay of the same act of an earlier connection between the same peers); oracle: honest+equal ids => both succeed, differing ids => both fail, altered envelope => its receiver fails. non-trivial = differing protocol ids or an envelope interfered with")
	n := r.N(200, 5000)
	verifkit.Parallel(n, 0, func(i int) {
		rng := r.SubRand("conn", i)
		pl := c20ConnPlan{}
		pl.P1 = c20ConnProtocols[rng.Intn(len(c20ConnProtocols))]
		pl.P2 = pl.P1
		if rng.Intn(3) == 0 {
			pl.P2 = c20ConnProtocols[rng.Intn(len(c20ConnProtocols))]
		}
		pl.Relay = rng.Intn(4) > 0
		if pl.Relay && pl.P1 == pl.P2 && rng.Intn(8) > 0 {
			pl.Act = 1 + rng.Intn(3)
			pl.Mode = c20ConnModes[rng.Intn(len(c20ConnModes))]
			pl.Arg = rng.Uint64()
		}
		desc := verifkit.JSON(pl)
		initiator, responder, third := createTestConnectionConfig(t), createTestConnectionConfig(t), createTestConnectionConfig(t)
		var earlier *c20Recorded
		if pl.Mode == "replay-from-earlier-connection" {
			earlier = &c20Recorded{}
			hp := c20ConnPlan{P1: pl.P1, P2: pl.P1, Relay: true}
			oe, ie, hung, _ := c20RunConn(t, r, hp, verifkit.JSON(hp), rng, initiator, responder, third, nil, earlier)
			if hung {
				r.Inconclusive("honest connection (recording pass) did not finish within the watchdog")
				return
			}
			if oe != nil || ie != nil {
				r.Violation("conn:honest-failed", fmt.Sprintf("outbound: %v, inbound: %v", oe, ie), verifkit.JSON(hp), nil)
				return
			}
		}
		outErr, inErr, hung, touched := c20RunConn(t, r, pl, desc, rng, initiator, responder, third, earlier, nil)
		if hung {
			r.Inconclusive("connection handshake did not finish within the watchdog: " + desc)
			return
		}
		interfered := pl.Act != 0 && touched
		r.Case(desc, pl.P1 != pl.P2 || interfered)
		wit := map[string]interface{}{"outbound_error": fmt.Sprint(outErr), "inbound_error": fmt.Sprint(inErr)}
		switch {
		case pl.P1 != pl.P2:
			if outErr == nil || inErr == nil {
				r.Violation("conn:completed-despite-protocol-mismatch", "a side completed the handshake although the protocol ids differ", desc, wit)
			}
			r.Count("protocol_mismatch", 1)
		case !interfered:
			if outErr != nil || inErr != nil {
				r.Violation("conn:honest-failed", "handshake between honest peers on the same protocol failed", desc, wit)
			}
			r.Count("honest", 1)
		default:
			recvErr := inErr
			if pl.Act == 2 {
				recvErr = outErr
			}
			if recvErr == nil {
				r.Violation(fmt.Sprintf("conn:completed-despite:act%d:%s", pl.Act, pl.Mode), "the receiver of an altered handshake envelope completed the handshake", desc, wit)
			}
			r.Count("interfered", 1)
		}
		if i%(n/3+1) == 0 {
			r.Sample(map[string]interface{}{"plan": pl, "outbound_error": fmt.Sprint(outErr), "inbound_error": fmt.Sprint(inErr)})
		}
	})
}
