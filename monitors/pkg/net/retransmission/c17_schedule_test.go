//go:build verif

package retransmission

import (
	"context"
	"fmt"
	"runtime"
	"sort"
	"strings"
	"sync"
	"sync/atomic"
	"testing"
	"time"

	"github.com/keep-network/keep-core/internal/testutils"
	"github.com/keep-network/keep-core/internal/verifkit"
	"github.com/keep-network/keep-core/pkg/net"
)

// ---------------------------------------------------------------------------
// Oracle: the schedule as the property states it.
//
// standard: one retransmission per tick.
// backoff : retransmissions at ticks 1, 3, 6, 11, 20, 37, 70, 135, ... i.e. the
// k-th one (k = 0, 1, ...) at tick 2^k + k (gaps 2, 3, 5, 9, 17: the number of
// silent ticks in between doubles).
// ---------------------------------------------------------------------------

func c17Expected(kind string, ticks int) int {
	if kind == "standard" {
		return ticks
	}
	n := 0
	for k := 0; k < 40; k++ {
		if (1<<uint(k))+k > ticks {
			break
		}
		n++
	}
	return n
}

func c17Strategy(kind string) Strategy {
	if kind == "standard" {
		return WithStrategy(net.StandardRetransmissionStrategy)
	}
	return WithStrategy(net.BackoffRetransmissionStrategy)
}

// ---------------------------------------------------------------------------
// Part 1: the real ScheduleRetransmissions + Ticker, fed by hand.
// ---------------------------------------------------------------------------

// c17Reg is what the monitor sees of one ScheduleRetransmissions
// registration. All hooks that touch it run *after* the strategy has finished
// working on its counters (inside the retransmit function, or after Tick has
// returned), so taking mu there cannot order two Tick bodies for the race
// detector.
type c17Reg struct {
	kind   string
	ctx    context.Context
	cancel context.CancelFunc

	mu       sync.Mutex
	invoked  int // retransmit function invocations
	bodyDone int // Tick calls that are past the counter section
	exited   int // Tick calls returned
	waiting  int // retransmit invocations parked at the gate
	gate     []chan struct{}
	overlap  int // Tick calls that completed their body while another one of the same registration was in flight (parked)
	multi    int // Tick calls that invoked retransmit more than once

	// nopark: retransmit invocations are not held at the gate (sentinel)
	nopark bool

	// pre-body instrumentation, oracle pass only (never under -race)
	pre         bool
	inFlight    int64
	maxInFlight int64

	// feeder-side bookkeeping (feeder goroutine only)
	registered bool
	cancelled  bool
	delivered  int // ticks handed to the ticker while registered and not cancelled
	lo, hi     int // legal range of Tick calls once cancelled
}

type c17Wrap struct {
	inner Strategy
	reg   *c17Reg
}

func (w *c17Wrap) Tick(retransmit RetransmitFn) error {
	g := w.reg
	if g.pre {
		cur := atomic.AddInt64(&g.inFlight, 1)
		for {
			m := atomic.LoadInt64(&g.maxInFlight)
			if cur <= m || atomic.CompareAndSwapInt64(&g.maxInFlight, m, cur) {
				break
			}
		}
	}
	calls := 0
	err := w.inner.Tick(func() error {
		calls++
		first := calls == 1
		g.mu.Lock()
		g.invoked++
		if first {
			g.bodyDone++
			if g.waiting > 0 {
				g.overlap++
			}
		}
		if g.nopark {
			g.mu.Unlock()
			return retransmit()
		}
		ch := make(chan struct{})
		g.gate = append(g.gate, ch)
		g.waiting++
		g.mu.Unlock()
		<-ch
		return retransmit()
	})
	g.mu.Lock()
	if calls == 0 {
		g.bodyDone++
		if g.waiting > 0 {
			g.overlap++
		}
	}
	if calls > 1 {
		g.multi++
	}
	g.exited++
	g.mu.Unlock()
	if g.pre {
		atomic.AddInt64(&g.inFlight, -1)
	}
	return err
}

// release lets parked retransmit invocations go, in the order given by perm
// (nil = all, in arrival order).
func (g *c17Reg) release(shuffle func(n int, swap func(i, j int))) int {
	g.mu.Lock()
	chs := g.gate
	g.gate = nil
	g.waiting -= len(chs)
	g.mu.Unlock()
	if shuffle != nil {
		shuffle(len(chs), func(i, j int) { chs[i], chs[j] = chs[j], chs[i] })
	}
	for _, ch := range chs {
		close(ch)
	}
	return len(chs)
}

type c17Snap struct{ invoked, bodyDone, exited, waiting, overlap, multi int }

func (g *c17Reg) snap() c17Snap {
	g.mu.Lock()
	defer g.mu.Unlock()
	return c17Snap{g.invoked, g.bodyDone, g.exited, g.waiting, g.overlap, g.multi}
}

type c17Step struct {
	Op  string `json:"op"` // reg, tick, cancel, barrier
	Reg int    `json:"reg,omitempty"`
	Rel []int  `json:"rel,omitempty"` // barrier: registrations whose parked calls are released (shuffled)
}

type c17Script struct {
	Kinds []string  `json:"kinds"`
	Steps []c17Step `json:"steps"`
	Ticks int       `json:"ticks"`
}

func c17GenScript(rng interface {
	Intn(int) int
}, maxTicks int) c17Script {
	nregs := 1 + rng.Intn(3)
	sc := c17Script{}
	for i := 0; i < nregs; i++ {
		if rng.Intn(10) < 6 {
			sc.Kinds = append(sc.Kinds, "backoff")
		} else {
			sc.Kinds = append(sc.Kinds, "standard")
		}
	}
	total := 1 + rng.Intn(maxTicks)
	registered := make([]bool, nregs)
	cancelled := make([]bool, nregs)
	sent := 0
	for sent < total {
		for i := 0; i < nregs; i++ {
			if !registered[i] && (i == 0 || rng.Intn(3) == 0) {
				registered[i] = true
				sc.Steps = append(sc.Steps, c17Step{Op: "reg", Reg: i})
			}
		}
		for i := 0; i < nregs; i++ {
			if registered[i] && !cancelled[i] && rng.Intn(12) == 0 {
				cancelled[i] = true
				sc.Steps = append(sc.Steps, c17Step{Op: "cancel", Reg: i})
			}
		}
		b := 1
		switch rng.Intn(4) {
		case 0:
		case 1:
			b = 1 + rng.Intn(4)
		default:
			b = 1 + rng.Intn(16)
		}
		if b > total-sent {
			b = total - sent
		}
		mid, midAt := -1, 0
		if b >= 2 && rng.Intn(5) == 0 {
			c := rng.Intn(nregs)
			if registered[c] && !cancelled[c] {
				mid, midAt = c, 1+rng.Intn(b-1)
				cancelled[c] = true
			}
		}
		for i := 1; i <= b; i++ {
			sc.Steps = append(sc.Steps, c17Step{Op: "tick"})
			if mid >= 0 && i == midAt {
				sc.Steps = append(sc.Steps, c17Step{Op: "cancel", Reg: mid})
			}
		}
		sent += b
		bar := c17Step{Op: "barrier", Rel: []int{}}
		for i := 0; i < nregs; i++ {
			if rng.Intn(2) == 0 {
				bar.Rel = append(bar.Rel, i)
			}
		}
		sc.Steps = append(sc.Steps, bar)
	}
	sc.Ticks = total
	return sc
}

type c17Outcome struct {
	nontrivial   bool
	forced       int
	maxInFlight  int64
	overlaps     int
	unorderedMax int
	final        []c17Snap
	aborted      bool
	stalled      bool // no progress towards the expected Tick calls (undiagnosed)
	lostTicks    bool // diagnosed: the process was quiescent with Tick calls still missing
}

// c17Quiescent reports whether, in three goroutine dumps 100 ms apart, no
// goroutine other than the caller is running or runnable: whatever has not
// happened by then will not happen without a further input. Only meaningful
// while nothing else runs in the process (the sequential diagnosis phase).
func c17Quiescent() bool {
	for round := 0; round < 3; round++ {
		buf := make([]byte, 1<<20)
		n := runtime.Stack(buf, true)
		first := true
		for _, blk := range strings.Split(string(buf[:n]), "\n\n") {
			if !strings.HasPrefix(blk, "goroutine ") {
				continue
			}
			if first { // the caller
				first = false
				continue
			}
			hdr := blk
			if i := strings.Index(blk, "\n"); i >= 0 {
				hdr = blk[:i]
			}
			if strings.Contains(hdr, "[running") || strings.Contains(hdr, "[runnable") || strings.Contains(hdr, "[syscall") {
				return false
			}
		}
		time.Sleep(100 * time.Millisecond)
	}
	return true
}

// c17RunScript executes one script against the real Ticker and
// ScheduleRetransmissions. pre enables pre-body instrumentation (oracle pass).
func c17RunScript(r *verifkit.Run, sc c17Script, desc string, pre bool, shuffle func(n int, swap func(i, j int)), diagnose bool) c17Outcome {
	var out c17Outcome
	ticks := make(chan uint64)
	ticker := NewTicker(ticks)
	regs := make([]*c17Reg, len(sc.Kinds)+1)
	for i, k := range sc.Kinds {
		ctx, cancel := context.WithCancel(context.Background())
		regs[i] = &c17Reg{kind: k, ctx: ctx, cancel: cancel, pre: pre}
	}
	// Sentinel: a standard-strategy registration that lives for the whole
	// script and is never parked. "The ticker accepted tick k" does not mean
	// "tick k has been dispatched"; the sentinel having been consulted for
	// tick k does mean the ticker is at least inside the dispatch of tick k
	// (which it performs under its handler mutex), so a registration made
	// after a barrier cannot pick up an earlier tick.
	sentinel := len(sc.Kinds)
	{
		ctx, cancel := context.WithCancel(context.Background())
		regs[sentinel] = &c17Reg{kind: "standard", ctx: ctx, cancel: cancel, pre: pre, nopark: true}
	}
	defer func() {
		for _, g := range regs {
			g.cancel()
		}
		// let every parked invocation go, then stop the ticker goroutine
		for i := 0; i < 3; i++ {
			for _, g := range regs {
				g.release(nil)
			}
			runtime.Gosched()
		}
		close(ticks)
		for _, g := range regs {
			g.release(nil)
		}
	}()

	const watchdog = 30 * time.Second
	registrations := uint64(0)
	sinceBarrier := 0 // ticks sent since the last barrier

	settle := func(extraSpin bool) bool {
		deadline := time.Now().Add(watchdog)
		lastProgress := time.Now()
		stallStart := time.Now()
		lastSum := -1
		spins := 0
		extraLeft := 0
		if extraSpin {
			extraLeft = 300
		}
		for {
			ok := true
			sum := 0
			for _, g := range regs {
				if !g.registered {
					continue
				}
				s := g.snap()
				sum += s.bodyDone + s.exited
				target := g.delivered
				if g.cancelled {
					target = g.lo
				}
				if s.bodyDone < target || s.exited+s.waiting != s.bodyDone {
					ok = false
				}
				// a Tick call that has passed the strategy's counter section
				// but has not reached the retransmit function yet is invisible
				// in the counters above: every call in flight must be parked
				if pre && atomic.LoadInt64(&g.inFlight) != int64(s.waiting) {
					ok = false
				}
			}
			if ok {
				if extraLeft == 0 {
					return true
				}
				extraLeft--
			}
			if sum != lastSum {
				lastSum = sum
				lastProgress = time.Now()
				stallStart = time.Now()
			} else if time.Since(lastProgress) > 40*time.Millisecond {
				// Nothing moves although calls are parked: an implementation
				// that serialises Tick calls across the retransmit function
				// needs the parked one to return first. Let them go; this
				// only reduces the overlap explored, it decides nothing.
				n := 0
				for _, g := range regs {
					n += g.release(nil)
				}
				if n > 0 {
					out.forced += n
				}
				lastProgress = time.Now()
			}
			if time.Now().After(deadline) {
				return false
			}
			if lastSum == sum && time.Since(stallStart) > 4*time.Second {
				// nothing has moved for seconds although nothing is parked
				if !diagnose {
					out.stalled = true
					return false
				}
				if c17Quiescent() {
					// every goroutine is parked and Tick calls are still
					// missing: those ticks never reached the strategy
					out.lostTicks = true
					return true
				}
				stallStart = time.Now()
			}
			spins++
			if spins%64 == 0 {
				time.Sleep(20 * time.Microsecond)
			} else {
				runtime.Gosched()
			}
		}
	}

	check := func(where string) {
		for i, g := range regs {
			if !g.registered {
				continue
			}
			s := g.snap()
			lo, hi := g.delivered, g.delivered
			if g.cancelled {
				lo, hi = g.lo, g.hi
			}
			wit := map[string]interface{}{"registration": i, "strategy": g.kind, "at": where,
				"tick_calls": s.bodyDone, "retransmissions": s.invoked, "ticks_delivered_live_min": lo, "ticks_delivered_live_max": hi}
			if out.lostTicks && s.bodyDone < lo {
				r.Violation(g.kind+":tick-never-reached-the-strategy",
					fmt.Sprintf("%d ticks were dispatched to this live registration but its strategy was consulted only %d times, and every goroutine of the process is parked", lo, s.bodyDone), desc, wit)
				continue
			}
			if !pre {
				// race pass: calls in flight cannot be told from finished
				// ones without adding synchronisation of the monitor's own;
				// the counting rules belong to the oracle pass, the verdict
				// here is the detector's (and the quiescence rule above)
				continue
			}
			if s.bodyDone > hi {
				if g.cancelled {
					r.Violation(g.kind+":tick-after-context-end",
						fmt.Sprintf("strategy consulted %d times although at most %d ticks were delivered before the context ended", s.bodyDone, hi), desc, wit)
				} else {
					r.Violation(g.kind+":more-tick-calls-than-ticks",
						fmt.Sprintf("strategy consulted %d times for %d ticks", s.bodyDone, hi), desc, wit)
				}
				continue
			}
			want := c17Expected(g.kind, s.bodyDone)
			if s.invoked != want {
				r.Violation(g.kind+":retransmission-count",
					fmt.Sprintf("%d retransmissions after %d ticks, the schedule gives %d", s.invoked, s.bodyDone, want), desc, wit)
			}
			if s.multi > 0 {
				r.Violation(g.kind+":several-retransmissions-in-one-tick",
					fmt.Sprintf("%d tick(s) invoked the retransmit function more than once", s.multi), desc, wit)
			}
		}
	}

	steps := append([]c17Step{{Op: "reg", Reg: sentinel}}, sc.Steps...)
	for si, st := range steps {
		switch st.Op {
		case "reg":
			g := regs[st.Reg]
			ScheduleRetransmissions(g.ctx, &testutils.MockLogger{}, ticker, func() error { return nil }, &c17Wrap{inner: c17Strategy(g.kind), reg: g})
			registrations++
			// registration is asynchronous (its own goroutine): wait until the
			// ticker knows the handler, otherwise early ticks are legally missed
			deadline := time.Now().Add(watchdog)
			for {
				// the handler is known once the ticker's registry holds an
				// entry for this registration's context (no dependence on how
				// the registry numbers its entries)
				ticker.handlersMutex.Lock()
				n := 0
				for _, h := range ticker.handlers {
					if h.ctx == g.ctx {
						n++
					}
				}
				ticker.handlersMutex.Unlock()
				if n >= 1 {
					break
				}
				if time.Now().After(deadline) {
					r.Inconclusive("handler registration not visible within the watchdog: " + desc)
					out.aborted = true
					return out
				}
				runtime.Gosched()
			}
			g.registered = true
			// registry invariant at this quiescent point: the ticker removes a
			// handler only once its context has ended, so every earlier
			// registration whose context is still live must still be in the
			// registry (a registration must never displace a live one)
			ticker.handlersMutex.Lock()
			for ri, og := range regs {
				if og == nil || !og.registered || og.ctx.Err() != nil {
					continue
				}
				present := 0
				for _, h := range ticker.handlers {
					if h.ctx == og.ctx {
						present++
					}
				}
				if present == 0 {
					r.Violation(og.kind+":live-registration-lost",
						fmt.Sprintf("registration %d has a live context but is no longer in the ticker's registry after registration %d was added: it will never be retransmitted again", ri, st.Reg), desc, nil)
				}
			}
			ticker.handlersMutex.Unlock()
		case "tick":
			select {
			case ticks <- uint64(si):
			case <-time.After(watchdog):
				r.Inconclusive("ticker did not accept a tick within the watchdog: " + desc)
				out.aborted = true
				return out
			}
			sinceBarrier++
			live := 0
			for _, g := range regs {
				if g.registered && !g.cancelled {
					g.delivered++
					live++
				}
			}
			if sinceBarrier >= 2 && live > 0 && sinceBarrier > out.unorderedMax {
				out.unorderedMax = sinceBarrier
			}
		case "cancel":
			g := regs[st.Reg]
			g.cancel() // returned: every later tick finds the context ended
			g.cancelled = true
			g.hi = g.delivered
			g.lo = g.delivered
			if sinceBarrier > 0 && g.lo > 0 {
				// the tick handed over last may be looked at before or after
				// the cancellation; all earlier ones were fully dispatched
				// before the ticker accepted it
				g.lo--
			}
		case "barrier":
			extra := false
			for _, g := range regs {
				if g.registered && g.cancelled && g.lo < g.hi {
					extra = true
				}
			}
			if !settle(extra) {
				if !out.stalled {
					r.Inconclusive("tick callbacks did not settle within the watchdog: " + desc)
				}
				out.aborted = true
				return out
			}
			check(fmt.Sprintf("step %d", si))
			sinceBarrier = 0
			for _, i := range st.Rel {
				regs[i].release(shuffle)
			}
		}
	}
	// drain: release everything, settle, final check
	for _, g := range regs {
		g.release(shuffle)
	}
	if !settle(true) {
		if !out.stalled {
			r.Inconclusive("tick callbacks did not settle within the watchdog (final): " + desc)
		}
		out.aborted = true
		return out
	}
	check("end")
	for _, g := range regs {
		s := g.snap()
		out.final = append(out.final, s)
		out.overlaps += s.overlap
		if m := atomic.LoadInt64(&g.maxInFlight); m > out.maxInFlight {
			out.maxInFlight = m
		}
	}
	out.nontrivial = out.overlaps > 0 || out.maxInFlight >= 2
	return out
}

func c17ScheduleWorkload(r *verifkit.Run, repeats int, pre bool) {
	r.SetRule("script = 1-3 registrations (standard/backoff) on one hand-fed Ticker, 1..64 ticks in bursts of 1-16 sent back to back, registrations and cancellations at quiescent points or inside a burst, retransmit invocations parked at a gate and released in PRNG order at PRNG-chosen barriers (possibly several bursts later); oracle at every quiescent point: retransmissions == |{2^k+k} ∩ [1,ticks seen by the strategy]| (standard: == ticks), ticks seen within the legal range, none after the context ended. non-trivial = a Tick call finished its counter section while another Tick call of the same registration was still in flight (observed at the gate; oracle pass also counts physically overlapping calls)")
	n := r.N(300, 3000)
	maxTicks := 64
	if !r.Quick() {
		maxTicks = 160
	}
	scripts := make([]c17Script, n)
	for i := range scripts {
		scripts[i] = c17GenScript(r.SubRand("script", i), maxTicks)
	}
	var forced, overl, unordered int64
	var maxIn int64
	var mu sync.Mutex
	var stalled []int
	var stallSeen int32
	var skipped int64
	verifkit.Parallel(n, 0, func(i int) {
		desc := verifkit.JSON(scripts[i])
		for rep := 0; rep < repeats; rep++ {
			if atomic.LoadInt32(&stallSeen) >= 3 {
				// scripts are stalling: stop the bulk run and diagnose those
				atomic.AddInt64(&skipped, 1)
				return
			}
			rng := r.SubRand(fmt.Sprintf("release-%d", rep), i)
			var o c17Outcome
			r.Guard("schedule:", desc, func() {
				o = c17RunScript(r, scripts[i], desc, pre, rng.Shuffle, false)
			})
			if o.stalled {
				atomic.AddInt32(&stallSeen, 1)
				mu.Lock()
				stalled = append(stalled, i)
				mu.Unlock()
			}
			if o.aborted {
				continue
			}
			r.Case(desc, o.nontrivial)
			mu.Lock()
			forced += int64(o.forced)
			overl += int64(o.overlaps)
			if o.unorderedMax >= 2 {
				unordered++
			}
			if o.maxInFlight > maxIn {
				maxIn = o.maxInFlight
			}
			mu.Unlock()
			if rep == 0 && i%(n/4+1) == 0 {
				fin := []map[string]int{}
				for _, s := range o.final {
					fin = append(fin, map[string]int{"tick_calls": s.bodyDone, "retransmissions": s.invoked})
				}
				r.Sample(map[string]interface{}{"strategies": scripts[i].Kinds, "ticks": scripts[i].Ticks, "steps": len(scripts[i].Steps), "final": fin, "overlapping_tick_calls": o.overlaps})
			}
		}
	})
	// Scripts that stalled (Tick calls missing, nothing moving) are re-run one
	// at a time with nothing else running, where "every goroutine is parked"
	// can be read off a goroutine dump and decides between a lost tick and a
	// slow machine.
	sort.Ints(stalled)
	diagnosed := 0
	for k, i := range stalled {
		desc := verifkit.JSON(scripts[i])
		if k >= 10 {
			r.Inconclusive("script stalled (not diagnosed): " + desc)
			continue
		}
		var o c17Outcome
		r.Guard("schedule:", desc, func() {
			o = c17RunScript(r, scripts[i], desc, pre, r.SubRand("release-diag", i).Shuffle, true)
		})
		diagnosed++
		if o.aborted && !o.lostTicks {
			r.Inconclusive("script stalled again under diagnosis without reaching quiescence: " + desc)
		} else if !o.aborted {
			r.Case(desc, o.nontrivial)
		}
	}
	if skipped > 0 {
		r.Count("scripts_skipped_after_stalls", skipped)
	}
	r.Count("stalled_scripts", int64(len(stalled)))
	r.Count("stalled_scripts_diagnosed", int64(diagnosed))
	r.Count("forced_gate_releases", forced)
	r.Count("tick_calls_overlapping_an_in_flight_call", overl)
	r.Count("runs_with_unordered_tick_burst", unordered)
	if pre {
		r.Count("max_physically_overlapping_tick_calls", maxIn)
	}
}

func TestVerif_C17_Schedule(t *testing.T) {
	r := verifkit.Start(t, "C17", "schedule")
	defer r.Finish()
	c17ScheduleWorkload(r, 1, true)
}

func TestVerif_C17_ScheduleRace(t *testing.T) {
	r := verifkit.Start(t, "C17", "schedule-race")
	defer r.Finish()
	r.Assume("race pass: monitor hooks run only after the strategy's counter section, so the detector sees the strategy's own synchronisation only")
	c17ScheduleWorkload(r, r.N(3, 4), false)
}

// ---------------------------------------------------------------------------
// Part 2: the strategy consulted the way ScheduleRetransmissions does it (one
// fresh goroutine per tick), with the goroutines of a burst started from a
// common barrier so that the Tick calls physically overlap.
// ---------------------------------------------------------------------------

type c17DirectCase struct {
	Kind   string `json:"strategy"`
	Bursts []int  `json:"bursts"`
}

func c17RunDirect(r *verifkit.Run, c c17DirectCase, desc string, measure bool) (maxIn int64, bad bool) {
	strategy := c17Strategy(c.Kind)
	ticks := 0
	total := 0
	var inFlight, maxInFlight int64
	for bi, b := range c.Bursts {
		slots := make([]int, b)
		var start int32
		var ready int64
		var wg sync.WaitGroup
		for i := 0; i < b; i++ {
			wg.Add(1)
			go func(i int) {
				defer wg.Done()
				atomic.AddInt64(&ready, 1) // before the common barrier: orders nothing between Tick calls
				for atomic.LoadInt32(&start) == 0 {
					runtime.Gosched()
				}
				if measure {
					cur := atomic.AddInt64(&inFlight, 1)
					for {
						m := atomic.LoadInt64(&maxInFlight)
						if cur <= m || atomic.CompareAndSwapInt64(&maxInFlight, m, cur) {
							break
						}
					}
				}
				_ = strategy.Tick(func() error {
					slots[i]++ // this goroutine's own slot
					return nil
				})
				if measure {
					atomic.AddInt64(&inFlight, -1)
				}
			}(i)
		}
		for atomic.LoadInt64(&ready) < int64(b) {
			runtime.Gosched()
		}
		atomic.StoreInt32(&start, 1)
		wg.Wait()
		ticks += b
		for _, s := range slots {
			total += s
			if s > 1 {
				r.Violation(c.Kind+":several-retransmissions-in-one-tick", "one Tick call invoked the retransmit function more than once", desc, nil)
				bad = true
			}
		}
		if want := c17Expected(c.Kind, ticks); total != want {
			r.Violation(c.Kind+":retransmission-count",
				fmt.Sprintf("%d retransmissions after %d ticks, the schedule gives %d", total, ticks, want), desc,
				map[string]interface{}{"after_burst": bi, "burst_size": b, "ticks": ticks, "retransmissions": total, "expected": want})
			return maxInFlight, true
		}
	}
	return maxInFlight, bad
}

func c17DirectWorkload(r *verifkit.Run, repeats int, measure bool) {
	r.SetRule("strategy instance consulted from one fresh goroutine per tick (as ScheduleRetransmissions does), the goroutines of a burst (1-16) released together from a barrier, up to 64 ticks (thorough 160); after each burst retransmissions == |{2^k+k} ∩ [1,ticks]| (standard: == ticks). non-trivial = a burst of >= 2 Tick calls was released together (oracle pass: >= 2 calls physically overlapping, measured)")
	n := r.N(300, 10000)
	maxTicks := 64
	if !r.Quick() {
		maxTicks = 160
	}
	cases := make([]c17DirectCase, n)
	for i := range cases {
		rng := r.SubRand("direct", i)
		c := c17DirectCase{Kind: "backoff"}
		if rng.Intn(5) == 0 {
			c.Kind = "standard"
		}
		total := 1 + rng.Intn(maxTicks)
		for s := 0; s < total; {
			b := 1 + rng.Intn(16)
			if rng.Intn(5) == 0 {
				b = 1
			}
			if b > total-s {
				b = total - s
			}
			c.Bursts = append(c.Bursts, b)
			s += b
		}
		cases[i] = c
	}
	var mismatches int64
	var maxIn int64
	// cases run one after the other on purpose: the goroutines of a burst
	// should get the cores to themselves so that they really overlap
	for i, c := range cases {
		desc := verifkit.JSON(c)
		multi := false
		for _, b := range c.Bursts {
			if b >= 2 {
				multi = true
			}
		}
		for rep := 0; rep < repeats; rep++ {
			var m int64
			var bad bool
			r.Guard("direct:", desc, func() { m, bad = c17RunDirect(r, c, desc, measure) })
			if bad {
				mismatches++
			}
			if m > maxIn {
				maxIn = m
			}
			nt := multi
			if measure {
				nt = m >= 2
			}
			r.Case(desc, nt)
		}
		if i%(n/3+1) == 0 {
			r.Sample(c)
		}
	}
	r.Count("runs_with_wrong_count", mismatches)
	if measure {
		r.Count("max_physically_overlapping_tick_calls", maxIn)
	}
}

func TestVerif_C17_Direct(t *testing.T) {
	r := verifkit.Start(t, "C17", "direct")
	defer r.Finish()
	c17DirectWorkload(r, 1, true)
}

func TestVerif_C17_DirectRace(t *testing.T) {
	r := verifkit.Start(t, "C17", "direct-race")
	defer r.Finish()
	r.Assume("race pass: the retransmit callback writes a per-goroutine slot merged after WaitGroup.Wait; the only added synchronisation is the start barrier of a burst and the wait for its end")
	c17DirectWorkload(r, r.N(3, 4), false)
}
