//go:build verif

package retransmission

// C17 on a crowded ticker: messages scheduled WHILE a tick is being
// dispatched to thousands of other live messages. A message whose context is
// live is retransmitted on every later tick, whatever the ticker was doing
// when it was scheduled.

import (
	"context"
	"fmt"
	"sync/atomic"
	"testing"
	"time"

	"github.com/keep-network/keep-core/internal/testutils"
	"github.com/keep-network/keep-core/internal/verifkit"
)

func TestVerif_C17_ScheduledDuringDispatch(t *testing.T) {
	r := verifkit.Start(t, "C17", "scheduled-during-dispatch")
	defer r.Finish()
	r.SetRule("a hand-fed Ticker carrying 2000-6000 live messages (standard strategy); during each of 4-10 ticks, 3-10 further messages are scheduled from another goroutine while the tick is being dispatched; after the last of them 3 more ticks are fed one at a time. Every message scheduled during a dispatch has a live context, so it must receive each of the 3 final ticks (exactly 3 retransmissions more than it had before them). A message that did not must still be in the ticker's registry for the run to be inconclusive (slow goroutines); if it is no longer registered it can never be retransmitted: violation. Non-trivial: at least one message was scheduled while the ticker goroutine was inside a dispatch.")
	cases := r.N(6, 60)
	for ci := 0; ci < cases; ci++ {
		rng := r.SubRand("crowd", ci)
		crowd := 2000 + rng.Intn(4001)
		rounds := 4 + rng.Intn(7)
		desc := fmt.Sprintf("crowd=%d rounds=%d", crowd, rounds)
		ticks := make(chan uint64)
		ticker := NewTicker(ticks)
		ctx, cancel := context.WithCancel(context.Background())
		var crowdCalls int64
		for k := 0; k < crowd; k++ {
			ScheduleRetransmissions(ctx, &testutils.MockLogger{}, ticker, func() error { atomic.AddInt64(&crowdCalls, 1); return nil }, WithStandardStrategy())
		}
		// wait until the crowd is registered
		deadline := time.Now().Add(30 * time.Second)
		for {
			ticker.handlersMutex.Lock()
			n := len(ticker.handlers)
			ticker.handlersMutex.Unlock()
			if n >= crowd {
				break
			}
			if time.Now().After(deadline) {
				r.Inconclusive("crowd registration not visible within the watchdog: " + desc)
				cancel()
				close(ticks)
				return
			}
			time.Sleep(200 * time.Microsecond)
		}
		type late struct {
			ctx   context.Context
			count int64
			id    int
		}
		var lates []*late
		for rd := 0; rd < rounds; rd++ {
			ticks <- uint64(rd + 1) // accepted: the dispatch over the crowd starts now
			k := 3 + rng.Intn(8)
			for j := 0; j < k; j++ {
				l := &late{ctx: ctx, id: len(lates)}
				lates = append(lates, l)
				ScheduleRetransmissions(ctx, &testutils.MockLogger{}, ticker, func() error { atomic.AddInt64(&l.count, 1); return nil }, WithStandardStrategy())
			}
		}
		// a tick is taken only after the previous dispatch has finished: after
		// this one has been taken, every registration goroutine above that ran
		// is either registered or lost
		time.Sleep(20 * time.Millisecond) // lets the registration goroutines run; decides nothing
		ticks <- 1000
		ticks <- 1001
		before := make([]int64, len(lates))
		time.Sleep(20 * time.Millisecond)
		for i, l := range lates {
			before[i] = atomic.LoadInt64(&l.count)
		}
		for f := 0; f < 3; f++ {
			ticks <- uint64(2000 + f)
		}
		ticks <- 3000 // taken: the three final ticks have been dispatched
		r.Case(desc, len(lates) > 0)
		r.Count("messages_scheduled_during_dispatch", int64(len(lates)))
		// every late message must gain at least 3 retransmissions
		deadline = time.Now().Add(20 * time.Second)
		for {
			missing := 0
			for i, l := range lates {
				if atomic.LoadInt64(&l.count)-before[i] < 3 {
					missing++
				}
			}
			if missing == 0 {
				break
			}
			if time.Now().After(deadline) {
				ticker.handlersMutex.Lock()
				registered := len(ticker.handlers)
				ticker.handlersMutex.Unlock()
				if registered < crowd+len(lates) {
					r.Violation("standard:live-registration-lost",
						fmt.Sprintf("%d message(s) scheduled while a tick was being dispatched received fewer than 3 of the 3 later ticks, and the ticker's registry holds %d handlers for %d live messages: they can never be retransmitted", missing, registered, crowd+len(lates)), desc, nil)
				} else {
					r.Inconclusive(fmt.Sprintf("%d late messages short of retransmissions after the watchdog although all are registered: %s", missing, desc))
				}
				break
			}
			time.Sleep(time.Millisecond)
		}
		cancel()
		close(ticks)
	}
}
