//go:build verif

package retransmission

import (
	"fmt"
	"runtime"
	"sync"
	"sync/atomic"
	"testing"

	"github.com/keep-network/keep-core/internal/verifkit"
	"github.com/keep-network/keep-core/pkg/net"
)

// C16, duplicate filter: WithRetransmissionSupport(delegate) is called
// concurrently from several goroutines with a shuffled multiset of messages
// (1-5 copies of each (sender, seqno)).
//
// Oracle: the delegate sees every (sender, seqno) at most once. (It must also
// see each one at least once — the function's contract: a message not seen
// before is passed on — reported under a separate fingerprint.)
//
// Every copy is its own message object that is handed to the filter exactly
// once, by one goroutine; the delegate marks that object. So the monitor adds
// no synchronisation between the filtering goroutines at all.

type c16Copy struct {
	sender    string
	seqno     uint64
	key       int
	delivered int // written by the delegate on the goroutine that passed this copy in
}

type c16ID string

func (i c16ID) String() string { return string(i) }

func (c *c16Copy) TransportSenderID() net.TransportIdentifier { return c16ID(c.sender) }
func (c *c16Copy) SenderPublicKey() []byte                    { return nil }
func (c *c16Copy) Payload() interface{}                       { return c }
func (c *c16Copy) Type() string                               { return "c16/copy" }
func (c *c16Copy) Seqno() uint64                              { return c.seqno }

type c16FilterCase struct {
	Senders    []string `json:"senders"`
	Keys       [][2]int `json:"keys"`   // (sender index, seqno)
	Copies     []int    `json:"copies"` // per key
	Goroutines int      `json:"goroutines"`
	Order      []int    `json:"order"` // shuffled key indices, one per copy, dealt round-robin to the goroutines
}

var c16SenderPool = []string{"a", "b", "a-1", "a-", "-", "", "16Uiu2HAm", "a-1-2", "1", "a-0"}

func c16GenFilterCase(rng interface {
	Intn(int) int
	Shuffle(int, func(int, int))
}) c16FilterCase {
	c := c16FilterCase{Goroutines: 2 + rng.Intn(7)}
	ns := 1 + rng.Intn(4)
	perm := make([]int, len(c16SenderPool))
	for i := range perm {
		perm[i] = i
	}
	rng.Shuffle(len(perm), func(i, j int) { perm[i], perm[j] = perm[j], perm[i] })
	for i := 0; i < ns; i++ {
		c.Senders = append(c.Senders, c16SenderPool[perm[i]])
	}
	nk := 1 + rng.Intn(24)
	if nk > ns*12 {
		nk = ns * 12
	}
	used := map[[2]int]bool{}
	for len(c.Keys) < nk {
		k := [2]int{rng.Intn(ns), rng.Intn(12)}
		if rng.Intn(6) == 0 {
			k[1] = 1<<31 + rng.Intn(3)
		}
		if used[k] {
			continue
		}
		used[k] = true
		c.Keys = append(c.Keys, k)
		n := 1 + rng.Intn(5)
		c.Copies = append(c.Copies, n)
		for j := 0; j < n; j++ {
			c.Order = append(c.Order, len(c.Keys)-1)
		}
	}
	rng.Shuffle(len(c.Order), func(i, j int) { c.Order[i], c.Order[j] = c.Order[j], c.Order[i] })
	return c
}

func c16RunFilter(r *verifkit.Run, c c16FilterCase, desc string) (dupKeys, concurrentDupKeys int) {
	copies := make([]*c16Copy, len(c.Order))
	byG := make([][]*c16Copy, c.Goroutines)
	keyGs := make([]map[int]bool, len(c.Keys))
	for i, k := range c.Order {
		cp := &c16Copy{sender: c.Senders[c.Keys[k][0]], seqno: uint64(c.Keys[k][1]), key: k}
		copies[i] = cp
		g := i % c.Goroutines
		byG[g] = append(byG[g], cp)
		if keyGs[k] == nil {
			keyGs[k] = map[int]bool{}
		}
		keyGs[k][g] = true
	}
	handler := WithRetransmissionSupport(func(m net.Message) {
		m.Payload().(*c16Copy).delivered++
	})
	var start int32
	var ready int64
	var wg sync.WaitGroup
	for g := 0; g < c.Goroutines; g++ {
		wg.Add(1)
		go func(list []*c16Copy) {
			defer wg.Done()
			atomic.AddInt64(&ready, 1)
			for atomic.LoadInt32(&start) == 0 {
				runtime.Gosched()
			}
			for _, cp := range list {
				handler(cp)
			}
		}(byG[g])
	}
	for atomic.LoadInt64(&ready) < int64(c.Goroutines) {
		runtime.Gosched()
	}
	atomic.StoreInt32(&start, 1)
	wg.Wait()

	perKey := make([]int, len(c.Keys))
	for _, cp := range copies {
		if cp.delivered > 1 {
			r.Violation("filter:one-call-delegated-twice", "one handler call reached the delegate more than once", desc, nil)
		}
		perKey[cp.key] += cp.delivered
	}
	for k, n := range perKey {
		wit := map[string]interface{}{"sender": c.Senders[c.Keys[k][0]], "seqno": c.Keys[k][1], "copies": c.Copies[k], "delegated": n}
		if n > 1 {
			r.Violation("filter:duplicate-delivery", fmt.Sprintf("(sender, seqno) delivered %d times", n), desc, wit)
		}
		if n == 0 {
			r.Violation("filter:never-delivered", "a (sender, seqno) not seen before was not passed to the delegate", desc, wit)
		}
		if c.Copies[k] > 1 {
			dupKeys++
			if len(keyGs[k]) > 1 {
				concurrentDupKeys++
			}
		}
	}
	return
}

func c16FilterWorkload(r *verifkit.Run, repeats int) {
	r.SetRule("1-24 distinct (sender, seqno) pairs over 1-4 senders (ids include dashes, digits and the empty string), 1-5 copies each, shuffled and dealt to 2-8 goroutines that call the filtered handler concurrently from a common barrier; oracle: delegate invocations per pair <= 1 (and >= 1). non-trivial = some pair had >= 2 copies handled by different goroutines")
	n := r.N(300, 10000)
	var dups, conc int64
	for i := 0; i < n; i++ {
		c := c16GenFilterCase(r.SubRand("filter", i))
		desc := verifkit.JSON(c)
		for rep := 0; rep < repeats; rep++ {
			var d, cd int
			r.Guard("filter:", desc, func() { d, cd = c16RunFilter(r, c, desc) })
			r.Case(desc, cd > 0)
			dups += int64(d)
			conc += int64(cd)
		}
		if i%(n/3+1) == 0 {
			r.Sample(map[string]interface{}{"senders": c.Senders, "pairs": len(c.Keys), "copies": c.Copies, "goroutines": c.Goroutines})
		}
	}
	r.Count("pairs_with_retransmissions", dups)
	r.Count("pairs_with_copies_on_different_goroutines", conc)
}

func TestVerif_C16_Filter(t *testing.T) {
	r := verifkit.Start(t, "C16", "filter")
	defer r.Finish()
	c16FilterWorkload(r, 1)
}

func TestVerif_C16_FilterRace(t *testing.T) {
	r := verifkit.Start(t, "C16", "filter-race")
	defer r.Finish()
	r.Assume("race pass: each copy is a separate object marked by the delegate on the calling goroutine; no monitor synchronisation between filtering goroutines")
	c16FilterWorkload(r, r.N(3, 5))
}
