//go:build verif

package bls

import (
	"bytes"
	"fmt"
	"math/big"
	"math/rand"
	"strings"
	"sync/atomic"
	"testing"

	bn256 "github.com/ethereum/go-ethereum/crypto/bn256/cloudflare"
	"github.com/keep-network/keep-core/internal/verifkit"
)

// c03World is one polynomial f of degree d over Z_q with the key material of
// n members, computed by the monitor (Horner mod q, bn256 scalar
// multiplications); nothing of pkg/bls is used to build it.
type c03World struct {
	id        int
	d, n, thr int
	coeffs    []*big.Int // f(x) = coeffs[0] + coeffs[1] x + ...
	msg       *bn256.G1
	msgDesc   string
	sigShare  []*bn256.G1 // index 1..n
	pubShare  []*bn256.G2
	sigWant   []byte // msg^{f(0)}
	pubWant   []byte // g2^{f(0)}
	desc      string
}

func c03Eval(coeffs []*big.Int, x int64) *big.Int {
	acc := new(big.Int)
	bx := big.NewInt(x)
	for j := len(coeffs) - 1; j >= 0; j-- {
		acc.Mul(acc, bx)
		acc.Add(acc, coeffs[j])
		acc.Mod(acc, bn256.Order)
	}
	return acc
}

func c03RandScalar(rng *rand.Rand) *big.Int {
	switch rng.Intn(12) {
	case 0:
		return big.NewInt(int64(1 + rng.Intn(5)))
	case 1:
		return new(big.Int).Sub(bn256.Order, big.NewInt(int64(1+rng.Intn(5))))
	}
	for {
		k := new(big.Int).Rand(rng, bn256.Order)
		if k.Sign() != 0 {
			return k
		}
	}
}

func c03NewWorld(id int, rng *rand.Rand, d, n int) *c03World {
	w := &c03World{id: id, d: d, n: n, thr: d + 1}
	var cs []string
	for j := 0; j <= d; j++ {
		c := c03RandScalar(rng)
		w.coeffs = append(w.coeffs, c)
		cs = append(cs, c.Text(16))
	}
	mk := c03RandScalar(rng)
	w.msg = new(bn256.G1).ScalarBaseMult(mk)
	w.msgDesc = mk.Text(16)
	w.sigShare = make([]*bn256.G1, n+1)
	w.pubShare = make([]*bn256.G2, n+1)
	for i := 1; i <= n; i++ {
		s := c03Eval(w.coeffs, int64(i))
		w.sigShare[i] = new(bn256.G1).ScalarMult(w.msg, s)
		w.pubShare[i] = new(bn256.G2).ScalarBaseMult(s)
	}
	s0 := c03Eval(w.coeffs, 0)
	w.sigWant = new(bn256.G1).ScalarMult(w.msg, s0).Marshal()
	w.pubWant = new(bn256.G2).ScalarBaseMult(s0).Marshal()
	w.desc = fmt.Sprintf("deg=%d n=%d coeffs=[%s] msg=%s*G1", d, n, strings.Join(cs, ","), w.msgDesc)
	return w
}

// c03Entry is one element of a share list: a valid share of member idx
// (kind 0) or an entry the recovery functions document as skipped.
type c03Entry struct {
	kind int // 0 valid, 1 nil entry, 2 V == nil, 3 negative index with a value
	idx  int // member index (valid, V==nil) or the magnitude of the negative index
	val  int // for kind 3: member whose share is used as the value
}

func (e c03Entry) String() string {
	switch e.kind {
	case 0:
		return fmt.Sprint(e.idx)
	case 1:
		return "nil"
	case 2:
		return fmt.Sprintf("%d:nilV", e.idx)
	default:
		return fmt.Sprintf("-%d:share%d", e.idx, e.val)
	}
}

func c03ListDesc(l []c03Entry) string {
	s := make([]string, len(l))
	for i, e := range l {
		s[i] = e.String()
	}
	return "[" + strings.Join(s, " ") + "]"
}

// c03Shape: number of valid entries; whether a skipped entry precedes the
// thr-th valid entry (only then can a positional mix-up matter); whether the
// valid entries are in ascending index order.
func c03Shape(l []c03Entry, thr int) (valid int, skipBeforeQuorum, anySkip, ordered bool) {
	ordered = true
	last := 0
	sawSkip := false
	for _, e := range l {
		if e.kind != 0 {
			anySkip = true
			sawSkip = true
			continue
		}
		if valid < thr && sawSkip {
			skipBeforeQuorum = true
		}
		valid++
		if e.idx < last {
			ordered = false
		}
		last = e.idx
	}
	if valid < thr && anySkip {
		skipBeforeQuorum = true
	}
	return
}

func (w *c03World) sigList(l []c03Entry) []*SignatureShare {
	out := make([]*SignatureShare, len(l))
	for i, e := range l {
		switch e.kind {
		case 0:
			out[i] = &SignatureShare{I: e.idx, V: new(bn256.G1).Set(w.sigShare[e.idx])}
		case 1:
			out[i] = nil
		case 2:
			out[i] = &SignatureShare{I: e.idx, V: nil}
		case 3:
			out[i] = &SignatureShare{I: -e.idx, V: new(bn256.G1).Set(w.sigShare[e.val])}
		}
	}
	return out
}

func (w *c03World) pubList(l []c03Entry) []*PublicKeyShare {
	out := make([]*PublicKeyShare, len(l))
	for i, e := range l {
		switch e.kind {
		case 0:
			out[i] = &PublicKeyShare{I: e.idx, V: new(bn256.G2).Set(w.pubShare[e.idx])}
		case 1:
			out[i] = nil
		case 2:
			out[i] = &PublicKeyShare{I: e.idx, V: nil}
		case 3:
			out[i] = &PublicKeyShare{I: -e.idx, V: new(bn256.G2).Set(w.pubShare[e.val])}
		}
	}
	return out
}

type c03Job struct {
	w    *c03World
	list []c03Entry
	src  string
}

func c03Subsets(n, minSize int) [][]int {
	var out [][]int
	for mask := 1; mask < 1<<uint(n); mask++ {
		var s []int
		for i := 0; i < n; i++ {
			if mask&(1<<uint(i)) != 0 {
				s = append(s, i+1)
			}
		}
		if len(s) >= minSize {
			out = append(out, s)
		}
	}
	return out
}

func c03Valid(idx []int) []c03Entry {
	out := make([]c03Entry, len(idx))
	for i, x := range idx {
		out[i] = c03Entry{kind: 0, idx: x}
	}
	return out
}

func c03RandSkip(rng *rand.Rand, n int) c03Entry {
	switch rng.Intn(3) {
	case 0:
		return c03Entry{kind: 1}
	case 1:
		return c03Entry{kind: 2, idx: 1 + rng.Intn(n)}
	default:
		return c03Entry{kind: 3, idx: 1 + rng.Intn(n+2), val: 1 + rng.Intn(n)}
	}
}

func c03Insert(l []c03Entry, pos int, e c03Entry) []c03Entry {
	out := make([]c03Entry, 0, len(l)+1)
	out = append(out, l[:pos]...)
	out = append(out, e)
	out = append(out, l[pos:]...)
	return out
}

func TestVerif_C03_Recover(t *testing.T) {
	r := verifkit.Start(t, "C03", "recover")
	defer r.Finish()
	r.SetRule("PRNG polynomials of degree 1..6 over Z_q (threshold = degree+1), n <= 13 members, message = k*G1; share lists: every index subset of size >= threshold for n <= 6 in index order and in PRNG permutations, one skipped entry (nil / V==nil / negative index with a value) at every position for n <= 5, PRNG lists for n <= 13 with several skipped entries, production-sized groups (degree 11..63, up to 255 members, lowest / highest / random index subsets), and lists with fewer than threshold valid entries. RecoverSignature must give msg^f(0), RecoverPublicKey g2^f(0) (below threshold: an error). non-trivial = the list contains a skipped entry or is not in index order")
	r.Assume("bn256 group arithmetic and pairing are trusted; the expected values are computed by the monitor from the polynomial")
	rng := r.Rand("worlds")
	var jobs []c03Job
	wid := 0
	newWorld := func(d, n int) *c03World {
		w := c03NewWorld(wid, rng, d, n)
		wid++
		return w
	}
	var worlds []*c03World
	perms := r.N(3, 24)
	// (a) exhaustive subsets, n <= 6
	for d := 1; d <= 5; d++ {
		for n := d + 1; n <= 6; n++ {
			if r.Quick() && (n-d)%2 == 0 && n != 6 {
				continue
			}
			w := newWorld(d, n)
			worlds = append(worlds, w)
			for _, s := range c03Subsets(n, w.thr) {
				jobs = append(jobs, c03Job{w, c03Valid(s), "subset"})
				for p := 0; p < perms; p++ {
					q := append([]int(nil), s...)
					rng.Shuffle(len(q), func(i, j int) { q[i], q[j] = q[j], q[i] })
					jobs = append(jobs, c03Job{w, c03Valid(q), "perm"})
				}
			}
		}
	}
	// (b) one skipped entry at every position, n <= 5
	for d := 1; d <= 4; d++ {
		for n := d + 1; n <= 5; n++ {
			w := newWorld(d, n)
			worlds = append(worlds, w)
			for _, s := range c03Subsets(n, w.thr) {
				if r.Quick() && len(s) > w.thr+1 {
					continue
				}
				base := append([]int(nil), s...)
				if rng.Intn(2) == 0 {
					rng.Shuffle(len(base), func(i, j int) { base[i], base[j] = base[j], base[i] })
				}
				for pos := 0; pos <= len(base); pos++ {
					for kind := 1; kind <= 3; kind++ {
						e := c03Entry{kind: kind, idx: 1 + rng.Intn(n), val: 1 + rng.Intn(n)}
						jobs = append(jobs, c03Job{w, c03Insert(c03Valid(base), pos, e), "skip-at-pos"})
					}
				}
			}
		}
	}
	// (c) random lists, n <= 13
	nRandW := r.N(30, 400)
	for i := 0; i < nRandW; i++ {
		d := 1 + rng.Intn(6)
		n := d + 1 + rng.Intn(13-d)
		w := newWorld(d, n)
		worlds = append(worlds, w)
		for k := 0; k < r.N(25, 60); k++ {
			all := rng.Perm(n)
			size := w.thr + rng.Intn(n-w.thr+1)
			var l []c03Entry
			for _, x := range all[:size] {
				l = append(l, c03Entry{kind: 0, idx: x + 1})
			}
			if rng.Intn(5) == 0 {
				// index order
				for a := 0; a < len(l); a++ {
					for b := a + 1; b < len(l); b++ {
						if l[b].idx < l[a].idx {
							l[a], l[b] = l[b], l[a]
						}
					}
				}
			}
			ns := rng.Intn(5)
			for s := 0; s < ns; s++ {
				l = c03Insert(l, rng.Intn(len(l)+1), c03RandSkip(rng, n))
			}
			jobs = append(jobs, c03Job{w, l, "random"})
		}
		// (d) below threshold
		for k := 0; k < 4; k++ {
			all := rng.Perm(n)
			size := rng.Intn(w.thr) // 0..thr-1
			var l []c03Entry
			for _, x := range all[:size] {
				l = append(l, c03Entry{kind: 0, idx: x + 1})
			}
			ns := rng.Intn(4)
			for s := 0; s < ns; s++ {
				l = c03Insert(l, rng.Intn(len(l)+1), c03RandSkip(rng, n))
			}
			jobs = append(jobs, c03Job{w, l, "below-threshold"})
		}
	}

	// (e) production-sized groups: thresholds and member indexes large enough
	// that products of indexes (Lagrange numerators and denominators) exceed
	// any machine word
	for _, dn := range [][2]int{{11, 24}, {23, 40}, {32, 64}, {32, 64}, {50, 100}, {40, 255}, {63, 255}} {
		d, n := dn[0], dn[1]
		w := newWorld(d, n)
		worlds = append(worlds, w)
		for k := 0; k < r.N(4, 30); k++ {
			var idx []int
			switch k % 4 {
			case 0: // lowest indexes in order
				for x := 1; x <= w.thr; x++ {
					idx = append(idx, x)
				}
			case 1: // highest indexes, descending
				for x := n; x > n-w.thr; x-- {
					idx = append(idx, x)
				}
			default: // random subset, random order, sometimes more than needed
				size := w.thr + rng.Intn(n-w.thr+1)
				for _, x := range rng.Perm(n)[:size] {
					idx = append(idx, x+1)
				}
			}
			var l []c03Entry
			for _, x := range idx {
				l = append(l, c03Entry{kind: 0, idx: x})
			}
			if k%4 == 3 {
				for s := 0; s < 3; s++ {
					l = c03Insert(l, rng.Intn(len(l)+1), c03RandSkip(rng, n))
				}
			}
			jobs = append(jobs, c03Job{w, l, "large-group"})
		}
	}

	// the reference signature verifies under the reference group key
	var pairingsOK int64
	verifkit.Parallel(len(worlds), 0, func(i int) {
		w := worlds[i]
		sig := new(bn256.G1)
		pk := new(bn256.G2)
		if _, err := sig.Unmarshal(w.sigWant); err != nil {
			r.Inconclusive("oracle self-check: cannot unmarshal reference signature")
			return
		}
		if _, err := pk.Unmarshal(w.pubWant); err != nil {
			r.Inconclusive("oracle self-check: cannot unmarshal reference key")
			return
		}
		ok := false
		if !r.Guard("verifyG1:", w.desc, func() { ok = VerifyG1(pk, w.msg, sig) }) {
			if !ok {
				r.Violation("verifyG1:reference-rejected", "msg^f(0) does not verify under g2^f(0)", w.desc, nil)
			} else {
				atomic.AddInt64(&pairingsOK, 1)
			}
			// and a wrong signature does not
			bad := new(bn256.G1).Add(sig, w.msg)
			if VerifyG1(pk, w.msg, bad) {
				r.Violation("verifyG1:forgery-accepted", "msg^(f(0)+1) verifies under g2^f(0)", w.desc, nil)
			}
		}
	})
	r.Count("worlds", int64(len(worlds)))
	r.Count("reference_signatures_verified", pairingsOK)

	var nBelow, nSkipBefore, nSamples int64
	verifkit.Parallel(len(jobs), 0, func(ji int) {
		jb := jobs[ji]
		w := jb.w
		valid, skipBefore, anySkip, ordered := c03Shape(jb.list, w.thr)
		class := "no-skip-before-quorum"
		if skipBefore {
			class = "skip-before-quorum"
			atomic.AddInt64(&nSkipBefore, 1)
		}
		ld := c03ListDesc(jb.list)
		for _, which := range []string{"recoverSignature", "recoverPublicKey"} {
			desc := fmt.Sprintf("%s threshold=%d list=%s %s", which, w.thr, ld, w.desc)
			var got []byte
			var err error
			panicked := r.Guard(which+":"+class+":", desc, func() {
				if which == "recoverSignature" {
					var s *bn256.G1
					s, err = RecoverSignature(w.sigList(jb.list), w.thr)
					if err == nil && s != nil {
						got = s.Marshal()
					}
				} else {
					var p *bn256.G2
					p, err = RecoverPublicKey(w.pubList(jb.list), w.thr)
					if err == nil && p != nil {
						got = p.Marshal()
					}
				}
			})
			r.Case(desc, anySkip || !ordered)
			if panicked {
				continue
			}
			want := w.sigWant
			if which == "recoverPublicKey" {
				want = w.pubWant
			}
			if valid < w.thr {
				atomic.AddInt64(&nBelow, 1)
				if err == nil {
					r.Violation(which+":no-error-below-threshold", fmt.Sprintf("%d valid shares < threshold %d but no error", valid, w.thr), desc, verifkit.Hex(got))
				}
				continue
			}
			if err != nil {
				r.Violation(which+":unexpected-error:"+class, "error with enough valid shares: "+err.Error(), desc, nil)
				continue
			}
			if !bytes.Equal(got, want) {
				r.Violation(which+":wrong:"+class, "recovered value differs from the one defined by the polynomial", desc, map[string]string{"got": verifkit.Hex(got), "want": verifkit.Hex(want)})
			}
		}
		if (jb.src == "skip-at-pos" || jb.src == "random") && anySkip && ji%37 == 0 && atomic.AddInt64(&nSamples, 1) <= 4 {
			r.Sample(map[string]interface{}{"threshold": w.thr, "n": w.n, "list": ld, "source": jb.src})
		}
	})
	r.Count("lists", int64(len(jobs)))
	r.Count("lists_below_threshold_calls", nBelow)
	r.Count("lists_with_skip_before_quorum", nSkipBefore)
}
