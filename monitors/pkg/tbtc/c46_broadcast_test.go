//go:build verif

package tbtc

// C46, "post-signing steps (broadcast ...) are bounded": the real
// walletTransactionExecutor.broadcastTransaction with durations scaled down
// (ratios of the production constants kept) against a Bitcoin client on which
// the transaction never becomes known. Every attempt is followed by a wait of
// at least the check delay, so the NUMBER of broadcast attempts is a lower
// bound on the time spent that no machine load can shorten: more than
// timeout/delay + 2 attempts proves the step ran past its bound.

import (
	"fmt"
	"sync/atomic"
	"testing"
	"time"

	"github.com/keep-network/keep-core/internal/testutils"
	"github.com/keep-network/keep-core/internal/verifkit"
	"github.com/keep-network/keep-core/pkg/bitcoin"
)

type c46bChain struct {
	bitcoin.Chain
	attempts  int64
	checks    int64
	knownFrom int64 // the transaction is known from this check on (0: never)
	failEvery int64 // every n-th broadcast fails (0: never)
	release   int32 // monitor's emergency brake: the transaction becomes known
}

func (c *c46bChain) BroadcastTransaction(*bitcoin.Transaction) error {
	n := atomic.AddInt64(&c.attempts, 1)
	if c.failEvery > 0 && n%c.failEvery == 0 {
		return fmt.Errorf("c46b: scripted broadcast failure")
	}
	return nil
}

func (c *c46bChain) GetTransactionConfirmations(bitcoin.Hash) (uint, error) {
	n := atomic.AddInt64(&c.checks, 1)
	if atomic.LoadInt32(&c.release) != 0 || (c.knownFrom > 0 && n >= c.knownFrom) {
		return 1, nil
	}
	return 0, fmt.Errorf("c46b: transaction not known")
}

func TestVerif_C46_BroadcastBounded(t *testing.T) {
	r := verifkit.Start(t, "C46", "broadcast")
	defer r.Finish()
	r.SetRule("the real broadcastTransaction with (timeout, check delay) scaled from the production pairs (15 min : 1 min, plus ratios 3, 7 and 30) to a 6-12 ms delay, on a Bitcoin client where the transaction never becomes known, or becomes known at the k-th check; broadcast failures every n-th attempt or never. Bound: attempts <= timeout/delay + 2 (each attempt is followed by a wait of at least the delay, so the count cannot be inflated by machine load); an unknown transaction must end in an error, a known one in success at that check. Non-trivial: the transaction never became known (the timeout is what ends the step).")
	type tc struct {
		ratio     int
		delay     time.Duration
		knownFrom int64
		failEvery int64
	}
	var cases []tc
	rng := r.Rand("broadcast")
	n := r.N(24, 200)
	for i := 0; i < n; i++ {
		c := tc{ratio: []int{15, 15, 3, 7, 30}[rng.Intn(5)], delay: time.Duration(6+rng.Intn(7)) * time.Millisecond}
		if rng.Intn(3) == 0 {
			c.knownFrom = int64(1 + rng.Intn(c.ratio))
		}
		if rng.Intn(2) == 0 {
			c.failEvery = int64(1 + rng.Intn(3))
		}
		cases = append(cases, c)
	}
	var beyond int64
	verifkit.Parallel(len(cases), 8, func(i int) {
		c := cases[i]
		timeout := time.Duration(c.ratio) * c.delay
		bound := int64(c.ratio) + 2
		desc := fmt.Sprintf("broadcast#%d timeout=%v delay=%v known-from-check=%d broadcast-fails-every=%d", i, timeout, c.delay, c.knownFrom, c.failEvery)
		ch := &c46bChain{knownFrom: c.knownFrom, failEvery: c.failEvery}
		wte := &walletTransactionExecutor{btcChain: ch}
		tx := &bitcoin.Transaction{Version: 1}
		done := make(chan error, 1)
		go func() {
			var err error
			if r.Guard("broadcast:", desc, func() { err = wte.broadcastTransaction(&testutils.MockLogger{}, tx, timeout, c.delay) }) {
				err = fmt.Errorf("panicked")
			}
			done <- err
		}()
		var err error
		returned := false
		watchdog := time.After(60 * time.Second)
	wait:
		for {
			select {
			case err = <-done:
				returned = true
				break wait
			case <-watchdog:
				break wait
			case <-time.After(c.delay):
				if atomic.LoadInt64(&ch.attempts) > 3*bound {
					break wait
				}
			}
		}
		attempts := atomic.LoadInt64(&ch.attempts)
		r.Case(desc, c.knownFrom == 0)
		if attempts > bound {
			atomic.AddInt64(&beyond, 1)
			r.Violation("broadcast:continues-past-its-timeout", fmt.Sprintf("%d broadcast attempts, each followed by a wait of at least %v, although the step is bounded by %v (at most %d attempts)", attempts, c.delay, timeout, bound), desc, nil)
		}
		if !returned {
			atomic.StoreInt32(&ch.release, 1) // let the loop end
			select {
			case <-done:
			case <-time.After(10 * time.Second):
			}
			if attempts <= bound {
				r.Inconclusive("watchdog: broadcastTransaction did not return: " + desc)
			}
			return
		}
		switch {
		case c.knownFrom == 0 && err == nil:
			r.Violation("broadcast:success-although-transaction-never-known", "broadcastTransaction reported success although the transaction never became known", desc, nil)
		case c.knownFrom > 0 && c.knownFrom <= int64(c.ratio)-2 && err != nil && atomic.LoadInt64(&ch.checks) >= c.knownFrom:
			r.Violation("broadcast:error-although-transaction-known", "broadcastTransaction failed although a check had found the transaction: "+err.Error(), desc, nil)
		}
	})
	r.Count("cases_beyond_bound", beyond)
}
