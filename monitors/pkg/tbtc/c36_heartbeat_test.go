//go:build verif

package tbtc

import (
	"context"
	"encoding/binary"
	"fmt"
	"math/big"
	"math/rand"
	"sort"
	"strings"
	"testing"

	"github.com/keep-network/keep-core/internal/testutils"
	"github.com/keep-network/keep-core/internal/verifkit"
	"github.com/keep-network/keep-core/pkg/chain"
	"github.com/keep-network/keep-core/pkg/protocol/group"
	"github.com/keep-network/keep-core/pkg/tecdsa"
)

// The property's own numbers (deliberately not the constants of heartbeat.go):
// a heartbeat needs 70 active members, a claim needs a run of three.
const (
	c36MinActive    = 70
	c36RunThreshold = 3
)

// Outcome kinds of one heartbeat.
const (
	c36Success    = "ok"       // signed, >= 70 active members
	c36Low        = "low"      // signed, < 70 active members, inactive list non-empty
	c36LowEmpty   = "lowempty" // signed, < 70 active members, inactive list empty
	c36SignErr    = "signerr"  // signing executor returns an error
	c36Unstaking  = "unstake"  // operator's eligible stake is zero
	c36Invalid    = "invalid"  // proposal validation fails
	c36Unknown    = "unknown"  // proposal validation result unknown (chain error)
	c36StakeError = "stakeerr" // eligible stake lookup fails
)

type c36Step struct {
	Wallet    int                 `json:"w"`
	Kind      string              `json:"k"`
	Active    int                 `json:"a"`  // number of active members reported
	ClaimFail bool                `json:"cf"` // the inactivity claim executor returns an error
	Short     bool                `json:"s"`  // the inactive list is a strict subset of the non-active members
	Perm      int64               `json:"p"`  // seed of the member permutation
	active    []group.MemberIndex // derived
	inactive  []group.MemberIndex // derived
}

func (s c36Step) String() string {
	x := fmt.Sprintf("%d:%s", s.Wallet, s.Kind)
	if s.Kind == c36Success || s.Kind == c36Low || s.Kind == c36LowEmpty {
		x += fmt.Sprintf("/%d", s.Active)
		if s.Short {
			x += "s"
		}
	}
	if s.ClaimFail {
		x += "!"
	}
	return x
}

// c36SignStub is a scripted heartbeatSigningExecutor.
type c36SignStub struct {
	step  *c36Step
	calls int
}

func (s *c36SignStub) sign(
	ctx context.Context,
	message *big.Int,
	startBlock uint64,
) (*tecdsa.Signature, *signingActivityReport, uint64, error) {
	s.calls++
	if s.step.Kind == c36SignErr {
		return nil, nil, 0, fmt.Errorf("scripted signing error")
	}
	return &tecdsa.Signature{R: big.NewInt(1), S: big.NewInt(2)},
		&signingActivityReport{
			activeMembers:   append([]group.MemberIndex(nil), s.step.active...),
			inactiveMembers: append([]group.MemberIndex(nil), s.step.inactive...),
		},
		startBlock + 1, nil
}

type c36Claim struct {
	members         []group.MemberIndex
	heartbeatFailed bool
}

// c36ClaimStub is a recording heartbeatInactivityClaimExecutor.
type c36ClaimStub struct {
	fail   bool
	claims []c36Claim
}

func (c *c36ClaimStub) claimInactivity(
	ctx context.Context,
	inactiveMembersIndexes []group.MemberIndex,
	heartbeatFailed bool,
	sessionID *big.Int,
) error {
	c.claims = append(c.claims, c36Claim{
		append([]group.MemberIndex(nil), inactiveMembersIndexes...),
		heartbeatFailed,
	})
	if c.fail {
		return fmt.Errorf("scripted claim error")
	}
	return nil
}

// c36Chain is the package's localChain with an injectable stake lookup error.
type c36Chain struct {
	*localChain
	failStake bool
}

func (c *c36Chain) EligibleStake(sp chain.Address) (*big.Int, error) {
	if c.failStake {
		return nil, fmt.Errorf("scripted stake lookup error")
	}
	return c.localChain.EligibleStake(sp)
}

func c36Members(rng *rand.Rand, st *c36Step) {
	const groupSize = 100
	perm := rand.New(rand.NewSource(st.Perm)).Perm(groupSize)
	st.active, st.inactive = nil, nil
	for i, p := range perm {
		if i < st.Active {
			st.active = append(st.active, group.MemberIndex(p+1))
		} else {
			st.inactive = append(st.inactive, group.MemberIndex(p+1))
		}
	}
	if st.Kind == c36LowEmpty {
		st.inactive = nil
	}
	if st.Short && len(st.inactive) > 1 {
		st.inactive = st.inactive[:1+len(st.inactive)/2]
	}
}

func c36GenSequence(rng *rand.Rand) (wallets int, steps []c36Step) {
	wallets = 1 + rng.Intn(3)
	n := 4 + rng.Intn(22)
	// per-sequence bias so that some sequences are dominated by low activity
	pLow := 35 + rng.Intn(45)
	for i := 0; i < n; i++ {
		st := c36Step{Wallet: rng.Intn(wallets), Perm: rng.Int63()}
		x := rng.Intn(100)
		switch {
		case x < pLow:
			st.Kind = c36Low
			switch rng.Intn(4) {
			case 0:
				st.Active = c36MinActive - 1
			case 1:
				st.Active = 51 + rng.Intn(18)
			default:
				st.Active = rng.Intn(c36MinActive)
			}
			st.ClaimFail = rng.Intn(6) == 0
			st.Short = rng.Intn(5) == 0
		case x < pLow+4:
			st.Kind = c36LowEmpty
			st.Active = rng.Intn(c36MinActive)
		default:
			switch y := rng.Intn(100); {
			case y < 40:
				st.Kind = c36Success
				if rng.Intn(2) == 0 {
					st.Active = c36MinActive
				} else {
					st.Active = c36MinActive + rng.Intn(31)
				}
			case y < 58:
				st.Kind = c36SignErr
			case y < 76:
				st.Kind = c36Unstaking
				st.Active = rng.Intn(100) // what signing would have reported
			case y < 90:
				st.Kind = c36Invalid
				st.Active = rng.Intn(100)
			case y < 95:
				st.Kind = c36Unknown
				st.Active = rng.Intn(100)
			default:
				st.Kind = c36StakeError
				st.Active = rng.Intn(100)
			}
		}
		c36Members(rng, &st)
		steps = append(steps, st)
	}
	return
}

func c36SameSet(a, b []group.MemberIndex) bool {
	if len(a) != len(b) {
		return false
	}
	x := append([]group.MemberIndex(nil), a...)
	y := append([]group.MemberIndex(nil), b...)
	sort.Slice(x, func(i, j int) bool { return x[i] < x[j] })
	sort.Slice(y, func(i, j int) bool { return y[i] < y[j] })
	for i := range x {
		if x[i] != y[i] {
			return false
		}
	}
	return true
}

// c36NonTrivial: some wallet has >= 3 low-activity outcomes and at least one
// other step (any wallet, any kind) lies between the first and the last.
func c36NonTrivial(wallets int, steps []c36Step) bool {
	for w := 0; w < wallets; w++ {
		first, last, cnt := -1, -1, 0
		for i, s := range steps {
			if s.Wallet == w && (s.Kind == c36Low || s.Kind == c36LowEmpty) {
				if first < 0 {
					first = i
				}
				last = i
				cnt++
			}
		}
		if cnt >= 3 && last-first+1 > cnt {
			return true
		}
	}
	return false
}

func TestVerif_C36_Heartbeat(t *testing.T) {
	r := verifkit.Start(t, "C36", "heartbeat")
	defer r.Finish()
	r.SetRule("PRNG sequences of 4..25 heartbeat outcomes (success >=70 active, low activity, low with empty inactive list, signing error, unstaking, invalid/unknown proposal, stake lookup error, failing claim executor) interleaved over 1..3 wallets sharing one failure counter, executed through the real heartbeatAction.execute with a fresh action per heartbeat; non-trivial = some wallet has >= 3 low-activity outcomes that are not all adjacent in the sequence")
	r.Assume("reference model: per-wallet run counter (+1 on signed-with-<70-active, 0 on signed-with->=70-active, unchanged otherwise); signing and claim executors are scripted stubs; staking and proposal validity come from the package's localChain test double")

	nSeq := r.N(3000, 200000)
	wallets := []wallet{
		generateWallet(big.NewInt(3601)),
		generateWallet(big.NewInt(3602)),
		generateWallet(big.NewInt(3603)),
	}
	nWorkers := 16
	chains := make(chan *c36Chain, nWorkers)
	for i := 0; i < nWorkers; i++ {
		chains <- &c36Chain{localChain: Connect()}
	}
	noWait := func(ctx context.Context, blockHeight uint64) error { return nil }

	verifkit.Parallel(nSeq, nWorkers, func(si int) {
		rng := r.SubRand("seq", si)
		nw, steps := c36GenSequence(rng)
		parts := make([]string, len(steps))
		for i, s := range steps {
			parts[i] = s.String()
		}
		desc := fmt.Sprintf("wallets=%d seq=%s", nw, strings.Join(parts, ","))
		if rp := r.Replay(); rp != "" && !strings.HasPrefix(rp, desc+" @") {
			return
		}
		hc := <-chains
		defer func() { chains <- hc }()

		counter := newHeartbeatFailureCounter()
		run := make([]int, nw) // reference model
		claimsSeen, lowSeen := 0, 0
		aborted := false
		for i := range steps {
			st := &steps[i]
			// environment for this heartbeat
			proposal := &HeartbeatProposal{}
			binary.BigEndian.PutUint32(proposal.Message[0:4], uint32(si))
			binary.BigEndian.PutUint16(proposal.Message[4:6], uint16(i))
			binary.BigEndian.PutUint64(proposal.Message[8:16], uint64(st.Perm))
			if st.Kind == c36Unstaking {
				hc.setOperatorsEligibleStake(big.NewInt(0))
			} else {
				hc.setOperatorsEligibleStake(big.NewInt(100000))
			}
			hc.failStake = st.Kind == c36StakeError
			switch st.Kind {
			case c36Invalid:
				hc.setHeartbeatProposalValidationResult(proposal, false)
			case c36Unknown:
				// leave the validation result unset: the chain returns an error
			default:
				hc.setHeartbeatProposalValidationResult(proposal, true)
			}
			signer := &c36SignStub{step: st}
			claimer := &c36ClaimStub{fail: st.ClaimFail}
			startBlock := uint64(1000 + 10*i)
			action := newHeartbeatAction(
				&testutils.MockLogger{},
				hc,
				wallets[st.Wallet],
				signer,
				proposal,
				counter,
				claimer,
				startBlock,
				startBlock+heartbeatTotalProposalValidityBlocks,
				noWait,
			)
			stepDesc := fmt.Sprintf("%s @step=%d", desc, i)
			if r.Guard("execute:", stepDesc, func() { _ = action.execute() }) {
				aborted = true
				break
			}

			// ---- reference model
			signed := st.Kind == c36Success || st.Kind == c36Low || st.Kind == c36LowEmpty
			low := st.Kind == c36Low || st.Kind == c36LowEmpty
			if st.Kind == c36Success {
				run[st.Wallet] = 0
			}
			if low {
				run[st.Wallet]++
				lowSeen++
			}
			expectClaim := st.Kind == c36Low && run[st.Wallet] >= c36RunThreshold &&
				len(st.inactive) > 0

			wit := map[string]interface{}{
				"step": i, "wallet": st.Wallet, "kind": st.Kind, "active": st.Active,
				"run_of_low_activity_outcomes": run[st.Wallet], "claims": len(claimer.claims),
				"sign_calls": signer.calls,
			}
			if len(claimer.claims) > 1 {
				r.Violation("claim:multiple", fmt.Sprintf("%d inactivity claims for one heartbeat", len(claimer.claims)), stepDesc, wit)
			}
			if len(claimer.claims) > 0 {
				claimsSeen++
				if !expectClaim {
					reason := ""
					switch {
					case st.Kind == c36Unstaking:
						reason = "operator-unstaking"
					case st.Kind == c36Invalid || st.Kind == c36Unknown:
						reason = "invalid-proposal"
					case st.Kind == c36StakeError:
						reason = "stake-lookup-error"
					case st.Kind == c36SignErr:
						reason = "signing-error"
					case !signed || !low:
						reason = "enough-active-members"
					case len(st.inactive) == 0:
						reason = "empty-inactive-list"
					default:
						reason = "run-below-threshold"
					}
					r.Violation("claim:unexpected:"+reason,
						fmt.Sprintf("inactivity claimed at step %d (%s) although the run of low-activity heartbeats for wallet %d is %d (%s)",
							i, st.String(), st.Wallet, run[st.Wallet], reason),
						stepDesc, wit)
				}
				c := claimer.claims[0]
				if !c.heartbeatFailed {
					r.Violation("claim:not-marked-heartbeat-failure", "claim issued with heartbeatFailed == false", stepDesc, wit)
				}
				if signed && !c36SameSet(c.members, st.inactive) {
					wit["claimed_members"] = c.members
					wit["inactive_members"] = st.inactive
					r.Violation("claim:wrong-members", "claimed members differ from the members that did not announce readiness", stepDesc, wit)
				}
			} else if expectClaim {
				r.Violation("claim:missing",
					fmt.Sprintf("no inactivity claim at step %d (%s) although it completes a run of %d low-activity heartbeats for wallet %d",
						i, st.String(), run[st.Wallet], st.Wallet),
					stepDesc, wit)
			}
		}
		if aborted {
			return
		}
		r.Case(desc, c36NonTrivial(nw, steps))
		r.Count("heartbeats_executed", int64(len(steps)))
		r.Count("claims_observed", int64(claimsSeen))
		r.Count("low_activity_outcomes", int64(lowSeen))
		if si%(nSeq/4+1) == 0 {
			r.Sample(map[string]interface{}{"wallets": nw, "sequence": strings.Join(parts, ","), "claims_observed": claimsSeen})
		}
	})
}
