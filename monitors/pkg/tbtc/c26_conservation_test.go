//go:build verif

package tbtc

// C26 — wallet transactions conserve value and pay only the intended scripts.
//
// Scenarios (see c26_c27_c28_txkit_test.go) are assembled by the production
// assemble* functions against the package's localBitcoinChain holding the
// previous transactions. The unsigned transaction is not reachable from
// outside pkg/bitcoin, so it is observed by signing it with the wallet key
// and reading the bitcoin.Transaction returned by AddSignatures (signatures
// do not touch outpoints, outputs or amounts).

import (
	"sync/atomic"
	"bytes"
	"fmt"
	"testing"

	"github.com/keep-network/keep-core/internal/verifkit"
	"github.com/keep-network/keep-core/pkg/bitcoin"
)

type c26Problem struct{ fp, what string }

// c26Check is the oracle: it knows the scenario (the intention) and reads the
// spent values from the chain.
func c26Check(s *c26kitScenario, tx *bitcoin.Transaction) []c26Problem {
	var out []c26Problem
	bad := func(fp, format string, a ...interface{}) {
		out = append(out, c26Problem{s.Kind + ":" + fp, fmt.Sprintf(format, a...)})
	}
	// 1. exactly the intended UTXOs, in order
	if len(tx.Inputs) != len(s.Inputs) {
		bad("inputs", "transaction has %d inputs, %d intended", len(tx.Inputs), len(s.Inputs))
		return out
	}
	inSum := int64(0)
	for i, in := range tx.Inputs {
		want := s.Inputs[i].Outpoint
		if in.Outpoint.TransactionHash != want.TransactionHash || in.Outpoint.OutputIndex != want.OutputIndex {
			bad("inputs", "input %d spends %x:%d, intended %x:%d", i,
				in.Outpoint.TransactionHash[:6], in.Outpoint.OutputIndex, want.TransactionHash[:6], want.OutputIndex)
		}
		prev, err := c26kitPrevOut(s.Chain, in.Outpoint)
		if err != nil {
			bad("inputs", "input %d does not exist on the chain: %v", i, err)
			return out
		}
		inSum += prev.Value
	}
	// 2. sane amounts, conservation
	outSum := int64(0)
	for i, o := range tx.Outputs {
		if o.Value < 0 || o.Value > c26kitMaxMoney {
			bad("amount-range", "output %d has value %d", i, o.Value)
		}
		outSum += o.Value
	}
	if inSum-outSum != s.Fee {
		bad("fee", "inputs %d - outputs %d = %d, proposed fee %d", inSum, outSum, inSum-outSum, s.Fee)
	}
	walletScript := c26kitP2WPKH(s.Wallet.PKH)
	switch s.Kind {
	case "sweep", "movedsweep":
		if len(tx.Outputs) != 1 {
			bad("outputs", "%d outputs, expected exactly one", len(tx.Outputs))
			break
		}
		if !bytes.Equal(tx.Outputs[0].PublicKeyScript, walletScript) {
			bad("outputs", "output script %x is not the wallet's P2WPKH %x", tx.Outputs[0].PublicKeyScript, walletScript)
		}
		if tx.Outputs[0].Value != inSum-s.Fee {
			bad("outputs", "output value %d, expected %d", tx.Outputs[0].Value, inSum-s.Fee)
		}
	case "redemption":
		n := len(s.Requests)
		sumRedeemable := int64(0)
		for _, q := range s.Requests {
			sumRedeemable += int64(q.RequestedAmount) - int64(q.TreasuryFee)
		}
		change := inSum - sumRedeemable
		wantOutputs := n
		if change > 0 {
			wantOutputs++
		}
		if len(tx.Outputs) != wantOutputs {
			bad("outputs", "%d outputs, expected %d (requests %d, change %d)", len(tx.Outputs), wantOutputs, n, change)
			break
		}
		first := 0
		if change > 0 {
			ci := 0 // change first (also the default shape)
			if s.Shape == 1 {
				ci = n
			} else {
				first = 1
			}
			co := tx.Outputs[ci]
			if !bytes.Equal(co.PublicKeyScript, walletScript) {
				bad("change", "change output %d pays %x, not the wallet's P2WPKH", ci, co.PublicKeyScript)
			}
			if co.Value != change {
				bad("change", "change value %d, expected %d", co.Value, change)
			}
		}
		shareSum, minShare, maxShare := int64(0), int64(0), int64(0)
		for i, q := range s.Requests {
			o := tx.Outputs[first+i]
			if !bytes.Equal(o.PublicKeyScript, q.RedeemerOutputScript) {
				bad("request-output", "output %d pays %x, expected redeemer script %x", first+i, o.PublicKeyScript, []byte(q.RedeemerOutputScript))
			}
			share := int64(q.RequestedAmount) - int64(q.TreasuryFee) - o.Value
			if share < 0 {
				bad("fee-shares", "request %d receives %d more than requested minus treasury fee", i, -share)
			}
			shareSum += share
			if i == 0 || share < minShare {
				minShare = share
			}
			if i == 0 || share > maxShare {
				maxShare = share
			}
		}
		if shareSum != s.Fee {
			bad("fee-shares", "fee shares add up to %d, proposed fee %d", shareSum, s.Fee)
		}
		if maxShare-minShare >= int64(n) {
			bad("fee-shares", "fee shares range from %d to %d over %d requests", minShare, maxShare, n)
		}
	case "movingfunds":
		n := int64(len(s.Targets))
		if int64(len(tx.Outputs)) != n {
			bad("outputs", "%d outputs, expected %d", len(tx.Outputs), n)
			break
		}
		total := inSum - s.Fee
		for i, o := range tx.Outputs {
			if want := c26kitP2WPKH(s.Targets[i]); !bytes.Equal(o.PublicKeyScript, want) {
				bad("outputs", "output %d pays %x, expected target wallet %x", i, o.PublicKeyScript, want)
			}
			want := total / n
			if int64(i) == n-1 {
				want += total % n
			}
			if o.Value != want {
				bad("split", "output %d of %d has value %d, expected %d (total %d)", i, n, o.Value, want, total)
			}
		}
	}
	return out
}

func TestVerif_C26_Conservation(t *testing.T) {
	r := verifkit.Start(t, "C26", "conservation")
	defer r.Finish()
	r.SetRule("PRNG scenarios, a quarter each of deposit sweep (main UTXO none/P2PKH/P2WPKH, 1-20 P2SH/P2WSH deposits with/without extra data), redemption (1-20 requests of all four script kinds, three shape arguments, change 0/tiny/any, fee with remainder), moving funds (1-10 targets, remainder) and moved funds sweep (main UTXO optional), amounts from dust to 3e13 sat, assembled by the production functions on a localBitcoinChain and observed in the signed transaction; plus direct fee distributions. non-trivial = remainder != 0, or zero change, or >= 2 inputs")
	r.Assume("UTXO structures handed to the assembly functions carry the value the chain holds (as the callers guarantee); fee shares do not exceed the redeemable amounts and fees do not exceed the inputs")
	n := r.N(16000, 200000)
	verifkit.Parallel(n, 0, func(i int) {
		rng := r.SubRand("tx", i)
		s := c26kitScenarioFor(i, rng)
		desc := fmt.Sprintf("#%d %s", i, s.Desc())
		var tx *bitcoin.Transaction
		var err error
		stage := "assemble"
		if r.Guard(s.Kind+":", desc, func() {
			var b *bitcoin.TransactionBuilder
			b, err = s.Build()
			if err != nil {
				return
			}
			stage = "sign"
			tx, _, _, err = c26kitSignAll(b, s.Wallet, rng, func(int) c26kitSigMode { return c26kitSigMode{LongR: -1} })
		}) {
			return
		}
		if err != nil {
			if stage == "assemble" {
				r.Case(desc, false)
				r.Violation(s.Kind+":assemble-error", "assembly of a valid scenario failed: "+err.Error(), desc, nil)
			} else {
				r.Inconclusive("cannot observe the transaction, signing failed: " + err.Error())
			}
			return
		}
		r.Case(desc, s.Remainder || s.ZeroChange || len(s.Inputs) >= 2)
		r.Count("tx_"+s.Kind, 1)
		r.Count("inputs", int64(len(tx.Inputs)))
		r.Count("outputs", int64(len(tx.Outputs)))
		if s.Remainder {
			r.Count("with_remainder", 1)
		}
		if s.ZeroChange {
			r.Count("zero_change", 1)
		}
		for _, p := range c26Check(s, tx) {
			vals := []int64{}
			for _, o := range tx.Outputs {
				vals = append(vals, o.Value)
			}
			r.Violation(p.fp, p.what, desc, map[string]interface{}{"output_values": vals})
		}
		if i < 4 {
			vals := []int64{}
			for _, o := range tx.Outputs {
				vals = append(vals, o.Value)
			}
			r.Sample(map[string]interface{}{"case": desc, "output_values": vals})
		}
	})

	// fee distribution on its own, over wider counts and fees
	m := r.N(4000, 100000)
	verifkit.Parallel(m, 0, func(i int) {
		rng := r.SubRand("feedist", i)
		count := 1 + rng.Intn(100)
		var fee int64
		switch rng.Intn(5) {
		case 0:
			fee = rng.Int63n(int64(count) + 1)
		case 1:
			fee = int64(count) * rng.Int63n(1_000_000)
		default:
			fee = rng.Int63n(1_000_000_000_000)
		}
		desc := fmt.Sprintf("feedist count=%d fee=%d", count, fee)
		reqs := make([]*RedemptionRequest, count)
		for k := range reqs {
			reqs[k] = &RedemptionRequest{RequestedAmount: uint64(fee + 1)}
		}
		var shares []int64
		if r.Guard("feedist:", desc, func() { shares = withRedemptionTotalFee(fee)(reqs) }) {
			return
		}
		r.Case(desc, fee%int64(count) != 0)
		if len(shares) != count {
			r.Violation("feedist:length", fmt.Sprintf("%d shares for %d requests", len(shares), count), desc, nil)
			return
		}
		sum, lo, hi := int64(0), shares[0], shares[0]
		for _, s := range shares {
			sum += s
			if s < lo {
				lo = s
			}
			if s > hi {
				hi = s
			}
		}
		if sum != fee {
			r.Violation("feedist:sum", fmt.Sprintf("shares add up to %d, total fee %d", sum, fee), desc, nil)
		}
		if lo < 0 || hi-lo >= int64(count) {
			r.Violation("feedist:uneven", fmt.Sprintf("shares range from %d to %d over %d requests", lo, hi, count), desc, nil)
		}
	})
}

// TestVerif_C26_AssemblyUnderChainFaults: the same scenarios assembled while
// the Bitcoin client fails one of the previous-transaction lookups. Giving up
// with an error is fine; a transaction that comes out anyway must still spend
// exactly the intended UTXOs and conserve value.
func TestVerif_C26_AssemblyUnderChainFaults(t *testing.T) {
	r := verifkit.Start(t, "C26", "assembly-faults")
	defer r.Finish()
	r.SetRule("the conservation scenarios assembled by the production functions through a Bitcoin chain handle whose k-th GetTransaction call fails (k = 1 .. number of intended inputs + 1, every k for every scenario). Outcome error: accepted. Outcome transaction: must pass the conservation oracle (intended inputs in order, sum of previous outputs - outputs == fee, intended output scripts). Non-trivial: the scripted failure was actually hit.")
	n := r.N(3000, 40000)
	var hit, errored, survived int64
	verifkit.Parallel(n, 0, func(i int) {
		rng := r.SubRand("tx", i)
		s := c26kitScenarioFor(i, rng)
		for k := 1; k <= len(s.Inputs)+1; k++ {
			fc := &c26kitFaultChain{Chain: s.Chain, FailAt: k}
			desc := fmt.Sprintf("#%d %s | GetTransaction call %d fails", i, s.Desc(), k)
			var tx *bitcoin.Transaction
			var err error
			if r.Guard(s.Kind+":faults:", desc, func() {
				var b *bitcoin.TransactionBuilder
				b, err = s.BuildOn(fc)
				if err != nil {
					return
				}
				tx, _, _, err = c26kitSignAll(b, s.Wallet, rng, func(int) c26kitSigMode { return c26kitSigMode{LongR: -1} })
			}) {
				continue
			}
			r.Case(desc, fc.Failed > 0)
			if fc.Failed > 0 {
				atomic.AddInt64(&hit, 1)
			}
			if err != nil || tx == nil {
				atomic.AddInt64(&errored, 1)
				continue
			}
			if fc.Failed > 0 {
				atomic.AddInt64(&survived, 1)
			}
			for _, p := range c26Check(s, tx) {
				vals := []int64{}
				for _, o := range tx.Outputs {
					vals = append(vals, o.Value)
				}
				r.Violation("faults:"+p.fp, "after a failed previous-transaction lookup the assembly returned a transaction: "+p.what, desc, map[string]interface{}{"output_values": vals, "inputs_spent": len(tx.Inputs), "inputs_intended": len(s.Inputs)})
			}
		}
	})
	r.Count("assemblies_with_the_failure_hit", hit)
	r.Count("assemblies_that_gave_up_with_error", errored)
	r.Count("assemblies_that_returned_a_transaction_despite_the_failure", survived)
}
