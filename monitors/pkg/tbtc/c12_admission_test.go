//go:build verif

package tbtc

import (
	"context"
	"fmt"
	"math/big"
	"testing"
	"time"

	"github.com/keep-network/keep-core/internal/testutils"
	"github.com/keep-network/keep-core/internal/verifkit"
	"github.com/keep-network/keep-core/pkg/chain"
	"github.com/keep-network/keep-core/pkg/chain/local_v1"
	"github.com/keep-network/keep-core/pkg/net"
	"github.com/keep-network/keep-core/pkg/operator"
	"github.com/keep-network/keep-core/pkg/protocol/group"
	"github.com/keep-network/keep-core/pkg/tecdsa"
)

// ---------------------------------------------------------------------------
// C12 (tbtc part): the coordination follower routine and the signing-done
// listener are run once per grid case on a scripted broadcast channel that
// delivers exactly one synthetic message followed by a sentinel. The
// sentinel's Payload() is called by the consuming loop when it dequeues it,
// i.e. after the synthetic message was fully processed; for the follower it
// cancels the context, for the listener it releases the monitor, which then
// inspects doneSigners. No wall-clock enters a verdict.
// ---------------------------------------------------------------------------

const c12Watchdog = 60 * time.Second

type c12Msg struct {
	payload   interface{}
	key       []byte
	onPayload func()
}

func (m *c12Msg) TransportSenderID() net.TransportIdentifier { return nil }
func (m *c12Msg) SenderPublicKey() []byte                    { return m.key }
func (m *c12Msg) Payload() interface{} {
	if m.onPayload != nil {
		m.onPayload()
	}
	return m.payload
}
func (m *c12Msg) Type() string  { return "c12" }
func (m *c12Msg) Seqno() uint64 { return 0 }

// c12Chan hands its script to the handler as soon as the handler is installed.
type c12Chan struct {
	script []net.Message
}

func (c *c12Chan) Name() string { return "c12" }
func (c *c12Chan) Send(ctx context.Context, m net.TaggedMarshaler, _ ...net.RetransmissionStrategy) error {
	return nil
}
func (c *c12Chan) Recv(ctx context.Context, h func(net.Message)) {
	for _, s := range c.script {
		h(s)
	}
}
func (c *c12Chan) SetUnmarshaler(func() net.TaggedUnmarshaler)       {}
func (c *c12Chan) SetFilter(filter net.BroadcastChannelFilter) error { return nil }

type c12Layout struct {
	name  string
	seats []int
}

type c12Key struct {
	name string
	op   int
	pub  []byte
}

func c12Held(l c12Layout, k c12Key, claimed int) bool {
	return claimed >= 1 && claimed <= len(l.seats) && k.op >= 0 && l.seats[claimed-1] == k.op
}

func c12Claims(n int) []int {
	claims := []int{0}
	for i := 1; i <= n+1; i++ {
		claims = append(claims, i)
	}
	return append(claims, 255)
}

func TestVerif_C12_Tbtc(t *testing.T) {
	r := verifkit.Start(t, "C12", "tbtc")
	defer r.Finish()
	r.SetRule("exhaustive grids. Coordination follower: seat layouts (5 seats 2/2/1 interleaved, 6 seats 3/2/1; thorough adds 9 seats 4/3/1/1) x follower operator x leader operator (!= follower) x claimed index {0,1..n,n+1,255} x sender key {each operator, outsider, truncated, empty} x coordination block {own, other} x wallet {own, other} x proposal {allowed, not allowed}. Signing-done listener: layouts (adds 3 seats one operator) x claimed index x sender key x signed message {own, other} x attempt {own, other} x end block {<= timeout, > timeout} x signature {present, nil} x attempt members {all, without the claimed member}. One run per case on a scripted channel; non-trivial = claimed index not held by the sender key, or foreign window/wallet/attempt/message")
	r.Assume("local_v1 signing maps a public key to the hex of its bytes; the signing-done listener documents no own-index filter; a confirmation of a member outside the attempt must be ignored (isValidDoneMessage)")

	lc := Connect()
	signing := lc.Signing()
	newKey := func() []byte {
		_, pub, err := operator.GenerateKeyPair(local_v1.DefaultCurve)
		if err != nil {
			t.Fatal(err)
		}
		return operator.MarshalUncompressed(pub)
	}
	opKeys := [][]byte{newKey(), newKey(), newKey(), newKey()}
	outsider := newKey()
	addrOf := func(k []byte) chain.Address { return signing.PublicKeyBytesToAddress(k) }
	r.SetExhaustive(true)

	walletKeyBytes := newKey()
	walletPub := unmarshalPublicKey(walletKeyBytes)

	keysOf := func(l c12Layout) []c12Key {
		seen := map[int]bool{}
		var ks []c12Key
		for _, op := range l.seats {
			if !seen[op] {
				seen[op] = true
				ks = append(ks, c12Key{fmt.Sprintf("op%c", 'A'+op), op, opKeys[op]})
			}
		}
		return append(ks, c12Key{"outsider", -1, outsider}, c12Key{"truncated-opA", -1, opKeys[0][:64]}, c12Key{"empty", -1, nil})
	}
	opsOf := func(l c12Layout) []int {
		seen := map[int]bool{}
		var ops []int
		for _, op := range l.seats {
			if !seen[op] {
				seen[op] = true
				ops = append(ops, op)
			}
		}
		return ops
	}

	// ------------------------------------------------------------------ follower
	coordLayouts := []c12Layout{
		{"5seats-2/2/1", []int{0, 1, 0, 2, 1}},
		{"6seats-3/2/1", []int{1, 0, 0, 2, 1, 0}},
	}
	doneLayouts := []c12Layout{
		{"5seats-2/2/1", []int{0, 1, 0, 2, 1}},
		{"3seats-single-operator", []int{0, 0, 0}},
	}
	if !r.Quick() {
		coordLayouts = append(coordLayouts, c12Layout{"9seats-4/3/1/1", []int{0, 1, 0, 2, 1, 0, 3, 1, 0}})
		doneLayouts = append(doneLayouts, c12Layout{"9seats-4/3/1/1", []int{0, 1, 0, 2, 1, 0, 3, 1, 0}})
	}
	var fProposal, fFault, fIgnored int64
	fSampled := map[string]bool{}
	const ownBlock = uint64(900)
	for _, l := range coordLayouts {
		n := len(l.seats)
		addrs := make([]chain.Address, n)
		for i, op := range l.seats {
			addrs[i] = addrOf(opKeys[op])
		}
		validator := group.NewMembershipValidator(&testutils.MockLogger{}, addrs, signing)
		w := wallet{publicKey: walletPub, signingGroupOperators: addrs}
		for _, followerOp := range opsOf(l) {
			var ownSeats []int
			for i, op := range l.seats {
				if op == followerOp {
					ownSeats = append(ownSeats, i+1)
				}
			}
			for _, leaderOp := range opsOf(l) {
				if leaderOp == followerOp {
					continue
				}
				leaderSeat := 0
				for i, op := range l.seats {
					if op == leaderOp {
						leaderSeat = i + 1
						break
					}
				}
				for _, cl := range c12Claims(n) {
					for _, k := range keysOf(l) {
						for _, blk := range []string{"own", "other"} {
							for _, wal := range []string{"own", "other"} {
								for _, prop := range []string{"allowed", "not-allowed"} {
									desc := fmt.Sprintf("rp=coordinationExecutor.executeFollowerRoutine layout=%s seats=%v follower=op%c leader=op%c(seat %d) claimed=%d key=%s block=%s wallet=%s proposal=%s",
										l.name, l.seats, 'A'+followerOp, 'A'+leaderOp, leaderSeat, cl, k.name, blk, wal, prop)
									ctx, cancel := context.WithCancel(context.Background())
									executor := &coordinationExecutor{
										chain:               lc,
										coordinatedWallet:   w,
										membersIndexes:      w.membersByOperator(addrOf(opKeys[followerOp])),
										operatorAddress:     addrOf(opKeys[followerOp]),
										membershipValidator: validator,
									}
									msg := &coordinationMessage{
										senderID:            group.MemberIndex(cl),
										coordinationBlock:   ownBlock,
										walletPublicKeyHash: executor.walletPublicKeyHash(),
									}
									if blk == "other" {
										msg.coordinationBlock = ownBlock + 1
									}
									if wal == "other" {
										msg.walletPublicKeyHash[3] ^= 0x40
									}
									var sentProposal CoordinationProposal = &NoopProposal{}
									if prop == "not-allowed" {
										sentProposal = &HeartbeatProposal{Message: [16]byte{1, 2}}
									}
									msg.proposal = sentProposal
									executor.broadcastChannel = &c12Chan{script: []net.Message{
										&c12Msg{payload: msg, key: k.pub},
										&c12Msg{payload: "sentinel", onPayload: cancel},
									}}
									var proposal CoordinationProposal
									var faults []*coordinationFault
									returned, panicked := r.Within(c12Watchdog, "tbtc:follower:", desc, func() {
										proposal, faults, _ = executor.executeFollowerRoutine(ctx, addrOf(opKeys[leaderOp]), ownBlock,
											[]WalletActionType{ActionRedemption, ActionNoop})
									})
									cancel()
									if panicked {
										continue
									}
									if !returned {
										r.Inconclusive("follower routine did not return after the sentinel cancelled the context: " + desc)
										continue
									}
									own := false
									for _, s := range ownSeats {
										if s == cl {
											own = true
										}
									}
									held := c12Held(l, k, cl)
									admissible, why := true, ""
									switch {
									case !held:
										admissible, why = false, "index-not-held"
									case own:
										admissible, why = false, "own-index"
									case blk != "own":
										admissible, why = false, "other-window"
									case wal != "own":
										admissible, why = false, "other-wallet"
									}
									r.Case(desc, !admissible)
									// classify what the routine did with the message
									var msgFaults []*coordinationFault
									for _, f := range faults {
										if f.faultType != FaultLeaderIdleness {
											msgFaults = append(msgFaults, f)
										}
									}
									actedProposal := proposal != nil
									switch {
									case actedProposal:
										fProposal++
									case len(msgFaults) > 0:
										fFault++
									default:
										fIgnored++
									}
									wit := map[string]interface{}{"admissible": admissible, "reason": why, "proposal_returned": actedProposal, "message_faults": len(msgFaults)}
									if actedProposal {
										if proposal != sentProposal {
											r.Violation("tbtc:follower:proposal-not-from-message", "returned proposal is not the one carried by the message", desc, wit)
										}
										switch {
										case !admissible:
											r.Violation("tbtc:follower:accepted:"+why, "follower returned the proposal of a message that is not admissible ("+why+")", desc, wit)
										case cl != leaderSeat:
											r.Violation("tbtc:follower:accepted:not-leader", "follower returned a proposal sent under a seat that is not the leader's first seat", desc, wit)
										case prop != "allowed":
											r.Violation("tbtc:follower:accepted:action-not-allowed", "follower returned a proposal whose action is not allowed in the window", desc, wit)
										}
									}
									for _, f := range msgFaults {
										if !admissible {
											r.Violation("tbtc:follower:fault-from-inadmissible:"+why, "a fault was recorded on the basis of a message that is not admissible ("+why+")", desc, wit)
											continue
										}
										switch f.faultType {
										case FaultLeaderImpersonation:
											if f.culprit != addrOf(k.pub) {
												r.Violation("tbtc:follower:impersonation-wrong-culprit", "impersonation fault does not name the sending operator", desc, wit)
											}
										case FaultLeaderMistake:
											if f.culprit != addrOf(opKeys[leaderOp]) || k.op != leaderOp {
												r.Violation("tbtc:follower:mistake-wrong-culprit", "leader-mistake fault recorded for a message not sent by the leader's key", desc, wit)
											}
										}
									}
									if admissible && cl == leaderSeat && prop == "allowed" && !actedProposal {
										r.Violation("tbtc:follower:rejected-legitimate", "follower did not return the proposal of a fully legitimate leader message", desc, wit)
									}
									tag := why
									if admissible && actedProposal {
										tag = "proposal"
									}
									if !fSampled[tag] && (tag == "proposal" || tag == "own-index" || tag == "index-not-held" && cl == 0 && k.op >= 0) {
										fSampled[tag] = true
										r.Sample(map[string]interface{}{"case": desc, "observed": wit})
									}
								}
							}
						}
					}
				}
			}
		}
	}
	r.Count("follower_proposal_returned", fProposal)
	r.Count("follower_fault_recorded", fFault)
	r.Count("follower_ignored", fIgnored)

	// ------------------------------------------------------------ signing done
	var dActed, dIgnored, dNonAttempt int64
	dSampled := map[string]bool{}
	ownMessage := big.NewInt(100)
	const ownAttempt, timeoutBlock = uint64(2), uint64(5000)
	for _, l := range doneLayouts {
		n := len(l.seats)
		addrs := make([]chain.Address, n)
		for i, op := range l.seats {
			addrs[i] = addrOf(opKeys[op])
		}
		validator := group.NewMembershipValidator(&testutils.MockLogger{}, addrs, signing)
		for _, cl := range c12Claims(n) {
			for _, k := range keysOf(l) {
				for _, m := range []string{"own", "other"} {
					for _, att := range []string{"own", "other"} {
						for _, eb := range []string{"in-time", "late"} {
							for _, sig := range []string{"present", "nil"} {
								for _, members := range []string{"all", "without-claimed"} {
									if members == "without-claimed" && (cl < 1 || cl > n) {
										continue
									}
									desc := fmt.Sprintf("rp=signingDoneCheck.listen layout=%s seats=%v claimed=%d key=%s message=%s attempt=%s endblock=%s signature=%s attemptmembers=%s",
										l.name, l.seats, cl, k.name, m, att, eb, sig, members)
									var attemptMembers []group.MemberIndex
									for i := 1; i <= n; i++ {
										if members == "without-claimed" && i == cl {
											continue
										}
										attemptMembers = append(attemptMembers, group.MemberIndex(i))
									}
									dm := &signingDoneMessage{
										senderID:      group.MemberIndex(cl),
										message:       big.NewInt(100),
										attemptNumber: ownAttempt,
										signature:     &tecdsa.Signature{R: big.NewInt(200), S: big.NewInt(300), RecoveryID: 1},
										endBlock:      timeoutBlock,
									}
									if m == "other" {
										dm.message = big.NewInt(101)
									}
									if att == "other" {
										dm.attemptNumber = ownAttempt + 1
									}
									if eb == "late" {
										dm.endBlock = timeoutBlock + 1
									}
									if sig == "nil" {
										dm.signature = nil
									}
									seen := make(chan struct{})
									ch := &c12Chan{script: []net.Message{
										&c12Msg{payload: dm, key: k.pub},
										&c12Msg{payload: "sentinel", onPayload: func() { close(seen) }},
									}}
									sdc := newSigningDoneCheck(n, ch, validator)
									ctx, cancel := context.WithCancel(context.Background())
									var stored *signingDoneMessage
									var size int
									returned, panicked := r.Within(c12Watchdog, "tbtc:signing-done:", desc, func() {
										sdc.listen(ctx, ownMessage, ownAttempt, timeoutBlock, attemptMembers)
										<-seen
										sdc.doneSignersMutex.Lock()
										stored = sdc.doneSigners[group.MemberIndex(cl)]
										size = len(sdc.doneSigners)
										sdc.doneSignersMutex.Unlock()
									})
									cancel()
									if panicked {
										continue
									}
									if !returned {
										r.Inconclusive("signing-done listener did not consume the script: " + desc)
										continue
									}
									held := c12Held(l, k, cl)
									legit, why := true, ""
									switch {
									case !held:
										legit, why = false, "index-not-held"
									case m != "own":
										legit, why = false, "other-message"
									case att != "own":
										legit, why = false, "other-attempt"
									case members == "without-claimed":
										// only members included in the attempt may confirm it
										// (documented in isValidDoneMessage since the C35 fix)
										legit, why = false, "not-attempt-member"
									case eb != "in-time":
										legit, why = false, "end-block-after-timeout"
									case sig != "present":
										legit, why = false, "no-signature"
									}
									r.Case(desc, !legit)
									got := stored == dm
									wit := map[string]interface{}{"legitimate": legit, "reason": why, "stored": got, "done_signers": size}
									if size > 1 || size == 1 && !got {
										r.Violation("tbtc:signing-done:stored-something-else", "doneSigners holds an entry that is not the delivered message under its claimed index", desc, wit)
									}
									if got {
										dActed++
										if members == "without-claimed" {
											dNonAttempt++
										}
									} else {
										dIgnored++
									}
									switch {
									case got && !legit:
										r.Violation("tbtc:signing-done:accepted:"+why, "listener recorded a done message that is not legitimate ("+why+")", desc, wit)
									case !got && legit:
										r.Violation("tbtc:signing-done:rejected-legitimate", "listener ignored a fully legitimate done message", desc, wit)
									}
									if !dSampled[why] && (why == "" && members == "all" || why == "other-attempt" || why == "index-not-held" && cl == 0 && k.op >= 0) {
										dSampled[why] = true
										r.Sample(map[string]interface{}{"case": desc, "observed": wit})
									}
								}
							}
						}
					}
				}
			}
		}
	}
	r.Count("receive_points", 2)
	r.Count("signing_done_recorded", dActed)
	r.Count("signing_done_ignored", dIgnored)
	r.Count("signing_done_recorded_from_member_outside_attempt", dNonAttempt)
}
