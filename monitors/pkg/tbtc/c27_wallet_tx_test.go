//go:build verif

package tbtc

// C27 (pkg/tbtc part) — the transactions the wallet really assembles (deposit
// sweep with real Deposit.Script() redeem scripts behind P2SH/P2WSH,
// redemption, moving funds, moved funds sweep), signed with the wallet key
// through ComputeSignatureHashes/AddSignatures, are executed input by input
// in btcd's script engine under the standard verification flags; corrupted
// signatures must make AddSignatures fail without a transaction.

import (
	"fmt"
	"math/big"
	"math/rand"
	"testing"

	"github.com/btcsuite/btcd/btcec"

	"github.com/keep-network/keep-core/internal/verifkit"
	"github.com/keep-network/keep-core/pkg/bitcoin"
)

var c27CorruptionKinds = []string{
	"other-hash", "other-key", "swapped-rs", "negated-s-wrong-hash",
	"neighbour-signature", "zero-r", "zero-s", "r-plus-n", "s-plus-n", "missing-one",
}

// c27Corrupt returns the signature list with entry j made invalid for its
// signature hash in the given way. ok is false when the kind does not apply.
func c27Corrupt(kind string, j int, good []*bitcoin.SignatureContainer, hashes []*big.Int, key *c26kitKey, rng *rand.Rand) (sigs []*bitcoin.SignatureContainer, ok bool) {
	n := btcec.S256().N
	sigs = make([]*bitcoin.SignatureContainer, len(good))
	for i, g := range good {
		sigs[i] = &bitcoin.SignatureContainer{R: new(big.Int).Set(g.R), S: new(big.Int).Set(g.S), PublicKey: g.PublicKey}
	}
	any := c26kitSigMode{LongR: -1}
	switch kind {
	case "other-hash":
		z := new(big.Int).Xor(hashes[j], big.NewInt(1<<uint(rng.Intn(60))))
		sigs[j].R, sigs[j].S = c26kitSign(key, z, rng, any)
	case "other-key":
		sigs[j].R, sigs[j].S = c26kitSign(c26kitNewKey(rng), hashes[j], rng, any)
	case "swapped-rs":
		sigs[j].R, sigs[j].S = sigs[j].S, sigs[j].R
	case "negated-s-wrong-hash":
		z := new(big.Int).Add(hashes[j], big.NewInt(1))
		r, s := c26kitSign(key, z, rng, any)
		sigs[j].R, sigs[j].S = r, new(big.Int).Sub(n, s)
	case "neighbour-signature":
		if len(good) < 2 {
			return nil, false
		}
		k := (j + 1 + rng.Intn(len(good)-1)) % len(good)
		sigs[j].R, sigs[j].S = new(big.Int).Set(good[k].R), new(big.Int).Set(good[k].S)
	case "zero-r":
		sigs[j].R = new(big.Int)
	case "zero-s":
		sigs[j].S = new(big.Int)
	case "r-plus-n":
		sigs[j].R = new(big.Int).Add(sigs[j].R, n)
	case "s-plus-n":
		sigs[j].S = new(big.Int).Add(sigs[j].S, n)
	case "missing-one":
		return sigs[:len(sigs)-1], true
	}
	return sigs, true
}

func c27KindsIn(kinds []string) int {
	seen := map[string]bool{}
	for _, k := range kinds {
		seen[k] = true
	}
	return len(seen)
}

func TestVerif_C27_WalletTx(t *testing.T) {
	r := verifkit.Start(t, "C27", "wallettx")
	defer r.Finish()
	r.SetRule("PRNG wallet scenarios (deposit sweep with main UTXO none/P2PKH/P2WPKH and 1-20 P2SH/P2WSH deposits with real deposit scripts, redemption, moving funds, moved funds sweep) assembled by the production functions, each signature hash signed with the wallet key (R forced long/short, S handed out low or high), every input executed in btcd's engine under StandardVerifyFlags; then the same scenario on a fresh builder with one corrupted signature. non-trivial = >= 2 input kinds in the transaction, or a corrupted signature")
	r.Assume("btcd v0.22.3 txscript engine with StandardVerifyFlags is the reference interpreter; plain ECDSA with the wallet key stands in for the threshold signer")
	n := r.N(2400, 80000)
	verifkit.Parallel(n, 0, func(i int) {
		rng := r.SubRand("tx", i)
		kind := 0 // half of the scenarios are sweeps: they are the ones with script-hash inputs
		if i%2 == 0 {
			kind = i / 2
		}
		s := c26kitScenarioFor(kind, rng)
		desc := fmt.Sprintf("#%d %s", i, s.Desc())
		modes := make([]c26kitSigMode, len(s.Inputs))
		for k := range modes {
			modes[k] = c26kitSigMode{LongR: rng.Intn(3) - 1, HighS: rng.Intn(2) == 0}
		}
		var tx *bitcoin.Transaction
		var sigs []*bitcoin.SignatureContainer
		var err error
		stage := "assemble"
		if r.Guard("sign:", desc, func() {
			var b *bitcoin.TransactionBuilder
			b, err = s.Build()
			if err != nil {
				return
			}
			stage = "sign"
			tx, sigs, _, err = c26kitSignAll(b, s.Wallet, rng, func(k int) c26kitSigMode { return modes[k] })
		}) {
			return
		}
		if err != nil && stage == "assemble" {
			r.Inconclusive("scenario could not be assembled: " + err.Error())
			return
		}
		nkinds := c27KindsIn(s.InputKinds)
		r.Case(desc, nkinds >= 2)
		r.Count("tx_"+s.Kind, 1)
		if err != nil || tx == nil {
			r.Violation("sign:valid-signatures-rejected", fmt.Sprintf("AddSignatures refused signatures made with the wallet key: %v", err), desc, nil)
			return
		}
		for k, sg := range sigs {
			r.Count(fmt.Sprintf("der_len_%d", c26kitDERLen(sg.R, sg.S)), 1)
			r.Count("input_"+s.InputKinds[k], 1)
		}
		if bad, err := c26kitVerifyAll(s.Chain, tx); err != nil {
			r.Violation("engine:"+s.InputKinds[bad], fmt.Sprintf("input %d (%s) rejected by the script engine: %v", bad, s.InputKinds[bad], err), desc,
				map[string]interface{}{"tx": verifkit.Hex(tx.Serialize()), "input": bad})
		}
		if i < 3 {
			r.Sample(map[string]interface{}{"case": desc, "signed_tx_bytes": len(tx.Serialize()), "engine": "all inputs accepted"})
		}

		// corrupted signature on a fresh builder of the same scenario
		ck := c27CorruptionKinds[rng.Intn(len(c27CorruptionKinds))]
		j := rng.Intn(len(s.Inputs))
		cdesc := fmt.Sprintf("%s corrupt=%s@%d", desc, ck, j)
		var ctx *bitcoin.Transaction
		var cerr error
		applicable := true
		if r.Guard("corrupt:", cdesc, func() {
			b, err := s.Build()
			if err != nil {
				cerr = err
				return
			}
			hashes, err := b.ComputeSignatureHashes()
			if err != nil {
				cerr = err
				return
			}
			good := make([]*bitcoin.SignatureContainer, len(hashes))
			for k, h := range hashes {
				rr, ss := c26kitSign(s.Wallet, h, rng, c26kitSigMode{LongR: -1})
				good[k] = &bitcoin.SignatureContainer{R: rr, S: ss, PublicKey: s.Wallet.Pub}
			}
			var bad []*bitcoin.SignatureContainer
			bad, applicable = c27Corrupt(ck, j, good, hashes, s.Wallet, rng)
			if !applicable {
				return
			}
			ctx, cerr = b.AddSignatures(bad)
		}) {
			return
		}
		if !applicable {
			return
		}
		r.Case(cdesc, true)
		r.Count("corrupted_"+ck, 1)
		if cerr == nil || ctx != nil {
			w := map[string]interface{}{}
			if ctx != nil {
				w["tx"] = verifkit.Hex(ctx.Serialize())
				if bad, err := c26kitVerifyAll(s.Chain, ctx); err != nil {
					w["engine"] = fmt.Sprintf("input %d: %v", bad, err)
				} else {
					w["engine"] = "accepted"
				}
			}
			r.Violation("corrupt:"+ck+"-accepted", fmt.Sprintf("AddSignatures produced a transaction (err=%v) although the signature of input %d does not match its signature hash", cerr, j), cdesc, w)
		}
	})
}
