//go:build verif

package tbtc

// C08 — tECDSA signing: any honest quorum of the final signing group signs
// validly.
//
// Wallets: the 3-of-5 fixture group of tecdsatest and wallets produced here by
// real key generations (exported dkg.Executor.Execute over real net/local
// channels, pre-parameters served to the executor's pool from fixtures) with
// members excluded. Every key-generation result goes through the production
// path finalSigningGroup/registerSigner, is written by the wallet storage and
// read back by a fresh walletRegistry; signing uses only what was read back
// (stored member index, stored operators, stored key share), with the
// arguments signingExecutor.sign derives from a signer.
//
// Oracles:
//   - remapping model (6 lines, independent of finalSigningGroup): the k-th
//     smallest operating original index gets final index k, the final operator
//     list is the selected list restricted to operating members in order, and
//     the stored share's Ks[final-1] equals seed+original index and equals the
//     share's own ShareID (the party identity the member used at key
//     generation).
//   - signature: every member of the quorum returns the same (R,S,recovery
//     id); crypto/ecdsa.Verify under the wallet key; 0<R,S<N; S<=N/2; the key
//     recovered by btcec from (recovery id,R,S,hash) is the wallet key.

import (
	"context"
	"crypto/ecdsa"
	"encoding/hex"
	"encoding/json"
	"fmt"
	"math/big"
	"math/rand"
	"os"
	"path/filepath"
	"sort"
	"strings"
	"sync"
	"sync/atomic"
	"testing"
	"time"

	"github.com/bnb-chain/tss-lib/ecdsa/keygen"
	"github.com/btcsuite/btcd/btcec/v2"
	btcecdsa "github.com/btcsuite/btcd/btcec/v2/ecdsa"
	"google.golang.org/protobuf/proto"
	"google.golang.org/protobuf/types/known/timestamppb"

	"github.com/keep-network/keep-common/pkg/persistence"
	"github.com/keep-network/keep-core/internal/testutils"
	"github.com/keep-network/keep-core/internal/verifkit"
	"github.com/keep-network/keep-core/pkg/chain"
	"github.com/keep-network/keep-core/pkg/chain/local_v1"
	"github.com/keep-network/keep-core/pkg/generator"
	"github.com/keep-network/keep-core/pkg/internal/tecdsatest"
	"github.com/keep-network/keep-core/pkg/net"
	netlocal "github.com/keep-network/keep-core/pkg/net/local"
	"github.com/keep-network/keep-core/pkg/operator"
	"github.com/keep-network/keep-core/pkg/protocol/group"
	"github.com/keep-network/keep-core/pkg/tecdsa"
	"github.com/keep-network/keep-core/pkg/tecdsa/dkg"
	dkgpb "github.com/keep-network/keep-core/pkg/tecdsa/dkg/gen/pb"
	"github.com/keep-network/keep-core/pkg/tecdsa/signing"
)

// ---------------------------------------------------------------- fixtures

func c08LoadPreParams() ([]keygen.LocalPreParams, error) {
	fx, err := tecdsatest.LoadPrivateKeyShareTestFixtures(5)
	if err != nil {
		return nil, err
	}
	var out []keygen.LocalPreParams
	for _, f := range fx {
		out = append(out, f.LocalPreParams)
	}
	dir := os.Getenv("VERIF_DIR")
	if dir == "" {
		dir = "/verif"
	}
	for i := 5; i <= 8; i++ {
		b, err := os.ReadFile(filepath.Join(dir, "fixtures", fmt.Sprintf("tecdsa_preparams_%d.json", i)))
		if err != nil {
			return nil, err
		}
		var pp keygen.LocalPreParams
		if err := json.Unmarshal(b, &pp); err != nil {
			return nil, err
		}
		out = append(out, pp)
	}
	for i, pp := range out {
		if !pp.ValidateWithProof() {
			return nil, fmt.Errorf("pre-parameter set %d is incomplete", i)
		}
	}
	return out, nil
}

// c08PreParamStore is the persistence handed to dkg.NewExecutor: it holds one
// fixture pre-parameter set in the executor's own storage format.
type c08PreParamStore struct {
	mu    sync.Mutex
	items []persistence.DataDescriptor
}

func c08NewPreParamStore(pp keygen.LocalPreParams) (*c08PreParamStore, error) {
	b, err := proto.Marshal(&dkgpb.PreParams{
		Data: &dkgpb.PreParams_LocalPreParams{
			PaillierSK: &dkgpb.PreParams_PrivateKey{
				PublicKey: &dkgpb.PreParams_PublicKey{N: pp.PaillierSK.N.Bytes()},
				LambdaN:   pp.PaillierSK.LambdaN.Bytes(),
				PhiN:      pp.PaillierSK.PhiN.Bytes(),
			},
			NTilde: pp.NTildei.Bytes(), H1I: pp.H1i.Bytes(), H2I: pp.H2i.Bytes(),
			Alpha: pp.Alpha.Bytes(), Beta: pp.Beta.Bytes(), P: pp.P.Bytes(), Q: pp.Q.Bytes(),
		},
		CreationTimestamp: timestamppb.New(time.Unix(1, 0)),
	})
	if err != nil {
		return nil, err
	}
	return &c08PreParamStore{items: []persistence.DataDescriptor{
		&mockDescriptor{name: "pp_1_fixture", directory: "preparams", content: b},
	}}, nil
}

func (s *c08PreParamStore) Save(data []byte, directory string, name string) error {
	s.mu.Lock()
	defer s.mu.Unlock()
	s.items = append(s.items, &mockDescriptor{name: name, directory: directory, content: data})
	return nil
}

func (s *c08PreParamStore) Delete(directory string, name string) error {
	s.mu.Lock()
	defer s.mu.Unlock()
	for i, d := range s.items {
		if d.Directory() == directory && d.Name() == name {
			s.items = append(s.items[:i], s.items[i+1:]...)
			break
		}
	}
	return nil
}

func (s *c08PreParamStore) ReadAll() (<-chan persistence.DataDescriptor, <-chan error) {
	s.mu.Lock()
	defer s.mu.Unlock()
	out := make(chan persistence.DataDescriptor, len(s.items))
	errs := make(chan error)
	for _, d := range s.items {
		out <- d
	}
	close(out)
	close(errs)
	return out, errs
}

// c08Busy keeps the generator scheduler stopped, as the protocol latch does
// in production while a protocol runs: nothing is generated at check time.
type c08Busy struct{}

func (c08Busy) IsExecuting() bool { return true }

type c08Fixture struct {
	pre       []keygen.LocalPreParams
	chain     *localChain
	signing   chain.Signing
	pubs      []*operator.PublicKey
	addrs     []chain.Address
	gp        *GroupParameters
	scheduler *generator.Scheduler
}

func c08NewFixture() (*c08Fixture, error) {
	pre, err := c08LoadPreParams()
	if err != nil {
		return nil, err
	}
	f := &c08Fixture{
		pre:   pre,
		chain: Connect(),
		gp:    &GroupParameters{GroupSize: 5, GroupQuorum: 3, HonestThreshold: 3},
	}
	f.signing = f.chain.Signing()
	for i := 0; i < f.gp.GroupSize; i++ {
		_, pub, err := operator.GenerateKeyPair(local_v1.DefaultCurve)
		if err != nil {
			return nil, err
		}
		a, err := f.signing.PublicKeyToAddress(pub)
		if err != nil {
			return nil, err
		}
		f.pubs = append(f.pubs, pub)
		f.addrs = append(f.addrs, a)
	}
	f.scheduler = generator.StartScheduler()
	f.scheduler.RegisterProtocol(c08Busy{})
	// the scheduler looks at its protocols once per second; after that it is
	// stopped for good and executors created later never start generating
	time.Sleep(1300 * time.Millisecond)
	return f, nil
}

// ---------------------------------------------------------------- wallets

type c08Wallet struct {
	label     string
	excluded  []group.MemberIndex
	seed      *big.Int // party id of original member i is seed+i
	pub       *ecdsa.PublicKey
	signers   []*signer           // read back from storage, index = final index-1
	original  []group.MemberIndex // original index of final member k+1
	channels  []net.BroadcastChannel
	validator *group.MembershipValidator
}

func c08In(l []group.MemberIndex, x group.MemberIndex) bool {
	for _, v := range l {
		if v == x {
			return true
		}
	}
	return false
}

// c08RunDKG runs a real key generation of the 5-member group with the given
// members excluded and returns the results by original member index.
func c08RunDKG(r *verifkit.Run, f *c08Fixture, excluded []group.MemberIndex, seed *big.Int, ppOffset int, watchdog time.Duration) (map[group.MemberIndex]*dkg.Result, string) {
	logger := &testutils.MockLogger{}
	n := f.gp.GroupSize
	mv := group.NewMembershipValidator(logger, f.addrs, f.signing)
	name := fmt.Sprintf("c08-dkg-%s-%v-%d", seed.Text(16), excluded, time.Now().UnixNano())
	ctx, cancel := context.WithTimeout(context.Background(), watchdog)
	defer cancel()
	type res struct {
		r   *dkg.Result
		err error
	}
	results := map[group.MemberIndex]*res{}
	var wg sync.WaitGroup
	desc := fmt.Sprintf("dkg excluded=%v seed=%s", excluded, seed.Text(16))
	for i := 1; i <= n; i++ {
		id := group.MemberIndex(i)
		if c08In(excluded, id) {
			continue
		}
		store, err := c08NewPreParamStore(f.pre[(i-1+ppOffset)%len(f.pre)])
		if err != nil {
			return nil, err.Error()
		}
		executor := dkg.NewExecutor(logger, f.scheduler, store, 1, time.Hour, time.Hour, 1, 1)
		if executor.PreParamsCount() != 1 {
			return nil, "the executor's pool did not load the fixture pre-parameters"
		}
		ch, err := netlocal.ConnectWithKey(f.pubs[i-1]).BroadcastChannelFor(name)
		if err != nil {
			return nil, err.Error()
		}
		dkg.RegisterUnmarshallers(ch)
		out := &res{}
		results[id] = out
		wg.Add(1)
		go func() {
			defer wg.Done()
			r.Guard("dkg:", desc, func() {
				// arguments as dkgExecutor.generateSigningGroup passes them
				out.r, out.err = executor.Execute(
					ctx, logger, seed, fmt.Sprintf("%v-%v", seed.Text(16), 1), id,
					n, f.gp.DishonestThreshold(), append([]group.MemberIndex(nil), excluded...), ch, mv,
				)
			})
		}()
	}
	wg.Wait()
	outm := map[group.MemberIndex]*dkg.Result{}
	var problems []string
	for id, x := range results {
		if x.err != nil || x.r == nil {
			problems = append(problems, fmt.Sprintf("member %d: %v", id, x.err))
			continue
		}
		outm[id] = x.r
	}
	if len(problems) > 0 {
		sort.Strings(problems)
		return nil, fmt.Sprintf("key generation did not complete (ctx expired: %v): %s", ctx.Err() != nil, strings.Join(problems, "; "))
	}
	return outm, ""
}

// c08BuildWallet pushes the key-generation results through registerSigner and
// the wallet storage and checks the remapping model on what is read back.
func c08BuildWallet(r *verifkit.Run, f *c08Fixture, label string, excluded []group.MemberIndex, seed *big.Int, results map[group.MemberIndex]*dkg.Result) *c08Wallet {
	desc := fmt.Sprintf("wallet %s excluded=%v", label, excluded)
	w := &c08Wallet{label: label, excluded: excluded, seed: seed}
	var operating []group.MemberIndex
	for i := 1; i <= f.gp.GroupSize; i++ {
		if _, ok := results[group.MemberIndex(i)]; ok {
			operating = append(operating, group.MemberIndex(i))
		}
	}
	// model
	var wantOps []chain.Address
	for _, o := range operating {
		wantOps = append(wantOps, f.addrs[o-1])
	}
	ok := true
	viol := func(fp, what string, wit interface{}) {
		ok = false
		r.Violation(fp, what, desc, wit)
	}
	w.signers = make([]*signer, len(operating))
	w.original = operating
	for rank, o := range operating {
		res := results[o]
		ph := &mockPersistenceHandle{}
		var reg *walletRegistry
		var s *signer
		var err error
		if r.Guard("register:", desc, func() {
			reg, err = newWalletRegistry(ph, f.chain.CalculateWalletID)
			if err != nil {
				return
			}
			de := &dkgExecutor{groupParameters: f.gp, chain: f.chain, walletRegistry: reg}
			s, err = de.registerSigner(res, o, append(chain.Addresses(nil), f.addrs...))
		}) {
			return nil
		}
		if err != nil || s == nil {
			viol("remap:register-error", fmt.Sprintf("registerSigner failed for operating member %d: %v", o, err), nil)
			return nil
		}
		// a fresh registry over the same storage: what a restarted node sees
		var loaded []*signer
		if r.Guard("reload:", desc, func() {
			reg2, err2 := newWalletRegistry(ph, f.chain.CalculateWalletID)
			if err2 != nil {
				err = err2
				return
			}
			loaded = reg2.getSigners(res.PrivateKeyShare.PublicKey())
		}) {
			return nil
		}
		if err != nil || len(loaded) != 1 {
			viol("remap:storage-roundtrip", fmt.Sprintf("member %d: %d signers read back from storage (err %v)", o, len(loaded), err), nil)
			return nil
		}
		ls := loaded[0]
		want := group.MemberIndex(rank + 1)
		if ls.signingGroupMemberIndex != want || s.signingGroupMemberIndex != want {
			viol("remap:index", fmt.Sprintf("original member %d of operating %v stored final index %d (registered %d), expected %d",
				o, operating, ls.signingGroupMemberIndex, s.signingGroupMemberIndex, want), nil)
		}
		if fmt.Sprint(ls.wallet.signingGroupOperators) != fmt.Sprint(wantOps) {
			viol("remap:operators", fmt.Sprintf("original member %d stored operators %v, expected %v", o, ls.wallet.signingGroupOperators, wantOps), nil)
		}
		d := ls.privateKeyShare.Data()
		if len(d.Ks) != len(operating) {
			viol("remap:party-count", fmt.Sprintf("member %d: stored share knows %d parties, %d operate", o, len(d.Ks), len(operating)), nil)
			return nil
		}
		for j, oj := range operating {
			if d.Ks[j].Cmp(new(big.Int).Add(seed, big.NewInt(int64(oj)))) != 0 {
				viol("remap:party-id", fmt.Sprintf("member %d: Ks[%d] is not the key-generation identity of original member %d", o, j, oj), nil)
			}
		}
		// the identity the signing protocol will use for this member
		idx := int(ls.signingGroupMemberIndex)
		if idx < 1 || idx > len(d.Ks) || d.ShareID == nil || d.Ks[idx-1].Cmp(d.ShareID) != 0 ||
			d.ShareID.Cmp(new(big.Int).Add(seed, big.NewInt(int64(o)))) != 0 {
			viol("remap:own-identity", fmt.Sprintf("member %d: stored index %d does not select the member's own key-generation identity", o, idx), nil)
		}
		if w.pub == nil {
			w.pub = ls.wallet.publicKey
		} else if w.pub.X.Cmp(ls.wallet.publicKey.X) != 0 || w.pub.Y.Cmp(ls.wallet.publicKey.Y) != 0 {
			viol("remap:wallet-key", fmt.Sprintf("member %d stored another wallet key", o), nil)
		}
		w.signers[rank] = ls
		r.Count("signers_registered_and_reloaded", 1)
	}
	if !ok {
		// the stored records already violate the property; signing with them
		// would only run into the watchdog
		return nil
	}
	// one broadcast channel per operator for this wallet, as node.getSigningExecutor
	pkb, _ := marshalPublicKey(w.pub)
	name := fmt.Sprintf("%s-%s-c08-%d", ProtocolName, hex.EncodeToString(pkb), time.Now().UnixNano())
	for _, o := range operating {
		ch, err := netlocal.ConnectWithKey(f.pubs[o-1]).BroadcastChannelFor(name)
		if err != nil {
			r.Inconclusive("channel: " + err.Error())
			return nil
		}
		signing.RegisterUnmarshallers(ch)
		w.channels = append(w.channels, ch)
	}
	w.validator = group.NewMembershipValidator(&testutils.MockLogger{}, w.signers[0].wallet.signingGroupOperators, f.signing)
	return w
}

// ---------------------------------------------------------------- signing

// c08Chan delays and duplicates deliveries to one member of one signing run.
type c08Chan struct {
	inner net.BroadcastChannel
	rng   *rand.Rand // used by the channel's receive goroutine only
}

func (c *c08Chan) Name() string                                  { return c.inner.Name() }
func (c *c08Chan) SetUnmarshaler(u func() net.TaggedUnmarshaler) { c.inner.SetUnmarshaler(u) }
func (c *c08Chan) SetFilter(f net.BroadcastChannelFilter) error  { return c.inner.SetFilter(f) }
func (c *c08Chan) Send(ctx context.Context, m net.TaggedMarshaler, s ...net.RetransmissionStrategy) error {
	return c.inner.Send(ctx, m, s...)
}
func (c *c08Chan) Recv(ctx context.Context, handler func(m net.Message)) {
	c.inner.Recv(ctx, func(m net.Message) {
		deliver := func() {
			if ctx.Err() == nil {
				handler(m)
			}
		}
		d := time.Duration(c.rng.Intn(12_000)) * time.Microsecond
		time.AfterFunc(d, deliver)
		if c.rng.Intn(8) == 0 {
			time.AfterFunc(d+time.Duration(c.rng.Intn(100_000))*time.Microsecond, deliver)
		}
	})
}

type c08Case struct {
	idx    int
	w      *c08Wallet
	quorum []group.MemberIndex // final indexes
	class  string
	msg    *big.Int
}

func (c *c08Case) desc() string {
	return fmt.Sprintf("wallet=%s dkg-excluded=%v quorum(final)=%v quorum(original)=%v msg[%s]=%s",
		c.w.label, c.w.excluded, c.quorum, c.originals(), c.class, c.msg.Text(16))
}

func (c *c08Case) originals() []group.MemberIndex {
	var o []group.MemberIndex
	for _, q := range c.quorum {
		o = append(o, c.w.original[q-1])
	}
	return o
}

func c08Message(class string, rng *rand.Rand) *big.Int {
	n := tecdsa.Curve.Params().N
	switch class {
	case "one":
		return big.NewInt(1)
	case "n-1":
		return new(big.Int).Sub(n, big.NewInt(1))
	case "leading-zeros":
		b := make([]byte, 8+rng.Intn(20))
		rng.Read(b)
		b[0] |= 1
		return new(big.Int).SetBytes(b)
	}
	b := make([]byte, 32)
	rng.Read(b)
	m := new(big.Int).SetBytes(b)
	if m.Cmp(n) >= 0 {
		m.Sub(m, n)
	}
	return m
}

var c08Classes = []string{"random", "one", "leading-zeros", "n-1", "random"}

func c08Subsets(k, size int) [][]group.MemberIndex {
	var out [][]group.MemberIndex
	var rec func(start int, cur []group.MemberIndex)
	rec = func(start int, cur []group.MemberIndex) {
		if len(cur) == size {
			out = append(out, append([]group.MemberIndex(nil), cur...))
			return
		}
		for i := start; i <= k; i++ {
			rec(i+1, append(cur, group.MemberIndex(i)))
		}
	}
	rec(1, nil)
	return out
}

// c08Sign runs one signing with the given quorum and judges the outcome.
func c08Sign(r *verifkit.Run, f *c08Fixture, c *c08Case, rng *rand.Rand, watchdog time.Duration) {
	desc := c.desc()
	w := c.w
	logger := &testutils.MockLogger{}
	// watchdog as a timer: a run cut by it is inconclusive; a run stopped by
	// the monitor because a member failed with an error of its own is not
	ctx, cancel := context.WithCancel(context.Background())
	defer cancel()
	var watchdogFired int32
	wd := time.AfterFunc(watchdog, func() {
		atomic.StoreInt32(&watchdogFired, 1)
		cancel()
	})
	defer wd.Stop()
	var stopOnce sync.Once
	// unique per case: the attempt number part of the session id
	sessionID := fmt.Sprintf("%v-%v", c.msg.Text(16), c.idx)
	k := len(w.signers)
	var excluded []group.MemberIndex
	for i := 1; i <= k; i++ {
		if !c08In(c.quorum, group.MemberIndex(i)) {
			excluded = append(excluded, group.MemberIndex(i))
		}
	}
	type res struct {
		r   *signing.Result
		err error
	}
	results := make([]*res, len(c.quorum))
	var wg sync.WaitGroup
	for qi, fi := range c.quorum {
		qi := qi
		s := w.signers[fi-1]
		ch := &c08Chan{inner: w.channels[fi-1], rng: rand.New(rand.NewSource(rng.Int63()))}
		results[qi] = &res{}
		wg.Add(1)
		go func() {
			defer wg.Done()
			defer func() {
				if results[qi].err != nil && atomic.LoadInt32(&watchdogFired) == 0 {
					stopOnce.Do(func() { time.AfterFunc(3*time.Second, cancel) })
				}
			}()
			r.Guard("sign:", desc, func() {
				// arguments as signingExecutor.sign derives them from the signer
				results[qi].r, results[qi].err = signing.Execute(
					ctx, logger, c.msg, sessionID,
					s.signingGroupMemberIndex,
					s.privateKeyShare,
					s.wallet.groupSize(),
					s.wallet.groupDishonestThreshold(f.gp.HonestThreshold),
					append([]group.MemberIndex(nil), excluded...),
					ch, w.validator,
				)
			})
		}()
	}
	wg.Wait()
	expired := atomic.LoadInt32(&watchdogFired) == 1
	nontrivial := len(w.excluded) > 0 || fmt.Sprint(c.quorum) != fmt.Sprint(c08Subsets(k, f.gp.HonestThreshold)[0])
	r.Case(desc, nontrivial)

	var failed []string
	for qi, x := range results {
		if x.err != nil || x.r == nil || x.r.Signature == nil {
			failed = append(failed, fmt.Sprintf("final member %d: %v", c.quorum[qi], x.err))
		}
	}
	if len(failed) > 0 {
		if expired {
			r.Inconclusive("watchdog expired before the signing finished: " + desc + " | " + strings.Join(failed, "; "))
			return
		}
		r.Violation("sign:member-error", "an honest quorum of the final signing group failed to sign: "+strings.Join(failed, "; "), desc, failed)
		return
	}
	r.Count("signings_completed", 1)
	sig := results[0].r.Signature
	for qi, x := range results {
		if !sig.Equals(x.r.Signature) {
			r.Violation("sig:members-differ", fmt.Sprintf("final members %d and %d hold different signatures", c.quorum[0], c.quorum[qi]), desc,
				[]string{sig.String(), x.r.Signature.String()})
		}
	}
	n := tecdsa.Curve.Params().N
	if sig.R == nil || sig.S == nil || sig.R.Sign() <= 0 || sig.S.Sign() <= 0 || sig.R.Cmp(n) >= 0 || sig.S.Cmp(n) >= 0 {
		r.Violation("sig:range", "R or S outside [1,N-1]", desc, sig.String())
		return
	}
	if sig.S.Cmp(new(big.Int).Rsh(n, 1)) > 0 {
		r.Violation("sig:high-s", "S is above N/2", desc, sig.String())
	}
	if !ecdsa.Verify(w.pub, c.msg.Bytes(), sig.R, sig.S) {
		r.Violation("sig:invalid", "the signature does not verify under the wallet public key", desc, sig.String())
	}
	if sig.RecoveryID < 0 || sig.RecoveryID > 3 {
		r.Violation("sig:recovery-id", fmt.Sprintf("recovery id %d outside 0..3", sig.RecoveryID), desc, sig.String())
		return
	}
	hash := make([]byte, 32)
	c.msg.FillBytes(hash)
	compact := make([]byte, 65)
	compact[0] = 27 + byte(sig.RecoveryID)
	sig.R.FillBytes(compact[1:33])
	sig.S.FillBytes(compact[33:65])
	rec, _, err := btcecdsa.RecoverCompact(compact, hash)
	if err != nil {
		r.Violation("sig:recovery-id", "public key recovery failed: "+err.Error(), desc, sig.String())
		return
	}
	var wx, wy btcec.FieldVal
	wx.SetByteSlice(w.pub.X.FillBytes(make([]byte, 32)))
	wy.SetByteSlice(w.pub.Y.FillBytes(make([]byte, 32)))
	if !rec.IsEqual(btcec.NewPublicKey(&wx, &wy)) {
		r.Violation("sig:recovery-id", "the recovery id recovers another key than the wallet key", desc, sig.String())
	}
	r.Count("signatures_verified", 1)
}

// ---------------------------------------------------------------- test

func TestVerif_C08_Signing(t *testing.T) {
	r := verifkit.Start(t, "C08", "signing")
	defer r.Finish()
	r.SetRule("wallets: the tecdsatest 3-of-5 fixture group and wallets from real key generations with members excluded (quick: {1}, {2,4} and one PRNG set; thorough: {1},{3},{5},{2,4} and two PRNG pairs), each passed through registerSigner + wallet storage and read back; quorums: size-3 subsets of the final group (quick: PRNG picks, all of them for the {1} wallet; thorough: all) plus larger ones; messages cycle through random / 1 / leading zero bytes / N-1. non-trivial = quorum differs from the first three final members or the wallet comes from a key generation with exclusions")
	r.Assume("tss-lib; crypto/ecdsa and btcec as signature oracles; key generation itself is judged by C07")
	r.SetExhaustive(false)

	f, err := c08NewFixture()
	if err != nil {
		r.Inconclusive("fixtures: " + err.Error())
		return
	}
	rng := r.Rand("wallets")

	// ---- wallets
	type spec struct {
		label    string
		excluded []group.MemberIndex
	}
	pairs := c08Subsets(5, 2)
	singles := c08Subsets(5, 1)
	var specs []spec
	if r.Quick() {
		var pool [][]group.MemberIndex
		for _, s := range append(singles, pairs...) {
			if fmt.Sprint(s) != "[1]" && fmt.Sprint(s) != "[2 4]" {
				pool = append(pool, s)
			}
		}
		specs = []spec{{"dkg-a", []group.MemberIndex{1}}, {"dkg-b", []group.MemberIndex{2, 4}}, {"dkg-c", pool[rng.Intn(len(pool))]}}
	} else {
		specs = []spec{{"dkg-a", []group.MemberIndex{1}}, {"dkg-b", []group.MemberIndex{3}}, {"dkg-c", []group.MemberIndex{5}},
			{"dkg-d", []group.MemberIndex{2, 4}}, {"dkg-e", pairs[rng.Intn(len(pairs))]}, {"dkg-f", pairs[rng.Intn(len(pairs))]}}
	}
	wallets := make([]*c08Wallet, len(specs)+1)
	// the fixture group (no exclusions); its seed is recovered from Ks
	{
		shares, err := tecdsatest.LoadPrivateKeyShareTestFixtures(5)
		if err != nil {
			r.Inconclusive("fixtures: " + err.Error())
			return
		}
		seed := new(big.Int).Sub(shares[0].Ks[0], big.NewInt(1))
		res := map[group.MemberIndex]*dkg.Result{}
		for i := range shares {
			res[group.MemberIndex(i+1)] = &dkg.Result{
				Group:           group.NewGroup(f.gp.DishonestThreshold(), f.gp.GroupSize),
				PrivateKeyShare: tecdsa.NewPrivateKeyShare(shares[i]),
			}
		}
		wallets[0] = c08BuildWallet(r, f, "fixture", nil, seed, res)
	}
	verifkit.Parallel(len(specs), 3, func(i int) {
		srng := r.SubRand("dkg", i)
		b := make([]byte, 32)
		srng.Read(b)
		seed := new(big.Int).SetBytes(b)
		res, problem := c08RunDKG(r, f, specs[i].excluded, seed, srng.Intn(9), 300*time.Second)
		if problem != "" {
			r.Inconclusive(fmt.Sprintf("wallet %s excluded=%v: %s", specs[i].label, specs[i].excluded, problem))
			return
		}
		r.Count("key_generations", 1)
		wallets[i+1] = c08BuildWallet(r, f, specs[i].label, specs[i].excluded, seed, res)
	})

	// ---- signing cases
	var cases []*c08Case
	add := func(w *c08Wallet, q []group.MemberIndex) {
		i := len(cases)
		crng := r.SubRand("msg", i)
		class := c08Classes[i%len(c08Classes)]
		cases = append(cases, &c08Case{idx: i, w: w, quorum: q, class: class, msg: c08Message(class, crng)})
	}
	ht := f.gp.HonestThreshold
	for wi, w := range wallets {
		if w == nil {
			continue
		}
		k := len(w.signers)
		subs := c08Subsets(k, ht)
		if r.Quick() {
			switch {
			case wi == 0:
				add(w, subs[0])
				rest := append([][]group.MemberIndex(nil), subs[1:]...)
				rng.Shuffle(len(rest), func(i, j int) { rest[i], rest[j] = rest[j], rest[i] })
				for _, q := range rest[:3] {
					add(w, q)
				}
				add(w, c08Subsets(k, 4)[rng.Intn(5)])
			case wi == 1:
				for _, q := range subs {
					add(w, q)
				}
				add(w, c08Subsets(k, k)[0])
			default:
				rest := append([][]group.MemberIndex(nil), subs...)
				rng.Shuffle(len(rest), func(i, j int) { rest[i], rest[j] = rest[j], rest[i] })
				for qi := 0; qi < 3; qi++ {
					add(w, rest[qi%len(rest)])
				}
			}
		} else {
			reps := 4
			if wi == 0 {
				reps = 5
			}
			for rep := 0; rep < reps; rep++ {
				for _, q := range subs {
					add(w, q)
				}
			}
			for size := ht + 1; size <= k; size++ {
				for _, q := range c08Subsets(k, size) {
					add(w, q)
				}
			}
		}
	}
	verifkit.Parallel(len(cases), 4, func(i int) {
		c08Sign(r, f, cases[i], r.SubRand("sign", i), 240*time.Second)
	})
	for i, c := range cases {
		if i%6 == 1 {
			r.Sample(map[string]interface{}{"case": c.desc()})
		}
	}
	for _, w := range wallets {
		if w != nil {
			r.Count("wallets", 1)
		}
	}
}
